(* C11 — interim *)
From Verif Require Import Base Codebase Exclude GenScan FsScan.
Open Scope Z_scope.
Example C11_ex : excluded default_excludes [[115;114;99]; [116;101;115;116;115]; [97;46;112;121]] = true. Proof. vm_compute. reflexivity. Qed.
