(* CheckProofsCheck.v — statements and assumptions of the delivered C12 theorems *)
From Verif Require Import Base Codebase Exclude GenScan FsScan CheckCmd FsProofsWalk CheckProofs.
Check node_at_file. Print Assumptions node_at_file.
Check node_at_file'. Print Assumptions node_at_file'.
Check node_at_dir. Print Assumptions node_at_dir.
Check risks_spec. Print Assumptions risks_spec.
Check check_dir_spec. Print Assumptions check_dir_spec.
Check check_file_spec. Print Assumptions check_file_spec.
Check check_missing_spec. Print Assumptions check_missing_spec.
Check check_arg_sound. Print Assumptions check_arg_sound.
Check check_arg_NoDup. Print Assumptions check_arg_NoDup.
Check C12_listing_file. Print Assumptions C12_listing_file.
Check C12_listing_dir. Print Assumptions C12_listing_dir.
Check C12_listing. Print Assumptions C12_listing.
Check C12_excluded_skipped. Print Assumptions C12_excluded_skipped.
Check C12_hidden_skipped_via_dir. Print Assumptions C12_hidden_skipped_via_dir.
Check C12_hidden_file_checked. Print Assumptions C12_hidden_file_checked.
Check C12_scanned_is_checked. Print Assumptions C12_scanned_is_checked.
Check C12_same_files. Print Assumptions C12_same_files.
Check C12_checked_is_scanned. Print Assumptions C12_checked_is_scanned.
Check C12_exit. Print Assumptions C12_exit.
Check C12_exit_01. Print Assumptions C12_exit_01.
