"""Shared pieces of the C13/C14 checks: pattern enumeration, conversion to
codelimit expression objects and to Gallina, an independent Brzozowski-
derivative oracle for regular-language semantics, and the implementation runner."""
import functools
import sys

ATOMS = [1, 2, 3]


# ------------------------------------------------------------ enumeration
@functools.lru_cache(None)
def seqs(n):
    """all non-empty sequences (tuples of operators) of total size exactly n"""
    out = []
    for k in range(1, n + 1):
        for o in ops(k):
            out.append((o,))
            if n - k > 0:
                for rest in seqs(n - k):
                    out.append((o,) + rest)
    return out


@functools.lru_cache(None)
def ops(n):
    out = []
    if n == 1:
        out += [("A", a) for a in ATOMS]
    if n >= 2:
        for s in seqs(n - 1):
            out += [("O", s), ("S", s), ("P", s)]
    if n >= 3:
        for k in range(1, n - 1):
            for l in seqs(k):
                for r in seqs(n - 1 - k):
                    out.append(("U", l, r))
    return out


def all_exprs(max_size):
    for n in range(1, max_size + 1):
        yield from seqs(n)


def random_expr(rng, size, atoms=ATOMS):
    """random sequence of total size about `size`"""
    def seq(n):
        out = []
        while n > 0:
            k = rng.randint(1, n)
            out.append(op(k))
            n -= k
        return tuple(out)

    def op(n):
        if n == 1:
            return ("A", rng.choice(atoms))
        if n == 2 or rng.random() < 0.6:
            return (rng.choice("OSP"), seq(n - 1))
        k = rng.randint(1, n - 2)
        return ("U", seq(k), seq(n - 1 - k))
    return seq(size)


def all_words(alphabet, max_len):
    out = [()]
    frontier = [()]
    for _ in range(max_len):
        frontier = [w + (a,) for w in frontier for a in alphabet]
        out += frontier
    return out


def n_ops(e):
    return sum(1 + (n_ops(o[1]) if o[0] in "OSP" else n_ops(o[1]) + n_ops(o[2]) if o[0] == "U" else 0) for o in e)


# ------------------------------------------------------------ conversions
MIXED = {1: 1, 2: "1", 3: 2, 4: "2", 5: 1.5, 6: "1.5"}     # distinct symbols that print alike
# equal but not identical: the input items are fresh copies of the pattern's atoms (words split or decoded at run time,
# integers beyond CPython's small-int cache, tuples) — equality, not object identity, decides (seeded change C13-10)
DISTINCT_OBJECTS = {1: "alpha", 2: 1000, 3: (1, 2), 4: "caf\u00e9 au lait", 5: 2.5, 6: 10 ** 30}


def fresh_copy(x):
    if isinstance(x, str):
        return x[:1] + x[1:] if len(x) >= 2 else x
    if isinstance(x, bool):
        return x
    if isinstance(x, int):
        return int(str(x))
    if isinstance(x, float):
        return float(repr(x))
    if isinstance(x, tuple):
        return tuple(list(x))
    return x


COLLIDING = {1: -1, 2: -2, 3: 0, 4: 2 ** 61 - 1, 5: 2 ** 61, 6: 1}     # distinct symbols with equal hashes (CPython: hash(-1) == hash(-2), hash(2**61-1) == 0, hash(2**61) == 1)


def to_impl(e, symmap=None):
    from codelimit.common.gsm.operator.OneOrMore import OneOrMore
    from codelimit.common.gsm.operator.Optional import Optional
    from codelimit.common.gsm.operator.Union import Union
    from codelimit.common.gsm.operator.ZeroOrMore import ZeroOrMore

    def op(o):
        t = o[0]
        if t == "A":
            return o[1] if symmap is None else symmap[o[1]]
        if t == "U":
            return Union(seq(o[1]), seq(o[2]))
        return {"O": Optional, "S": ZeroOrMore, "P": OneOrMore}[t](seq(o[1]))

    def seq(s):
        return [op(o) for o in s]
    return seq(e)


def to_impl_shared(e):
    """like to_impl, but structurally equal sub-trees are ONE Python object (the same operator instance used at several
    positions of a pattern, as in `rep = OneOrMore("a"); [rep, "b", rep]`)"""
    from codelimit.common.gsm.operator.OneOrMore import OneOrMore
    from codelimit.common.gsm.operator.Optional import Optional
    from codelimit.common.gsm.operator.Union import Union
    from codelimit.common.gsm.operator.ZeroOrMore import ZeroOrMore
    memo = {}

    def op(o):
        if o in memo:
            return memo[o]
        t = o[0]
        if t == "A":
            r = o[1]
        elif t == "U":
            r = Union(seq(o[1]), seq(o[2]))
        else:
            r = {"O": Optional, "S": ZeroOrMore, "P": OneOrMore}[t](seq(o[1]))
        memo[o] = r
        return r

    def seq(s):
        return [op(o) for o in s]
    return seq(e)


def impl_nfa_shape(e):
    """the implementation's NFA for e in the canonical encoding of Gsm/NfaShape.v: states reachable from the start state,
    numbered depth-first in order of first visit (epsilon edges, then labelled transitions, each in list order)"""
    from codelimit.common.gsm.Expression import expression_to_nfa
    nfa = expression_to_nfa(to_impl(e))
    seen, order = {}, []

    def visit(st):
        if id(st) in seen:
            return
        seen[id(st)] = len(order)
        order.append(st)
        for nxt in list(st.epsilon_transitions) + [t[1] for t in st.transition]:
            visit(nxt)
    visit(nfa.start)
    ix = lambda st: seen.get(id(st), -1)
    return [0, ix(nfa.accepting),
            [[[ix(x) for x in st.epsilon_transitions], [[getattr(p, "item", -999), ix(t)] for p, t in st.transition]] for st in order]]


def to_coq(e):
    def op(o):
        t = o[0]
        if t == "A":
            return f"Atom {o[1]}"
        if t == "U":
            return f"Union {seq(o[1])} {seq(o[2])}"
        return {"O": "Opt", "S": "Star", "P": "Plus"}[t] + " " + seq(o[1])

    def seq(s):
        return "[" + "; ".join(op(o) for o in s) + "]"
    return seq(e)


def show(e):
    def op(o):
        t = o[0]
        if t == "A":
            return "abcdefgh"[o[1] - 1]
        if t == "U":
            return f"({seq(o[1])}|{seq(o[2])})"
        return f"({seq(o[1])})" + {"O": "?", "S": "*", "P": "+"}[t]

    def seq(s):
        return "".join(op(o) for o in s)
    return seq(e)


# ------------------------------------------------------------ derivative oracle
EMPTY, EPS = ("0",), ("1",)


def r_seq(a, b):
    if a == EMPTY or b == EMPTY:
        return EMPTY
    if a == EPS:
        return b
    if b == EPS:
        return a
    return ("cat", a, b)


def r_alt(a, b):
    if a == EMPTY:
        return b
    if b == EMPTY:
        return a
    if a == b:
        return a
    return ("alt", a, b)


def r_star(a):
    if a in (EMPTY, EPS):
        return EPS
    if a[0] == "star":
        return a
    return ("star", a)


@functools.lru_cache(None)
def to_regex(e):
    def op(o):
        t = o[0]
        if t == "A":
            return ("sym", o[1])
        if t == "U":
            return r_alt(seq(o[1]), seq(o[2]))
        if t == "O":
            return r_alt(EPS, seq(o[1]))
        if t == "S":
            return r_star(seq(o[1]))
        s = seq(o[1])
        return r_seq(s, r_star(s))

    def seq(s):
        r = EPS
        for o in reversed(s):
            r = r_seq(op(o), r)
        return r
    return seq(e)


@functools.lru_cache(None)
def nullable(r):
    t = r[0]
    if t == "1" or t == "star":
        return True
    if t in ("0", "sym"):
        return False
    if t == "cat":
        return nullable(r[1]) and nullable(r[2])
    return nullable(r[1]) or nullable(r[2])


@functools.lru_cache(None)
def deriv(r, x):
    t = r[0]
    if t in ("0", "1"):
        return EMPTY
    if t == "sym":
        return EPS if r[1] == x else EMPTY
    if t == "cat":
        d = r_seq(deriv(r[1], x), r[2])
        return r_alt(d, deriv(r[2], x)) if nullable(r[1]) else d
    if t == "alt":
        return r_alt(deriv(r[1], x), deriv(r[2], x))
    return r_seq(deriv(r[1], x), r)


def spec_match(e, w):
    r = to_regex(e)
    for x in w:
        r = deriv(r, x)
        if r == EMPTY:
            return False
    return nullable(r)


def spec_shortest_prefix(e, w):
    """length of the shortest non-empty prefix in the language, or None"""
    r = to_regex(e)
    for k, x in enumerate(w):
        r = deriv(r, x)
        if r == EMPTY:
            return None
        if nullable(r):
            return k + 1
    return None


def spec_greedy(e, w, i):
    """run from i until no continuation is viable or input ends; end index if the consumed word matches"""
    r = to_regex(e)
    k = i
    while k < len(w):
        d = deriv(r, w[k])
        if d == EMPTY:
            break
        r = d
        k += 1
    return k if nullable(r) else None


# ------------------------------------------------------------ implementation runner
ERR = {"IndexError": 1, "StopIteration": 2, "ValueError": 3, "KeyError": 5, "RecursionError": 7}


def guarded(fn):
    try:
        return [0, fn()]
    except RecursionError:
        return [1, 7]
    except (IndexError, ValueError, KeyError, StopIteration) as ex:
        return [1, ERR[type(ex).__name__]]


def impl_obs(e, w, symmap=None, fresh=False):
    """[match, nfa_match, starts_with, find_all] in the encoding of Gsm/Dfa.v engine_obs,
    plus the raw find_all records (start, end, tokens) for the oracle"""
    from codelimit.common.gsm import matcher
    ex = to_impl(e, symmap)
    w = list(w) if symmap is None else [symmap[x] for x in w]
    if fresh:
        w = [fresh_copy(x) for x in w]
    m = guarded(lambda: matcher.match(to_impl(e, symmap), w) is not None)
    n = guarded(lambda: bool(matcher.nfa_match(to_impl(e, symmap), w)))

    def sw():
        p = matcher.starts_with(to_impl(e, symmap), w)
        return [] if p is None else [p.end]
    s = guarded(sw)
    raw = []

    def fa():
        ps = matcher.find_all(ex, w)
        raw.extend((p.start, p.end, list(p.tokens)) for p in ps)
        return [[p.start, p.end] for p in ps]
    f = guarded(fa)
    return [m, n, s, f], raw
