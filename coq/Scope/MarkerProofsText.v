(* MarkerProofsText.v — property C17, part A: which comment texts are
   suppression markers.  `is_nocl_text v` holds exactly when, ignoring case,
   the text is a comment leader (#, ;, //, /* ) followed by optional white
   space and the word `nocl`, or begins with `nocl` outright. *)
From Verif Require Import Base Token Lex.
Open Scope Z_scope.

(* ---------- lower ---------- *)
Lemma lower_char_idem c : lower_char (lower_char c) = lower_char c.
Proof.
  unfold lower_char.
  destruct ((65 <=? c) && (c <=? 90)) eqn:E; [|rewrite E; reflexivity].
  apply andb_true_iff in E. destruct E as [E1 E2].
  apply Z.leb_le in E1. apply Z.leb_le in E2.
  replace (c + 32 <=? 90) with false by (symmetry; apply Z.leb_gt; lia).
  rewrite andb_false_r. reflexivity.
Qed.

Lemma lower_idem v : lower (lower v) = lower v.
Proof.
  unfold lower. rewrite map_map. apply map_ext. intros c. apply lower_char_idem.
Qed.

Theorem C17_case_insensitive v : is_nocl_text v = is_nocl_text (lower v).
Proof. unfold is_nocl_text. rewrite lower_idem. reflexivity. Qed.

(* ---------- lstrip / strip ---------- *)
Definition spaces (ws : pystr) : Prop := Forall (fun c => is_space_char c = true) ws.

(* what lstrip removes is white space, and what is left does not begin with white space *)
Lemma lstrip_split s : exists ws, spaces ws /\ s = ws ++ lstrip s.
Proof.
  induction s as [|c r IH]; cbn [lstrip].
  - exists []. split; [constructor | reflexivity].
  - destruct (is_space_char c) eqn:E.
    + destruct IH as (ws & Hws & Hr). exists (c :: ws). split.
      * constructor; assumption.
      * cbn [app]. f_equal. exact Hr.
    + exists []. split; [constructor | reflexivity].
Qed.

Lemma lstrip_spaces_app ws s : spaces ws -> lstrip (ws ++ s) = lstrip s.
Proof.
  induction 1 as [|c ws Hc Hws IH]; [reflexivity|].
  cbn [app lstrip]. rewrite Hc. exact IH.
Qed.

Lemma lstrip_nonspace c r : is_space_char c = false -> lstrip (c :: r) = c :: r.
Proof. intros H. cbn [lstrip]. rewrite H. reflexivity. Qed.

Lemma lstrip_app_nonspace l c : is_space_char c = false -> lstrip (l ++ [c]) = lstrip l ++ [c].
Proof.
  intros Hc. induction l as [|x l IH]; cbn [app lstrip].
  - rewrite Hc. reflexivity.
  - destruct (is_space_char x); [exact IH | reflexivity].
Qed.

Definition rstrip (s : pystr) : pystr := rev (lstrip (rev s)).

Lemma strip_eq s : strip s = rstrip (lstrip s).
Proof. reflexivity. Qed.

Lemma rstrip_split s : exists ws, spaces ws /\ s = rstrip s ++ ws.
Proof.
  destruct (lstrip_split (rev s)) as (ws & Hws & E).
  exists (rev ws). split.
  - unfold spaces in *. apply Forall_forall. intros c Hc. rewrite <- in_rev in Hc.
    rewrite Forall_forall in Hws. auto.
  - unfold rstrip. rewrite <- rev_app_distr, <- E, rev_involutive. reflexivity.
Qed.

Lemma rstrip_cons_nonspace c r : is_space_char c = false -> rstrip (c :: r) = c :: rstrip r.
Proof.
  intros Hc. unfold rstrip. cbn [rev]. rewrite lstrip_app_nonspace by exact Hc.
  rewrite rev_app_distr. reflexivity.
Qed.

(* ---------- the word ---------- *)
Lemma starts_with_str_app pre rest : starts_with_str pre (pre ++ rest) = true.
Proof.
  induction pre as [|x p IH]; [reflexivity|].
  cbn [app starts_with_str]. rewrite Z.eqb_refl. exact IH.
Qed.

Lemma starts_with_str_split pre s : starts_with_str pre s = true -> exists rest, s = pre ++ rest.
Proof.
  revert s. induction pre as [|x p IH]; intros s H.
  - exists s. reflexivity.
  - destruct s as [|y s]; [discriminate|]. cbn [starts_with_str] in H.
    apply andb_true_iff in H. destruct H as [H1 H2]. apply Z.eqb_eq in H1. subst y.
    destruct (IH s H2) as (rest & ->). exists rest. reflexivity.
Qed.

Lemma rstrip_nocl rest : rstrip (nocl ++ rest) = nocl ++ rstrip rest.
Proof.
  unfold nocl. cbn [app]. repeat (rewrite rstrip_cons_nonspace by reflexivity). reflexivity.
Qed.

(* strip keeps a leading `nocl` and removes white space in front of it *)
Lemma strip_starts_nocl_iff r :
  starts_with_str nocl (strip r) = true <->
  exists ws rest, spaces ws /\ r = ws ++ nocl ++ rest.
Proof.
  rewrite strip_eq. split.
  - intros H. apply starts_with_str_split in H. destruct H as (rest & E).
    destruct (lstrip_split r) as (ws & Hws & Er).
    destruct (rstrip_split (lstrip r)) as (ws' & _ & El).
    exists ws, (rest ++ ws'). split; [exact Hws|].
    rewrite Er at 1. f_equal. rewrite El at 1. rewrite E, <- app_assoc. reflexivity.
  - intros (ws & rest & Hws & ->).
    rewrite lstrip_spaces_app by exact Hws.
    assert (El : lstrip (nocl ++ rest) = nocl ++ rest) by (apply lstrip_nonspace; reflexivity).
    rewrite El, rstrip_nocl. apply starts_with_str_app.
Qed.

(* ---------- the marker shape ---------- *)
Definition marker_shape (s : pystr) : Prop :=
  (exists ws rest, Forall (fun c => is_space_char c = true) ws /\
     (s = [35] ++ ws ++ nocl ++ rest \/ s = [59] ++ ws ++ nocl ++ rest \/
      s = [47; 47] ++ ws ++ nocl ++ rest \/ s = [47; 42] ++ ws ++ nocl ++ rest))
  \/ starts_with_str nocl s = true.

Lemma is_nocl_text_lower v :
  is_nocl_text v =
  let s := lower v in
  starts_with_str nocl
    (if starts_with_str [35] s || starts_with_str [59] s then strip (skipn 1 s)
     else if starts_with_str [47; 47] s || starts_with_str [47; 42] s then strip (skipn 2 s)
     else s).
Proof. reflexivity. Qed.

Lemma sw1 a s : starts_with_str [a] s = true -> exists r, s = a :: r.
Proof. intros H. apply starts_with_str_split in H. exact H. Qed.
Lemma sw2 a b s : starts_with_str [a; b] s = true -> exists r, s = a :: b :: r.
Proof. intros H. apply starts_with_str_split in H. exact H. Qed.

Theorem C17_marker_text : forall v, is_nocl_text v = true <-> marker_shape (lower v).
Proof.
  intros v. rewrite is_nocl_text_lower. cbv zeta. generalize (lower v) as s. intros s.
  unfold marker_shape. split.
  - (* the predicate holds: read off the shape *)
    destruct (starts_with_str [35] s || starts_with_str [59] s) eqn:E1.
    + intros H. left. apply strip_starts_nocl_iff in H. destruct H as (ws & rest & Hws & Hr).
      exists ws, rest. split; [exact Hws|].
      apply orb_true_iff in E1. destruct E1 as [E|E]; apply sw1 in E; destruct E as (r & ->);
        cbn [skipn] in Hr; subst r; cbn [app]; auto.
    + destruct (starts_with_str [47; 47] s || starts_with_str [47; 42] s) eqn:E2.
      * intros H. left. apply strip_starts_nocl_iff in H. destruct H as (ws & rest & Hws & Hr).
        exists ws, rest. split; [exact Hws|].
        apply orb_true_iff in E2. destruct E2 as [E|E]; apply sw2 in E; destruct E as (r & ->);
          cbn [skipn] in Hr; subst r; cbn [app]; auto.
      * intros H. right. exact H.
  - (* a text of that shape satisfies the predicate *)
    intros [(ws & rest & Hws & [E | [E | [E | E]]]) | H]; try subst s.
    + cbn [app starts_with_str Z.eqb Pos.eqb andb orb skipn].
      apply strip_starts_nocl_iff. exists ws, rest. auto.
    + cbn [app starts_with_str Z.eqb Pos.eqb andb orb skipn].
      apply strip_starts_nocl_iff. exists ws, rest. auto.
    + cbn [app starts_with_str Z.eqb Pos.eqb andb orb skipn].
      apply strip_starts_nocl_iff. exists ws, rest. auto.
    + cbn [app starts_with_str Z.eqb Pos.eqb andb orb skipn].
      apply strip_starts_nocl_iff. exists ws, rest. auto.
    + pose proof H as H'. apply starts_with_str_split in H'. destruct H' as (rest & ->).
      unfold nocl. cbn [app starts_with_str Z.eqb Pos.eqb andb orb]. exact H.
Qed.

(* the token-level reading *)
Corollary C17_marker_token t :
  is_nocl_token t = true <-> is_comment t = true /\ marker_shape (lower (t_value t)).
Proof.
  unfold is_nocl_token. rewrite andb_true_iff, C17_marker_text. tauto.
Qed.

(* ---------- examples ---------- *)
(* "# see nocl below": the word occurs later in the text, this is not a marker *)
Definition ex_mention : pystr :=
  [35; 32; 115; 101; 101; 32; 110; 111; 99; 108; 32; 98; 101; 108; 111; 119].
Example ex_mention_lower : lower ex_mention = ex_mention.
Proof. reflexivity. Qed.
Theorem C17_mention_is_not_marker : ~ marker_shape ex_mention.
Proof.
  intros H. rewrite <- ex_mention_lower in H. apply C17_marker_text in H.
  vm_compute in H. discriminate.
Qed.
Example ex_mention_text : is_nocl_text ex_mention = false.
Proof. reflexivity. Qed.

(* "#  NoCL: generated", "// nocl", "/*nocl*/", ";nocl", "NOCL" are markers *)
Example ex_marker_hash : is_nocl_text [35; 32; 32; 78; 111; 67; 76; 58; 32; 103; 101; 110] = true.
Proof. reflexivity. Qed.
Example ex_marker_slashes : is_nocl_text [47; 47; 32; 110; 111; 99; 108] = true.
Proof. reflexivity. Qed.
Example ex_marker_block : is_nocl_text [47; 42; 110; 111; 99; 108; 42; 47] = true.
Proof. reflexivity. Qed.
Example ex_marker_semicolon : is_nocl_text [59; 110; 111; 99; 108] = true.
Proof. reflexivity. Qed.
Example ex_marker_bare : is_nocl_text [78; 79; 67; 76] = true.
Proof. reflexivity. Qed.
(* "#nocl" glued to a longer word still counts (prefix test only): "#noclue" *)
Example ex_marker_prefix_only : is_nocl_text [35; 110; 111; 99; 108; 117; 101] = true.
Proof. reflexivity. Qed.
(* other leaders do not count: "-- nocl", "% nocl", "<!-- nocl -->" *)
Example ex_not_marker_dashes : is_nocl_text [45; 45; 32; 110; 111; 99; 108] = false.
Proof. reflexivity. Qed.
(* a doubled leader does not count either: "## nocl", "/// nocl" *)
Example ex_not_marker_double_hash : is_nocl_text [35; 35; 32; 110; 111; 99; 108] = false.
Proof. reflexivity. Qed.
Example ex_not_marker_triple_slash : is_nocl_text [47; 47; 47; 32; 110; 111; 99; 108] = false.
Proof. reflexivity. Qed.
