(* DistinctStart.v — a finite certificate that two token patterns can never
   both match from the same start position (so the headers produced by the two
   header patterns of JavaScript / TypeScript have pairwise distinct starts).
   Definitions only; soundness is in DistinctStartProofs.v.

   The two matchers are run in lock step on the abstract tokens of Unamb.v
   (over the literals of BOTH automata).  The checker verifies an inductive
   invariant: a finite set of pairs of abstract configurations that contains
   the pair of start configurations, is closed under the abstract steps on
   which both matchers stay alive, and in which neither configuration is
   accepting.  A greedy success of pattern 1 after n1 items and of pattern 2
   after n2 >= n1 items from the same start would keep both alive for n1 items
   and make pattern 1 accepting there. *)
From Verif Require Import Base Regex Nfa Dfa Token Unamb.
Open Scope Z_scope.

Definition pconfig : Type := config * config.
Definition pconfig_eqb (a b : pconfig) : bool :=
  config_eqb (fst a) (fst b) && config_eqb (snd a) (snd b).
Definition pconfig_mem (c : pconfig) (S : list pconfig) : bool := existsb (pconfig_eqb c) S.

Definition psuccs (a1 a2 : automaton tpred) (bal1 bal2 : list tpred) (c : pconfig) (t : token)
  : list pconfig :=
  match abs_consume a1 bal1 (fst c) t, abs_consume a2 bal2 (snd c) t with
  | ASucc l1, ASucc l2 => list_prod l1 l2
  | _, _ => []
  end.

Definition prod_inv_check (a1 a2 : automaton tpred) (S : list pconfig) : bool :=
  let bal1 := bal_preds (a_heap a1) in
  let bal2 := bal_preds (a_heap a2) in
  let toks := abs_tokens (heap_lits (a_heap a1) ++ heap_lits (a_heap a2)) in
  pconfig_mem (start_config a1 bal1, start_config a2 bal2) S &&
  forallb (fun c =>
     negb (mem (a_acc a1) (fst (fst c))) && negb (mem (a_acc a2) (fst (snd c))) &&
     forallb (fun t =>
       match abs_consume a1 bal1 (fst c) t, abs_consume a2 bal2 (snd c) t with
       | AAmbiguous, _ | AError, _ | _, AAmbiguous | _, AError => false
       | ASucc l1, ASucc l2 => forallb (fun c' => pconfig_mem c' S) (list_prod l1 l2)
       | _, _ => true
       end) toks) S.

(* unverified search for the invariant: breadth-first exploration with fuel *)
Fixpoint pexplore (fuel : nat) (a1 a2 : automaton tpred) (bal1 bal2 : list tpred) (toks : list token)
         (work : list pconfig) (seen : list pconfig) : list pconfig :=
  match fuel with
  | O => seen
  | S f =>
      match work with
      | [] => seen
      | c :: w =>
          if pconfig_mem c seen then pexplore f a1 a2 bal1 bal2 toks w seen
          else pexplore f a1 a2 bal1 bal2 toks
                 (w ++ flat_map (psuccs a1 a2 bal1 bal2 c) toks) (c :: seen)
      end
  end.
Definition prod_invariant_of (a1 a2 : automaton tpred) : list pconfig :=
  let bal1 := bal_preds (a_heap a1) in
  let bal2 := bal_preds (a_heap a2) in
  pexplore explore_fuel a1 a2 bal1 bal2
    (abs_tokens (heap_lits (a_heap a1) ++ heap_lits (a_heap a2)))
    [(start_config a1 bal1, start_config a2 bal2)] [].

Definition distinct_start_check (e1 e2 : expr tpred) : bool :=
  match to_dfa e1, to_dfa e2 with
  | OK a1, OK a2 => prod_inv_check a1 a2 (prod_invariant_of a1 a2)
  | _, _ => false
  end.

(* every two different patterns of a list *)
Fixpoint pairwise_distinct_start (es : list (expr tpred)) : bool :=
  match es with
  | [] => true
  | e :: r => forallb (distinct_start_check e) r && pairwise_distinct_start r
  end.
