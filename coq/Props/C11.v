(* C11 — exactly the non-hidden, non-excluded files of supported languages are analysed.
   Statements only; proofs in Fs/FsProofsWalk.v over Fs/FsScan.v (os.walk with hidden
   pruning, exclusion test, lexer-by-name oracle) and Fs/Exclude.v (gitignore matcher
   for the five pattern classes, compared with pathspec on every generated case). *)
From Verif Require Import Base Codebase Exclude GenScan FsScan FsProofsWalk.
From Verif Require Import GenCompare TieProofs.
From Coq Require Import Relations.
Open Scope Z_scope.

Section C11.
  Variable supported : pystr -> option pystr.
  Variable analyze : pystr -> Z -> analysis.

  Theorem C11_iff : forall patterns c children comps,
    (exists e b, In (e, b) (scan_tree supported analyze patterns c children) /\ se_path e = comps) <->
    (exists content, file_at children comps content /\ Forall (fun n => is_hidden n = false) comps /\
       excluded patterns comps = false /\ supported (last comps []) <> None).
  Proof. exact (FsProofsWalk.C11_iff supported analyze). Qed.

  (* keyed by its root-relative path, with the checksum of its bytes and (without cache) the analysis of its content *)
  Theorem C11_key_language_checksum : forall patterns c children e b,
    In (e, b) (scan_tree supported analyze patterns c children) ->
    file_at children (se_path e) (se_checksum e) /\ Forall (fun n => is_hidden n = false) (se_path e) /\
    excluded patterns (se_path e) = false /\
    exists lang, supported (last (se_path e) []) = Some lang /\
      (b = true -> se_result e = analyze lang (se_checksum e)) /\ (c = None -> b = true).
  Proof. exact (FsProofsWalk.C11_sound supported analyze). Qed.

  Theorem C11_once : forall patterns c children, wf_tree children ->
    NoDup (map (fun eb => se_path (fst eb)) (scan_tree supported analyze patterns c children)).
  Proof. exact (FsProofsWalk.C11_once supported analyze). Qed.

  (* files that do not qualify never influence the result *)
  Theorem C11_not_analysed : forall patterns c children children',
    nq_edit supported patterns [] children children' ->
    scan_tree supported analyze patterns c children' = scan_tree supported analyze patterns c children.
  Proof. exact (FsProofsWalk.C11_not_analysed supported analyze). Qed.
End C11.

Theorem C11_walk : forall children comps c,
  In (comps, c) (walk_root children) <-> file_at children comps c /\ Forall (fun n => is_hidden n = false) comps.
Proof. exact walk_spec. Qed.

(* exclusion lists follow gitignore semantics: the last matching pattern decides, "!pattern" re-includes;
   without negated patterns a file is excluded iff some pattern matches it *)
Theorem C11_exclusion_semantics : forall patterns line comps,
  excluded (patterns ++ [line]) comps = excluded_step comps (excluded patterns comps) line /\
  (forallb (fun l => negb (negated l)) patterns = true ->
   excluded patterns comps = existsb (fun l => matches (classify l) comps) patterns).
Proof. intros. split; [apply excluded_last_decides|apply excluded_without_negation]. Qed.

(* the hidden-name test of the model is the one scan_path and check_command state (regenerated from Scanner.py and
   check.py on this run): a file or directory is skipped exactly when its name starts with "." *)
Theorem C11_hidden_rule_tied : forall c r,
  negb (is_hidden (c :: r)) = scan_keeps_file c /\ negb (is_hidden (c :: r)) = scan_keeps_dir c /\
  negb (is_hidden (c :: r)) = check_keeps_file c /\ negb (is_hidden (c :: r)) = check_keeps_dir c.
Proof. exact tie_hidden_rule. Qed.

Print Assumptions C11_iff.
Print Assumptions C11_hidden_rule_tied.
Print Assumptions C11_exclusion_semantics.
Print Assumptions C11_key_language_checksum.
Print Assumptions C11_once.
Print Assumptions C11_not_analysed.
Print Assumptions C11_walk.
