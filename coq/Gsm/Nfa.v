(* Nfa.v — structural model of codelimit.common.gsm: State objects live in a
   heap addressed by allocation order, operators build Thompson fragments
   exactly as the `apply` methods do (Concat = State.assign, a copy of the
   right fragment's start node into the left fragment's accepting node),
   epsilon_closure with a visited set, move, and the NFA simulation
   nfa_match.  Definitions only. *)
From Verif Require Import Base Regex.

Section Nfa.
  Context {P I : Type}.
  Variable peqb : P -> P -> bool.
  Variable accepts : P -> I -> bool.

  Record node := mkNode { ntrans : list (P * nat); neps : list nat }.
  Definition heap := list node.
  Definition empty_node := mkNode [] [].
  Definition get (h : heap) (a : nat) : node := nth a h empty_node.
  Definition set_node (h : heap) (a : nat) (n : node) : heap := upd a n h.
  Definition set_eps (h : heap) (a : nat) (l : list nat) : heap :=
    set_node h a (mkNode (ntrans (get h a)) l).

  Definition frag : Type := nat * nat.       (* start, accepting *)

  (* one operator: allocate, build the argument(s) on a fresh stack, wire epsilons *)
  Fixpoint build_op (o : op P) (h : heap) : res (heap * frag) :=
    let fix build_seq (e : list (op P)) (h : heap) (cur : option frag) : res (heap * option frag) :=
      match e with
      | [] => OK (h, cur)
      | o :: e' =>
          match build_op o h with
          | Err k => Err k
          | OK (h1, (s1, a1)) =>
              match cur with
              | None => build_seq e' h1 (Some (s1, a1))
              | Some (s2, a2) =>          (* Concat: nfa2.accepting.assign(nfa1.start) *)
                  build_seq e' (set_node h1 a2 (get h1 s1)) (Some (s2, a1))
              end
          end
      end in
    let sub (e : list (op P)) (h : heap) : res (heap * frag) :=
      match build_seq e h None with
      | Err k => Err k
      | OK (_, None) => Err IndexError          (* nfa_stack.pop() on an empty stack *)
      | OK (h', Some f) => OK (h', f)
      end in
    match o with
    | Atom p =>
        let s := length h in
        OK (h ++ [mkNode [(p, S s)] []; empty_node], (s, S s))
    | Union l r =>
        let s := length h in
        match sub l (h ++ [empty_node]) with
        | Err k => Err k
        | OK (h1, (s1, a1)) =>
            match sub r h1 with
            | Err k => Err k
            | OK (h2, (s2, a2)) =>
                let a := length h2 in
                let h3 := set_eps (h2 ++ [empty_node]) s [s1; s2] in
                OK (set_eps (set_eps h3 a1 [a]) a2 [a], (s, a))
            end
        end
    | Opt e =>
        let s := length h in
        match sub e (h ++ [empty_node]) with
        | Err k => Err k
        | OK (h1, (s1, a1)) =>
            let a := length h1 in
            OK (set_eps (set_eps (h1 ++ [empty_node]) s [s1; a]) a1 [a], (s, a))
        end
    | Star e =>
        let s := length h in
        match sub e (h ++ [empty_node]) with
        | Err k => Err k
        | OK (h1, (s1, a1)) =>
            let a := length h1 in
            OK (set_eps (set_eps (h1 ++ [empty_node]) s [s1; a]) a1 [s1; a], (s, a))
        end
    | Plus e =>
        let s := length h in
        match sub e (h ++ [empty_node]) with
        | Err k => Err k
        | OK (h1, (s1, a1)) =>
            let a := length h1 in
            OK (set_eps (set_eps (h1 ++ [empty_node]) s [s1]) a1 [s1; a], (s, a))
        end
    end.

  Fixpoint build_seq (e : list (op P)) (h : heap) (cur : option frag) : res (heap * option frag) :=
    match e with
    | [] => OK (h, cur)
    | o :: e' =>
        match build_op o h with
        | Err k => Err k
        | OK (h1, (s1, a1)) =>
            match cur with
            | None => build_seq e' h1 (Some (s1, a1))
            | Some (s2, a2) => build_seq e' (set_node h1 a2 (get h1 s1)) (Some (s2, a1))
            end
        end
    end.

  (* expression_to_nfa *)
  Definition expression_to_nfa (e : expr P) : res (heap * frag) :=
    match build_seq e [] None with
    | Err k => Err k
    | OK (_, None) => Err IndexError
    | OK (h, Some f) => OK (h, f)
    end.

  (* ---------- sets of states: sorted duplicate-free lists of addresses ---------- *)
  Fixpoint mem (a : nat) (l : list nat) : bool :=
    match l with [] => false | x :: t => Nat.eqb a x || mem a t end.
  Fixpoint insert_set (a : nat) (l : list nat) : list nat :=
    match l with
    | [] => [a]
    | x :: t => if Nat.ltb a x then a :: l else if Nat.eqb a x then l else x :: insert_set a t
    end.
  Definition to_set (l : list nat) : list nat := fold_right insert_set [] l.

  (* epsilon_closure with a visited set (repair of GD1); work-list order is not observable *)
  Fixpoint closure_fuel (fuel : nat) (h : heap) (work vis : list nat) : option (list nat) :=
    match work with
    | [] => Some vis
    | s :: w =>
        match fuel with
        | O => None
        | S f => if mem s vis then closure_fuel f h w vis
                 else closure_fuel f h (neps (get h s) ++ w) (s :: vis)
        end
    end.
  Definition total_eps (h : heap) : nat := fold_right (fun n a => (length (neps n) + a)%nat) O h.
  Definition closure (h : heap) (l : list nat) : res (list nat) :=
    match closure_fuel (S (length l + total_eps h)) h l [] with
    | Some v => OK (to_set v)
    | None => Err OutOfFuel
    end.

  (* move(states, symbol): predicates compared with __eq__ *)
  Definition move (h : heap) (T : list nat) (p : P) : list nat :=
    flat_map (fun s => map snd (filter (fun t => peqb (fst t) p) (ntrans (get h s)))) T.

  (* nfa_match: the non-deterministic simulation *)
  Definition nfa_step (h : heap) (active : list nat) (x : I) : list nat :=
    flat_map (fun s => map snd (filter (fun t => accepts (fst t) x) (ntrans (get h s)))) active.

  Fixpoint nfa_run (h : heap) (active : list nat) (w : list I) : res (option (list nat)) :=
    match w with
    | [] => OK (Some active)
    | x :: w' =>
        match closure h (nfa_step h active x) with
        | Err k => Err k
        | OK [] => OK None               (* if not next_states: return False *)
        | OK next => nfa_run h next w'
        end
    end.

  Definition nfa_match (e : expr P) (w : list I) : res bool :=
    match expression_to_nfa e with
    | Err k => Err k
    | OK (h, (s, a)) =>
        match closure h [s] with
        | Err k => Err k
        | OK start =>
            match nfa_run h start w with
            | Err k => Err k
            | OK None => OK false
            | OK (Some fin) => OK (mem a fin)
            end
        end
    end.
End Nfa.

Arguments node P : clear implicits.
Arguments heap P : clear implicits.
