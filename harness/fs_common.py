"""Helpers for the cache / file-system checks (C09, C10, C12, C06): a tiny universe of paths and
contents, real scan_command runs with a recording wrapper, canonical reports."""
import contextlib
import io
import json
import os
import shutil
from pathlib import Path

import lang_common as LC

PATHS = ["a.py", "d/b.js", "d/c.py", "d/e.ts"]      # b.js and e.ts take byte-identical contents: two languages, one checksum
CONTENT_IDS = [2, 16, 31, 40, 70, 71]      # 40: two functions of 20 lines each; 70 and 71: files larger than 64 KiB that differ only in their last bytes


def content_text(path, cid):
    ext = path.rsplit(".", 1)[1]
    pad = ""
    if cid >= 70:
        pad = ("# generated table, do not edit\n" if ext == "py" else "// generated table, do not edit\n") * 2300    # > 64 KiB
    if cid == 40:          # equal lengths: the order of the two must be the source order in every scan
        if ext == "py":
            return "def alpha():\n" + "    x = 1\n" * 19 + "def beta():\n" + "    y = 2\n" * 19
        return "function alpha() {\n" + "  x = 1;\n" * 18 + "}\n" + "function beta() {\n" + "  y = 2;\n" * 18 + "}\n"
    if ext == "py":
        return pad + "def f():\n" + "    x = 1\n" * (cid - 1)
    return pad + "function f() {\n" + "  x = 1;\n" * (cid - 2) + "}\n"


def lang_of(path):
    return {"py": "Python", "js": "JavaScript", "ts": "TypeScript"}[path.rsplit(".", 1)[1]]


def write_file(root, path, cid):
    p = os.path.join(root, path)
    os.makedirs(os.path.dirname(p), exist_ok=True)
    with open(p, "w") as f:
        f.write(content_text(path, cid))


def cache_path(root):
    return os.path.join(root, ".codelimit_cache", "codelimit.json")


def run_scan(root, excludes=()):
    """scan_command on root; returns (canonical report dict, sorted analysed paths)"""
    from codelimit.commands.scan import scan_command
    from codelimit.common import Scanner
    from codelimit.common.Configuration import Configuration
    Configuration.exclude = list(excludes)
    Configuration.repository = None
    analysed = []
    orig = Scanner._analyze_file

    def rec(path, rel_path, checksum, lexer, _orig=orig):
        analysed.append(rel_path)
        return _orig(path, rel_path, checksum, lexer)
    Scanner._analyze_file = rec
    try:
        with contextlib.redirect_stdout(io.StringIO()):
            scan_command(Path(root))
    finally:
        Scanner._analyze_file = orig
        Configuration.exclude = []
    with open(cache_path(root)) as f:
        rep = json.load(f)
    return canonical(rep), sorted(analysed)


def canonical(rep):
    """report up to identifier, timestamp and the order in which files are listed"""
    rep = json.loads(json.dumps(rep))
    rep.pop("uuid", None)
    rep.pop("timestamp", None)
    cb = rep.get("codebase", {})
    if isinstance(cb.get("files"), dict):
        cb["files"] = {k: cb["files"][k] for k in sorted(cb["files"])}
    if isinstance(cb.get("totals"), dict):
        cb["totals"] = {k: cb["totals"][k] for k in sorted(cb["totals"])}
    if isinstance(cb.get("tree"), dict):
        cb["tree"] = {k: {"entries": sorted(v.get("entries", [])), "profile": v.get("profile")} for k, v in sorted(cb["tree"].items())}
    return rep


def fresh_report(root, excludes, scratch):
    """the from-scratch scan of the same tree (copied without its cache directory)"""
    if os.path.exists(scratch):
        shutil.rmtree(scratch)
    shutil.copytree(root, scratch, ignore=shutil.ignore_patterns(".codelimit_cache"))
    rep, analysed = run_scan(scratch, excludes)
    # the root path differs between the two trees
    rep["root"] = None
    return rep, analysed


def entries_tree(rep):
    """[(path comps, content id, language, [values])] sorted by path, from a canonical report"""
    out = []
    for p, e in rep["codebase"]["files"].items():
        vals = [m["value"] for m in e["measurements"]]
        out.append([p.split("/"), sum(vals) if vals else 0, e["language"], vals])     # content id = total length (40 = 20 + 20)
    return out


def path_lit(p):
    return "[" + "; ".join(LC.pystr(c) for c in p.split("/")) + "]"


def latin1_edit_scenario(tmp, tag):
    """A source file that is not valid UTF-8 (read through the Latin-1 fall-back) is scanned, then edited ONLY in bytes
    that are invalid as UTF-8 (every \xe9 becomes \xe8: a function is renamed, a string changes), then scanned again with
    the cache in place.
    Returns (report with cache, report without cache, current bytes of the file, path of the file relative to the root)."""
    root = os.path.join(tmp, f"latin1_{tag}")
    os.makedirs(os.path.join(root, "pkg"))
    rel = "pkg/legacy.py"
    p = os.path.join(root, rel)
    before = b"# -- legacy module --\ndef caf\xe9_total(a):\n    s = '\xe9\xe9\xe9\xe9\xe9\xe9\xe9\xe9'\n    return a\n\ndef plain(b):\n    return b\n"
    after = before.replace(b"\xe9", b"\xe8")          # same length, only bytes that are invalid as UTF-8 differ
    with open(p, "wb") as f:
        f.write(before)
    with open(os.path.join(root, "main.py"), "w") as f:
        f.write("def main():\n    return 1\n")
    run_scan(root, [])
    with open(p, "wb") as f:
        f.write(after)
    with_cache, _ = run_scan(root, [])
    shutil.rmtree(os.path.join(root, ".codelimit_cache"), ignore_errors=True)
    without_cache, _ = run_scan(root, [])
    shutil.rmtree(root, ignore_errors=True)
    return with_cache, without_cache, after, rel


WS_BASE = b"import os\n\ndef first(a):\n    b = a\n    return b\n\n\ndef second(c):\n    return c\n"


def whitespace_edits():
    """(what, bytes after the edit) for edits of WS_BASE that change white space only: every one changes the BYTES, so the
    cached entry must not be reused, and most of them change reported line numbers or columns"""
    b = WS_BASE
    return [("two blank lines in front", b"\n\n" + b),
            ("a line of spaces in front", b"   \n" + b),
            ("a blank line at the end", b + b"\n"),
            ("the final line break removed", b[:-1]),
            ("spaces at the end of a line", b.replace(b"b = a\n", b"b = a   \n")),
            ("a blank line inside a function", b.replace(b"    b = a\n", b"    b = a\n\n")),
            ("a blank line between the functions removed", b.replace(b"\n\n\ndef second", b"\n\ndef second")),
            ("CRLF line ends", b.replace(b"\n", b"\r\n")),
            ("a form feed in front", b"\x0c\n" + b),
            ("deeper indentation of a body", b.replace(b"    return c", b"        return c"))]


def edit_scenario(tmp, tag, before, after, rel="pkg/mod.py"):
    """`rel` is scanned holding `before`, rewritten to `after`, scanned again with the cache in place, and once more without.
    Returns (report with cache, report without cache)."""
    root = os.path.join(tmp, f"edit_{tag}")
    os.makedirs(os.path.join(root, os.path.dirname(rel)))
    p = os.path.join(root, rel)
    with open(p, "wb") as f:
        f.write(before)
    with open(os.path.join(root, "main.py"), "w") as f:
        f.write("def main():\n    return 1\n")
    run_scan(root, [])
    with open(p, "wb") as f:
        f.write(after)
    with_cache, _ = run_scan(root, [])
    shutil.rmtree(os.path.join(root, ".codelimit_cache"), ignore_errors=True)
    without_cache, _ = run_scan(root, [])
    shutil.rmtree(root, ignore_errors=True)
    return with_cache, without_cache
