(* GrammarAllProofsTS.v — TypeScript: the function shape with the follow-up "{" or ": type {"
   (cand_function, follow_rettype with until_brace_type) and the arrow shape, on the grammar of
   GrammarAll.v.  The return-type scan stops at an unbalanced ")" and at ";", so candidates inside
   conditions, parameter groups and statements are rejected.  A return type (type_seq) consists of type
   tokens (text different from "(" and ")") and balanced parenthesis groups, which the scan accepts; no candidate of
   either shape is accepted inside it (type_next_ok). *)
From Verif Require Import Base Regex Token TokEngine Headers Blocks Spec HeaderSpec LexShapes Grammar GrammarAll.
From Verif Require Import GrammarProofsParen GrammarProofsBrace GrammarProofsHeaders GrammarAllProofsTok GrammarAllProofsCit.
From Verif Require Import GrammarAllProofsSel GrammarAllProofsCand GrammarAllProofsCb GrammarAllProofsItems GrammarAllProofsJava.
From Coq Require Import Sorted Permutation.
Open Scope nat_scope.

(* ---------- until_brace_type ---------- *)
Lemma ubt_deep_plain t r (d : Z) : (0 < d)%Z -> is_lparen t = false -> is_rparen t = false ->
  until_brace_type (t :: r) d = until_brace_type r d.
Proof.
  intros Hd H1 H2. cbn [until_brace_type]. apply Z.ltb_lt in Hd. rewrite Hd.
  unfold is_lparen in H1. unfold is_rparen in H2. rewrite H1, H2. reflexivity.
Qed.
Lemma ubt_deep_lparen t r (d : Z) : (0 < d)%Z -> is_lparen t = true ->
  until_brace_type (t :: r) d = until_brace_type r (d + 1).
Proof.
  intros Hd H1. cbn [until_brace_type]. apply Z.ltb_lt in Hd. rewrite Hd. unfold is_lparen in H1. rewrite H1. reflexivity.
Qed.
Lemma ubt_deep_rparen t r (d : Z) : (0 < d)%Z -> is_rparen t = true ->
  until_brace_type (t :: r) d = until_brace_type r (d - 1).
Proof.
  intros Hd H2. cbn [until_brace_type]. apply Z.ltb_lt in Hd. rewrite Hd.
  pose proof (rparen_not_lparen t H2) as H1. unfold is_lparen in H1. unfold is_rparen in H2. rewrite H1, H2. reflexivity.
Qed.

Lemma ubt_inner_deep g : inner g -> forall (d : Z) rest, (0 < d)%Z ->
  until_brace_type (g ++ rest) d = until_brace_type rest d.
Proof.
  induction 1 as [|t r Ht Hr IH|o g c r Ho Hg IHg Hc Hr IHr]; intros d rest Hd.
  - reflexivity.
  - apply plain_inv in Ht as (H1 & H2 & _ & _). cbn [app]. rewrite ubt_deep_plain by assumption. apply IH. exact Hd.
  - replace ((o :: g ++ c :: r) ++ rest) with (o :: g ++ c :: (r ++ rest)) by (norm_app; reflexivity).
    rewrite ubt_deep_lparen by assumption. rewrite IHg by lia. rewrite ubt_deep_rparen by (assumption || lia).
    replace (d + 1 - 1)%Z with d by lia. apply IHr. exact Hd.
Qed.

Lemma ubt_top t r : is_lparen t = false -> until_brace_type (t :: r) 0 =
  if is_symbol t lbrace then true
  else if pystr_eqb (t_value t) lbrace || pystr_eqb (t_value t) s_semi
          || pystr_eqb (t_value t) lparen || pystr_eqb (t_value t) rparen then false
  else until_brace_type r 0.
Proof. intros H. cbn [until_brace_type]. change (0 <? 0)%Z with false. cbv iota. unfold is_lparen in H. rewrite H. reflexivity. Qed.

Lemma ubt_top_lparen t r : is_lparen t = true -> until_brace_type (t :: r) 0 = until_brace_type r 1.
Proof. intros H. cbn [until_brace_type]. change (0 <? 0)%Z with false. cbv iota. unfold is_lparen in H. rewrite H. reflexivity. Qed.

Lemma closer_text t : closer t = true ->
  pystr_eqb (t_value t) lbrace || pystr_eqb (t_value t) s_semi || pystr_eqb (t_value t) lparen || pystr_eqb (t_value t) rparen = true.
Proof.
  unfold closer. intros H. apply orb_prop in H as [H|H].
  - apply symbol_value in H. rewrite H. apply orb_true_r.
  - apply symbol_value in H. change semicolon with s_semi in H. rewrite H. rewrite orb_true_r. reflexivity.
Qed.

Lemma ubt_plains_deep ps : forallb plain ps = true -> forall (d : Z) rest, (0 < d)%Z ->
  until_brace_type (ps ++ rest) d = until_brace_type rest d.
Proof.
  induction ps as [|t ps IH]; intros H d rest Hd; [reflexivity|].
  cbn [forallb] in H. apply andb_prop in H as [Ht H]. apply plain_inv in Ht as (H1 & H2 & _ & _).
  cbn [app]. rewrite ubt_deep_plain by assumption. apply IH; assumption.
Qed.

(* inside a group (depth >= 1) a parameter list with flat brace groups is consumed entirely *)
Lemma ubt_binner_deep ok g : binner ok g -> forall (d : Z) rest, (0 < d)%Z ->
  until_brace_type (g ++ rest) d = until_brace_type rest d.
Proof.
  induction 1 as [ok|ok t r Ht Hr IH|ok o g c r Ho Hg IHg Hc Hr IHr|o flat c r Ho Hflat Hc Hr IH]; intros d rest Hd.
  - reflexivity.
  - apply plain_inv in Ht as (H1 & H2 & _ & _). cbn [app]. rewrite ubt_deep_plain by assumption. apply IH. exact Hd.
  - replace ((o :: g ++ c :: r) ++ rest) with (o :: g ++ c :: (r ++ rest)) by (norm_app; reflexivity).
    rewrite ubt_deep_lparen by assumption. rewrite IHg by lia. rewrite ubt_deep_rparen by (assumption || lia).
    replace (d + 1 - 1)%Z with d by lia. apply IHr. exact Hd.
  - replace ((o :: flat ++ c :: r) ++ rest) with (o :: flat ++ c :: (r ++ rest)) by (norm_app; reflexivity).
    rewrite (ubt_deep_plain o _ d Hd (lbrace_not_lparen o Ho) (lbrace_not_rparen o Ho)).
    rewrite (ubt_plains_deep flat Hflat) by assumption.
    rewrite (ubt_deep_plain c _ d Hd (rbrace_not_lparen c Hc) (rbrace_not_rparen c Hc)).
    apply IH. exact Hd.
Qed.

(* the scan of a return type over the rest of a parenthesis group after a ")" at this depth (no brace group
   follows at this depth), closed by ")" or ";", fails *)
Lemma ubt_bfalse ok r : binner ok r -> ok = BPoison -> forall B, hd_ok closer B -> until_brace_type (r ++ B) 0 = false.
Proof.
  induction 1 as [ok|ok t r Ht Hr IH|ok o g c r Ho Hg IHg Hc Hr IHr|o flat c r Ho Hflat Hc Hr IH]; intros Hok B HB.
  - cbn [app]. destruct B as [|b B]; [reflexivity|]. cbn [hd_ok] in HB.
    pose proof (closer_inv b HB) as (_ & H1 & H2 & _ & _). rewrite ubt_top by exact H2.
    unfold is_lbrace in H1. rewrite H1, (closer_text b HB). reflexivity.
  - apply plain_inv in Ht as (H1 & _ & H3 & _). cbn [app]. rewrite ubt_top by exact H1.
    unfold is_lbrace in H3. rewrite H3.
    destruct (pystr_eqb (t_value t) lbrace || pystr_eqb (t_value t) s_semi
              || pystr_eqb (t_value t) lparen || pystr_eqb (t_value t) rparen); [reflexivity|].
    apply IH; [subst ok; reflexivity | exact HB].
  - replace ((o :: g ++ c :: r) ++ B) with (o :: g ++ c :: (r ++ B)) by (norm_app; reflexivity).
    rewrite ubt_top_lparen by exact Ho. rewrite (ubt_binner_deep BSafe g Hg 1%Z) by lia.
    rewrite ubt_deep_rparen by (assumption || lia). replace (1 - 1)%Z with 0%Z by lia. apply IHr; [subst ok; reflexivity | exact HB].
  - discriminate.
Qed.

Lemma follow_rettype_unfold w j :
  follow_rettype w j = sym_at w j lbrace || (op_at w j s_colon && until_brace_type (skipn (S j) w) 0).
Proof. reflexivity. Qed.

Lemma rettype_bfalse ok r : binner ok r -> aftergroup ok -> forall B, hd_ok closer B ->
  follow_rettype (r ++ B) (groups_len (r ++ B) 0) = false.
Proof.
  induction 1 as [ok|ok t r Ht Hr IH|ok o g c r Ho Hg IHg Hc Hr IHr|o flat c r Ho Hflat Hc Hr IH]; intros Hok B HB.
  - cbn [app]. destruct B as [|b B]; [reflexivity|]. cbn [hd_ok] in HB.
    pose proof (closer_inv b HB) as (_ & H1 & H2 & _ & _). rewrite groups_len_outside_stop by exact H2.
    rewrite follow_rettype_unfold. unfold sym_at, op_at. cbn [nth_error]. unfold is_lbrace in H1. rewrite H1.
    unfold closer in HB. apply orb_prop in HB as [HB|HB]; rewrite (symbol_not_operator _ _ s_colon HB); reflexivity.
  - pose proof (plain_inv t Ht) as (H1 & _ & H3 & _). cbn [app]. rewrite groups_len_outside_stop by exact H1.
    rewrite follow_rettype_unfold. unfold sym_at, op_at. cbn [nth_error skipn]. unfold is_lbrace in H3. rewrite H3.
    destruct (is_operator t s_colon) eqn:Eop; [|reflexivity].
    rewrite (ubt_bfalse _ r Hr); [reflexivity | | exact HB].
    destruct Hok as [-> | ->]; cbn [bstep_plain]; [rewrite Eop|]; reflexivity.
  - replace ((o :: g ++ c :: r) ++ B) with (o :: g ++ c :: (r ++ B)) by (norm_app; reflexivity).
    rewrite groups_len_outside_lparen by exact Ho.
    rewrite (groups_len_binner BSafe g Hg 1%Z) by lia.
    rewrite groups_len_inside_rparen by (assumption || lia).
    replace (1 - 1)%Z with 0%Z by lia.
    replace (S (length g + S (groups_len (r ++ B) 0))) with (length (o :: g ++ [c]) + groups_len (r ++ B) 0) by (norm_len; lia).
    replace (o :: g ++ c :: r ++ B) with ((o :: g ++ [c]) ++ (r ++ B)) by (norm_app; reflexivity).
    rewrite fshift_rettype. apply IHr; [apply after_group_ag | exact HB].
  - destruct Hok; discriminate.
Qed.

Lemma isuf_rejects_rettype : isuf_rejects follow_rettype.
Proof.
  intros v Hv Hlp. destruct (isuf_lparen_shape v Hv Hlp) as (o & g & c & s & r & B & -> & Ho & Hg & Hc & Hs & Hr & HB & ->).
  rewrite fshift_rettype. apply (rettype_bfalse s r Hr Hs B HB).
Qed.

Lemma good_function_rettype l : good l cand_function follow_rettype.
Proof. apply good_function_f; [apply fshift_rettype | apply isuf_rejects_rettype | apply finv_rettype]. Qed.

(* ---------- the return type (type_seq): no candidate of either shape inside it ---------- *)
(* a suffix of a return type at the top level of its groups, followed by the body's "{" *)
Definition tsuf (W : list token) : Prop := exists r o B, W = r ++ o :: B /\ type_seq r /\ is_lbrace o = true.

Lemma tsuf_intro r o B : type_seq r -> is_lbrace o = true -> tsuf (r ++ o :: B).
Proof. intros H1 H2. exists r, o, B. auto. Qed.

Lemma tsuf_tail x W : tsuf (x :: W) -> is_lparen x = false -> is_lbrace x = false -> tsuf W.
Proof.
  intros (r & o & B & E & Hr & Ho) H1 H2. destruct Hr as [|t r' Ht Hn Hr'|o1 g c1 r' Ho1 Hg Hc1 Hr'].
  - cbn [app] in E. injection E as -> _. congruence.
  - cbn [app] in E. injection E as -> ->. apply tsuf_intro; assumption.
  - cbn [app] in E. injection E as -> _. congruence.
Qed.

Lemma tsuf_tail_name x W : tsuf (x :: W) -> is_name x = true -> tsuf W.
Proof. intros H Hn. apply (tsuf_tail x W H); apply (name_not_symbol _ _ Hn). Qed.
Lemma tsuf_tail_keyword x W : tsuf (x :: W) -> is_keyword x = true -> tsuf W.
Proof. intros H Hn. apply (tsuf_tail x W H); apply (keyword_not_symbol _ _ Hn). Qed.
Lemma tsuf_tail_operator x W s : tsuf (x :: W) -> is_operator x s = true -> tsuf W.
Proof. intros H Hn. apply (tsuf_tail x W H); apply (operator_not_symbol _ _ _ Hn). Qed.

Lemma tsuf_nonempty W : tsuf W -> W <> [].
Proof. intros (r & o & B & -> & _ & _). destruct r; discriminate. Qed.

(* a name of the type is not followed by "(" *)
Lemma tsuf_plain W : tsuf W -> cand_plain W 0 = None.
Proof.
  intros (r & o & B & -> & Hr & Ho). destruct Hr as [|t r' Ht Hn Hr'|o1 g c1 r' Ho1 Hg Hc1 Hr']; cbn [app]; rewrite cand_plain_0.
  - rewrite (symbol_not_name _ _ Ho). reflexivity.
  - destruct (is_name t) eqn:En; [|reflexivity].
    assert (E : ge0 (r' ++ o :: B) = None).
    { destruct r' as [|p r'']; cbn [app]; unfold ge0.
      - rewrite (lbrace_not_lparen o Ho). reflexivity.
      - cbn [type_next_ok] in Hn. rewrite En in Hn. cbn [andb] in Hn. apply negb_true_iff in Hn. rewrite Hn. reflexivity. }
    rewrite E. reflexivity.
  - rewrite (symbol_not_name _ _ Ho1). reflexivity.
Qed.

Lemma tsuf_function W : tsuf W -> cand_function W 0 = None.
Proof.
  intros H. pose proof (tsuf_plain W H) as HP. destruct W as [|t W']; [exfalso; exact (tsuf_nonempty _ H eq_refl)|].
  rewrite cand_function_0. destruct (kw_is t s_function) eqn:Ek; [|exact HP].
  rewrite (tsuf_plain W' (tsuf_tail_keyword t W' H (kw_is_keyword _ _ Ek))). reflexivity.
Qed.

(* the run of groups at the head of such a suffix: if it ends at "=>", the next token is not "{" *)
Lemma type_seq_run r : type_seq r -> forall o B, is_lbrace o = true ->
  sym_at (r ++ o :: B) (groups_len (r ++ o :: B) 0) s_arrow = true ->
  sym_at (r ++ o :: B) (S (groups_len (r ++ o :: B) 0)) lbrace = false.
Proof.
  induction 1 as [|t r Ht Hn Hr IH|o1 g c1 r Ho1 Hg Hc1 Hr IH]; intros o B Ho.
  - cbn [app]. rewrite groups_len_outside_stop by (apply lbrace_not_lparen; exact Ho).
    unfold sym_at. cbn [nth_error]. rewrite (symbol_other o lbrace s_arrow Ho) by discriminate. discriminate.
  - assert (Hp : plain t = true) by (apply clause_tok_plain, type_tok_clause, Ht).
    apply plain_inv in Hp as (P1 & _). cbn [app]. rewrite groups_len_outside_stop by exact P1.
    unfold sym_at at 1. cbn [nth_error]. intros Ha.
    change (sym_at (t :: r ++ o :: B) 1 lbrace) with (sym_at (r ++ o :: B) 0 lbrace).
    destruct r as [|p r'].
    + cbn [type_next_ok] in Hn. rewrite Ha in Hn. discriminate.
    + pose proof (type_seq_brace_free _ Hr) as Hbf. inversion Hbf as [|? ? [Q _] _]; subst.
      cbn [app]. unfold sym_at. cbn [nth_error]. exact Q.
  - replace ((o1 :: g ++ c1 :: r) ++ o :: B) with (o1 :: g ++ c1 :: (r ++ o :: B)) by (norm_app; reflexivity).
    rewrite groups_len_outside_lparen by exact Ho1.
    rewrite (groups_len_inner g Hg 1%Z) by lia.
    rewrite groups_len_inside_rparen by (assumption || lia).
    replace (1 - 1)%Z with 0%Z by lia.
    set (e := groups_len (r ++ o :: B) 0).
    replace (S (length g + S e)) with (length (o1 :: g ++ [c1]) + e) by (norm_len; lia).
    replace (S (length (o1 :: g ++ [c1]) + e)) with (length (o1 :: g ++ [c1]) + S e) by lia.
    replace (o1 :: g ++ c1 :: r ++ o :: B) with ((o1 :: g ++ [c1]) ++ (r ++ o :: B)) by (norm_app; reflexivity).
    rewrite !sym_at_shift. apply IH. exact Ho.
Qed.

Lemma tsuf_run v : tsuf v -> sym_at v (groups_len v 0) s_arrow = true -> sym_at v (S (groups_len v 0)) lbrace = false.
Proof. intros (r & o & B & -> & Hr & Ho). apply type_seq_run; assumption. Qed.

Lemma ts_arrow_tail pre v j : tsuf v -> groups_end (pre ++ v) (length pre) = Some j ->
  sym_at (pre ++ v) j s_arrow = true -> sym_at (pre ++ v) (S j) lbrace = false.
Proof.
  intros Hv E. apply groups_end_pre in E as [-> _]. rewrite sym_at_shift.
  replace (S (length pre + groups_len v 0)) with (length pre + S (groups_len v 0)) by lia.
  rewrite sym_at_shift. apply (tsuf_run _ Hv).
Qed.

Lemma tsuf_arrow_nc w : tsuf w -> forall n j, arrow_nc w = Some (n, j) -> sym_at w j lbrace = false.
Proof.
  intros Hw n j E. unfold arrow_nc in E.
  destruct w as [|x0 w1]; [discriminate|]. change (name_at (x0 :: w1) 0) with (is_name x0) in E.
  destruct (is_name x0) eqn:E0; [|discriminate]. cbn [andb] in E.
  pose proof (tsuf_tail_name x0 w1 Hw E0) as H1.
  destruct w1 as [|x1 w2]; [discriminate|]. change (op_at (x0 :: x1 :: w2) 1 s_eq) with (is_operator x1 s_eq) in E.
  destruct (is_operator x1 s_eq) eqn:E1; [|discriminate].
  pose proof (tsuf_tail_operator x1 w2 s_eq H1 E1) as H2.
  destruct w2 as [|x2 w3].
  - discriminate.
  - change (kw_at (x0 :: x1 :: x2 :: w3) 2 s_async) with (kw_is x2 s_async) in E.
    destruct (kw_is x2 s_async) eqn:E2; cbv zeta iota in E.
    + pose proof (tsuf_tail_keyword x2 w3 H2 (kw_is_keyword _ _ E2)) as H3.
      destruct (groups_end (x0 :: x1 :: x2 :: w3) 3) as [j0|] eqn:Eg; [|discriminate].
      destruct (sym_at (x0 :: x1 :: x2 :: w3) j0 s_arrow) eqn:Ea; [|discriminate]. injection E as <- <-.
      exact (ts_arrow_tail [x0; x1; x2] w3 j0 H3 Eg Ea).
    + destruct (groups_end (x0 :: x1 :: x2 :: w3) 2) as [j0|] eqn:Eg; [|discriminate].
      destruct (sym_at (x0 :: x1 :: x2 :: w3) j0 s_arrow) eqn:Ea; [|discriminate]. injection E as <- <-.
      exact (ts_arrow_tail [x0; x1] (x2 :: w3) j0 H2 Eg Ea).
Qed.

Lemma tsuf_arrow w : tsuf w -> acc cand_arrow follow_brace w 0 = None.
Proof.
  intros Hw. destruct w as [|t W]; [reflexivity|]. apply acc_none_intro. intros n j E.
  rewrite cand_arrow_0 in E. destruct (kw_is t s_const) eqn:Ek.
  - pose proof (tsuf_tail_keyword t W Hw (kw_is_keyword _ _ Ek)) as HW.
    destruct (arrow_nc W) as [[n' j']|] eqn:Ea; [|discriminate]. cbn [shift1] in E. injection E as <- <-.
    rewrite follow_brace_S. exact (tsuf_arrow_nc W HW n' j' Ea).
  - exact (tsuf_arrow_nc (t :: W) Hw n j E).
Qed.

(* no accepted candidate at any position of ": type" *)
Lemma type_seq_no_acc l c f (G : good l c f) (Ht : forall W, tsuf W -> acc c f W 0 = None) r o B :
  type_seq r -> is_lbrace o = true -> no_acc c f r (o :: B).
Proof.
  pose proof (g_c _ _ _ G) as Hc. pose proof (g_f _ _ _ G) as Hf.
  intros Hr Ho. induction Hr as [|t r Htk Hn Hr IH|o1 g c1 r Ho1 Hg Hc1 Hr IH].
  - apply no_acc_nil.
  - apply (no_acc_cons c f Hc Hf); [|exact IH].
    apply Ht. apply (tsuf_intro (t :: r) o B); [apply tsq_tok; assumption | exact Ho].
  - change (o1 :: g ++ c1 :: r) with ([o1] ++ g ++ [c1] ++ r).
    apply (no_acc_app c f Hc Hf); [eapply (symbol_no_acc l c f G); exact Ho1|].
    apply (no_acc_app c f Hc Hf).
    + apply (inner_no_acc l c f G); [exact Hg|]. cbn [app hd_ok]. apply rparen_closer. exact Hc1.
    + apply (no_acc_app c f Hc Hf); [eapply (symbol_no_acc l c f G); exact Hc1 | exact IH].
Qed.

Lemma rettype_no_acc l c f (G : good l c f) (Ht : forall W, tsuf W -> acc c f W 0 = None) colon ty o B :
  is_operator colon s_colon = true -> type_seq ty -> is_lbrace o = true -> no_acc c f (colon :: ty) (o :: B).
Proof.
  intros Hco Hty Ho. apply (no_acc_cons c f (g_c _ _ _ G) (g_f _ _ _ G)).
  - apply (g_sym _ _ _ G); [eapply operator_not_name | eapply operator_not_keyword]; exact Hco.
  - apply (type_seq_no_acc l c f G Ht); assumption.
Qed.

(* ---------- the return type accepted ---------- *)
Lemma ubt_type ty : type_seq ty -> forall o B, is_lbrace o = true -> until_brace_type (ty ++ o :: B) 0 = true.
Proof.
  induction 1 as [|t ty Ht _ _ IH|o1 g c1 ty Ho1 Hg Hc1 _ IH]; intros o B Ho.
  - cbn [app]. rewrite ubt_top by (apply lbrace_not_lparen; exact Ho). unfold is_lbrace in Ho. rewrite Ho. reflexivity.
  - unfold type_tok in Ht. apply andb_prop in Ht as [Ht Q2]. apply andb_prop in Ht as [Ht Q1].
    unfold clause_tok in Ht. apply andb_prop in Ht as [Ht H2]. apply andb_prop in Ht as [Hp H1].
    apply negb_true_iff in H1, H2, Q1, Q2. apply plain_inv in Hp as (P1 & P2 & P3 & _).
    cbn [app]. rewrite ubt_top by exact P1. unfold is_lbrace in P3. rewrite P3.
    change s_semi with semicolon. rewrite H2, H1, Q1, Q2. cbn [orb]. apply IH; assumption.
  - replace ((o1 :: g ++ c1 :: ty) ++ o :: B) with (o1 :: g ++ c1 :: (ty ++ o :: B)) by (norm_app; reflexivity).
    rewrite ubt_top_lparen by exact Ho1. rewrite (ubt_inner_deep g Hg 1%Z) by lia.
    rewrite ubt_deep_rparen by (assumption || lia). replace (1 - 1)%Z with 0%Z by lia. apply IH. exact Ho.
Qed.

Lemma op_at_app_hd P t R s : op_at (P ++ t :: R) (length P) s = is_operator t s.
Proof. unfold op_at. rewrite nth_error_app2 by lia. rewrite Nat.sub_diag. reflexivity. Qed.

(* follow_rettype at the end of the groups: "{" directly, or ": type {" *)
Lemma rettype_brace gs o B : is_lbrace o = true -> follow_rettype (gs ++ o :: B) (length gs) = true.
Proof. intros Ho. rewrite follow_rettype_unfold, sym_at_app_hd. unfold is_lbrace in Ho. rewrite Ho. reflexivity. Qed.

Lemma rettype_type gs colon ty o B :
  is_operator colon s_colon = true -> type_seq ty -> is_lbrace o = true ->
  follow_rettype (gs ++ colon :: ty ++ o :: B) (length gs) = true.
Proof.
  intros Hco Hty Ho. rewrite follow_rettype_unfold, op_at_app_hd, Hco, skipn_app_hd, (ubt_type ty Hty o B Ho).
  apply orb_true_r.
Qed.

(* ---------- every head is selected by exactly one of the two TypeScript selections ---------- *)
Lemma ar_no_ret B W A : no_acc cand_arrow follow_brace A (W ++ B) -> no_acc cand_arrow follow_brace W B ->
  no_acc cand_arrow follow_brace (A ++ W) B.
Proof. apply (no_acc_app _ _ cshift_arrow fshift_brace). Qed.

Theorem head_split_typescript :
  head_split any_tokens LTypeScript cand_function follow_rettype cand_arrow follow_brace.
Proof.
  intros hd n h o B off Hhd _ Ho.
  pose proof (good_function_rettype LTypeScript) as GF.
  destruct (lbrace_nlp o B Ho) as [Hnlp Hne].
  destruct Hhd as [nm gs Hcf Hnm Hgs | nm gs thr clause HJ | nm gs Hjs Hnm Hgs | fk nm gs Hjs Hfk Hnm Hgs
                  | nm gs colon ty HT Hnm Hgs Hco Hty | fk nm gs colon ty HT Hfk Hnm Hgs Hco Hty
                  | nm eq gs arrow Hjs Hnm Heq Hgs Har | nm eq ak gs arrow Hjs Hnm Heq Hak Hgs Har
                  | ck nm eq gs arrow Hjs Hck Hnm Heq Hgs Har | ck nm eq ak gs arrow Hjs Hck Hnm Heq Hak Hgs Har];
    try discriminate.
  - (* name groups *)
    left. split.
    + apply (Seg_head_eq _ _ cshift_function fshift_rettype off (nm :: gs) (o :: B) (nm :: gs ++ o :: B) 0 (S (length gs)));
        [|reflexivity | reflexivity | reflexivity | lia].
      apply method_head_f; try assumption. rewrite (fshift_S _ _ _ _ fshift_rettype). apply rettype_brace. exact Ho.
    + apply (Seg_none _ _ cshift_arrow fshift_brace). apply ar_no_method; assumption.
  - (* function name groups *)
    left. split.
    + apply (Seg_head_eq _ _ cshift_function fshift_rettype off (fk :: nm :: gs) (o :: B) (fk :: nm :: gs ++ o :: B) 1 (S (S (length gs))));
        [|reflexivity | reflexivity | reflexivity | lia].
      apply function_head_f; try assumption. rewrite !(fshift_S _ _ _ _ fshift_rettype). apply rettype_brace. exact Ho.
    + apply (Seg_none _ _ cshift_arrow fshift_brace). apply ar_no_function; assumption.
  - (* name groups : type *)
    assert (Hcl : is_lparen colon = false) by (eapply operator_not_symbol; exact Hco).
    left. split.
    + change (nm :: gs ++ colon :: ty) with ((nm :: gs) ++ colon :: ty).
      change [mkHeader (off + 0) off (off + (1 + length gs))] with ([mkHeader (off + 0) off (off + (1 + length gs))] ++ []).
      apply Seg_app.
      * apply (Seg_head_eq _ _ cshift_function fshift_rettype off (nm :: gs) ((colon :: ty) ++ o :: B)
                 (nm :: gs ++ colon :: ty ++ o :: B) 0 (S (length gs)));
          [|reflexivity | reflexivity | reflexivity | lia].
        apply method_head_f; try assumption; [cbn [hd_ok]; unfold nlp; rewrite Hcl; reflexivity | discriminate|].
        rewrite (fshift_S _ _ _ _ fshift_rettype). apply rettype_type; assumption.
      * apply (Seg_none _ _ cshift_function fshift_rettype).
        apply (rettype_no_acc LTypeScript _ _ GF); try assumption.
        intros W HW. apply acc_cand_none, tsuf_function, HW.
    + apply (Seg_none _ _ cshift_arrow fshift_brace).
      change (nm :: gs ++ colon :: ty) with ((nm :: gs) ++ colon :: ty). apply ar_no_ret.
      * apply ar_no_method; assumption.
      * apply (rettype_no_acc LTypeScript _ _ (good_arrow LTypeScript)); try assumption. apply tsuf_arrow.
  - (* function name groups : type *)
    assert (Hcl : is_lparen colon = false) by (eapply operator_not_symbol; exact Hco).
    left. split.
    + change (fk :: nm :: gs ++ colon :: ty) with ((fk :: nm :: gs) ++ colon :: ty).
      change [mkHeader (off + 1) off (off + (2 + length gs))] with ([mkHeader (off + 1) off (off + (2 + length gs))] ++ []).
      apply Seg_app.
      * apply (Seg_head_eq _ _ cshift_function fshift_rettype off (fk :: nm :: gs) ((colon :: ty) ++ o :: B)
                 (fk :: nm :: gs ++ colon :: ty ++ o :: B) 1 (S (S (length gs))));
          [|reflexivity | reflexivity | reflexivity | lia].
        apply function_head_f; try assumption; [cbn [hd_ok]; unfold nlp; rewrite Hcl; reflexivity | discriminate|].
        rewrite !(fshift_S _ _ _ _ fshift_rettype). apply rettype_type; assumption.
      * apply (Seg_none _ _ cshift_function fshift_rettype).
        apply (rettype_no_acc LTypeScript _ _ GF); try assumption.
        intros W HW. apply acc_cand_none, tsuf_function, HW.
    + apply (Seg_none _ _ cshift_arrow fshift_brace).
      change (fk :: nm :: gs ++ colon :: ty) with ((fk :: nm :: gs) ++ colon :: ty). apply ar_no_ret.
      * apply ar_no_function; assumption.
      * apply (rettype_no_acc LTypeScript _ _ (good_arrow LTypeScript)); try assumption. apply tsuf_arrow.
  - (* name = groups => *)
    right. split.
    + apply (Seg_none _ _ cshift_function fshift_rettype).
      apply (fn_no_arrow LTypeScript follow_rettype nm eq [] gs arrow _ GF); auto.
    + apply (Seg_head_eq _ _ cshift_arrow fshift_brace off _ (o :: B) (nm :: eq :: [] ++ gs ++ arrow :: o :: B) 0
               (S (2 + length (@nil token) + length gs)));
        [apply arrow_head; auto | norm_app; reflexivity | norm_len; lia | norm_len; lia | lia].
  - (* name = async groups => *)
    right. split.
    + apply (Seg_none _ _ cshift_function fshift_rettype).
      apply (fn_no_arrow LTypeScript follow_rettype nm eq [ak] gs arrow _ GF); eauto.
    + apply (Seg_head_eq _ _ cshift_arrow fshift_brace off _ (o :: B) (nm :: eq :: [ak] ++ gs ++ arrow :: o :: B) 0
               (S (2 + length [ak] + length gs)));
        [apply arrow_head; eauto | norm_app; reflexivity | norm_len; lia | norm_len; lia | lia].
  - (* const name = groups => *)
    right. split.
    + apply (Seg_none _ _ cshift_function fshift_rettype). apply fn_no_const; [apply fshift_rettype | exact Hck|].
      apply (fn_no_arrow LTypeScript follow_rettype nm eq [] gs arrow _ GF); auto.
    + apply (Seg_head_eq _ _ cshift_arrow fshift_brace off _ (o :: B) (ck :: nm :: eq :: [] ++ gs ++ arrow :: o :: B) 1
               (S (S (2 + length (@nil token) + length gs))));
        [apply const_arrow_head; auto | norm_app; reflexivity | norm_len; lia | norm_len; lia | lia].
  - (* const name = async groups => *)
    right. split.
    + apply (Seg_none _ _ cshift_function fshift_rettype). apply fn_no_const; [apply fshift_rettype | exact Hck|].
      apply (fn_no_arrow LTypeScript follow_rettype nm eq [ak] gs arrow _ GF); eauto.
    + apply (Seg_head_eq _ _ cshift_arrow fshift_brace off _ (o :: B) (ck :: nm :: eq :: [ak] ++ gs ++ arrow :: o :: B) 1
               (S (S (2 + length [ak] + length gs))));
        [apply const_arrow_head; eauto | norm_app; reflexivity | norm_len; lia | norm_len; lia | lia].
Qed.

Theorem canonical_typescript_citems Pc ts ds : citems Pc any_tokens LTypeScript 0 ts ds ->
  Permutation (lexical_headers_TypeScript ts) (map header_of ds).
Proof.
  intros H. unfold lexical_headers_TypeScript.
  refine (canonical_two_shapes_plain Pc any_tokens LTypeScript cand_function follow_rettype cand_arrow follow_brace
           (good_oksel _ _ _ _ (good_function_rettype LTypeScript) (fun w => fsuf_function follow_rettype w fshift_rettype frejects_rettype))
           (good_oksel _ _ _ _ (good_arrow LTypeScript) fsuf_arrow)
           head_split_typescript (new_split_none _ _ _ _ _ _ _) ts ds _ _ H); discriminate.
Qed.

Theorem canonical_typescript ts ds : canonical_program_of LTypeScript ts ds ->
  Permutation (lexical_headers_TypeScript ts) (map header_of ds).
Proof. intros H. apply (canonical_typescript_citems no_throws_kw). apply items_of_citems. exact H. Qed.

Print Assumptions canonical_typescript.
