"""C13 — the pattern engine implements regular-expression semantics."""
import multiprocessing as mp
import os

from common import Check, assert_repo_import, eval_cases, eval_one, canon_tree, coq_list, z, NPROC
import gsm_common as G

IMPORTS = "Base Regex Nfa Dfa NfaShape"


def _work(args):
    e, words = args
    out = []
    for w in words:
        obs, raw = G.impl_obs(e, w)
        probs = []
        sm = G.spec_match(e, w)
        sp = G.spec_shortest_prefix(e, w)
        if obs[0] != [0, sm]:
            probs.append(f"match -> {obs[0]}, language membership is {sm}")
        if obs[1] != [0, sm]:
            probs.append(f"nfa_match -> {obs[1]}, language membership is {sm}")
        if obs[2] != [0, [] if sp is None else [sp]]:
            probs.append(f"starts_with -> {obs[2]}, shortest non-empty matching prefix is {sp}")
        out.append((w, obs, probs, sm or sp is not None))
    return e, out


def run(tier, seed, replay=None):
    assert_repo_import()
    chk = Check("C13", tier, seed)
    model_ok = chk.proof_stage(["Gsm/Dfa.vo", "Gsm/DfaProofs.vo", "Gsm/NfaShape.vo"])
    max_size, max_len = (4, 4) if tier == "quick" else (5, 5)
    words = G.all_words([1, 2, 3], max_len) + [w for w in G.all_words([1, 2, 3, 4], 2 if tier == "quick" else 3) if 4 in w]
    exprs = list(G.all_exprs(max_size))
    n_rand = 600 if tier == "quick" else 20000
    rand = []
    for _ in range(n_rand):
        e = G.random_expr(chk.rng, chk.rng.randint(5, 25))
        ws = [tuple(chk.rng.choice([1, 2, 3, 4] if chk.rng.random() < 0.2 else [1, 2, 3])
                    for _ in range(chk.rng.randint(0, 40))) for _ in range(6)]
        rand.append((e, ws))
    jobs = [(e, words) for e in exprs] + rand
    model_cases = []
    with mp.Pool(NPROC) as pool:
        for e, res in pool.imap_unordered(_work, jobs, chunksize=8):
            size = G.n_ops(e)
            for w, obs, probs, positive in res:
                case = {"pattern": G.show(e), "expr": e, "word": list(w)}
                chk.evaluations += 1
                if size >= 2 and positive:
                    chk.nontrivial.add((e, w))
                if probs:
                    chk.violation(case, f"pattern {G.show(e)} on {list(w)}: " + "; ".join(probs))
            chk.count(f"expr size {min(size, 9)}{'+' if size >= 9 else ''}")
            # model-vs-implementation: every word for small expressions, a sample for the rest
            if size <= 3 or (len(res) <= 10) or hash((e, seed)) % 23 == 0:
                sel = res if size <= 3 or len(res) <= 10 else res[:: max(1, len(res) // 12)]
                for w, obs, _, _ in sel:
                    model_cases.append((f"engine_obs3 {G.to_coq(e)} {coq_list(z(x) for x in w)}", obs[:3],
                                        {"pattern": G.show(e), "word": list(w)}))
    # ---- the first compile of a FRESH process (state numbers start at 1, one and two digits mixed) must agree with the same
    #      search made later (seeded change C13-19: subset keys joined without a separator)
    import json
    import os
    import subprocess
    from common import REPO, NPROC as _NP

    def tup(x):
        return tuple(tup(y) for y in x) if isinstance(x, list) else x
    fresh = [tup(e) for e in ([["P", [["A", 1]]], ["A", 2], ["S", [["A", 1]]], ["A", 2]], [["P", [["A", 1]]], ["A", 2], ["A", 3], ["A", 1], ["A", 2]],
                              [["A", 1], ["O", [["A", 2]]], ["P", [["A", 3]]], ["A", 1], ["A", 2], ["A", 3]])]
    while len(fresh) < (30 if tier == "quick" else 400):
        fresh.append(G.random_expr(chk.rng, chk.rng.randint(5, 14)))
    env = dict(os.environ, PYTHONPATH=REPO, VERIF_REPO=REPO, PYTHONDONTWRITEBYTECODE="1")
    pending = []
    for e in fresh:
        ws = [tuple(chk.rng.choice([1, 2, 3]) for _ in range(chk.rng.randint(0, 8))) for _ in range(40)]
        ws = [w for w in ws if G.spec_match(e, w)][:3] + ws[:3]
        if e == fresh[0]:
            ws = [(1, 2, 2), (1, 1, 2, 1, 2)] + ws
        p = subprocess.Popen(["/venv/bin/python", os.path.join(os.path.dirname(os.path.abspath(__file__)), "gsm_worker.py")],
                             stdin=subprocess.PIPE, stdout=subprocess.PIPE, stderr=subprocess.PIPE, text=True, env=env)
        p.stdin.write(json.dumps({"expr": e, "words": ws}))
        p.stdin.close()
        pending.append((e, ws, p))
        if len(pending) >= _NP or e is fresh[-1]:
            for e2, ws2, p2 in pending:
                out = p2.stdout.read()
                p2.wait()
                chk.evaluations += 1
                chk.count("first compile of a fresh process")
                try:
                    got = json.loads(out)
                except ValueError:
                    chk.violation({"pattern": G.show(e2)}, f"the pattern worker failed on {G.show(e2)}: {p2.stderr.read()[-200:]}")
                    continue
                for k2, w in enumerate(ws2):
                    sm, sp = G.spec_match(e2, w), G.spec_shortest_prefix(e2, w)
                    want = [[0, sm], [0, sm], [0, [] if sp is None else [sp]]]
                    bad = [which for which in ("first", "second") if got[which][k2][:3] != want]
                    if bad:
                        chk.violation({"pattern": G.show(e2), "expr": e2, "word": list(w)},
                                      f"{G.show(e2)} on {list(w)}: the {bad[0]} search of a fresh process gives match / nfa_match / starts_with = "
                                      f"{got[bad[0]][k2][:3]}, the language says {want}")
                        break
                else:
                    chk.nontrivial.add(("fresh", G.show(e2)))
            pending = []
    # ---- symbols of mixed types that print alike (1 and "1", 1.5 and "1.5") or whose hashes collide (-1 and -2, 0 and
    #      2**61-1): distinct symbols must stay distinct
    from codelimit.common.gsm import matcher
    rng = chk.rng
    for it in range(600 if tier == "quick" else 12000):
        e = G.random_expr(rng, rng.randint(2, 9), atoms=[1, 2, 3, 4, 5, 6])
        symmap = (G.MIXED, G.COLLIDING, G.DISTINCT_OBJECTS)[it % 3]
        for _ in range(6):
            w = tuple(rng.choice([1, 2, 3, 4, 5, 6]) for _ in range(rng.randint(0, 6)))
            obs, _ = G.impl_obs(e, w, symmap, fresh=symmap is G.DISTINCT_OBJECTS)
            sm, sp = G.spec_match(e, w), G.spec_shortest_prefix(e, w)
            chk.evaluations += 1
            chk.count("mixed-type symbols")
            if obs[0] != [0, sm] or obs[1] != [0, sm] or obs[2] != [0, [] if sp is None else [sp]]:
                chk.violation({"pattern": G.show(e), "expr": e, "word": [repr(symmap[x]) for x in w]},
                              f"pattern {G.show(e)} over the symbols {symmap} on {[symmap[x] for x in w]}: match/nfa_match/starts_with "
                              f"-> {obs[:3]}, language membership {sm}, shortest prefix {sp}")
            elif sm:
                chk.nontrivial.add(("mixed", e, w))
            model_cases.append((f"engine_obs3 {G.to_coq(e)} {coq_list(z(x) for x in w)}", obs[:3], {"pattern": G.show(e), "word": list(w), "symbols": "mixed"}))
    # ---- structure: the NFA the implementation builds has the SHAPE of the model's, for every small expression
    #      (a construction that differs only for nested operators shows here long before it changes a language)
    for e in exprs:
        if G.n_ops(e) <= (4 if tier == "quick" else 5):
            shp = G.guarded(lambda: G.impl_nfa_shape(e))
            chk.evaluations += 1
            chk.count("NFA shape compared")
            model_cases.append((f"nfa_shape {G.to_coq(e)}", shp[1] if shp[0] == 0 else shp, {"pattern": G.show(e), "kind": "nfa-shape"}))
    # ---- the same operator OBJECT at several positions of one pattern (structurally equal sub-trees share one instance)
    for _ in range(500 if tier == "quick" else 10000):
        sub = G.random_expr(rng, rng.randint(1, 3))
        rep = (rng.choice("OSP"), sub)
        e = (rep, ("A", rng.choice([1, 2, 3])), rep) if rng.random() < 0.5 else \
            (("A", rng.choice([1, 2, 3])), rep, ("U", (rep,), (("A", 3), rep)))
        for _ in range(5):
            w = [rng.choice([1, 2, 3]) for _ in range(rng.randint(0, 6))]
            got = [G.guarded(lambda: matcher.match(G.to_impl_shared(e), w) is not None),
                   G.guarded(lambda: bool(matcher.nfa_match(G.to_impl_shared(e), w))),
                   G.guarded(lambda: matcher.starts_with(G.to_impl_shared(e), w) is not None)]
            sm, sp = G.spec_match(e, tuple(w)), G.spec_shortest_prefix(e, tuple(w))
            chk.evaluations += 1
            chk.count("one operator object at several positions")
            if got != [[0, sm], [0, sm], [0, sp is not None]]:
                chk.violation({"pattern": G.show(e), "expr": e, "word": w, "shared_objects": True},
                              f"pattern {G.show(e)} built with ONE object for its repeated sub-pattern, on {w}: "
                              f"match/nfa_match/starts_with -> {got}, language says {sm}/{sm}/{sp is not None}")
            elif sm:
                chk.nontrivial.add(("shared", e, tuple(w)))
    # ---- one pattern object used again after it was changed in place: every call must answer for the pattern as it is now
    for _ in range(300 if tier == "quick" else 6000):
        e1 = G.random_expr(rng, rng.randint(1, 6))
        ex = G.to_impl(e1)
        w = [rng.choice([1, 2, 3]) for _ in range(rng.randint(0, 5))]
        first = [G.guarded(lambda: matcher.match(ex, w) is not None), G.guarded(lambda: matcher.starts_with(ex, w) is not None)]
        how = rng.random()
        if how < 0.4:
            extra = G.random_expr(rng, rng.randint(1, 3))
            ex.extend(G.to_impl(extra))
            e2 = e1 + extra
        elif how < 0.7 and len(e1) >= 2:
            k = rng.randrange(len(e1))
            del ex[k]
            e2 = e1[:k] + e1[k + 1:]
        else:
            e2 = G.random_expr(rng, rng.randint(1, 6))
            ex[:] = G.to_impl(e2)
        if not e2:
            continue
        got = [G.guarded(lambda: matcher.match(ex, w) is not None), G.guarded(lambda: bool(matcher.nfa_match(ex, w))),
               G.guarded(lambda: matcher.starts_with(ex, w) is not None)]
        sm, sp = G.spec_match(e2, tuple(w)), G.spec_shortest_prefix(e2, tuple(w))
        chk.evaluations += 1
        chk.count("pattern object reused after an in-place change")
        if got != [[0, sm], [0, sm], [0, sp is not None]]:
            chk.violation({"first_pattern": G.show(e1), "pattern": G.show(e2), "expr": e2, "word": w},
                          f"the pattern object first held {G.show(e1)} and was changed in place to {G.show(e2)}: on {w} "
                          f"match/nfa_match/starts_with -> {got}, the language of the current pattern says {sm}/{sm}/{sp is not None}")
        elif sm:
            chk.nontrivial.add(("reuse", e2, tuple(w)))
    chk.samples = [c for _, _, c in model_cases[1000:1004]] or chk.samples
    if model_ok:
        mism, err = eval_cases("C13", IMPORTS, [(m, o) for m, o, _ in model_cases], shard=500)
        chk.traces = len(model_cases)
        if err:
            chk.broken.append("correspondence evaluation failed: " + err[-400:])
        for i in mism[:5]:
            got = eval_one("C13", IMPORTS, model_cases[i][0])
            chk.broken.append(f"correspondence: engine model and implementation differ on {model_cases[i][2]}: "
                              f"model {got} vs implementation {canon_tree(model_cases[i][1])} "
                              "(order: match, nfa_match, starts_with)")
    else:
        chk.broken.append("engine model does not build; correspondence not run")
    nt = len(chk.nontrivial)
    chk.nontrivial = set(str(x) for x in list(chk.nontrivial)[:0]) | {str(i) for i in range(nt)}
    return chk.finish(
        rule=f"all pattern trees of size <= {max_size} over atoms a,b,c x all words of length <= {max_len} over "
             "{a,b,c} (+ short words containing a foreign letter d), exhaustively; plus random patterns of size 5..25 on "
             "random words of length <= 40.  Judged by an independent Brzozowski-derivative matcher; the Coq model is "
             "evaluated (vm_compute) on every pair for size <= 3 and on a sample beyond.  Non-trivial: >= 2 operators "
             "and a positive result.",
        assumptions=["Identity atoms over distinct integers are pairwise disjoint predicates"],
        extra={"exhaustive": True, "patterns": len(exprs) + len(rand)})
