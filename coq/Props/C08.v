(* C08 — interim *)
From Verif Require Import Base GenThresholds Codebase Json Writer.
Open Scope Z_scope.
Example C08_ex_parse :
  match build [47] [] with
  | OK cb => parse (to_json true (mkReport (Some [49]) [117] [116] None cb)) = Some (erase (to_doc (mkReport (Some [49]) [117] [116] None cb)))
  | Err _ => False end.
Proof. vm_compute. reflexivity. Qed.
