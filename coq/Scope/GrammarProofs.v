(* GrammarProofs.v — C01 for the programs of the canonical grammar of Scope/Grammar.v:
   every generated stream, with the generated descriptors, satisfies wf_descs and
   lexically_canonical; hence C01 holds for C and C++ with no hypothesis about headers or
   descriptors left. *)
From Verif Require Import Base Regex Token TokEngine Lex LexProofs Headers Blocks Pairing Fold ScanFile Spec HeaderSpec HeaderProofs Grammar.
From Verif Require Import GrammarProofsParen GrammarProofsBrace GrammarProofsHeaders.
From Coq Require Import Sorted Permutation.
Open Scope nat_scope.

Theorem canonical_wf : forall nested ts ds, canonical_program nested ts ds -> wf_descs ts ds.
Proof.
  intros nested ts ds H. unfold canonical_program in H. constructor.
  - pose proof (items_shape nested 0 ts ds H [] [] eq_refl) as HS.
    cbn [app] in HS. rewrite app_nil_r in HS. exact HS.
  - destruct (items_order nested 0 ts ds H) as [_ HS].
    intros i j di dj Hij Hi Hj. exact (StronglySorted_nth ord ds HS i j di dj Hij Hi Hj).
Qed.

Theorem canonical_lexical : forall nested ts ds, canonical_program nested ts ds -> lexically_canonical ts ds.
Proof. intros nested ts ds H. unfold lexically_canonical. eapply items_lexical_headers. exact H. Qed.

Theorem canonical_flat : forall ts ds, canonical_program false ts ds ->
  forall c d, In c ds -> In d ds -> ~ nested_in c d.
Proof.
  intros ts ds H c d Hc Hd Hn. unfold canonical_program in H.
  destruct (items_order false 0 ts ds H) as [HW _]. pose proof (items_flat_order 0 ts ds H) as HS.
  rewrite Forall_forall in HW. pose proof (HW c Hc) as Wc. pose proof (HW d Hd) as Wd.
  unfold within in Wc, Wd. unfold nested_in in Hn.
  apply In_nth_error in Hc as [i Hi]. apply In_nth_error in Hd as [j Hj].
  destruct (lt_eq_lt_dec i j) as [[Hlt|Heq]|Hgt].
  - pose proof (StronglySorted_nth after_ord ds HS i j c d Hlt Hi Hj) as Ha. unfold after_ord, after in Ha. lia.
  - subst j. rewrite Hi in Hj. injection Hj as <-. lia.
  - pose proof (StronglySorted_nth after_ord ds HS j i d c Hgt Hj Hi) as Ha. unfold after_ord, after in Ha. lia.
Qed.

(* end to end: no hypothesis about headers or descriptors is left *)
Theorem C01_cpp_grammar : forall toks ds, let code := filter_tokens false toks in
  canonical_program true code ds -> StronglySorted pos_lt code -> filter_nocl_comment_tokens toks = [] ->
  scan_file LCpp toks = expected_all code ds ds.
Proof.
  intros toks ds code Hcan HS Hnocl. apply C01_cpp_lexical; try assumption.
  - eapply canonical_wf; exact Hcan.
  - eapply canonical_lexical; exact Hcan.
Qed.

Theorem C01_c_grammar : forall toks ds, let code := filter_tokens false toks in
  canonical_program false code ds -> StronglySorted pos_lt code -> filter_nocl_comment_tokens toks = [] ->
  scan_file LC toks = expected_all code ds ds.
Proof.
  intros toks ds code Hcan HS Hnocl. apply C01_c_lexical; try assumption.
  - eapply canonical_wf; exact Hcan.
  - apply (canonical_flat code ds Hcan).
  - eapply canonical_lexical; exact Hcan.
Qed.

Print Assumptions canonical_wf.
Print Assumptions canonical_lexical.
Print Assumptions canonical_flat.
Print Assumptions C01_cpp_grammar.
Print Assumptions C01_c_grammar.

(* ---------- non-vacuity:  int f ( a ) { x = g ( 1 ) ; if ( x ) { y ; } } h ( ) { }  ---------- *)
Open Scope Z_scope.
Definition example_stream : list token :=
  toks [(0, [105;110;116]); (1, [102]); (2, [40]); (1, [97]); (2, [41]); (2, [123]);
        (1, [120]); (3, [61]); (1, [103]); (2, [40]); (7, [49]); (2, [41]); (2, [59]);
        (0, [105;102]); (2, [40]); (1, [120]); (2, [41]); (2, [123]); (1, [121]); (2, [59]); (2, [125]);
        (2, [125]);
        (1, [104]); (2, [40]); (2, [41]); (2, [123]); (2, [125])].
Definition example_descs : list fdesc := [mkFd 1 1 5 5 21; mkFd 22 22 25 25 26].
Close Scope Z_scope.

Lemma inner_of_plains l : forallb plain l = true -> inner l.
Proof.
  induction l as [|t l IH]; intros H; [constructor|].
  cbn [forallb] in H. apply andb_prop in H as [Ht Hl]. apply inner_plain; [exact Ht | apply IH; exact Hl].
Qed.

Example example_canonical : canonical_program true example_stream example_descs.
Proof.
  unfold canonical_program.
  let s := eval vm_compute in example_stream in change example_stream with s.
  unfold example_descs.
  (* int f ( a ) { ... } *)
  apply (items_func true 0 [_] _ [_; _; _] _ [_; _; _; _; _; _; _; _; _; _; _; _; _; _; _] _ [_; _; _; _; _] [] [_]);
    [reflexivity | reflexivity | reflexivity | | reflexivity | reflexivity | | discriminate | ].
  - apply groups_one. apply (group_intro _ [_] _); [reflexivity | apply inner_of_plains; reflexivity | reflexivity].
  - cbn [length Nat.add].
    (* x = g ( 1 ) ; *)
    apply (items_stmt true _ [_; _; _; _; _; _; _] _ []).
    + eexists [_; _; _; _; _; _], _. split; [reflexivity|]. split; [|reflexivity].
      apply inner_plain; [reflexivity|]. apply inner_plain; [reflexivity|]. apply inner_plain; [reflexivity|].
      apply (inner_group _ [_] _ []); [reflexivity | apply inner_of_plains; reflexivity | reflexivity | constructor].
    + cbn [length Nat.add].
      (* if ( x ) { y ; } *)
      apply (items_ctrl true _ _ [_; _; _] _ [_; _] _ [] [] []);
        [reflexivity | reflexivity | | reflexivity | reflexivity | | constructor].
      * right. apply groups_one.
        apply (group_intro _ [_] _); [reflexivity | apply inner_of_plains; reflexivity | reflexivity].
      * cbn [length Nat.add].
        apply (items_stmt true _ [_; _] [] []); [|constructor].
        eexists [_], _. split; [reflexivity|]. split; [apply inner_of_plains; reflexivity | reflexivity].
  - (* h ( ) { } *)
    cbn [length Nat.add].
    apply (items_func true 22 [] _ [_; _] _ [] _ [] [] []);
      [reflexivity | reflexivity | reflexivity | | reflexivity | reflexivity | constructor | discriminate | constructor].
    apply groups_one. apply (group_intro _ [] _); [reflexivity | constructor | reflexivity].
Qed.

(* the hypotheses of the end-to-end theorem hold of the example, and it has two functions *)
Example example_wf : wf_descs example_stream example_descs /\ lexically_canonical example_stream example_descs.
Proof.
  split; [eapply canonical_wf | eapply canonical_lexical]; exact example_canonical.
Qed.
