(* GrammarAllProofsCit.v — citems: the grammar of Scope/GrammarAll.v with parameters for side conditions and with the
   rule io_new split into its two cases; items_of l embeds into it.  All proofs about the programs of the grammar
   are done by induction on citems. *)
From Verif Require Import Base Regex Token TokEngine Headers Blocks Spec HeaderSpec LexShapes Grammar GrammarAll.
From Verif Require Import GrammarProofsParen GrammarProofsBrace GrammarAllProofsTok.
Open Scope nat_scope.

(* ---------- the grammar with side conditions ---------- *)
(* citems Pc Ph l: the grammar of GrammarAll.v with an arbitrary premise `Pc (words ++ cond)` in the control-statement
   rule (items_of has `no_throws_kw (words ++ cond)`) and an extra premise `Ph hd` in the function rule; the theorems
   below are proved for citems so that they apply to other restrictions of the grammar as well *)
Inductive citems (Pc Ph : list token -> Prop) (l : language) : nat -> list token -> list fdesc -> Prop :=
| ci_nil off : citems Pc Ph l off [] []
| ci_stmt off s r ds :
    simple_stmt s -> citems Pc Ph l (off + length s) r ds -> citems Pc Ph l off (s ++ r) ds
| ci_ctrl off kw words cond o body c r ds1 ds2 :
    is_keyword kw = true -> forallb word_tok words = true ->
    (cond = [] \/ (groups cond /\ is_name (last (kw :: words) kw) = false)) -> Pc (words ++ cond) ->
    is_lbrace o = true -> is_rbrace c = true ->
    citems Pc Ph l (off + 1 + length words + length cond + 1) body ds1 ->
    citems Pc Ph l (off + 1 + length words + length cond + 1 + length body + 1) r ds2 ->
    citems Pc Ph l off (kw :: words ++ cond ++ o :: body ++ c :: r) (ds1 ++ ds2)
| ci_label off kw colon r ds :
    is_keyword kw = true -> is_operator colon s_colon = true ->
    citems Pc Ph l (off + 2) r ds -> citems Pc Ph l off (kw :: colon :: r) ds
| ci_block off o body c r ds1 ds2 :
    is_lbrace o = true -> is_rbrace c = true ->
    citems Pc Ph l (off + 1) body ds1 ->
    citems Pc Ph l (off + 1 + length body + 1) r ds2 ->
    citems Pc Ph l off (o :: body ++ c :: r) (ds1 ++ ds2)
| ci_init off pre o flat c post semi r ds :
    forallb plain pre = true -> is_lbrace o = true -> inner flat -> is_rbrace c = true ->
    inner post -> is_symbol semi semicolon = true ->
    citems Pc Ph l (off + length pre + 1 + length flat + 1 + length post + 1) r ds ->
    citems Pc Ph l off (pre ++ o :: flat ++ c :: post ++ semi :: r) ds
| ci_cb off a tail o body c post semi r ds1 ds2 :
    is_jsts l = true -> a <> [] -> open_prefix a (length post) ->
    (is_lparen (last a o) = true \/ is_symbol (last a o) s_comma = true) ->
    cb_tail tail -> is_lbrace o = true -> is_rbrace c = true ->
    forallb is_rparen post = true -> is_symbol semi semicolon = true ->
    citems Pc Ph l (off + length a + length tail + 1) body ds1 ->
    citems Pc Ph l (off + length a + length tail + 1 + length body + 1 + length post + 1) r ds2 ->
    citems Pc Ph l off (a ++ tail ++ o :: body ++ c :: post ++ semi :: r) (ds1 ++ ds2)
| ci_new_items off pre kn nm gs o body c post semi r ds1 ds2 :
    (l = LJava \/ l = LCSharp) -> forallb plain pre = true ->
    kw_is kn kw_new = true -> is_name nm = true -> groups gs ->
    is_lbrace o = true -> is_rbrace c = true ->
    citems Pc Ph l (off + length pre + 2 + length gs + 1) body ds1 ->
    inner post -> is_symbol semi semicolon = true ->
    citems Pc Ph l (off + length pre + 2 + length gs + 1 + length body + 1 + length post + 1) r ds2 ->
    citems Pc Ph l off (pre ++ kn :: nm :: gs ++ o :: body ++ c :: post ++ semi :: r) (ds1 ++ ds2)
| ci_new_flat off pre kn nm gs o body c post semi r ds1 ds2 :
    (l = LJava \/ l = LCSharp) -> forallb plain pre = true ->
    kw_is kn kw_new = true -> is_name nm = true -> groups gs ->
    is_lbrace o = true -> is_rbrace c = true ->
    forallb plain body = true -> ds1 = [] ->
    inner post -> is_symbol semi semicolon = true ->
    citems Pc Ph l (off + length pre + 2 + length gs + 1 + length body + 1 + length post + 1) r ds2 ->
    citems Pc Ph l off (pre ++ kn :: nm :: gs ++ o :: body ++ c :: post ++ semi :: r) (ds1 ++ ds2)
| ci_func off pre hd nm_off hend_off o body c r ds1 ds2 :
    forallb (prefix_word l) pre = true -> fhead l hd nm_off hend_off -> Ph hd ->
    is_lbrace o = true -> is_rbrace c = true ->
    citems Pc Ph l (off + length pre + length hd + 1) body ds1 ->
    (lang_nested l = false -> ds1 = []) ->
    citems Pc Ph l (off + length pre + length hd + 1 + length body + 1) r ds2 ->
    citems Pc Ph l off (pre ++ hd ++ o :: body ++ c :: r)
          (mkFd (off + length pre + nm_off) (off + length pre) (off + length pre + hend_off)
                (off + length pre + length hd) (off + length pre + length hd + 1 + length body)
           :: ds1 ++ ds2).

Definition any_tokens : list token -> Prop := fun _ => True.

(* the grammar of GrammarAll.v is the instance "no `throws` keyword in a condition"; the rule io_new, whose body is
   given by a disjunction, is split into two rules (so that the generated induction principle covers the body) *)
Lemma items_of_citems l : forall off ts ds, items_of l off ts ds -> citems no_throws_kw any_tokens l off ts ds.
Proof.
  fix IH 4. intros off ts ds H.
  destruct H as [off|off s r ds Hs Hr
                |off kw words cond o body c r ds1 ds2 Hkw Hwords Hcond Hnt Ho Hc Hb Hr
                |off kw colon r ds Hkw Hcolon Hr
                |off o body c r ds1 ds2 Ho Hc Hb Hr
                |off pre o flat c post semi r ds Hpre Ho Hflat Hc Hpost Hsemi Hr
                |off a tail o body c post semi r ds1 ds2 Hjs Hane Hop Hlast Htail Ho Hc Hpost Hsemi Hb Hr
                |off pre kn nm gs o body c post semi r ds1 ds2 Hl Hpre Hkn Hnm Hgs Ho Hc Hbody Hpost Hsemi Hr
                |off pre hd nm_off hend_off o body c r ds1 ds2 Hpre Hhd Ho Hc Hb Hflat Hr].
  - apply ci_nil.
  - apply ci_stmt; [exact Hs | apply IH; exact Hr].
  - apply ci_ctrl; try assumption; apply IH; assumption.
  - apply ci_label; try assumption. apply IH; exact Hr.
  - apply ci_block; try assumption; apply IH; assumption.
  - apply ci_init; try assumption. apply IH; exact Hr.
  - apply ci_cb; try assumption; apply IH; assumption.
  - destruct Hbody as [Hb|[Hflat E]].
    + apply ci_new_items; try assumption; apply IH; assumption.
    + apply ci_new_flat; try assumption. apply IH; exact Hr.
  - apply ci_func; try assumption; [exact I | apply IH; exact Hb | apply IH; exact Hr].
Qed.

Lemma citems_weaken (Pc Ph Pc' Ph' : list token -> Prop) l off ts ds :
  (forall cond, Pc cond -> Pc' cond) -> (forall hd, Ph hd -> Ph' hd) ->
  citems Pc Ph l off ts ds -> citems Pc' Ph' l off ts ds.
Proof. intros HP HQ. induction 1; [apply ci_nil | apply ci_stmt | apply ci_ctrl | apply ci_label | apply ci_block | apply ci_init | apply ci_cb | apply ci_new_items | apply ci_new_flat | apply ci_func]; auto. Qed.

