(* C13Check.v — statements and axiom audit of the C13 theorems. *)
From Verif Require Import Base Regex Nfa Dfa ClosureProofs NfaProofs DfaProofs.
Check @closure_total.
Check @closure_spec.
Check @eps_reach_rt.
Check @to_set_canon.
Check @sorted_canon.
Check @build_total.
Check @build_correct.
Check @C13_nfa_match.
Check @C13_match.
Check @C13_starts_with.
Check @C13_build_dfa_total.
Print Assumptions closure_total.
Print Assumptions closure_spec.
Print Assumptions to_set_canon.
Print Assumptions build_total.
Print Assumptions build_correct.
Print Assumptions C13_nfa_match.
Print Assumptions C13_match.
Print Assumptions C13_starts_with.
Print Assumptions C13_build_dfa_total.

(* the instance observed by the differential harness (Identity atoms over Z) *)
Lemma id_peqb_spec : forall p q, id_peqb p q = true <-> p = q.
Proof. intros p q. apply Z.eqb_eq. Qed.
Lemma id_disjoint : forall ps, disjoint id_accepts ps.
Proof.
  intros ps x p q _ _ Hp Hq. unfold id_accepts in *.
  apply Z.eqb_eq in Hp. apply Z.eqb_eq in Hq. congruence.
Qed.
Theorem C13_id_match : forall e w, wf e = true ->
  (exists b, match_ id_peqb id_accept_st e w = OK b) /\
  (match_ id_peqb id_accept_st e w = OK true <-> lang id_accepts e w).
Proof. intros e w H. exact (C13_match id_peqb id_peqb_spec id_accepts e w H (id_disjoint _)). Qed.
Theorem C13_id_nfa_match : forall e w, wf e = true ->
  (exists b, nfa_match id_accepts e w = OK b) /\
  (nfa_match id_accepts e w = OK true <-> lang id_accepts e w).
Proof. intros e w H. exact (C13_nfa_match id_accepts e w H). Qed.
Theorem C13_id_starts_with : forall e w, wf e = true ->
  (exists r, starts_with id_peqb id_accept_st e w = OK r) /\
  (forall k, starts_with id_peqb id_accept_st e w = OK (Some k) <->
     (1 <= k <= length w)%nat /\ lang id_accepts e (firstn k w) /\
     forall j, (1 <= j < k)%nat -> ~ lang id_accepts e (firstn j w)).
Proof. intros e w H. exact (C13_starts_with id_peqb id_peqb_spec id_accepts e w H (id_disjoint _)). Qed.
Print Assumptions C13_id_match.
Print Assumptions C13_id_starts_with.
