(* GrammarAllProofsTS.v — TypeScript: the function shape with the follow-up "{" or ": type {"
   (cand_function, follow_rettype with until_brace_type) and the arrow shape, on the grammar of
   GrammarAll.v.  The return-type scan stops at an unbalanced ")" and at ";", so candidates inside
   conditions, parameter groups and statements are rejected.  The tokens of a return type (type_tok)
   have a text different from "(" and ")", which the scan would reject. *)
From Verif Require Import Base Regex Token TokEngine Headers Blocks Spec HeaderSpec LexShapes Grammar GrammarAll.
From Verif Require Import GrammarProofsParen GrammarProofsBrace GrammarProofsHeaders GrammarAllProofsTok.
From Verif Require Import GrammarAllProofsSel GrammarAllProofsCand GrammarAllProofsItems GrammarAllProofsJava.
From Coq Require Import Sorted Permutation.
Open Scope nat_scope.

(* ---------- until_brace_type ---------- *)
Lemma ubt_deep_plain t r (d : Z) : (0 < d)%Z -> is_lparen t = false -> is_rparen t = false ->
  until_brace_type (t :: r) d = until_brace_type r d.
Proof.
  intros Hd H1 H2. cbn [until_brace_type]. apply Z.ltb_lt in Hd. rewrite Hd.
  unfold is_lparen in H1. unfold is_rparen in H2. rewrite H1, H2. reflexivity.
Qed.
Lemma ubt_deep_lparen t r (d : Z) : (0 < d)%Z -> is_lparen t = true ->
  until_brace_type (t :: r) d = until_brace_type r (d + 1).
Proof.
  intros Hd H1. cbn [until_brace_type]. apply Z.ltb_lt in Hd. rewrite Hd. unfold is_lparen in H1. rewrite H1. reflexivity.
Qed.
Lemma ubt_deep_rparen t r (d : Z) : (0 < d)%Z -> is_rparen t = true ->
  until_brace_type (t :: r) d = until_brace_type r (d - 1).
Proof.
  intros Hd H2. cbn [until_brace_type]. apply Z.ltb_lt in Hd. rewrite Hd.
  pose proof (rparen_not_lparen t H2) as H1. unfold is_lparen in H1. unfold is_rparen in H2. rewrite H1, H2. reflexivity.
Qed.

Lemma ubt_inner_deep g : inner g -> forall (d : Z) rest, (0 < d)%Z ->
  until_brace_type (g ++ rest) d = until_brace_type rest d.
Proof.
  induction 1 as [|t r Ht Hr IH|o g c r Ho Hg IHg Hc Hr IHr]; intros d rest Hd.
  - reflexivity.
  - apply plain_inv in Ht as (H1 & H2 & _ & _). cbn [app]. rewrite ubt_deep_plain by assumption. apply IH. exact Hd.
  - replace ((o :: g ++ c :: r) ++ rest) with (o :: g ++ c :: (r ++ rest)) by (norm_app; reflexivity).
    rewrite ubt_deep_lparen by assumption. rewrite IHg by lia. rewrite ubt_deep_rparen by (assumption || lia).
    replace (d + 1 - 1)%Z with d by lia. apply IHr. exact Hd.
Qed.

Lemma ubt_top t r : is_lparen t = false -> until_brace_type (t :: r) 0 =
  if is_symbol t lbrace then true
  else if pystr_eqb (t_value t) lbrace || pystr_eqb (t_value t) s_semi
          || pystr_eqb (t_value t) lparen || pystr_eqb (t_value t) rparen then false
  else until_brace_type r 0.
Proof. intros H. cbn [until_brace_type]. change (0 <? 0)%Z with false. cbv iota. unfold is_lparen in H. rewrite H. reflexivity. Qed.

Lemma ubt_top_lparen t r : is_lparen t = true -> until_brace_type (t :: r) 0 = until_brace_type r 1.
Proof. intros H. cbn [until_brace_type]. change (0 <? 0)%Z with false. cbv iota. unfold is_lparen in H. rewrite H. reflexivity. Qed.

Lemma closer_text t : closer t = true ->
  pystr_eqb (t_value t) lbrace || pystr_eqb (t_value t) s_semi || pystr_eqb (t_value t) lparen || pystr_eqb (t_value t) rparen = true.
Proof.
  unfold closer. intros H. apply orb_prop in H as [H|H].
  - apply symbol_value in H. rewrite H. apply orb_true_r.
  - apply symbol_value in H. change semicolon with s_semi in H. rewrite H. rewrite orb_true_r. reflexivity.
Qed.

(* the scan of a return type inside an inner sequence closed by ")" or ";" fails *)
Lemma ubt_inner g : inner g -> forall B, hd_ok closer B -> until_brace_type (g ++ B) 0 = false.
Proof.
  induction 1 as [|t r Ht Hr IH|o g c r Ho Hg IHg Hc Hr IHr]; intros B HB.
  - cbn [app]. destruct B as [|b B]; [reflexivity|]. cbn [hd_ok] in HB.
    pose proof (closer_inv b HB) as (_ & H1 & H2 & _ & _). rewrite ubt_top by exact H2.
    unfold is_lbrace in H1. rewrite H1, (closer_text b HB). reflexivity.
  - apply plain_inv in Ht as (H1 & _ & H3 & _). cbn [app]. rewrite ubt_top by exact H1.
    unfold is_lbrace in H3. rewrite H3.
    destruct (pystr_eqb (t_value t) lbrace || pystr_eqb (t_value t) s_semi
              || pystr_eqb (t_value t) lparen || pystr_eqb (t_value t) rparen); [reflexivity|].
    apply IH. exact HB.
  - replace ((o :: g ++ c :: r) ++ B) with (o :: g ++ c :: (r ++ B)) by (norm_app; reflexivity).
    rewrite ubt_top_lparen by exact Ho. rewrite (ubt_inner_deep g Hg 1%Z) by lia.
    rewrite ubt_deep_rparen by (assumption || lia). replace (1 - 1)%Z with 0%Z by lia. apply IHr. exact HB.
Qed.

Lemma ubt_isuf v : isuf v -> until_brace_type v 0 = false.
Proof. intros (g & B & -> & Hg & HB). apply ubt_inner; assumption. Qed.

Lemma follow_rettype_unfold w j :
  follow_rettype w j = sym_at w j lbrace || (op_at w j s_colon && until_brace_type (skipn (S j) w) 0).
Proof. reflexivity. Qed.

Lemma isuf_rejects_rettype : isuf_rejects follow_rettype.
Proof.
  intros v (g & B & -> & Hg & HB).
  destruct (inner_run_not_lbrace g Hg B (closer_stop B HB)) as [Hle Hsym].
  rewrite follow_rettype_unfold, Hsym. cbn [orb].
  set (e := groups_len (g ++ B) 0) in *.
  destruct (Nat.eq_dec e (length g)) as [Ee|Ne].
  - assert (Eo : op_at (g ++ B) e s_colon = false).
    { unfold op_at. rewrite Ee, nth_error_app2 by lia. rewrite Nat.sub_diag. destruct B as [|b B]; [reflexivity|].
      cbn [nth_error hd_ok] in *. unfold closer in HB. apply orb_prop in HB as [HB|HB]; eapply symbol_not_operator; exact HB. }
    rewrite Eo. reflexivity.
  - rewrite (ubt_isuf (skipn (S e) (g ++ B))); [apply andb_false_r|].
    apply isuf_skipn; [exact Hg | exact HB | lia].
Qed.

Lemma good_function_rettype l : good l cand_function follow_rettype.
Proof. apply good_function_f; [apply fshift_rettype | apply isuf_rejects_rettype]. Qed.

(* ---------- no candidate in a clause (no parenthesis before the "{"): chain of GrammarAllProofsCand.v ---------- *)
Lemma clause_chain cl o B : forallb clause_tok cl = true -> is_lbrace o = true -> chain (cl ++ o :: B).
Proof.
  intros Hcl Ho. induction cl as [|t cl IH]; [apply chain_end; left; exact Ho|].
  cbn [forallb] in Hcl. apply andb_prop in Hcl as [Ht Hcl]. cbn [app]. apply chain_cons; [|apply IH; exact Hcl].
  apply clause_tok_plain in Ht. apply plain_inv in Ht. apply Ht.
Qed.

(* an operator followed by clause tokens, then "{" *)
Lemma clause_no_acc c f t cl o B : cshift c -> fshift f -> (forall W, chain W -> c W 0 = None) ->
  is_lparen t = false -> forallb clause_tok cl = true -> is_lbrace o = true ->
  no_acc c f (t :: cl) (o :: B).
Proof.
  intros Hc Hf Hch Ht Hcl Ho.
  assert (Hno : forall cl', forallb clause_tok cl' = true -> no_acc c f cl' (o :: B)).
  { induction cl' as [|x cl' IH]; intros Hcl'; [apply no_acc_nil|].
    apply (no_acc_cons c f Hc Hf).
    - apply acc_cand_none. apply Hch. apply (clause_chain (x :: cl') o B Hcl' Ho).
    - cbn [forallb] in Hcl'. apply andb_prop in Hcl' as [_ Hcl']. apply IH. exact Hcl'. }
  apply (no_acc_cons c f Hc Hf); [|apply Hno; exact Hcl].
  apply acc_cand_none. apply Hch. apply chain_cons; [exact Ht | apply clause_chain; assumption].
Qed.

(* ---------- the return type accepted ---------- *)
Lemma ubt_type ty o B : forallb type_tok ty = true -> is_lbrace o = true ->
  until_brace_type (ty ++ o :: B) 0 = true.
Proof.
  intros Hty Ho. induction ty as [|t ty IH].
  - cbn [app]. rewrite ubt_top by (apply lbrace_not_lparen; exact Ho). unfold is_lbrace in Ho. rewrite Ho. reflexivity.
  - cbn [forallb] in Hty. apply andb_prop in Hty as [Ht Hty].
    unfold type_tok in Ht. apply andb_prop in Ht as [Ht Q2]. apply andb_prop in Ht as [Ht Q1].
    unfold clause_tok in Ht. apply andb_prop in Ht as [Ht H2]. apply andb_prop in Ht as [Hp H1].
    apply negb_true_iff in H1, H2, Q1, Q2. apply plain_inv in Hp as (P1 & P2 & P3 & _).
    cbn [app]. rewrite ubt_top by exact P1. unfold is_lbrace in P3. rewrite P3.
    change s_semi with semicolon. rewrite H2, H1, Q1, Q2. cbn [orb]. apply IH; assumption.
Qed.

Lemma op_at_app_hd P t R s : op_at (P ++ t :: R) (length P) s = is_operator t s.
Proof. unfold op_at. rewrite nth_error_app2 by lia. rewrite Nat.sub_diag. reflexivity. Qed.

(* follow_rettype at the end of the groups: "{" directly, or ": type {" *)
Lemma rettype_brace gs o B : is_lbrace o = true -> follow_rettype (gs ++ o :: B) (length gs) = true.
Proof. intros Ho. rewrite follow_rettype_unfold, sym_at_app_hd. unfold is_lbrace in Ho. rewrite Ho. reflexivity. Qed.

Lemma rettype_type gs colon ty o B :
  is_operator colon s_colon = true -> forallb type_tok ty = true -> is_lbrace o = true ->
  follow_rettype (gs ++ colon :: ty ++ o :: B) (length gs) = true.
Proof.
  intros Hco Hty Ho. rewrite follow_rettype_unfold, op_at_app_hd, Hco, skipn_app_hd, (ubt_type ty o B Hty Ho).
  apply orb_true_r.
Qed.

(* ---------- every head is selected by exactly one of the two TypeScript selections ---------- *)
Lemma ar_no_ret B W A : no_acc cand_arrow follow_brace A (W ++ B) -> no_acc cand_arrow follow_brace W B ->
  no_acc cand_arrow follow_brace (A ++ W) B.
Proof. apply (no_acc_app _ _ cshift_arrow fshift_brace). Qed.

Theorem head_split_typescript :
  head_split any_tokens LTypeScript cand_function follow_rettype cand_arrow follow_brace.
Proof.
  intros hd n h o B off Hhd _ Ho.
  pose proof (good_function_rettype LTypeScript) as GF.
  destruct (lbrace_nlp o B Ho) as [Hnlp Hne].
  destruct Hhd as [nm gs Hcf Hnm Hgs | nm gs thr clause HJ | nm gs Hjs Hnm Hgs | fk nm gs Hjs Hfk Hnm Hgs
                  | nm gs colon ty HT Hnm Hgs Hco Hty | fk nm gs colon ty HT Hfk Hnm Hgs Hco Hty
                  | nm eq gs arrow Hjs Hnm Heq Hgs Har | nm eq ak gs arrow Hjs Hnm Heq Hak Hgs Har
                  | ck nm eq gs arrow Hjs Hck Hnm Heq Hgs Har | ck nm eq ak gs arrow Hjs Hck Hnm Heq Hak Hgs Har];
    try discriminate.
  - (* name groups *)
    left. split.
    + apply (Seg_head_eq _ _ cshift_function fshift_rettype off (nm :: gs) (o :: B) (nm :: gs ++ o :: B) 0 (S (length gs)));
        [|reflexivity | reflexivity | reflexivity | lia].
      apply method_head_f; try assumption. rewrite (fshift_S _ _ _ _ fshift_rettype). apply rettype_brace. exact Ho.
    + apply (Seg_none _ _ cshift_arrow fshift_brace). apply ar_no_method; assumption.
  - (* function name groups *)
    left. split.
    + apply (Seg_head_eq _ _ cshift_function fshift_rettype off (fk :: nm :: gs) (o :: B) (fk :: nm :: gs ++ o :: B) 1 (S (S (length gs))));
        [|reflexivity | reflexivity | reflexivity | lia].
      apply function_head_f; try assumption. rewrite !(fshift_S _ _ _ _ fshift_rettype). apply rettype_brace. exact Ho.
    + apply (Seg_none _ _ cshift_arrow fshift_brace). apply ar_no_function; assumption.
  - (* name groups : type *)
    assert (Hcl : is_lparen colon = false) by (eapply operator_not_symbol; exact Hco).
    pose proof (type_toks_clause ty Hty) as Hcty.
    left. split.
    + change (nm :: gs ++ colon :: ty) with ((nm :: gs) ++ colon :: ty).
      change [mkHeader (off + 0) off (off + (1 + length gs))] with ([mkHeader (off + 0) off (off + (1 + length gs))] ++ []).
      apply Seg_app.
      * apply (Seg_head_eq _ _ cshift_function fshift_rettype off (nm :: gs) ((colon :: ty) ++ o :: B)
                 (nm :: gs ++ colon :: ty ++ o :: B) 0 (S (length gs)));
          [|reflexivity | reflexivity | reflexivity | lia].
        apply method_head_f; try assumption; [cbn [hd_ok]; unfold nlp; rewrite Hcl; reflexivity | discriminate|].
        rewrite (fshift_S _ _ _ _ fshift_rettype). apply rettype_type; assumption.
      * apply (Seg_none _ _ cshift_function fshift_rettype).
        apply clause_no_acc; try assumption; [apply cshift_function | apply fshift_rettype | apply chain_function].
    + apply (Seg_none _ _ cshift_arrow fshift_brace).
      change (nm :: gs ++ colon :: ty) with ((nm :: gs) ++ colon :: ty). apply ar_no_ret.
      * apply ar_no_method; assumption.
      * apply clause_no_acc; try assumption; [apply cshift_arrow | apply fshift_brace | apply chain_arrow].
  - (* function name groups : type *)
    assert (Hcl : is_lparen colon = false) by (eapply operator_not_symbol; exact Hco).
    pose proof (type_toks_clause ty Hty) as Hcty.
    left. split.
    + change (fk :: nm :: gs ++ colon :: ty) with ((fk :: nm :: gs) ++ colon :: ty).
      change [mkHeader (off + 1) off (off + (2 + length gs))] with ([mkHeader (off + 1) off (off + (2 + length gs))] ++ []).
      apply Seg_app.
      * apply (Seg_head_eq _ _ cshift_function fshift_rettype off (fk :: nm :: gs) ((colon :: ty) ++ o :: B)
                 (fk :: nm :: gs ++ colon :: ty ++ o :: B) 1 (S (S (length gs))));
          [|reflexivity | reflexivity | reflexivity | lia].
        apply function_head_f; try assumption; [cbn [hd_ok]; unfold nlp; rewrite Hcl; reflexivity | discriminate|].
        rewrite !(fshift_S _ _ _ _ fshift_rettype). apply rettype_type; assumption.
      * apply (Seg_none _ _ cshift_function fshift_rettype).
        apply clause_no_acc; try assumption; [apply cshift_function | apply fshift_rettype | apply chain_function].
    + apply (Seg_none _ _ cshift_arrow fshift_brace).
      change (fk :: nm :: gs ++ colon :: ty) with ((fk :: nm :: gs) ++ colon :: ty). apply ar_no_ret.
      * apply ar_no_function; assumption.
      * apply clause_no_acc; try assumption; [apply cshift_arrow | apply fshift_brace | apply chain_arrow].
  - (* name = groups => *)
    right. split.
    + apply (Seg_none _ _ cshift_function fshift_rettype).
      apply (fn_no_arrow LTypeScript follow_rettype nm eq [] gs arrow _ GF); auto.
    + apply (Seg_head_eq _ _ cshift_arrow fshift_brace off _ (o :: B) (nm :: eq :: [] ++ gs ++ arrow :: o :: B) 0
               (S (2 + length (@nil token) + length gs)));
        [apply arrow_head; auto | norm_app; reflexivity | norm_len; lia | norm_len; lia | lia].
  - (* name = async groups => *)
    right. split.
    + apply (Seg_none _ _ cshift_function fshift_rettype).
      apply (fn_no_arrow LTypeScript follow_rettype nm eq [ak] gs arrow _ GF); eauto.
    + apply (Seg_head_eq _ _ cshift_arrow fshift_brace off _ (o :: B) (nm :: eq :: [ak] ++ gs ++ arrow :: o :: B) 0
               (S (2 + length [ak] + length gs)));
        [apply arrow_head; eauto | norm_app; reflexivity | norm_len; lia | norm_len; lia | lia].
  - (* const name = groups => *)
    right. split.
    + apply (Seg_none _ _ cshift_function fshift_rettype). apply fn_no_const; [apply fshift_rettype | exact Hck|].
      apply (fn_no_arrow LTypeScript follow_rettype nm eq [] gs arrow _ GF); auto.
    + apply (Seg_head_eq _ _ cshift_arrow fshift_brace off _ (o :: B) (ck :: nm :: eq :: [] ++ gs ++ arrow :: o :: B) 1
               (S (S (2 + length (@nil token) + length gs))));
        [apply const_arrow_head; auto | norm_app; reflexivity | norm_len; lia | norm_len; lia | lia].
  - (* const name = async groups => *)
    right. split.
    + apply (Seg_none _ _ cshift_function fshift_rettype). apply fn_no_const; [apply fshift_rettype | exact Hck|].
      apply (fn_no_arrow LTypeScript follow_rettype nm eq [ak] gs arrow _ GF); eauto.
    + apply (Seg_head_eq _ _ cshift_arrow fshift_brace off _ (o :: B) (ck :: nm :: eq :: [ak] ++ gs ++ arrow :: o :: B) 1
               (S (S (2 + length [ak] + length gs))));
        [apply const_arrow_head; eauto | norm_app; reflexivity | norm_len; lia | norm_len; lia | lia].
Qed.

Theorem canonical_typescript_citems Pc ts ds : citems Pc any_tokens LTypeScript 0 ts ds ->
  Permutation (lexical_headers_TypeScript ts) (map header_of ds).
Proof.
  intros H. unfold lexical_headers_TypeScript.
  exact (canonical_two_shapes Pc any_tokens LTypeScript cand_function follow_rettype cand_arrow follow_brace
           (good_oksel _ _ _ _ (good_function_rettype LTypeScript)) (good_oksel _ _ _ _ (good_arrow LTypeScript))
           head_split_typescript ts ds H).
Qed.

Theorem canonical_typescript ts ds : canonical_program_of LTypeScript ts ds ->
  Permutation (lexical_headers_TypeScript ts) (map header_of ds).
Proof. intros H. apply (canonical_typescript_citems no_throws_kw). apply items_of_citems. exact H. Qed.

Print Assumptions canonical_typescript.
