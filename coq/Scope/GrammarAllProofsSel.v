(* GrammarAllProofsSel.v — the leftmost non-overlapping selection LexShapes.select_shape computed
   segment by segment: accepted candidates (candidate + follow-up test), invariance under a prefix,
   segments without accepted candidate, segments that are exactly one accepted candidate (the overlap
   rule skips every other start inside it), composition. *)
From Verif Require Import Base Regex Token TokEngine Headers Blocks Spec HeaderSpec LexShapes Grammar GrammarAll.
From Verif Require Import GrammarProofsParen GrammarProofsBrace GrammarProofsHeaders GrammarAllProofsTok.
Open Scope nat_scope.

(* ---------- accepted candidates ---------- *)
Definition acc (c : cand_fn) (f : follow_fn) (w : list token) (i : nat) : option (nat * nat) :=
  match c w i with Some (n, j) => if f w j then Some (n, j) else None | None => None end.

Lemma select_shape_acc c f w i r le :
  select_shape c f w (i :: r) le =
  match acc c f w i with
  | Some (n, j) => if Nat.leb le i then mkHeader n i j :: select_shape c f w r j else select_shape c f w r le
  | None => select_shape c f w r le
  end.
Proof.
  unfold acc. cbn [select_shape]. destruct (c w i) as [[n j]|]; [|reflexivity].
  destruct (f w j); reflexivity.
Qed.

(* starts before the end of the last selected header are skipped *)
Lemma select_shape_skip c f w : forall l rest le, (forall i, In i l -> i < le) ->
  select_shape c f w (l ++ rest) le = select_shape c f w rest le.
Proof.
  induction l as [|i l IH]; intros rest le H; [reflexivity|].
  cbn [app]. rewrite select_shape_acc.
  assert (Hi : i < le) by (apply H; left; reflexivity).
  assert (E : Nat.leb le i = false) by (apply Nat.leb_gt; exact Hi).
  rewrite E.
  assert (IH' : select_shape c f w (l ++ rest) le = select_shape c f w rest le)
    by (apply IH; intros k Hk; apply H; right; exact Hk).
  destruct (acc c f w i) as [[n j]|]; exact IH'.
Qed.

Lemma select_shape_none c f w : forall l rest le, (forall i, In i l -> acc c f w i = None) ->
  select_shape c f w (l ++ rest) le = select_shape c f w rest le.
Proof.
  induction l as [|i l IH]; intros rest le H; [reflexivity|].
  cbn [app]. rewrite select_shape_acc. rewrite (H i) by (left; reflexivity).
  apply IH. intros k Hk. apply H. right. exact Hk.
Qed.

(* ---------- invariance under a prefix ---------- *)
Definition shiftn (k : nat) (r : option (nat * nat)) : option (nat * nat) :=
  match r with Some (n, j) => Some (k + n, k + j) | None => None end.
Definition cshift (c : cand_fn) : Prop := forall P l i, c (P ++ l) (length P + i) = shiftn (length P) (c l i).
Definition fshift (f : follow_fn) : Prop := forall P l j, f (P ++ l) (length P + j) = f l j.

(* one step *)
Definition shift1 (r : option (nat * nat)) : option (nat * nat) :=
  match r with Some (n, j) => Some (S n, S j) | None => None end.
Definition step_shift (c : cand_fn) : Prop := forall t ts i, c (t :: ts) (S i) = shift1 (c ts i).

Lemma step_cshift c : step_shift c -> cshift c.
Proof.
  intros Hc P l i. induction P as [|t P IH].
  - cbn [app length Nat.add]. destruct (c l i) as [[n j]|]; reflexivity.
  - cbn [app length Nat.add]. rewrite Hc, IH. destruct (c l i) as [[n j]|]; reflexivity.
Qed.

Lemma groups_end_cons t ts p :
  groups_end (t :: ts) (S p) = match groups_end ts p with Some j => Some (S j) | None => None end.
Proof.
  unfold groups_end. change (sym_at (t :: ts) (S p) lparen) with (sym_at ts p lparen).
  destruct (sym_at ts p lparen); reflexivity.
Qed.

Ltac shift_blocks t ts :=
  repeat match goal with
  | |- context [kw_at (t :: ts) (S ?k) ?s] => change (kw_at (t :: ts) (S k) s) with (kw_at ts k s)
  | |- context [name_at (t :: ts) (S ?k)] => change (name_at (t :: ts) (S k)) with (name_at ts k)
  | |- context [op_at (t :: ts) (S ?k) ?s] => change (op_at (t :: ts) (S k) s) with (op_at ts k s)
  | |- context [sym_at (t :: ts) (S ?k) ?s] => change (sym_at (t :: ts) (S k) s) with (sym_at ts k s)
  | |- context [groups_end (t :: ts) (S ?k)] => rewrite (groups_end_cons t ts k)
  end.

Lemma step_plain : step_shift cand_plain.
Proof.
  intros t ts i. unfold cand_plain. shift_blocks t ts.
  destruct (name_at ts i); [|reflexivity]. destruct (groups_end ts (S i)); reflexivity.
Qed.

Lemma step_function : step_shift cand_function.
Proof.
  intros t ts i. unfold cand_function. shift_blocks t ts.
  destruct (kw_at ts i s_function); shift_blocks t ts;
    (match goal with |- context [name_at ts ?k] => destruct (name_at ts k) end; [|reflexivity]);
    (match goal with |- context [groups_end ts ?k] => destruct (groups_end ts k) end; reflexivity).
Qed.

Lemma step_arrow : step_shift cand_arrow.
Proof.
  intros t ts i. unfold cand_arrow. shift_blocks t ts.
  destruct (kw_at ts i s_const); shift_blocks t ts;
    (match goal with |- context [if ?b then _ else None] => destruct b end; [|reflexivity]);
    (match goal with |- context [if ?b then _ else _] => destruct b end; shift_blocks t ts);
    (match goal with |- context [groups_end ts ?k] => destruct (groups_end ts k) as [j|] end; [|reflexivity]);
    shift_blocks t ts; destruct (sym_at ts j s_arrow); reflexivity.
Qed.

Lemma cshift_plain : cshift cand_plain.
Proof. apply step_cshift, step_plain. Qed.
Lemma cshift_function : cshift cand_function.
Proof. apply step_cshift, step_function. Qed.
Lemma cshift_arrow : cshift cand_arrow.
Proof. apply step_cshift, step_arrow. Qed.

Lemma kw_at_shift P l j s : kw_at (P ++ l) (length P + j) s = kw_at l j s.
Proof. unfold kw_at. rewrite nth_error_app2 by lia. replace (length P + j - length P) with j by lia. reflexivity. Qed.
Lemma op_at_shift P l j s : op_at (P ++ l) (length P + j) s = op_at l j s.
Proof. unfold op_at. rewrite nth_error_app2 by lia. replace (length P + j - length P) with j by lia. reflexivity. Qed.
Lemma skipn_shift {A} (P l : list A) j : skipn (length P + j) (P ++ l) = skipn j l.
Proof.
  rewrite skipn_app. rewrite skipn_all2 by lia. cbn [app]. f_equal. lia.
Qed.

Lemma fshift_brace : fshift follow_brace.
Proof. intros P l j. unfold follow_brace. apply sym_at_shift. Qed.
Lemma fshift_throws : fshift follow_throws.
Proof.
  intros P l j. unfold follow_throws. rewrite sym_at_shift, kw_at_shift.
  replace (S (length P + j)) with (length P + S j) by lia. rewrite skipn_shift. reflexivity.
Qed.
Lemma fshift_rettype : fshift follow_rettype.
Proof.
  intros P l j. unfold follow_rettype. rewrite sym_at_shift, op_at_shift.
  replace (S (length P + j)) with (length P + S j) by lia. rewrite skipn_shift. reflexivity.
Qed.

(* the candidate that never applies (second selection of the languages with one pattern) *)
Definition cand_never : cand_fn := fun _ _ => None.
Lemma cshift_never : cshift cand_never.
Proof. intros P l i. reflexivity. Qed.
Lemma select_never f w : forall l le, select_shape cand_never f w l le = [].
Proof. induction l as [|i l IH]; intros le; [reflexivity|]. cbn [select_shape cand_never]. apply IH. Qed.

Section Selection.
  Variable c : cand_fn.
  Variable f : follow_fn.
  Hypothesis Hc : cshift c.
  Hypothesis Hf : fshift f.

  Lemma acc_shift P l i : acc c f (P ++ l) (length P + i) = shiftn (length P) (acc c f l i).
  Proof.
    unfold acc. rewrite Hc. destruct (c l i) as [[n j]|]; [|reflexivity].
    cbn [shiftn]. rewrite Hf. destruct (f l j); reflexivity.
  Qed.

  (* ---------- segments without accepted candidate ---------- *)
  Definition no_acc (A B : list token) : Prop := forall k, k < length A -> acc c f (A ++ B) k = None.

  Lemma no_acc_nil B : no_acc [] B.
  Proof. intros k Hk. cbn [length] in Hk. lia. Qed.

  Lemma no_acc_app A1 A2 B : no_acc A1 (A2 ++ B) -> no_acc A2 B -> no_acc (A1 ++ A2) B.
  Proof.
    intros H1 H2 k Hk. rewrite <- app_assoc. destruct (lt_dec k (length A1)) as [Hlt|Hge].
    - apply H1. exact Hlt.
    - replace k with (length A1 + (k - length A1)) by lia. rewrite acc_shift.
      rewrite H2 by (rewrite app_length in Hk; lia). reflexivity.
  Qed.

  Lemma no_acc_single t B : acc c f (t :: B) 0 = None -> no_acc [t] B.
  Proof. intros H k Hk. cbn [length] in Hk. assert (k = 0) by lia. subst k. exact H. Qed.

  Lemma no_acc_cons t A B : acc c f (t :: A ++ B) 0 = None -> no_acc A B -> no_acc (t :: A) B.
  Proof.
    intros H1 H2. change (t :: A) with ([t] ++ A). apply no_acc_app; [|exact H2].
    apply no_acc_single. exact H1.
  Qed.

  (* every suffix (inside A) is rejected at its head *)
  Lemma no_acc_suffixes A B :
    (forall k, k < length A -> acc c f (skipn k (A ++ B)) 0 = None) -> no_acc A B.
  Proof.
    intros H k Hk.
    assert (Hlen : length (firstn k (A ++ B)) = k) by (rewrite firstn_length, app_length; lia).
    pose proof (acc_shift (firstn k (A ++ B)) (skipn k (A ++ B)) 0) as E.
    rewrite firstn_skipn, Hlen, Nat.add_0_r in E. rewrite E, (H k Hk). reflexivity.
  Qed.

  (* ---------- segments ---------- *)
  Definition Seg (off : nat) (A B : list token) (hs : list header) : Prop :=
    forall P rest le, length P = off -> le <= off ->
    exists le', le' <= off + length A /\
      select_shape c f (P ++ A ++ B) (seq off (length A) ++ rest) le =
      hs ++ select_shape c f (P ++ A ++ B) rest le'.

  Lemma Seg_nil off B : Seg off [] B [].
  Proof. intros P rest le HP Hle. exists le. split; [lia | reflexivity]. Qed.

  Lemma Seg_app off A1 A2 B h1 h2 :
    Seg off A1 (A2 ++ B) h1 -> Seg (off + length A1) A2 B h2 -> Seg off (A1 ++ A2) B (h1 ++ h2).
  Proof.
    intros S1 S2 P rest le HP Hle.
    destruct (S1 P (seq (off + length A1) (length A2) ++ rest) le HP Hle) as (le1 & L1 & E1).
    assert (HP2 : length (P ++ A1) = off + length A1) by (rewrite app_length; lia).
    destruct (S2 (P ++ A1) rest le1 HP2 L1) as (le2 & L2 & E2).
    exists le2. split; [rewrite app_length; lia|].
    rewrite app_length, seq_app. rewrite <- ?app_assoc.
    rewrite <- ?app_assoc in E2. rewrite E1, E2. reflexivity.
  Qed.

  Lemma Seg_none off A B : no_acc A B -> Seg off A B [].
  Proof.
    intros H P rest le HP Hle. exists le. split; [lia|]. cbn [app].
    apply select_shape_none. intros i Hi. apply in_seq in Hi.
    replace i with (length P + (i - off)) by lia. rewrite acc_shift.
    rewrite (H (i - off)) by lia. reflexivity.
  Qed.

  (* the segment is exactly one accepted candidate *)
  Lemma Seg_head off A B n :
    0 < length A -> acc c f (A ++ B) 0 = Some (n, length A) ->
    Seg off A B [mkHeader (off + n) off (off + length A)].
  Proof.
    intros HA Hacc P rest le HP Hle. exists (off + length A). split; [lia|].
    pose proof (acc_shift P (A ++ B) 0) as E. rewrite HP, Nat.add_0_r, Hacc in E. cbn [shiftn] in E.
    destruct (length A) as [|m] eqn:EA; [lia|]. cbn [seq app].
    rewrite select_shape_acc, E. rewrite (leb_correct _ _ Hle). cbn [app].
    f_equal. apply select_shape_skip. intros i Hi. apply in_seq in Hi. lia.
  Qed.

  Lemma Seg_shape ts hs : Seg 0 ts [] hs -> shape_headers c f ts = hs.
  Proof.
    intros H. destruct (H [] [] 0 eq_refl (le_n 0)) as (le' & _ & E).
    cbn [app] in E. rewrite !app_nil_r in E. unfold shape_headers. exact E.
  Qed.
End Selection.

Lemma Seg_never f off A B : Seg cand_never f off A B [].
Proof.
  intros P rest le HP Hle. exists le. split; [lia|]. rewrite !select_never. reflexivity.
Qed.

(* ---------- the C-family specification as a shape selection ---------- *)
Lemma header_at_acc ts i : header_at ts i = option_map snd (acc cand_plain follow_brace ts i).
Proof.
  unfold header_at, acc, cand_plain, cand_end, name_at, groups_end, follow_brace. unfold sym_at at 2.
  destruct (nth_error ts i) as [t|]; [|reflexivity].
  destruct (is_name t); cbn [andb].
  - destruct (nth_error ts (S i)) as [p|]; [|reflexivity].
    destruct (is_symbol p lparen); [|reflexivity].
    destruct (sym_at ts (S i + groups_len (skipn (S i) ts) 0) lbrace); reflexivity.
  - destruct (nth_error ts (S i)); reflexivity.
Qed.

Lemma cand_plain_name ts i n j : cand_plain ts i = Some (n, j) -> n = i.
Proof.
  unfold cand_plain. destruct (name_at ts i); [|discriminate].
  destruct (groups_end ts (S i)); [|discriminate]. intros [= <- _]. reflexivity.
Qed.

Lemma select_headers_shape ts : forall l le,
  select_headers ts l le = select_shape cand_plain follow_brace ts l le.
Proof.
  induction l as [|i l IH]; intros le; [reflexivity|].
  rewrite select_shape_acc. cbn [select_headers]. rewrite header_at_acc.
  unfold acc. destruct (cand_plain ts i) as [[n j]|] eqn:E; cbn [option_map]; [|apply IH].
  apply cand_plain_name in E. subst n.
  destruct (follow_brace ts j); cbn [option_map snd]; [|apply IH].
  destruct (Nat.leb le i); [f_equal|]; apply IH.
Qed.

Lemma lexical_headers_shape ts : lexical_headers ts = shape_headers cand_plain follow_brace ts.
Proof. apply select_headers_shape. Qed.

(* ---------- tokens the shapes cannot tell apart ---------- *)
(* the candidate functions and follow-up tests observe a token only through: name, keyword, text, operator,
   and the symbols "(" ")" "{" "=>" — in particular never through "}" *)
Definition tsim (a b : token) : Prop :=
  is_name a = is_name b /\ is_keyword a = is_keyword b /\ t_value a = t_value b /\
  (forall s, is_operator a s = is_operator b s) /\
  is_symbol a lparen = is_symbol b lparen /\ is_symbol a rparen = is_symbol b rparen /\
  is_symbol a lbrace = is_symbol b lbrace /\ is_symbol a s_arrow = is_symbol b s_arrow.
Definition lsim : list token -> list token -> Prop := Forall2 tsim.

Lemma tsim_refl a : tsim a a.
Proof. unfold tsim. repeat split; reflexivity. Qed.
Lemma lsim_refl w : lsim w w.
Proof. induction w; constructor; [apply tsim_refl | assumption]. Qed.
Lemma lsim_app a a' b b' : lsim a a' -> lsim b b' -> lsim (a ++ b) (a' ++ b').
Proof. apply Forall2_app. Qed.

Lemma lsim_skipn n : forall w w', lsim w w' -> lsim (skipn n w) (skipn n w').
Proof.
  induction n as [|n IH]; intros w w' H; [exact H|]. destruct H as [|a b w w' Hab H]; [constructor|]. cbn [skipn]. apply IH. exact H.
Qed.

Lemma lsim_nth w w' : lsim w w' -> forall i,
  match nth_error w i, nth_error w' i with
  | Some a, Some b => tsim a b
  | None, None => True
  | _, _ => False
  end.
Proof.
  induction 1 as [|a b w w' Hab H IH]; intros i; [destruct i; exact I|].
  destruct i as [|i]; [exact Hab | apply IH].
Qed.

Lemma lsim_name_at w w' i : lsim w w' -> name_at w i = name_at w' i.
Proof.
  intros H. pose proof (lsim_nth w w' H i) as Hn. unfold name_at.
  destruct (nth_error w i), (nth_error w' i); try contradiction; [apply Hn | reflexivity].
Qed.
Lemma lsim_kw_at w w' i s : lsim w w' -> kw_at w i s = kw_at w' i s.
Proof.
  intros H. pose proof (lsim_nth w w' H i) as Hn. unfold kw_at.
  destruct (nth_error w i), (nth_error w' i); try contradiction; [|reflexivity].
  destruct Hn as (_ & H2 & H3 & _). rewrite H2, H3. reflexivity.
Qed.
Lemma lsim_op_at w w' i s : lsim w w' -> op_at w i s = op_at w' i s.
Proof.
  intros H. pose proof (lsim_nth w w' H i) as Hn. unfold op_at.
  destruct (nth_error w i), (nth_error w' i); try contradiction; [apply Hn | reflexivity].
Qed.
Lemma lsim_sym_at_lparen w w' i : lsim w w' -> sym_at w i lparen = sym_at w' i lparen.
Proof.
  intros H. pose proof (lsim_nth w w' H i) as Hn. unfold sym_at.
  destruct (nth_error w i), (nth_error w' i); try contradiction; [apply Hn | reflexivity].
Qed.
Lemma lsim_sym_at_lbrace w w' i : lsim w w' -> sym_at w i lbrace = sym_at w' i lbrace.
Proof.
  intros H. pose proof (lsim_nth w w' H i) as Hn. unfold sym_at.
  destruct (nth_error w i), (nth_error w' i); try contradiction; [apply Hn | reflexivity].
Qed.
Lemma lsim_sym_at_arrow w w' i : lsim w w' -> sym_at w i s_arrow = sym_at w' i s_arrow.
Proof.
  intros H. pose proof (lsim_nth w w' H i) as Hn. unfold sym_at.
  destruct (nth_error w i), (nth_error w' i); try contradiction; [apply Hn | reflexivity].
Qed.

Lemma lsim_groups_len w w' : lsim w w' -> forall d, groups_len w d = groups_len w' d.
Proof.
  induction 1 as [|a b w w' Hab H IH]; intros d; [reflexivity|].
  destruct Hab as (_ & _ & _ & _ & H5 & H6 & _). cbn [groups_len]. rewrite H5, H6.
  destruct (0 <? d)%Z; [destruct (is_symbol b lparen); [|destruct (is_symbol b rparen)] | destruct (is_symbol b lparen)];
    rewrite ?IH; reflexivity.
Qed.

Lemma lsim_groups_end w w' p : lsim w w' -> groups_end w p = groups_end w' p.
Proof.
  intros H. unfold groups_end. rewrite (lsim_sym_at_lparen w w' p H).
  rewrite (lsim_groups_len _ _ (lsim_skipn p w w' H)). reflexivity.
Qed.

Definition cinv (c : cand_fn) : Prop := forall w w' i, lsim w w' -> c w i = c w' i.
Definition finv (f : follow_fn) : Prop := forall w w' j, lsim w w' -> f w j = f w' j.

Lemma cinv_plain : cinv cand_plain.
Proof. intros w w' i H. unfold cand_plain. rewrite (lsim_name_at w w' i H), (lsim_groups_end w w' (S i) H). reflexivity. Qed.

Lemma cinv_function : cinv cand_function.
Proof.
  intros w w' i H. unfold cand_function. rewrite (lsim_kw_at w w' i _ H).
  destruct (kw_at w' i s_function); rewrite (lsim_name_at w w' _ H), (lsim_groups_end w w' _ H); reflexivity.
Qed.

Lemma cinv_arrow : cinv cand_arrow.
Proof.
  intros w w' i H. unfold cand_arrow. rewrite (lsim_kw_at w w' i _ H).
  destruct (kw_at w' i s_const); rewrite (lsim_name_at w w' _ H), (lsim_op_at w w' _ _ H), (lsim_kw_at w w' _ _ H);
    (match goal with |- context [if ?b then _ else None] => destruct b end; [|reflexivity]);
    (match goal with |- context [kw_at w' ?k s_async] => destruct (kw_at w' k s_async) end);
    rewrite (lsim_groups_end w w' _ H);
    (match goal with |- context [groups_end w' ?k] => destruct (groups_end w' k) as [j|] end; [|reflexivity]);
    rewrite (lsim_sym_at_arrow w w' j H); reflexivity.
Qed.

Lemma cinv_never : cinv cand_never.
Proof. intros w w' i _. reflexivity. Qed.

Lemma finv_brace : finv follow_brace.
Proof. intros w w' j H. apply lsim_sym_at_lbrace. exact H. Qed.

Lemma lsim_until_brace w w' : lsim w w' -> until_brace w = until_brace w'.
Proof.
  induction 1 as [|a b w w' Hab H IH]; [reflexivity|].
  destruct Hab as (_ & _ & H3 & _ & _ & _ & H7 & _). cbn [until_brace]. rewrite H3, H7, IH. reflexivity.
Qed.

Lemma finv_throws : finv follow_throws.
Proof.
  intros w w' j H. unfold follow_throws.
  rewrite (lsim_sym_at_lbrace w w' j H), (lsim_kw_at w w' j _ H), (lsim_until_brace _ _ (lsim_skipn (S j) w w' H)). reflexivity.
Qed.

Lemma lsim_ubt w w' : lsim w w' -> forall d, until_brace_type w d = until_brace_type w' d.
Proof.
  induction 1 as [|a b w w' Hab H IH]; intros d; [reflexivity|].
  destruct Hab as (_ & _ & H3 & _ & H5 & H6 & H7 & _). cbn [until_brace_type]. rewrite H3, H5, H6, H7.
  destruct (0 <? d)%Z; [destruct (is_symbol b lparen); [|destruct (is_symbol b rparen)] | destruct (is_symbol b lparen)];
    rewrite ?IH; reflexivity.
Qed.

Lemma finv_rettype : finv follow_rettype.
Proof.
  intros w w' j H. unfold follow_rettype.
  rewrite (lsim_sym_at_lbrace w w' j H), (lsim_op_at w w' j _ H), (lsim_ubt _ _ (lsim_skipn (S j) w w' H)). reflexivity.
Qed.

Lemma acc_sim c f w w' i : cinv c -> finv f -> lsim w w' -> acc c f w i = acc c f w' i.
Proof.
  intros Hc Hf H. unfold acc. rewrite (Hc w w' i H). destruct (c w' i) as [[n j]|]; [|reflexivity].
  rewrite (Hf w w' j H). reflexivity.
Qed.

Lemma lsim_length w w' : lsim w w' -> length w = length w'.
Proof. induction 1; [reflexivity|]. cbn [length]. congruence. Qed.

(* no accepted candidate, transported along lsim *)
Lemma no_acc_sim c f A A' B : cinv c -> finv f -> lsim A A' -> no_acc c f A' B -> no_acc c f A B.
Proof.
  intros Hc Hf H Hn k Hk.
  assert (El : length A = length A') by (apply lsim_length; exact H).
  rewrite (acc_sim c f (A ++ B) (A' ++ B) k Hc Hf (lsim_app _ _ _ _ H (lsim_refl B))). apply Hn. lia.
Qed.
