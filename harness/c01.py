"""C01 — exact function discovery, span and length on canonical programs."""
import multiprocessing as mp

from common import Check, assert_repo_import, eval_cases, eval_one, canon_tree, NPROC
import lang_common as LC
import progen

IMPORTS = "Base Token TokEngine Lex Headers Blocks Pairing Fold ScanFile Spec HeaderSpec SpecCheck LexShapes SpecCheckAll PySpec PySpecCheck PyLexical Grammar GrammarAll GrammarParse PyGrammar PyGrammarParse"
PY = LC.LANGS.index("Python")
LEXICAL = ("C", "Cpp", "CSharp", "Java", "JavaScript", "TypeScript")   # brace languages: Scope/HeaderSpec.v, LexShapes.v


def _sym(t, s):
    return LC.kind_code(t.token_type) == 2 and t.value == s          # a Punctuation token with this text


def groups_end(code, p):
    """end of the maximal run of balanced parenthesis groups starting at p (None when no "(" there)"""
    if p >= len(code) or not _sym(code[p], "("):
        return None
    j, depth = p, 0
    while j < len(code):
        if depth > 0:
            depth += 1 if _sym(code[j], "(") else -1 if _sym(code[j], ")") else 0
        elif _sym(code[j], "("):
            depth = 1
        else:
            break
        j += 1
    return j


def descs_brace(lang, code, expected):
    """function descriptors (token indices into the code tokens) of the generator's functions, for the hypotheses of
    the C01 theorems, derived from the expected start / end positions and the documented header shapes only"""
    pos = {(t.location.line, t.location.column): i for i, t in enumerate(code)}
    endpos = {(t.location.line, t.location.column + len(t.value)): i for i, t in enumerate(code) if "\n" not in t.value}
    ds = []
    for e in expected:
        s = pos.get(tuple(e["start"]))
        c = endpos.get(tuple(e["end"]))
        if s is None or c is None:
            return None
        val = lambda k: code[k].value if k < len(code) else None
        if lang in ("JavaScript", "TypeScript") and val(s) == "function":
            n, hend = s + 1, groups_end(code, s + 2)
        elif lang in ("JavaScript", "TypeScript") and (val(s) == "const" or val(s + 1) == "="):
            n = s + 1 if val(s) == "const" else s
            p = n + 3 if val(n + 2) == "async" else n + 2
            j = groups_end(code, p)
            hend = None if j is None else j + 1            # past the "=>"
        else:
            n, hend = s, groups_end(code, s + 1)
        if hend is None:
            return None
        o = hend
        while o < len(code) and not _sym(code[o], "{"):
            o += 1
        ds.append((n, s, hend, o, c))
    return ds


def descs_python(code, expected):
    """descriptors (name, start, header end, suite start, suite end) of the generator's Python functions"""
    pos = {(t.location.line, t.location.column): i for i, t in enumerate(code)}
    endpos = {(t.location.line, t.location.column + len(t.value)): i for i, t in enumerate(code) if "\n" not in t.value}
    ds = []
    for e in expected:
        s = pos.get(tuple(e["start"]))
        c = endpos.get(tuple(e["end"]))
        if s is None or c is None:
            return None
        n = s + 2 if code[s].value == "async" else s + 1
        hend = groups_end(code, n + 1)
        if hend is None or hend >= len(code):
            return None
        b = hend
        while b < len(code) and code[b].location.line <= code[hend].location.line:
            b += 1
        ds.append((n, s, hend, b, c + 1))
    return ds


def py_spec_expr(toklit, ds):
    dl = "[" + "; ".join(f"mkPd {a} {b} {c} {d} {e}" for a, b, c, d, e in ds) + "]"
    return (f"(let code := filter_tokens false {toklit} in let ds := {dl} in "
            "T [enc_bool (py_wf_descs_b code ds); enc_bool (py_lexically_canonical_b code ds); "
            "enc_scan (py_expected_all code ds ds)])")


def spec_expr(li, toklit, ds):
    dl = "[" + "; ".join(f"mkFd {a} {b} {c} {d} {e}" for a, b, c, d, e in ds) + "]"
    return (f"(let code := filter_tokens false {toklit} in let ds := {dl} in "
            f"T [enc_bool (wf_descs_b code ds); enc_bool (lexically_canonical_of_b (lang_code {li}) code ds); "
            "enc_scan (expected_all code ds ds)])")


def grammar_exprs(li, toklit):
    """(membership, derivation): whether Coq's recogniser of the formal grammar (Scope/GrammarParse.v, proved sound)
    accepts the program, and the measurements the unconditional theorem C01_grammar_brace then prescribes"""
    code = f"filter_tokens false {toklit}"
    if li == PY:
        return (f"(enc_bool (match py_parse_program ({code}) with Some _ => true | None => false end))",
                f"(let code := {code} in match py_parse_program code with "
                "Some ds => enc_scan (py_expected_all code ds ds) | None => T [] end)")
    return (f"(enc_bool (match parse_program (lang_code {li}) ({code}) with Some _ => true | None => false end))",
            f"(let code := {code} in match parse_program (lang_code {li}) code with "
            "Some ds => enc_scan (expected_all code ds ds) | None => T [] end)")


def _work(args):
    lang, seeds, opts = args
    out = []
    for seed in seeds:
        p = progen.generate(seed, lang, dict(opts or {}, dup_names=(seed % 3 == 0)))
        text = p["text"]
        r = LC.guarded(lambda: LC.impl_scan(lang, text))
        exp = [[e["name"], e["start"], e["end"], e["length"]] for e in p["expected"]]
        probs = []
        # validate the rendering assumption: lexer contract + names are Name tokens
        try:
            LC.raw_lex(lang, text)
        except AssertionError as ex:
            probs.append(f"harness: {ex}")
        if r[0] != 0:
            probs.append(f"scan_file raised (error kind {r[1]})")
        elif r[1] != exp:
            got = {g[0]: g for g in r[1]}
            want = {e[0]: e for e in exp}
            for n, e in want.items():
                if n not in got:
                    probs.append(f"function {n} at line {e[1][0]} is not reported")
                elif got[n] != e:
                    probs.append(f"function {n}: reported start/end/length {got[n][1:]} expected {e[1:]}")
            for n, g in got.items():
                if n not in want:
                    probs.append(f"{n} at line {g[1][0]} is reported but is not a function definition")
            if not probs:
                probs.append(f"order / multiplicity differs: {[g[0] for g in r[1]]} vs {[e[0] for e in exp]}")
        # the scanner's own route for file names whose language hangs on a case-sensitive or extension-less name pattern
        # (Widget.C and Header.H are C++, BUILD and SConstruct are Python): the file must be measured as the text is
        # (seeded change C01-17: the lexer looked up by the lower-cased name)
        if lang in ("Cpp", "Python", "C", "Java") and seed % 6 == 0 and r[0] == 0:
            import os
            import shutil
            import tempfile
            from pathlib import Path
            from codelimit.common import Scanner
            d = tempfile.mkdtemp(prefix="verif_c01_")
            try:
                # C: a header (the extension .h is claimed by the C and the Objective-C lexer: the NAME decides, not the text —
                # seeded change C01-20); Java: an ordinary name.  When the text can be written in Latin-1 and is not ASCII, it is
                # (the scanner reads such a file through its Latin-1 fall-back: same characters, same positions — seeded change
                # C01-19: decoded as UTF-8 with replacement characters)
                nm = {"Cpp": ["Widget.C", "Header.H"], "Python": ["BUILD", "SConstruct"], "C": ["api.h", "util.h"],
                      "Java": ["Main.java", "Main.java"]}[lang][(seed // 6) % 2]
                enc = "utf8"
                if not text.isascii():
                    try:
                        text.encode("latin-1")
                        enc = "latin-1"
                    except UnicodeEncodeError:
                        pass
                with open(os.path.join(d, nm), "w", encoding=enc, newline="") as f:
                    f.write(text)
                e = Scanner.scan_path(Path(d)).files.get(nm)
                via_file = None if e is None else [[m.unit_name, [m.start.line, m.start.column], [m.end.line, m.end.column], m.value] for m in e.measurements()]
                if via_file != r[1]:
                    probs.append(f"scanned from disk as {nm} the program reports {None if via_file is None else [m[0] + ':' + str(m[3]) for m in via_file]}, "
                                 f"as {lang} text {[g[0] + ':' + str(g[3]) for g in r[1]]}")
            except Exception as ex:
                probs.append(f"scanning the program as a file raised {type(ex).__name__}: {ex}")
            finally:
                shutil.rmtree(d, ignore_errors=True)
        toks = LC.impl_lex(lang, text) if len(text) < 6000 else None
        nontrivial = len(exp) >= 1 and (len(exp) >= 2 or len(p["features"]) >= 3)
        ds = None
        if toks is not None and lang in LEXICAL and exp:
            ds = descs_brace(lang, LC.impl_lex(lang, text, keep_comments=False), p["expected"])
        elif toks is not None and lang == "Python" and exp and "line-continuation" not in p["features"]:
            # C01_python is stated for programs without backslash continuations
            ds = descs_python(LC.impl_lex(lang, text, keep_comments=False), p["expected"])
        out.append((seed, r, probs, nontrivial, p["features"], len(exp),
                    LC.tokens_lit(toks) if toks is not None else None, text if probs else None, ds, exp))
    return lang, out


def run(tier, seed, replay=None):
    assert_repo_import()
    chk = Check("C01", tier, seed)
    model_ok = chk.proof_stage(["Scope/ScanFile.vo", "Scope/SpecProofs.vo", "Scope/SpecCheck.vo", "Scope/HeaderProofs.vo", "Scope/ShapeProofs.vo", "Scope/SpecCheckAll.vo", "Scope/PyLexical.vo", "Scope/TieProofs.vo", "Scope/GrammarProofs.vo", "Scope/GrammarAllProofs.vo", "Scope/PyGrammarProofs.vo", "Scope/GrammarParseProofs.vo", "Scope/PyGrammarParseProofs.vo"])
    n_prog = 400 if tier == "quick" else 12000
    base = seed * 1000003
    jobs = []
    for lang in LC.LANGS:
        seeds = list(range(base, base + n_prog))
        for k in range(0, len(seeds), 50):
            jobs.append((lang, seeds[k:k + 50], None))
        # short bodies, exhaustive-ish small programs: more structural variety per token
        small = list(range(base + 10 ** 6, base + 10 ** 6 + n_prog // 2))
        for k in range(0, len(small), 50):
            jobs.append((lang, small[k:k + 50], {"long_bodies": False}))
    model_cases = []
    spec_cases = []
    gram_cases = []
    budget = {lang: (40 if tier == "quick" else 300) for lang in LC.LANGS}
    with mp.Pool(NPROC) as pool:
        for lang, res in pool.imap_unordered(_work, jobs):
            li = LC.LANGS.index(lang)
            for sd, r, probs, nontrivial, feats, nf, toklit, text, ds, exp in res:
                case = {"language": lang, "generator_seed": sd}
                chk.evaluations += 1
                if nontrivial:
                    chk.nontrivial.add((lang, sd))
                for f in feats:
                    chk.count("feature " + f)
                chk.count(f"{lang}: programs")
                chk.count(f"functions per program: {min(nf, 8)}{'+' if nf >= 8 else ''}")
                if probs:
                    chk.violation({**case, "text": text, "result": r}, f"{lang} program (seed {sd}): " + "; ".join(probs[:3]))
                if toklit is not None and budget[lang] > 0 and nf >= 1:
                    budget[lang] -= 1
                    model_cases.append((f"enc_scan (scan_file (lang_code {li}) {toklit})", r, case))
                    if ds is not None:
                        # the hypotheses of C01_brace / C01_flat, decided inside Coq for this program, and
                        # the theorem's right-hand side against the generator's expectation
                        spec_cases.append(((py_spec_expr(toklit, ds) if lang == "Python" else spec_expr(li, toklit, ds)),
                                           [1, 1, [0, exp]], case))
                    if lang in LEXICAL or lang == "Python":
                        gram_cases.append((grammar_exprs(li, toklit), [0, exp], case))
    chk.samples = [c for _, _, c in model_cases[:3]]
    if model_ok:
        mism, err = eval_cases("C01", IMPORTS, [(m, o) for m, o, _ in model_cases], shard=20)
        chk.traces = len(model_cases)
        if err:
            chk.broken.append("correspondence evaluation failed: " + err[-400:])
        for i in mism[:5]:
            got = eval_one("C01", IMPORTS, model_cases[i][0])
            chk.broken.append(f"correspondence: scan_file model and implementation differ on {model_cases[i][2]}: "
                              f"model {got} vs implementation {canon_tree(model_cases[i][1])}")
        mism, err = eval_cases("C01s", IMPORTS, [(m, o) for m, o, _ in spec_cases], shard=8)
        chk.count("programs whose theorem hypotheses (wf_descs / py_wf_descs, lexical condition) were decided in Coq", len(spec_cases))
        if err:
            chk.broken.append("specification evaluation failed: " + err[-400:])
        for i in mism[:5]:
            got = eval_one("C01s", IMPORTS, spec_cases[i][0])
            chk.broken.append(f"specification: on {spec_cases[i][2]} the hypotheses of the C01 theorem do not hold or its "
                              f"right-hand side differs from the generator's expectation: [wf_descs, lexically_canonical, "
                              f"expected_all] = {str(got)[:300]} vs {str(canon_tree(spec_cases[i][1]))[:300]}")
        # membership in the formal grammar, decided by the recogniser proved sound in Coq: for a member the theorem
        # C01_grammar_brace applies with no hypothesis left, and what it prescribes must be the expectation
        outside, err = eval_cases("C01g", IMPORTS, [(g[0], 1) for g, _, _ in gram_cases], shard=8)
        if err:
            chk.broken.append("grammar recogniser evaluation failed: " + err[-400:])
        members = [i for i in range(len(gram_cases)) if i not in set(outside)]
        chk.count("programs recognised in Coq as programs of the formal grammar (C01_grammar_brace / C01_grammar_python apply unconditionally)", len(members))
        chk.count("programs outside the formal grammars (lexical-hypothesis theorems apply)", len(outside))
        mism, err = eval_cases("C01h", IMPORTS, [(gram_cases[i][0][1], gram_cases[i][1]) for i in members], shard=8)
        if err:
            chk.broken.append("grammar derivation evaluation failed: " + err[-400:])
        for i in mism[:5]:
            g = gram_cases[members[i]]
            got = eval_one("C01h", IMPORTS, g[0][1])
            chk.broken.append(f"grammar: on {g[2]} the measurements the grammar theorem prescribes differ from the generator's "
                              f"expectation: {str(got)[:300]} vs {str(canon_tree(g[1]))[:300]}")
        if gram_cases and not members:
            chk.broken.append("grammar: no generated program is recognised as a program of the formal grammar")
    else:
        chk.broken.append("scope model does not build; correspondence not run")
    nt = len(chk.nontrivial)
    chk.nontrivial = {str(i) for i in range(nt)}
    return chk.finish(
        rule="typed generator of canonical programs (harness/progen.py) for all 7 languages: functions, methods, "
             "classes, global code, control statements, calls, initialisers, callbacks / anonymous classes, nesting, "
             "multi-line headers, both brace styles, brace groups and calls in parameter lists, async, strings with "
             "delimiters, comments and blank lines, body lengths with mass on 14-17/29-32/59-62; expected results are "
             "computed from the rendering (piece ownership), judged against scan_file on the real lexer output; the "
             "Coq model is run on the same token streams for a per-language budget of programs.  Non-trivial: >= 1 "
             "function and (>= 2 functions or >= 3 grammar features).",
        assumptions=["Pygments lexers satisfy the offset/text contract (asserted on every generated text)"])
