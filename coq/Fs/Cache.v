(* Cache.v — the edit/scan state machine of C09/C10: a flat file system
   (root-relative path -> content id), the configured exclusions, the cache file
   (.codelimit_cache/codelimit.json) and commands.scan.scan_command over them. *)
From Verif Require Import Base Codebase Exclude GenScan FsScan.
Open Scope Z_scope.

Inductive cache_file :=
| CMissing                                   (* no file / no directory *)
| CGarbage                                   (* any content that is not a well-shaped report: empty, truncated, not JSON, wrong shape *)
| CDoc (version : pystr) (entries : cache).  (* a well-shaped report document *)

Record fstate := mkState
  { st_files : list (list pystr * Z); st_excludes : list pystr; st_cache : cache_file }.

Inductive op :=
| Write (p : list pystr) (c : Z)             (* create or modify *)
| Delete (p : list pystr)
| Rename (a b : list pystr)
| Touch (p : list pystr)                     (* rewrite the same bytes *)
| Swap (a b : list pystr)                    (* exchange the contents of two files *)
| SetExclude (xs : list pystr)
| ReplaceCache (version : pystr) (entries : cache)   (* a cache from another version / with altered entries *)
| DropCacheEntries (ps : list (list pystr))
| Damage                                     (* arbitrary bytes in the cache file: crash during its write, editor, disk *)
| RemoveCache
| Scan.

Section Machine.
  Variable supported : pystr -> option pystr.
  Variable analyze : pystr -> Z -> analysis.

  Fixpoint fs_get (fs : list (list pystr * Z)) (p : list pystr) : option Z :=
    match fs with [] => None | (q, c) :: r => if path_eqb p q then Some c else fs_get r p end.
  Definition fs_remove (fs : list (list pystr * Z)) (p : list pystr) := filter (fun f => negb (path_eqb p (fst f))) fs.
  Definition fs_set (fs : list (list pystr * Z)) (p : list pystr) (c : Z) :=
    match fs_get fs p with
    | Some _ => map (fun f => if path_eqb p (fst f) then (fst f, c) else f) fs
    | None => fs ++ [(p, c)]
    end.

  Definition visible (f : list pystr * Z) : bool := negb (existsb is_hidden (fst f)).

  (* _read_cached_report: only a well-shaped document written by this version is used *)
  Definition usable_cache (c : cache_file) : option cache :=
    match c with
    | CDoc v es => if pystr_eqb v tool_version then Some es else None
    | _ => None
    end.

  Definition scan_files (st : fstate) (c : option cache) : list (sentry * bool) :=
    map (scan_one supported analyze c)
        (filter (qualifies supported (default_excludes ++ st_excludes st)) (filter visible (st_files st))).

  Definition step (st : fstate) (o : op) : fstate * list (sentry * bool) :=
    match o with
    | Write p c => (mkState (fs_set (st_files st) p c) (st_excludes st) (st_cache st), [])
    | Delete p => (mkState (fs_remove (st_files st) p) (st_excludes st) (st_cache st), [])
    | Rename a b =>
        match fs_get (st_files st) a with
        | Some c => (mkState (fs_set (fs_remove (st_files st) a) b c) (st_excludes st) (st_cache st), [])
        | None => (st, [])
        end
    | Touch p => (st, [])
    | Swap a b =>
        match fs_get (st_files st) a, fs_get (st_files st) b with
        | Some ca, Some cb => (mkState (fs_set (fs_set (st_files st) a cb) b ca) (st_excludes st) (st_cache st), [])
        | _, _ => (st, [])
        end
    | SetExclude xs => (mkState (st_files st) xs (st_cache st), [])
    | ReplaceCache v es => (mkState (st_files st) (st_excludes st) (CDoc v es), [])
    | DropCacheEntries ps =>
        match st_cache st with
        | CDoc v es => (mkState (st_files st) (st_excludes st)
                          (CDoc v (filter (fun e => negb (existsb (path_eqb (fst e)) ps)) es)), [])
        | _ => (st, [])
        end
    | Damage => (mkState (st_files st) (st_excludes st) CGarbage, [])
    | RemoveCache => (mkState (st_files st) (st_excludes st) CMissing, [])
    | Scan =>
        let out := scan_files st (usable_cache (st_cache st)) in
        (mkState (st_files st) (st_excludes st) (CDoc tool_version (to_cache (map fst out))), out)
    end.

  Fixpoint run (st : fstate) (ops : list op) : fstate * list (list (sentry * bool)) :=
    match ops with
    | [] => (st, [])
    | o :: r => let '(st', out) := step st o in
                let '(st'', outs) := run st' r in
                (st'', match o with Scan => out :: outs | _ => outs end)
    end.

  Definition fresh_scan (st : fstate) : list sentry := map fst (scan_files st None).
  Definition init : fstate := mkState [] [] CMissing.
End Machine.
