"""C12 — check and scan agree on every file."""
import contextlib
import io
import os
import shutil
import tempfile
from pathlib import Path

from common import Check, assert_repo_import, eval_cases, eval_one, canon_tree, coq_list
import lang_common as LC
import c11

IMPORTS = "Base Codebase Exclude GenScan FsScan CheckCmd"


def run_check(root, args):
    """check_command with cwd = root; returns ([(root-relative path, [(name, line, col, value)])], exit code)"""
    import typer
    from codelimit.commands import check as check_mod
    captured = []

    class Rec(check_mod.CheckResult):
        def __init__(self):
            super().__init__()
            captured.append(self)

        def report(self):
            pass
    orig = check_mod.CheckResult
    check_mod.CheckResult = Rec
    old = os.getcwd()
    os.chdir(root)
    code = None
    try:
        with contextlib.redirect_stdout(io.StringIO()):
            try:
                check_mod.check_command([Path(a) for a in args], True)
            except typer.Exit as e:
                code = e.exit_code
    finally:
        os.chdir(old)
        check_mod.CheckResult = orig
    out = []
    for path, ms in captured[0].file_list:
        rel = os.path.relpath(os.path.join(root, str(path)), root)
        out.append((rel, [(m.unit_name, m.start.line, m.start.column, m.value, m.end.line, m.end.column) for m in ms]))
    return out, code


def run(tier, seed, replay=None):
    assert_repo_import()
    from codelimit.common import Scanner
    from codelimit.common.Configuration import Configuration
    chk = Check("C12", tier, seed)
    model_ok = chk.proof_stage(["Fs/CheckCmd.vo", "Fs/CheckProofs.vo"])
    rng = chk.rng
    cases = []
    tmp = tempfile.mkdtemp(prefix="verif_c12_")
    try:
        # ---- a symbolic link to another source file of the same code base: scan analyses both directory entries, so check
        #      through a directory checks both (seeded change C12-26: check results de-duplicated by resolved path)
        for k in range(4 if tier == "quick" else 40):
            root = os.path.realpath(os.path.join(tmp, f"sl{k}"))
            os.makedirs(os.path.join(root, "sub"))
            real, alias = [("real.py", "alias.py"), ("real.py", "zz_alias.py"), ("m.py", "sub/again.py"), ("sub/m.py", "first.py")][k % 4]
            with open(os.path.join(root, real), "w") as f:
                f.write("def big():\n" + "    x = 1\n" * (31 + k) + "\ndef small():\n    return 1\n")
            os.symlink(os.path.relpath(os.path.join(root, real), os.path.dirname(os.path.join(root, alias))), os.path.join(root, alias))
            Configuration.exclude = []
            old = os.getcwd()
            os.chdir(root)
            try:
                with contextlib.redirect_stdout(io.StringIO()):
                    cb = Scanner.scan_path(Path("."))
            finally:
                os.chdir(old)
            scanned = {p: [(m.unit_name, m.start.line, m.start.column, m.value, m.end.line, m.end.column) for m in e.measurements()] for p, e in cb.files.items()}
            for way, args in (("root directory", ["."]), ("absolute root directory", [root])):
                try:
                    got, code = run_check(root, args)
                except Exception as ex:
                    chk.violation({"tree": [real, alias + " -> " + real], "way": way}, f"check ({way}) raised {type(ex).__name__}: {ex}")
                    continue
                chk.evaluations += 1
                chk.count("way: " + way + ", tree with a linked file")
                gd = dict(got)
                for rel, ms in scanned.items():
                    want = sorted([m for m in ms if m[3] > 30], key=lambda m: -m[3])
                    if rel not in gd:
                        chk.violation({"tree": [real, alias + " -> " + real], "file": rel, "way": way},
                                      f"scan analyses {rel} (one of two directory entries for the same file) but check ({way}) skips it")
                    elif gd[rel] != want:
                        chk.violation({"tree": [real, alias + " -> " + real], "file": rel, "way": way},
                                      f"check ({way}) lists {gd[rel]} for {rel}, scan measures {want} above 30 lines")
                    else:
                        chk.nontrivial.add(("link", k, rel, way))
                for rel in gd:
                    if rel not in scanned:
                        chk.violation({"tree": [real, alias + " -> " + real], "file": rel, "way": way},
                                      f"scan does not analyse {rel} but check ({way}) checks it")
            shutil.rmtree(root, ignore_errors=True)
        # ---- files that consist of exactly one function of 29..33 lines, with and without a final line break: whether a
        #      function is above 30 lines is decided from the measured length, never from the size of the file
        #      (seeded change C12-28: check skipped files with at most 30 line-break characters)
        root = os.path.realpath(os.path.join(tmp, "edge"))
        os.makedirs(os.path.join(root, "d"))
        edge = {}
        for L in (29, 30, 31, 32, 33):
            for nl in ("", "\n"):
                tag = f"{L}{'n' if nl else 'x'}"
                edge[f"p{tag}.py"] = "def edge():\n" + "\n".join(["    x = 1"] * (L - 1)) + nl
                edge[f"d/c{tag}.c"] = "int edge() {\n" + "\n".join(["  x = 1;"] * (L - 2)) + "\n}" + nl
                edge[f"d/j{tag}.js"] = "function edge() {\n" + "\n".join(["  x = 1;"] * (L - 2)) + "\n}" + nl
        for rel, text in edge.items():
            with open(os.path.join(root, rel), "w", newline="") as f:
                f.write(text)
        Configuration.exclude = []
        old = os.getcwd()
        os.chdir(root)
        try:
            with contextlib.redirect_stdout(io.StringIO()):
                cb = Scanner.scan_path(Path("."))
        finally:
            os.chdir(old)
        scanned = {p: [(m.unit_name, m.start.line, m.start.column, m.value, m.end.line, m.end.column) for m in e.measurements()] for p, e in cb.files.items()}
        for rel in sorted(edge):
            L = int(rel.split("/")[-1][1:3])
            if [m[3] for m in scanned.get(rel, [])] != [L]:
                chk.violation({"file": rel, "text": edge[rel]}, f"scan measures {scanned.get(rel)} for a file that is one function of {L} lines")
                continue
            for way, args in (("relative file", [rel]), ("root directory", ["."]), ("parent directory", [os.path.dirname(rel) or "."])):
                try:
                    got, code = run_check(root, args)
                except Exception as ex:
                    chk.violation({"file": rel, "text": edge[rel], "way": way}, f"check ({way}) raised {type(ex).__name__}: {ex}")
                    continue
                chk.evaluations += 1
                chk.count("way: " + way + ", file that is one function at the 30-line boundary")
                want = [m for m in scanned[rel] if m[3] > 30]
                gd = dict(got)
                if rel not in gd:
                    chk.violation({"file": rel, "text": edge[rel], "way": way}, f"scan analyses {rel} but check ({way}) skips it")
                elif gd[rel] != want:
                    chk.violation({"file": rel, "text": edge[rel], "way": way},
                                  f"check ({way}) lists {gd[rel]} for {rel}, scan measures {want} above 30 lines")
                else:
                    chk.nontrivial.add(("edge", rel, way))
        shutil.rmtree(root, ignore_errors=True)
        for ci in range(90 if tier == "quick" else 2500):
            nodes = c11.gen_tree(rng)
            root = os.path.realpath(os.path.join(tmp, f"t{ci}"))
            os.makedirs(root)
            table = {}
            c11.write_tree(root, nodes, table)
            # some files that are not valid UTF-8 (scan falls back to Latin-1; check must decode identically)
            files = list(c11.walk_expected(nodes))
            for comps, x in files:
                if comps[-1].endswith(".py") and x >= 2 and rng.random() < 0.3:
                    # invalid UTF-8 overall, with valid multi-byte sequences in the LAST token of the function: a reader that
                    # decodes differently (replacement characters vs Latin-1) reports another end column / name
                    p = os.path.join(root, *comps)
                    body = b"def f\xe9():\n" if rng.random() < 0.5 else b"def f():\n"
                    body += b"    x = 1\n" * (x - 2) + b"    s = \"\xc3\xa9\xc3\xa9 \xff\"\n"
                    open(p, "wb").write(body)
                    continue
                if rng.random() < 0.15 and comps[-1].endswith((".py", ".js", ".c")):
                    p = os.path.join(root, *comps)
                    data = open(p, "rb").read()
                    lead = b"# caf\xe9 \xff\n" if comps[-1].endswith(".py") else b"// caf\xe9 \xff\n"
                    open(p, "wb").write(data + lead)
            # a UTF-8 byte order mark in front of some files whose first line is a function header: both commands must read
            # the mark the same way, or the first function's column differs (seeded change C12-9)
            for comps, x in files:
                if x >= 2 and rng.random() < 0.15 and comps[-1].endswith((".py", ".js", ".c", ".ts", ".cpp")):
                    p = os.path.join(root, *comps)
                    data = open(p, "rb").read()
                    if b"\xff" not in data and not data.startswith(b"\xef\xbb\xbf"):
                        open(p, "wb").write(b"\xef\xbb\xbf" + data)
                        chk.count("file starting with a UTF-8 byte order mark")
            # a lone carriage return as a line break inside some files (text-mode reading turns it into a line break)
            for comps, x in files:
                if x >= 3 and rng.random() < 0.12 and comps[-1].endswith((".py", ".js", ".c", ".ts", ".cpp")):
                    p = os.path.join(root, *comps)
                    data = open(p, "rb").read()
                    k = data.find(b"\n", len(data) // 2)
                    if k > 0 and b"\xff" not in data:
                        open(p, "wb").write(data[:k] + b"\r" + data[k + 1:])
            cfg = rng.sample(c11.PATTERN_POOL, rng.choice([0, 0, 1, 2])) + c11.derived_patterns(rng, nodes)
            # negated patterns that re-include one file beneath an excluded directory (the Coq matcher does not model
            # negation: those trees are judged against scan only)
            negated = False
            if rng.random() < 0.3:
                import pathspec
                sp0 = pathspec.PathSpec.from_lines("gitignore", list(Scanner.DEFAULT_EXCLUDES) + cfg)
                hit = [comps for comps, _ in files if len(comps) >= 2 and sp0.match_file("/".join(comps))
                       and not any(c.startswith(".") for c in comps)]
                if hit:
                    cfg.append("!" + "/".join(rng.choice(hit)))
                    negated = True
            gi = rng.sample(c11.PATTERN_POOL, rng.choice([0, 0, 1]))
            if gi:
                with open(os.path.join(root, ".gitignore"), "w") as f:
                    f.write("\n".join(gi) + "\n")
            Configuration.exclude = list(cfg)
            old = os.getcwd()
            os.chdir(root)
            try:
                with contextlib.redirect_stdout(io.StringIO()):
                    cb = Scanner.scan_path(Path("."))
            except Exception as ex:
                chk.violation({"tree": nodes, "excludes": cfg, "gitignore": gi}, f"scan_path raised {type(ex).__name__}: {ex}")
                os.chdir(old)
                Configuration.exclude = []
                continue
            finally:
                os.chdir(old)
            scanned = {p: [(m.unit_name, m.start.line, m.start.column, m.value, m.end.line, m.end.column) for m in e.measurements()] for p, e in cb.files.items()}
            spec = Scanner.generate_exclude_spec(Path(root))
            case = {"tree": nodes, "excludes": cfg, "gitignore": gi}
            model_args = []
            for comps, x in files:
                rel = "/".join(comps)
                hidden = any(c.startswith(".") for c in comps)
                excluded = spec.match_file(rel)
                first_hidden = next((i for i, c in enumerate(comps) if c.startswith(".")), None)
                ways = [("relative file", [rel], comps)]
                # directories above the file (and above its first hidden component, so that the hidden rule applies)
                top = len(comps) - 1 if first_hidden is None else min(first_hidden, len(comps) - 1)
                if top >= 1 and rng.random() < 0.7:
                    ways.append(("parent directory", ["/".join(comps[:top])], comps[:top]))
                    if rng.random() < 0.3:
                        ways.append(("absolute parent directory", [os.path.join(root, *comps[:top])], comps[:top]))
                if rng.random() < 0.25:
                    ways.append(("root directory", ["."], []))
                if rng.random() < 0.25:
                    ways.append(("absolute root directory", [root], []))
                for way, args, marg in ways:
                    try:
                        got, code = run_check(root, args)
                    except Exception as ex:
                        chk.violation({**case, "file": rel, "way": way}, f"check ({way}) of {rel} raised {type(ex).__name__}: {ex}")
                        continue
                    chk.evaluations += 1
                    chk.count("way: " + way)
                    gd = dict(got)
                    probs = []
                    if rel in scanned:
                        want = sorted([m for m in scanned[rel] if m[3] > 30], key=lambda m: -m[3])
                        if rel not in gd:
                            probs.append(f"scan analyses {rel} but check ({way}) skips it")
                        elif gd[rel] != want:
                            probs.append(f"check ({way}) lists {gd[rel]} for {rel}, scan measures {want} above 30 lines")
                        if scanned[rel]:
                            chk.nontrivial.add((ci, rel, way))
                    elif rel in gd and not hidden and way != "relative file" or (rel in gd and not hidden and not excluded and way == "relative file"):
                        probs.append(f"scan does not analyse {rel} (it is not in the report) but check ({way}) checks it")
                    elif excluded and rel in gd:
                        probs.append(f"{rel} is excluded (scan skips it) but check ({way}) checks it")
                    elif hidden and way != "relative file" and rel in gd:
                        probs.append(f"{rel} is hidden (scan skips it) but check through a directory ({way}) checks it")
                    if code not in (0, 1):
                        probs.append(f"exit status {code}")
                    if probs:
                        chk.violation({**case, "file": rel, "way": way}, "; ".join(probs))
                    if not way.startswith("absolute") and len(model_args) < 6 and not negated:
                        # contents with appended non-UTF-8 comment lines do not change the analysis result
                        model_args.append((marg, got))
            Configuration.exclude = []
            # ---- model: check_arg on the same tree
            sup = c11.supported_table({nm for nm, _ in c11.all_files(nodes)})
            ids = {(nm, x): x for nm, x in c11.all_files(nodes)}
            sup_lit = coq_list(f"({LC.pystr(n)}, {'None' if l is None else 'Some ' + LC.pystr(l)})" for n, l in sorted(sup.items()))
            pats = coq_list(LC.pystr(p) for p in cfg + gi)
            order = ["/".join(comps) for comps, _ in files]
            for marg, got in model_args:
                expr = (f"let sup := {sup_lit} in "
                        "let supported := fun n => match find (fun kv => pystr_eqb n (fst kv)) sup with Some kv => snd kv | None => None end in "
                        "let analyze := fun (l : pystr) (c : Z) => mkAnalysis l c (if c =? 0 then [] else [c]) in "
                        "enc_list (fun r : list pystr * list Z => T [enc_list enc_str (fst r); enc_list L (snd r)]) "
                        f"(check_arg supported analyze (default_excludes ++ {pats}) {c11.tree_lit(nodes, ids)} "
                        f"{coq_list(LC.pystr(c) for c in marg)})")
                gd = dict(got)
                impl = [[p.split("/"), [m[3] for m in gd[p]]] for p in order if p in gd]
                cases.append((expr, impl, {**case, "argument": "/".join(marg) or "."}))
            shutil.rmtree(root, ignore_errors=True)
    finally:
        Configuration.exclude = []
        shutil.rmtree(tmp, ignore_errors=True)
    chk.samples = [c for _, _, c in cases[:2]]
    if model_ok:
        mism, err = eval_cases("C12", IMPORTS, [(m, o) for m, o, _ in cases], shard=60)
        chk.traces = len(cases)
        if err:
            chk.broken.append("correspondence evaluation failed: " + err[-400:])
        for i in mism[:3]:
            got = eval_one("C12", IMPORTS, cases[i][0])
            chk.broken.append(f"correspondence: check model and implementation differ on {cases[i][2]}: model {str(got)[:300]} "
                              f"vs implementation {str(canon_tree(cases[i][1]))[:300]}")
    else:
        chk.broken.append("check model does not build; correspondence not run")
    nt = len(chk.nontrivial)
    chk.nontrivial = {str(i) for i in range(nt)}
    return chk.finish(
        rule="random trees as in C11 (hidden, excluded, unsupported names; exclusions via Configuration.exclude and .gitignore), "
             "some files made invalid UTF-8; for every file and each way of reaching it from the codebase root (relative file "
             "path, relative / absolute directory above it, root directory, absolute root) check_command's recorded file list "
             "is compared with scan_path's measurements for that file (functions > 30 lines, longest first, names, positions, "
             "lengths) and with scan's skipping of excluded / hidden files; the Coq check model is evaluated on the same "
             "trees and arguments.  Non-trivial: the file has at least one function.",
        assumptions=["working directory = codebase root, as the property states"])
