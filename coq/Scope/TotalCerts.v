(* TotalCerts.v — the totality certificate evaluated (by the kernel's virtual
   machine) on the header / follow-up patterns captured from the Python source
   on this run (Gen/GenPatterns.v), and the unconditional corollary: scan_file
   returns a result for every language and every token list. *)
From Verif Require Import Base Regex Nfa Dfa Token TokEngine Unamb HasName GenPatterns
  Lex Headers ScanFile TotalProofs.

Theorem total_cert_all :
  forallb (fun l => forallb pattern_total_ok (lang_patterns l))
    [LC; LCpp; LCSharp; LJava; LJavaScript; LPython; LTypeScript] = true.
Proof. vm_compute. reflexivity. Qed.

Lemma total_cert : forall l, forallb pattern_total_ok (lang_patterns l) = true.
Proof.
  intros l. pose proof total_cert_all as H. rewrite forallb_forall in H.
  apply H. destruct l; cbn; tauto.
Qed.

Theorem scan_file_total_all : forall (l : language) (toks : list token),
  exists ms, scan_file l toks = OK ms.
Proof. intros l toks. apply scan_file_total. apply total_cert. Qed.

Corollary analyze_total_all : forall (l : language) (code : pystr) (lts : list ltok),
  exists r, analyze l code lts = OK r.
Proof. intros l code lts. apply analyze_total. apply total_cert. Qed.

Print Assumptions total_cert_all.
Print Assumptions scan_file_total_all.
Print Assumptions analyze_total_all.
