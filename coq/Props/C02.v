(* C02 — length thresholds and the refactoring alarm.  Statements only; each is
   closed by `exact` of a lemma proved in Agg/Thresholds.v / Agg/CheckFlow.v
   about definitions regenerated from /repo (Gen/GenThresholds.v). *)
From Verif Require Import Base BaseProofs GenThresholds Thresholds CheckFlow.
From Coq Require Import Permutation Sorted.
Open Scope Z_scope.

(* the category boundaries of the property text *)
Theorem C02_categories : forall len,
  (cat len = Easy <-> len <= 15) /\ (cat len = Verbose <-> 16 <= len <= 30) /\
  (cat len = Hard <-> 31 <= len <= 60) /\ (cat len = Unm <-> len > 60).
Proof. intros len. exact (conj (cat_Easy len) (conj (cat_Verbose len) (conj (cat_Hard len) (cat_Unm len)))). Qed.
Print Assumptions C02_categories.

(* LOC-weighted profile: slot i holds exactly the lengths of category i *)
Theorem C02_profile : forall ms,
  make_profile ms = [sum_cat Easy ms; sum_cat Verbose ms; sum_cat Hard ms; sum_cat Unm ms].
Proof. exact make_profile_spec. Qed.
Print Assumptions C02_profile.

Theorem C02_profile_partitions : forall ms, sumZ (make_profile ms) = total_len ms.
Proof. exact profile_partitions. Qed.
Print Assumptions C02_profile_partitions.

Theorem C02_count_profile : forall ms,
  make_count_profile ms = [count_cat Easy ms; count_cat Verbose ms; count_cat Hard ms; count_cat Unm ms].
Proof. exact make_count_profile_spec. Qed.
Print Assumptions C02_count_profile.

(* per-language hard / unmaintainable counters *)
Theorem C02_language_counters : forall f l fn h u e,
  language_totals_add f l fn h u e =
  (f + 1, l + e_loc e, fn + Z.of_nat (length (e_measurements e)),
   h + count_cat Hard (e_measurements e), u + count_cat Unm (e_measurements e)).
Proof. exact language_totals_add_spec. Qed.
Print Assumptions C02_language_counters.

(* colour and symbol next to a function, in all three places *)
Theorem C02_colour_symbol : forall len,
  get_style_for_measurement len = colour (cat len) /\
  format_unit_color len = colour (cat len) /\
  get_emoji_for_measurement len = symbol (cat len).
Proof. intros len. exact (conj (style_spec len) (conj (unit_colour_spec len) (emoji_spec len))). Qed.
Print Assumptions C02_colour_symbol.

Theorem C02_markdown_icon : forall u,
  md_icon_plain u = md_icon_repo u /\
  (md_icon_plain u = [10060] <-> cat (m_value (ru_measurement u)) = Unm) /\
  (md_icon_plain u = [9888] <-> cat (m_value (ru_measurement u)) <> Unm).
Proof. exact md_icon_spec. Qed.
Print Assumptions C02_markdown_icon.

(* check: exit status *)
Theorem C02_exit_code : forall quiet files,
  (co_exit (check_run quiet files) = 1 <->
   exists p ms m, In (p, ms) files /\ In m ms /\ m_value m > 60) /\
  (co_exit (check_run quiet files) = 0 \/ co_exit (check_run quiet files) = 1).
Proof. exact exit_code_iff. Qed.
Print Assumptions C02_exit_code.

(* check: per file exactly the functions with L > 30, longest first, ties in source order *)
Theorem C02_listing : forall quiet files,
  co_listing (check_run quiet files) = map (fun f => (fst f, findings_of (snd f))) files /\
  forall ms,
    (forall m, In m (findings_of ms) <-> In m ms /\ m_value m > 30) /\
    StronglySorted (fun a b => m_value a >= m_value b) (findings_of ms) /\
    (forall k, filter (fun a => m_value a =? k) (findings_of ms)
               = filter (fun a => m_value a =? k) (filter is_finding ms)) /\
    Permutation (findings_of ms) (filter is_finding ms).
Proof. intros quiet files. exact (conj (listing_spec quiet files) findings_of_facts). Qed.
Print Assumptions C02_listing.

Theorem C02_summary_count : forall quiet files,
  co_summary_count (check_run quiet files) = all_cat Hard files + all_cat Unm files /\
  co_files_checked (check_run quiet files) = Z.of_nat (length files).
Proof. exact summary_count_spec. Qed.
Print Assumptions C02_summary_count.

Theorem C02_quiet_silent : forall files,
  (co_prints (check_run true files) = false <->
   ~ exists p ms m, In (p, ms) files /\ In m ms /\ m_value m > 30) /\
  co_prints (check_run false files) = true.
Proof. intros files. exact (conj (quiet_silent_iff files) (not_quiet_always_prints files)). Qed.
Print Assumptions C02_quiet_silent.

(* findings list: exactly the units with L > 30, longest first; cut-off 10 and omitted count; both formats *)
Theorem C02_findings : forall full files,
  findings_view full files = findings_view_md full files /\
  let all := sort_desc (fun u => m_value (ru_measurement u))
               (filter (fun u => m_value (ru_measurement u) >? 30) (units_of files)) in
  let n := Z.of_nat (length all) in
  findings_view full files =
  if (negb full && (10 <? n))%bool then (firstn 10 all, Some (n - 10)) else (all, None).
Proof. intros full files. exact (conj (findings_formats_agree full files) (findings_view_spec full files)). Qed.
Print Assumptions C02_findings.

(* non-vacuity: a concrete multi-file input exercising every category *)
Definition ex_m (v : Z) : Measurement := mkMeas [102] (mkLoc 1 1) (mkLoc v 2) v.
Example C02_example :
  let files := [([97], [ex_m 15; ex_m 16; ex_m 61; ex_m 31]); ([98], [ex_m 30; ex_m 60])] in
  co_exit (check_run true files) = 1 /\ co_summary_count (check_run true files) = 3 /\
  map (fun f => map m_value (snd f)) (co_listing (check_run true files)) = [[61; 31]; [60]] /\
  make_profile (snd (hd ([], []) files)) = [15; 16; 31; 61].
Proof. vm_compute. repeat split. Qed.
