(* SpecCheck.v — boolean checkers for the hypotheses of the C01 pipeline theorems
   (wf_descs, lexically_canonical), proved sound.  The harness evaluates them on the
   token streams of generated canonical programs: the hypotheses of the theorems are
   thereby established, inside Coq, for every generated program, and the theorem's
   right-hand side (expected_all) is compared with the generator's own expectation. *)
From Verif Require Import Base Token Lex Headers Blocks Pairing Fold ScanFile Spec HeaderSpec.
Open Scope Z_scope.

Definition matched_b (ts : list token) (i j : nat) : bool :=
  Nat.ltb i j && sym_at ts i lbrace && sym_at ts j rbrace &&
  (let seg := brace_depth_after (firstn (S j - i) (skipn i ts)) 0 in
   (last seg 1 =? 0) && forallb (fun d => 0 <? d) (removelast seg)).

Lemma matched_b_sound ts i j : matched_b ts i j = true -> matched ts i j.
Proof.
  unfold matched_b, matched. intros H.
  apply andb_prop in H as [H H4]. apply andb_prop in H as [H H3]. apply andb_prop in H as [H1 H2].
  apply andb_prop in H4 as [H4 H5].
  apply Nat.ltb_lt in H1. apply Z.eqb_eq in H4.
  repeat split; auto.
  apply Forall_forall. intros d Hd. rewrite forallb_forall in H5. apply H5 in Hd. apply Z.ltb_lt in Hd. exact Hd.
Qed.

Definition nested_in_b (c d : fdesc) : bool := Nat.ltb (fd_open d) (fd_start c) && Nat.ltb (fd_close c) (fd_close d).
Definition after_b (c d : fdesc) : bool := Nat.ltb (fd_close d) (fd_start c).

Definition shape_b (ts : list token) (d : fdesc) : bool :=
  Nat.leb (fd_start d) (fd_name d) && Nat.ltb (fd_name d) (fd_hend d) && Nat.leb (fd_hend d) (fd_open d) &&
  matched_b ts (fd_open d) (fd_close d) && Nat.ltb (fd_close d) (length ts) &&
  forallb (fun k => negb (sym_at ts k lbrace) && negb (sym_at ts k rbrace)) (seq (fd_hend d) (fd_open d - fd_hend d)).

Fixpoint sorted_b (ds : list fdesc) : bool :=
  match ds with
  | [] => true
  | d :: r => forallb (fun d' => Nat.ltb (fd_start d) (fd_start d') && (nested_in_b d' d || after_b d' d)) r && sorted_b r
  end.

Definition wf_descs_b (ts : list token) (ds : list fdesc) : bool := forallb (shape_b ts) ds && sorted_b ds.

Lemma sorted_b_sound : forall ds, sorted_b ds = true ->
  forall i j di dj, (i < j)%nat -> nth_error ds i = Some di -> nth_error ds j = Some dj ->
    (fd_start di < fd_start dj)%nat /\ (nested_in dj di \/ after dj di).
Proof.
  induction ds as [|d r IH]; intros H i j di dj Hij Hi Hj.
  - destruct i; discriminate.
  - cbn [sorted_b] in H. apply andb_prop in H as [Hh Hr].
    destruct j as [|j]; [lia|]. cbn [nth_error] in Hj.
    destruct i as [|i].
    + cbn [nth_error] in Hi. injection Hi as <-.
      rewrite forallb_forall in Hh. apply nth_error_In in Hj. apply Hh in Hj.
      apply andb_prop in Hj as [Ha Hb]. apply Nat.ltb_lt in Ha. split; [exact Ha|].
      apply orb_prop in Hb as [Hb|Hb].
      * left. unfold nested_in_b in Hb. apply andb_prop in Hb as [Hb1 Hb2].
        apply Nat.ltb_lt in Hb1. apply Nat.ltb_lt in Hb2. split; assumption.
      * right. unfold after_b in Hb. apply Nat.ltb_lt in Hb. exact Hb.
    + cbn [nth_error] in Hi. apply (IH Hr i j); [lia|assumption|assumption].
Qed.

Theorem wf_descs_b_sound ts ds : wf_descs_b ts ds = true -> wf_descs ts ds.
Proof.
  unfold wf_descs_b. intros H. apply andb_prop in H as [Hs Ho]. constructor.
  - apply Forall_forall. intros d Hd. rewrite forallb_forall in Hs. apply Hs in Hd. unfold shape_b in Hd.
    apply andb_prop in Hd as [Hd H6]. apply andb_prop in Hd as [Hd H5].
    apply andb_prop in Hd as [Hd H4]. apply andb_prop in Hd as [Hd H3]. apply andb_prop in Hd as [H1 H2].
    apply Nat.leb_le in H1. apply Nat.ltb_lt in H2. apply Nat.leb_le in H3. apply Nat.ltb_lt in H5.
    apply matched_b_sound in H4.
    split; [lia|]. split; [exact H3|]. split; [exact H4|]. split; [exact H5|].
    intros k Hk. rewrite forallb_forall in H6.
    assert (Hin : In k (seq (fd_hend d) (fd_open d - fd_hend d))) by (apply in_seq; lia).
    apply H6 in Hin. apply andb_prop in Hin as [Ha Hb]. apply negb_true_iff in Ha. apply negb_true_iff in Hb.
    split; assumption.
  - apply sorted_b_sound. exact Ho.
Qed.

Definition header_eqb (a b : header) : bool :=
  Nat.eqb (h_name a) (h_name b) && Nat.eqb (h_start a) (h_start b) && Nat.eqb (h_end a) (h_end b).
Fixpoint headers_eqb (a b : list header) : bool :=
  match a, b with
  | [], [] => true
  | x :: a', y :: b' => header_eqb x y && headers_eqb a' b'
  | _, _ => false
  end.
Lemma headers_eqb_sound : forall a b, headers_eqb a b = true -> a = b.
Proof.
  induction a as [|x a IH]; destruct b as [|y b]; cbn; intros H; try discriminate; auto.
  apply andb_prop in H as [H1 H2]. apply IH in H2. subst.
  unfold header_eqb in H1. apply andb_prop in H1 as [H1 H3]. apply andb_prop in H1 as [H1 H4].
  apply Nat.eqb_eq in H1. apply Nat.eqb_eq in H3. apply Nat.eqb_eq in H4.
  destruct x, y; cbn in *; subst; reflexivity.
Qed.

Definition lexically_canonical_b (ts : list token) (ds : list fdesc) : bool :=
  headers_eqb (lexical_headers ts) (map header_of ds).
Theorem lexically_canonical_b_sound ts ds : lexically_canonical_b ts ds = true -> lexically_canonical ts ds.
Proof. apply headers_eqb_sound. Qed.
