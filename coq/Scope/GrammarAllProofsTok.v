(* GrammarAllProofsTok.v — token facts and facts about the function heads of the grammar of
   Scope/GrammarAll.v (independent of the item rules). *)
From Verif Require Import Base Regex Token TokEngine Headers Blocks Spec HeaderSpec LexShapes Grammar GrammarAll.
From Verif Require Import GrammarProofsParen GrammarProofsBrace.
From Coq Require Import Sorted.
Open Scope nat_scope.

(* ---------- token facts ---------- *)
Lemma pstr_eqb_eq a : forall b, pystr_eqb a b = true -> a = b.
Proof.
  induction a as [|x a IH]; intros [|y b] H; cbn [pystr_eqb] in H; try discriminate; [reflexivity|].
  apply andb_prop in H as [H1 H2]. apply Z.eqb_eq in H1. apply IH in H2. subst. reflexivity.
Qed.

Lemma symbol_other t a b : is_symbol t a = true -> a <> b -> is_symbol t b = false.
Proof.
  unfold is_symbol. intros H Hab. apply andb_prop in H as [_ H]. apply pstr_eqb_eq in H.
  destruct (pystr_eqb (t_value t) b) eqn:E; [|apply andb_false_r].
  apply pstr_eqb_eq in E. congruence.
Qed.

Lemma kw_is_keyword t s : kw_is t s = true -> is_keyword t = true.
Proof. unfold kw_is. intros H. apply andb_prop in H as [H _]. exact H. Qed.
Lemma kw_is_value t s : kw_is t s = true -> pystr_eqb (t_value t) s = true.
Proof. unfold kw_is. intros H. apply andb_prop in H as [_ H]. exact H. Qed.

Lemma operator_kind t s : is_operator t s = true -> t_kind t = KOperator.
Proof. unfold is_operator. intros H. apply andb_prop in H as [H _]. destruct (t_kind t); try discriminate; reflexivity. Qed.
Lemma operator_not_symbol t s x : is_operator t s = true -> is_symbol t x = false.
Proof. intros H. unfold is_symbol. rewrite (operator_kind _ _ H). reflexivity. Qed.
Lemma operator_not_name t s : is_operator t s = true -> is_name t = false.
Proof. intros H. unfold is_name. rewrite (operator_kind _ _ H). reflexivity. Qed.
Lemma operator_not_keyword t s : is_operator t s = true -> is_keyword t = false.
Proof. intros H. unfold is_keyword. rewrite (operator_kind _ _ H). reflexivity. Qed.
Lemma name_not_keyword t : is_name t = true -> is_keyword t = false.
Proof. unfold is_keyword, is_name. destruct (t_kind t); try discriminate; reflexivity. Qed.
Lemma symbol_not_keyword t s : is_symbol t s = true -> is_keyword t = false.
Proof. intros H. unfold is_keyword. rewrite (symbol_kind _ _ H). reflexivity. Qed.
Lemma name_not_operator t s : is_name t = true -> is_operator t s = false.
Proof. unfold is_name, is_operator. destruct (t_kind t); try discriminate; reflexivity. Qed.
Lemma keyword_not_operator t s : is_keyword t = true -> is_operator t s = false.
Proof. unfold is_keyword, is_operator. destruct (t_kind t); try discriminate; reflexivity. Qed.
Lemma symbol_not_operator t s x : is_symbol t s = true -> is_operator t x = false.
Proof. intros H. unfold is_operator. rewrite (symbol_kind _ _ H). reflexivity. Qed.

(* neither brace *)
Definition nb (t : token) : Prop := is_lbrace t = false /\ is_rbrace t = false.
Lemma name_nb t : is_name t = true -> nb t.
Proof. intros H. split; apply name_not_symbol; exact H. Qed.
Lemma keyword_nb t : is_keyword t = true -> nb t.
Proof. intros H. split; apply keyword_not_symbol; exact H. Qed.
Lemma kw_nb t s : kw_is t s = true -> nb t.
Proof. intros H. apply keyword_nb. eapply kw_is_keyword; exact H. Qed.
Lemma operator_nb t s : is_operator t s = true -> nb t.
Proof. intros H. split; eapply operator_not_symbol; exact H. Qed.
Lemma arrow_nb t : is_symbol t s_arrow = true -> nb t.
Proof. intros H. split; apply (symbol_other t s_arrow); try exact H; discriminate. Qed.
Lemma plain_nb t : plain t = true -> nb t.
Proof. intros H. apply plain_inv in H as (_ & _ & H3 & H4). split; assumption. Qed.

Lemma clause_tok_plain t : clause_tok t = true -> plain t = true.
Proof. unfold clause_tok. intros H. apply andb_prop in H as [H _]. apply andb_prop in H as [H _]. exact H. Qed.

Lemma clause_brace_free cl : forallb clause_tok cl = true -> brace_free cl.
Proof.
  intros H. apply Forall_forall. intros t Ht. rewrite forallb_forall in H. apply H in Ht.
  apply plain_nb, clause_tok_plain, Ht.
Qed.

Lemma type_tok_clause t : type_tok t = true -> clause_tok t = true.
Proof. unfold type_tok. intros H. apply andb_prop in H as [H _]. apply andb_prop in H as [H _]. exact H. Qed.

Lemma type_toks_clause ty : forallb type_tok ty = true -> forallb clause_tok ty = true.
Proof.
  intros H. apply forallb_forall. intros t Ht. rewrite forallb_forall in H. apply type_tok_clause. apply H. exact Ht.
Qed.

Lemma word_tok_nb t : word_tok t = true -> nb t.
Proof. unfold word_tok. intros H. apply orb_prop in H as [H|H]; [apply name_nb | apply keyword_nb]; exact H. Qed.

Lemma words_brace_free ws : forallb word_tok ws = true -> brace_free ws.
Proof.
  intros H. apply Forall_forall. intros t Ht. rewrite forallb_forall in H. apply word_tok_nb. apply H. exact Ht.
Qed.

Lemma type_seq_brace_free ty : type_seq ty -> brace_free ty.
Proof.
  induction 1 as [|t r Ht _ _ IH|o g c r Ho Hg Hc _ IH]; unfold brace_free in *.
  - constructor.
  - constructor; [|exact IH]. apply plain_nb, clause_tok_plain, type_tok_clause, Ht.
  - constructor; [split; [apply lparen_not_lbrace | apply lparen_not_rbrace]; exact Ho|].
    apply Forall_app. split; [apply inner_brace_free; exact Hg|].
    constructor; [split; [apply rparen_not_lbrace | apply rparen_not_rbrace]; exact Hc | exact IH].
Qed.

Lemma prefix_word_tok l t : prefix_word l t = true -> prefix_tok t = true.
Proof. unfold prefix_word. intros H. do 4 (apply andb_prop in H as [H _]). exact H. Qed.

Lemma prefix_words_toks l pre : forallb (prefix_word l) pre = true -> forallb prefix_tok pre = true.
Proof.
  intros H. apply forallb_forall. intros t Ht. rewrite forallb_forall in H. eapply prefix_word_tok. apply H. exact Ht.
Qed.

(* ---------- the function heads ---------- *)
Ltac bf_step :=
  match goal with
  | |- brace_free [] => constructor
  | |- brace_free (_ :: _) => apply Forall_cons
  | |- brace_free (_ ++ _) => apply Forall_app; split
  | |- Forall _ [] => constructor
  | |- Forall _ (_ :: _) => apply Forall_cons
  | |- Forall _ (_ ++ _) => apply Forall_app; split
  end.

Lemma plains_brace_free ps : forallb plain ps = true -> brace_free ps.
Proof.
  intros H. apply Forall_forall. intros t Ht. rewrite forallb_forall in H. apply plain_nb. apply H. exact Ht.
Qed.

(* the front of a callback statement is brace-free *)
Lemma open_prefix_brace_free a d : open_prefix a d -> brace_free a.
Proof.
  induction 1 as [|t a d Ht _ _ IH|t a d Ht _ IH|t a d Ht _ IH]; unfold brace_free in *.
  - constructor.
  - apply Forall_app. split; [exact IH|]. constructor; [apply plain_nb; exact Ht | constructor].
  - apply Forall_app. split; [exact IH|]. constructor; [|constructor].
    split; [apply lparen_not_lbrace | apply lparen_not_rbrace]; exact Ht.
  - apply Forall_app. split; [exact IH|]. constructor; [|constructor].
    split; [apply rparen_not_lbrace | apply rparen_not_rbrace]; exact Ht.
Qed.

Lemma cb_tail_brace_free tail : cb_tail tail -> brace_free tail.
Proof.
  intros [fk gs Hfk Hgs|gs arrow Hgs Har]; unfold brace_free.
  - constructor; [eapply kw_nb; exact Hfk | apply groups_brace_free; exact Hgs].
  - apply Forall_app. split; [apply groups_brace_free; exact Hgs|]. constructor; [apply arrow_nb; exact Har | constructor].
Qed.

Lemma rparens_brace_free post : forallb is_rparen post = true -> brace_free post.
Proof.
  intros H. apply Forall_forall. intros t Ht. rewrite forallb_forall in H. apply H in Ht.
  split; [apply rparen_not_lbrace | apply rparen_not_rbrace]; exact Ht.
Qed.

(* parameter lists with flat brace groups *)
Lemma inner_binner g : inner g -> forall ok, binner ok g.
Proof.
  induction 1 as [|t r Ht Hr IH|o g c r Ho Hg IHg Hc Hr IHr]; intros ok.
  - apply bi_nil.
  - apply bi_plain; [exact Ht | apply IH].
  - apply bi_group; [exact Ho | apply IHg | exact Hc | apply IHr].
Qed.

Lemma group_bgroup g : group g -> bgroup g.
Proof. intros [o g' c Ho Hg Hc]. apply bgroup_intro; [exact Ho | apply inner_binner; exact Hg | exact Hc]. Qed.

Lemma groups_bgroups gs : groups gs -> bgroups gs.
Proof.
  induction 1 as [g Hg|g r Hg Hr IH]; [apply bgroups_one, group_bgroup, Hg|].
  apply bgroups_more; [apply group_bgroup, Hg | exact IH].
Qed.

Lemma nb_balanced t : nb t -> balanced [t].
Proof. intros [H1 H2]. apply balanced_single; assumption. Qed.

Lemma binner_balanced ok g : binner ok g -> balanced g.
Proof.
  induction 1 as [ok|ok t r Ht Hr IH|ok o g c r Ho Hg IHg Hc Hr IHr|o flat c r Ho Hflat Hc Hr IH].
  - apply balanced_nil.
  - change (t :: r) with ([t] ++ r). apply balanced_app; [apply nb_balanced, plain_nb, Ht | exact IH].
  - change (o :: g ++ c :: r) with ([o] ++ g ++ [c] ++ r).
    apply balanced_app; [apply nb_balanced; split; [apply lparen_not_lbrace | apply lparen_not_rbrace]; exact Ho|].
    apply balanced_app; [exact IHg|].
    apply balanced_app; [apply nb_balanced; split; [apply rparen_not_lbrace | apply rparen_not_rbrace]; exact Hc | exact IHr].
  - replace (o :: flat ++ c :: r) with ((o :: flat ++ [c]) ++ r) by (norm_app; reflexivity).
    apply balanced_app; [|exact IH]. apply balanced_block; try assumption.
    apply brace_free_balanced, plains_brace_free, Hflat.
Qed.

Lemma bgroup_balanced g : bgroup g -> balanced g.
Proof.
  intros [o g' c Ho Hg Hc]. change (o :: g' ++ [c]) with ([o] ++ g' ++ [c]).
  apply balanced_app; [apply nb_balanced; split; [apply lparen_not_lbrace | apply lparen_not_rbrace]; exact Ho|].
  apply balanced_app; [eapply binner_balanced; exact Hg|].
  apply nb_balanced; split; [apply rparen_not_lbrace | apply rparen_not_rbrace]; exact Hc.
Qed.

Lemma bgroups_balanced gs : bgroups gs -> balanced gs.
Proof.
  induction 1 as [g Hg|g r Hg Hr IH]; [apply bgroup_balanced, Hg|].
  apply balanced_app; [apply bgroup_balanced, Hg | exact IH].
Qed.

Ltac bal_step :=
  match goal with
  | |- balanced [] => apply balanced_nil
  | |- balanced [?x] => apply nb_balanced
  | |- balanced (?x :: ?r) => change (x :: r) with ([x] ++ r); apply balanced_app
  | |- balanced (_ ++ _) => apply balanced_app
  end.

(* a head is brace-balanced (its parameter groups may contain flat brace groups) *)
Lemma fhead_balanced l hd n h : fhead l hd n h -> balanced hd.
Proof.
  intros H. destruct H; repeat bal_step;
    try (apply bgroups_balanced; assumption);
    try (apply brace_free_balanced, groups_brace_free; assumption);
    try (apply brace_free_balanced, clause_brace_free; assumption);
    try (apply brace_free_balanced, type_seq_brace_free; assumption);
    try (apply name_nb; assumption);
    try (eapply kw_nb; eassumption);
    try (eapply operator_nb; eassumption);
    try (apply arrow_nb; assumption).
Qed.

(* after the recognised shape (throws clause, return type) there is no brace *)
Lemma fhead_tail l hd n h : fhead l hd n h -> exists A T, hd = A ++ T /\ length A = h /\ brace_free T.
Proof.
  intros H. destruct H as [nm gs Hcf Hnm Hgs | nm gs thr clause HJ Hnm Hgs Hthr Hcl | nm gs Hjs Hnm Hgs | fk nm gs Hjs Hfk Hnm Hgs
                  | nm gs colon ty HT Hnm Hgs Hco Hty | fk nm gs colon ty HT Hfk Hnm Hgs Hco Hty
                  | nm eq gs arrow | nm eq ak gs arrow | ck nm eq gs arrow | ck nm eq ak gs arrow].
  - exists (nm :: gs), []. split; [rewrite app_nil_r; reflexivity|]. split; [reflexivity | constructor].
  - exists (nm :: gs), (thr :: clause). split; [reflexivity|]. split; [reflexivity|].
    constructor; [eapply kw_nb; exact Hthr | apply clause_brace_free; exact Hcl].
  - exists (nm :: gs), []. split; [rewrite app_nil_r; reflexivity|]. split; [reflexivity | constructor].
  - exists (fk :: nm :: gs), []. split; [rewrite app_nil_r; reflexivity|]. split; [reflexivity | constructor].
  - exists (nm :: gs), (colon :: ty). split; [reflexivity|]. split; [reflexivity|].
    constructor; [eapply operator_nb; exact Hco | apply type_seq_brace_free; exact Hty].
  - exists (fk :: nm :: gs), (colon :: ty). split; [reflexivity|]. split; [reflexivity|].
    constructor; [eapply operator_nb; exact Hco | apply type_seq_brace_free; exact Hty].
  - exists (nm :: eq :: gs ++ [arrow]), []. split; [rewrite app_nil_r; reflexivity|]. split; [norm_len; lia | constructor].
  - exists (nm :: eq :: ak :: gs ++ [arrow]), []. split; [rewrite app_nil_r; reflexivity|]. split; [norm_len; lia | constructor].
  - exists (ck :: nm :: eq :: gs ++ [arrow]), []. split; [rewrite app_nil_r; reflexivity|]. split; [norm_len; lia | constructor].
  - exists (ck :: nm :: eq :: ak :: gs ++ [arrow]), []. split; [rewrite app_nil_r; reflexivity|]. split; [norm_len; lia | constructor].
Qed.

Lemma fhead_offsets l hd n h : fhead l hd n h -> n < h /\ h <= length hd.
Proof. intros H. destruct H; norm_len; lia. Qed.

Lemma brace_free_sym_at P A R k : brace_free A -> length P <= k < length P + length A ->
  sym_at (P ++ A ++ R) k lbrace = false /\ sym_at (P ++ A ++ R) k rbrace = false.
Proof.
  intros HA Hk. unfold sym_at. rewrite nth_error_app2 by lia. rewrite nth_error_app1 by lia.
  destruct (nth_error A (k - length P)) as [t|] eqn:E; [|split; reflexivity].
  apply nth_error_In in E. unfold brace_free in HA. rewrite Forall_forall in HA. apply HA in E. exact E.
Qed.


