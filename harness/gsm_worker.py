"""Sub-process of the C14 / C13 checks: the FIRST thing this process does with the pattern engine is to compile and run the
given expression (state numbering starts afresh in every process); then it runs it a second time.  Prints both observations."""
import json
import os
import sys
import warnings

warnings.simplefilter("ignore")
sys.path.insert(0, os.environ.get("VERIF_REPO", "/repo"))
sys.path.insert(0, os.path.dirname(os.path.abspath(__file__)))
import gsm_common as G  # noqa: E402


def main():
    spec = json.load(sys.stdin)
    e, words = spec["expr"], [tuple(w) for w in spec["words"]]
    first = [G.impl_obs(e, w)[0] for w in words]
    second = [G.impl_obs(e, w)[0] for w in words]
    print(json.dumps({"first": first, "second": second}))


if __name__ == "__main__":
    main()
