(* PyGrammarParse.v — an executable recogniser for the Python grammar of PyGrammar.v: the token list is cut into
   physical lines, and blocks are recognised by the column of each line's first token.  Proved sound in
   Scope/PyGrammarParseProofs.v (py_parse_program ts = Some ds -> py_canonical_program ts ds), so that for every
   generated program it accepts the unconditional theorem C01_grammar_python applies as it stands. *)
From Verif Require Import Base Regex Token TokEngine Lex Headers Blocks Spec HeaderSpec LexShapes PySpec Grammar GrammarAll GrammarParse PyGrammar.
Open Scope Z_scope.

Definition dummy_tok : token := mkTok KOther [] 0 0.

(* the tokens of the first physical line of ts (the maximal prefix on the line of its first token), and the rest *)
Fixpoint take_line (ln : Z) (ts : list token) : list token * list token :=
  match ts with
  | t :: r => if t_line t =? ln then let '(l, rest) := take_line ln r in (t :: l, rest) else ([], ts)
  | [] => ([], [])
  end.

Fixpoint split_lines (fuel : nat) (ts : list token) : list (list token) :=
  match fuel with
  | O => []
  | S f => match ts with
           | [] => []
           | t :: _ => let '(l, rest) := take_line (t_line t) ts in l :: split_lines f rest
           end
  end.

Definition no_def_b (ts : list token) : bool := forallb (fun t => negb (kw_is t s_def)) ts.
Definition line_col (l : list token) : Z := t_col (hd dummy_tok l).
Definition line_no (l : list token) : Z := t_line (hd dummy_tok l).

(* line_at c ln l, decided *)
Definition line_ok (c ln : Z) (l : list token) : bool :=
  match l with
  | [] => false
  | _ => forallb (fun t => t_line t =? ln) l && (line_col l =? c)
         && forallb (fun t => negb (ends_with_str [92; 10] (t_value t))) l
         && negb (kw_is (last l dummy_tok) s_async)
  end.

(* a definition line: Some (name offset, end of the header shape) *)
Definition def_shape (l : list token) : option (nat * nat) :=
  let go (pre : nat) (r : list token) :=
    match r with
    | d :: nm :: r2 =>
        if kw_is d s_def && is_name nm then
          let n := groups_len r2 0 in
          let gs := firstn n r2 in
          let rest := skipn n r2 in
          match rest with
          | [] => None
          | x :: _ =>
              if groups_b gs && no_def_b gs && negb (is_lparen x) && no_def_b rest
              then Some ((pre + 1)%nat, (pre + 2 + n)%nat) else None
          end
        else None
    | _ => None
    end in
  match l with
  | a :: r => if kw_is a s_async then go 1%nat r else go O l
  | [] => None
  end.

(* entries of one block at column c: consumes lines while their column is c (deeper lines belong to the entry
   before them); returns descriptors, the remaining lines, the last line number, and the number of tokens used *)
Fixpoint py_block (fuel : nat) (c : Z) (off : nat) (lo : Z) (lines : list (list token))
  : option (list pydesc * list (list token) * Z * nat) :=
  match fuel with
  | O => None
  | S f =>
      match lines with
      | [] => None
      | l :: rest =>
          let ln := line_no l in
          if negb (line_ok c ln l && (lo <? ln)) then None else
          (* the entry starting with l *)
          let entry : option (list pydesc * list (list token) * Z * nat) :=
            match rest with
            | l2 :: _ =>
                if c <? line_col l2 then
                  match py_block f (line_col l2) (off + length l) ln rest with
                  | Some (ds, rest2, hi, used) =>
                      match def_shape l with
                      | Some (nmo, heo) =>
                          Some (mkPd (off + nmo) off (off + heo) (off + length l) (off + length l + used) :: ds,
                                rest2, hi, (length l + used)%nat)
                      | None => if no_def_b l then Some (ds, rest2, hi, (length l + used)%nat) else None
                      end
                  | None => None
                  end
                else if no_def_b l then Some ([], rest, ln, length l) else None
            | [] => if no_def_b l then Some ([], rest, ln, length l) else None
            end in
          match entry with
          | None => None
          | Some (ds1, rest1, mid, used1) =>
              match rest1 with
              | l3 :: _ =>
                  if line_col l3 =? c then
                    match py_block f c (off + used1) mid rest1 with
                    | Some (ds2, rest2, hi, used2) => Some (ds1 ++ ds2, rest2, hi, (used1 + used2)%nat)
                    | None => None
                    end
                  else Some (ds1, rest1, mid, used1)
              | [] => Some (ds1, rest1, mid, used1)
              end
          end
      end
  end.

Definition py_parse_program (ts : list token) : option (list pydesc) :=
  let lines := split_lines (length ts) ts in
  match lines with
  | [] => None
  | l :: _ =>
      match py_block (S (length lines) * 2) (line_col l) O (line_no l - 1) lines with
      | Some (ds, [], _, _) => Some ds
      | _ => None
      end
  end.
