(* HeaderProofsDfa.v — the automata of the C-family header pattern and of its
   follow-up as concrete objects; how Pattern.consume behaves in each of their
   reachable states; the isolated greedy run from a start position ends exactly
   where HeaderSpec.cand_end says. *)
From Verif Require Import Base Regex Nfa Dfa Token TokEngine GenPatterns Headers Blocks Spec HeaderSpec Scan ScanProofs.
Open Scope Z_scope.

Definition Bal : tpred := PBalanced (PSymbol lparen) (PSymbol rparen).

(* ---------- the two automata ---------- *)
Definition h0 : heap tpred :=
  [mkNode [(PName, 1%nat)] []; mkNode [] [3%nat]; mkNode [] [3%nat];
   mkNode [(Bal, 4%nat)] []; mkNode [] [3%nat; 5%nat]; mkNode [] []].
Definition a0 : automaton tpred := mkAut h0 [0%nat] 5%nat.

Definition hf : heap tpred := [mkNode [(PSymbol lbrace, 1%nat)] []; mkNode [] []].
Definition af : automaton tpred := mkAut hf [0%nat] 1%nat.

Lemma to_dfa_pattern : tk_to_dfa cfamily_pattern = OK a0.
Proof. vm_compute. reflexivity. Qed.
Lemma to_dfa_followup : tk_to_dfa cfamily_followup = OK af.
Proof. vm_compute. reflexivity. Qed.

(* the reachable subset states of a0: S0 = {0}, S1 = {1,3}, S2 = {3,4,5} *)
Definition S0 : list nat := [0%nat].
Definition S1 : list nat := [1%nat; 3%nat].
Definition S2 : list nat := [3%nat; 4%nat; 5%nat].

Lemma dtrans_S0 : dtrans tpred_eqb h0 S0 = [PName].
Proof. vm_compute. reflexivity. Qed.
Lemma dtrans_S1 : dtrans tpred_eqb h0 S1 = [Bal].
Proof. vm_compute. reflexivity. Qed.
Lemma dtrans_S2 : dtrans tpred_eqb h0 S2 = [Bal].
Proof. vm_compute. reflexivity. Qed.
Lemma next_S0 : closure h0 (move tpred_eqb h0 S0 PName) = OK S1.
Proof. vm_compute. reflexivity. Qed.
Lemma next_S1 : closure h0 (move tpred_eqb h0 S1 Bal) = OK S2.
Proof. vm_compute. reflexivity. Qed.
Lemma next_S2 : closure h0 (move tpred_eqb h0 S2 Bal) = OK S2.
Proof. vm_compute. reflexivity. Qed.

Lemma dtrans_F0 : dtrans tpred_eqb hf [0%nat] = [PSymbol lbrace].
Proof. vm_compute. reflexivity. Qed.
Lemma next_F0 : closure hf (move tpred_eqb hf [0%nat] (PSymbol lbrace)) = OK [1%nat].
Proof. vm_compute. reflexivity. Qed.

(* the attempts: fresh, after the name, inside/after the groups at depth d *)
Definition P0 (i : nat) : pat tpred := mkPat i S0 [] 0.
Definition P1 (i : nat) : pat tpred := mkPat i S1 [(PName, 0)] 1.
Definition P2 (i : nat) (d : Z) (n : nat) : pat tpred := mkPat i S2 [(PName, 0); (Bal, d)] n.

Lemma new_pat_a0 i : new_pat a0 i = P0 i.
Proof. reflexivity. Qed.

Lemma acc_P0 i : is_accepting a0 (P0 i) = false.
Proof. reflexivity. Qed.
Lemma acc_P1 i : is_accepting a0 (P1 i) = false.
Proof. reflexivity. Qed.
Lemma acc_P2 i d n : is_accepting a0 (P2 i d n) = true.
Proof. reflexivity. Qed.

Lemma eqb_Bal_Name : tpred_eqb Bal PName = false.
Proof. reflexivity. Qed.
Lemma eqb_Bal_Bal : tpred_eqb Bal Bal = true.
Proof. reflexivity. Qed.

Local Notation consume := (consume tpred_eqb taccept_st).

Lemma consume_P0 i x :
  consume a0 (P0 i) x = if is_name x then OK (Some (P1 i)) else OK None.
Proof.
  unfold Dfa.consume. cbv zeta. cbn [a_heap a0 p_state p_depths p_start p_len P0].
  rewrite dtrans_S0. cbn [filter depth_of]. change (0 <? 0) with false. cbv iota.
  cbn [fold_left depth_of taccept_st taccept set_depth].
  destruct (is_name x); [|reflexivity]. rewrite next_S0. reflexivity.
Qed.

Lemma consume_P1 i x :
  consume a0 (P1 i) x = if is_symbol x lparen then OK (Some (P2 i 1 2)) else OK None.
Proof.
  unfold Dfa.consume. cbv zeta. cbn [a_heap a0 p_state p_depths p_start p_len P1].
  rewrite dtrans_S1. cbn [filter depth_of]. rewrite eqb_Bal_Name.
  change (0 <? 0) with false. cbv iota. cbn [fold_left depth_of]. rewrite eqb_Bal_Name.
  unfold Bal at 1 2. cbn [taccept_st taccept]. fold Bal.
  destruct (is_symbol x lparen).
  - cbn [set_depth]. rewrite eqb_Bal_Name. rewrite next_S1. reflexivity.
  - destruct (is_symbol x rparen); reflexivity.
Qed.

Lemma consume_P2 i d n x :
  consume a0 (P2 i d n) x =
  (let '(b, d') := taccept_st Bal d x in
   if b then OK (Some (P2 i d' (S n))) else OK None).
Proof.
  unfold Dfa.consume. cbv zeta. cbn [a_heap a0 p_state p_depths p_start p_len P2].
  rewrite dtrans_S2. cbn [filter depth_of]. rewrite eqb_Bal_Name, eqb_Bal_Bal.
  assert (E : match (if 0 <? d then [Bal] else []) with [] => [Bal] | _ :: _ => (if 0 <? d then [Bal] else []) end = [Bal])
    by (destruct (0 <? d); reflexivity).
  rewrite E. cbn [fold_left depth_of]. rewrite eqb_Bal_Name, eqb_Bal_Bal.
  destruct (taccept_st Bal d x) as [b d'].
  cbn [set_depth]. rewrite eqb_Bal_Name, eqb_Bal_Bal.
  destruct b; [|reflexivity]. rewrite next_S2. reflexivity.
Qed.

(* ---------- Balanced on a token, by classification ---------- *)
Lemma bal_step d x : 0 <= d ->
  taccept_st Bal d x =
  if is_symbol x lparen then (true, d + 1)
  else if is_symbol x rparen then (if 0 <? d then (true, d - 1) else (false, d - 1))
  else (0 <? d, d).
Proof.
  intros Hd. unfold Bal. cbn [taccept_st taccept].
  destruct (is_symbol x lparen); [reflexivity|].
  destruct (is_symbol x rparen); [|reflexivity].
  destruct (Z.ltb_spec (d - 1) 0), (Z.ltb_spec 0 d); try reflexivity; lia.
Qed.

Local Notation greedy_run := (greedy_run tpred_eqb taccept_st).
Local Notation greedy := (greedy tpred_eqb taccept_st).

(* ---------- the run through the groups ---------- *)
Lemma greedy_run_P2 : forall w i d n, 0 <= d ->
  greedy_run a0 (P2 i d n) w = OK (Some (n + groups_len w d)%nat).
Proof.
  induction w as [|x w IH]; intros i d n Hd.
  - cbn [Scan.greedy_run groups_len]. rewrite acc_P2. cbn [P2 p_len]. f_equal. f_equal. lia.
  - cbn [Scan.greedy_run groups_len]. rewrite consume_P2, (bal_step d x Hd), acc_P2.
    destruct (is_symbol x lparen).
    + rewrite IH by lia. destruct (Z.ltb_spec 0 d) as [Hp|Hz].
      * f_equal. f_equal. lia.
      * replace (d + 1) with 1 by lia. f_equal. f_equal. lia.
    + destruct (is_symbol x rparen).
      * destruct (Z.ltb_spec 0 d) as [Hp|Hz].
        -- rewrite IH by lia. f_equal. f_equal. lia.
        -- cbn [P2 p_len]. f_equal. f_equal. lia.
      * destruct (Z.ltb_spec 0 d) as [Hp|Hz].
        -- rewrite IH by lia. f_equal. f_equal. lia.
        -- cbn [P2 p_len]. f_equal. f_equal. lia.
Qed.

(* the whole run, on the suffix that starts at the attempt's start position *)
Definition cand_len (w : list token) : option nat :=
  match w with
  | t :: p :: r => if is_name t && is_symbol p lparen then Some (S (groups_len (p :: r) 0)) else None
  | _ => None
  end.

Lemma greedy_run_P0 w i : greedy_run a0 (P0 i) w = OK (cand_len w).
Proof.
  destruct w as [|t w]; [reflexivity|].
  cbn [Scan.greedy_run cand_len]. rewrite consume_P0, acc_P0.
  destruct (is_name t); cbn [andb].
  - destruct w as [|p r]; [reflexivity|].
    cbn [Scan.greedy_run]. rewrite consume_P1, acc_P1.
    destruct (is_symbol p lparen) eqn:Ep.
    + rewrite greedy_run_P2 by lia. cbn [groups_len]. rewrite Ep.
      change (0 <? 0) with false. cbv iota. reflexivity.
    + reflexivity.
  - destruct w; reflexivity.
Qed.

(* ---------- positions ---------- *)
Lemma nth_error_skipn_hd {A} : forall i (l : list A), nth_error l i = hd_error (skipn i l).
Proof.
  induction i as [|i IH]; intros [|x l]; cbn [nth_error skipn hd_error]; try reflexivity. apply IH.
Qed.

Lemma skipn_cons_S {A} : forall i (l : list A) x r, skipn i l = x :: r -> skipn (S i) l = r.
Proof.
  induction i as [|i IH]; intros l x r H.
  - cbn [skipn] in H. subst l. reflexivity.
  - destruct l as [|y l]; [discriminate|]. cbn [skipn] in H. apply IH in H. exact H.
Qed.

Lemma cand_end_len ts i :
  cand_end ts i = match cand_len (skipn i ts) with Some n => Some (i + n)%nat | None => None end.
Proof.
  unfold cand_end. rewrite !nth_error_skipn_hd.
  destruct (skipn i ts) as [|t w] eqn:E1; [reflexivity|].
  rewrite (skipn_cons_S i ts t w E1). cbn [hd_error cand_len].
  destruct w as [|p r]; [reflexivity|]. cbn [hd_error].
  destruct (is_name t && is_symbol p lparen); [|reflexivity].
  f_equal. lia.
Qed.

Theorem greedy_a0 ts i : greedy a0 ts i = OK (cand_end ts i).
Proof.
  unfold Scan.greedy. rewrite new_pat_a0, greedy_run_P0, cand_end_len.
  destruct (cand_len (skipn i ts)); reflexivity.
Qed.

(* a candidate starts at a name and is at least two tokens long *)
Lemma cand_end_facts ts i j : cand_end ts i = Some j ->
  (exists t, nth_error ts i = Some t /\ is_name t = true) /\ (i + 2 <= j)%nat.
Proof.
  unfold cand_end. destruct (nth_error ts i) as [t|]; [|discriminate].
  destruct (nth_error ts (S i)) as [p|] eqn:Ep; [|discriminate].
  destruct (is_name t) eqn:En; [|discriminate]. cbn [andb].
  destruct (is_symbol p lparen) eqn:El; [|discriminate].
  rewrite nth_error_skipn_hd in Ep.
  remember (skipn (S i) ts) as w eqn:Ew. destruct w as [|q r]; [discriminate|].
  cbn [hd_error] in Ep. injection Ep as ->. cbn [groups_len]. rewrite El.
  change (0 <? 0) with false. cbv iota. intros [= <-].
  split; [exists t; split; [reflexivity | exact En]|]. lia.
Qed.

(* ---------- the follow-up test ---------- *)
Lemma followup_test ts j :
  tk_starts_with_dfa af (skipn j ts) = OK (if sym_at ts j lbrace then Some 1%nat else None).
Proof.
  unfold sym_at. rewrite nth_error_skipn_hd.
  unfold tk_starts_with_dfa, starts_with_dfa.
  destruct (skipn j ts) as [|x w]; [reflexivity|]. cbn [hd_error run_prefix].
  unfold Dfa.consume. cbv zeta. cbn [a_heap af p_state p_depths p_start p_len new_pat a_start].
  rewrite dtrans_F0. cbn [filter depth_of]. change (0 <? 0) with false. cbv iota.
  cbn [fold_left depth_of taccept_st taccept set_depth].
  destruct (is_symbol x lbrace); [|reflexivity]. rewrite next_F0. reflexivity.
Qed.
