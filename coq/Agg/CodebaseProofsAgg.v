(* CodebaseProofsAgg.v — aggregate(): every folder profile becomes the sum of the
   profiles of all files beneath it (any depth); the fuel suffices. *)
From Verif Require Import Base BaseProofs GenThresholds Thresholds Codebase
  CodebaseProofsStr CodebaseProofsTotals CodebaseProofsTree CodebaseProofsInv.
Open Scope Z_scope.

(* ---------- the inner loop as a top-level function ---------- *)
Section AggGo.
  Variable rec : dict folder -> pystr -> res (dict folder * list Z).
  Variable path : pystr.
  Fixpoint agg_go (ens : list entry) (tree : dict folder) (profile : list Z) : res (dict folder * list Z) :=
    match ens with
    | [] => OK (tree, profile)
    | EFile e :: r => agg_go r tree (merge_profiles profile (e_profile e))
    | EFolder name :: r =>
        let sub := if pystr_eqb path [46; 47] then name else path ++ name in
        match rec tree sub with
        | Err k => Err k
        | OK (tree', p) => agg_go r tree' (merge_profiles profile p)
        end
    end.
End AggGo.

Lemma aggregate_folder_S f tree path :
  aggregate_folder (S f) tree path =
  match dget tree path with
  | None => Err KeyError
  | Some fo =>
      match agg_go (aggregate_folder f) path (fo_entries fo) tree (fo_profile fo) with
      | Err k => Err k
      | OK (tree', profile) =>
          match dget tree' path with
          | None => Err KeyError
          | Some fo' => OK (dset tree' path (mkFolder (fo_entries fo') profile), profile)
          end
      end
  end.
Proof. reflexivity. Qed.

(* ---------- profiles ---------- *)
Definition pe (i : nat) (e : FileEntry) : Z := nthZ i (e_profile e).
Definition prof4 (fs : list FileEntry) : list Z :=
  [sumf (pe 0) fs; sumf (pe 1) fs; sumf (pe 2) fs; sumf (pe 3) fs].
Definition files_beneath (es : list FileEntry) (k : pystr) : list FileEntry :=
  filter (fun e => beneathb k (e_path e)) es.
Definition target (es : list FileEntry) (k : pystr) : list Z := prof4 (files_beneath es k).
Definition val (es : list FileEntry) (k : pystr) (en : entry) : list Z :=
  match en with EFile e => e_profile e | EFolder n => target es (sub_key k n) end.

Lemma merge_profiles_4 a b c d v :
  merge_profiles [a; b; c; d] v = [a + nthZ 0 v; b + nthZ 1 v; c + nthZ 2 v; d + nthZ 3 v].
Proof. reflexivity. Qed.

Lemma fold_merge vs : forall a b c d,
  fold_left merge_profiles vs [a; b; c; d] =
  [a + sumf (nthZ 0) vs; b + sumf (nthZ 1) vs; c + sumf (nthZ 2) vs; d + sumf (nthZ 3) vs].
Proof.
  induction vs as [|v vs IH]; intros a b c d; cbn [fold_left].
  - rewrite !sumf_nil, !Z.add_0_r. reflexivity.
  - rewrite merge_profiles_4, IH, !sumf_cons. repeat (f_equal; try lia).
Qed.

Lemma sumf_entries (g : entry -> Z) l :
  sumf g l = sumf (fun e => g (EFile e)) (ents_files l) + sumf (fun n => g (EFolder n)) (ents_subs l).
Proof.
  induction l as [|[e|n] l IH]; [reflexivity| |]; rewrite sumf_cons, IH.
  - change (ents_files (EFile e :: l)) with (e :: ents_files l).
    change (ents_subs (EFile e :: l)) with (ents_subs l). rewrite sumf_cons. lia.
  - change (ents_files (EFolder n :: l)) with (ents_files l).
    change (ents_subs (EFolder n :: l)) with (n :: ents_subs l). rewrite sumf_cons. lia.
Qed.

Definition same_skel (t0 t : dict folder) : Prop :=
  keys t0 = keys t /\ forall k, option_map fo_entries (dget t0 k) = option_map fo_entries (dget t k).

Lemma same_skel_refl t : same_skel t t.
Proof. split; auto. Qed.

Lemma same_skel_get t0 t k fo : same_skel t0 t -> dget t k = Some fo ->
  exists fo0, dget t0 k = Some fo0 /\ fo_entries fo0 = fo_entries fo.
Proof.
  intros [_ H] Hg. specialize (H k). rewrite Hg in H. destruct (dget t0 k) as [fo0|]; [|discriminate].
  exists fo0. split; [reflexivity|]. cbn in H. congruence.
Qed.

Lemma same_skel_get0 t0 t k fo0 : same_skel t0 t -> dget t0 k = Some fo0 ->
  exists fo, dget t k = Some fo /\ fo_entries fo = fo_entries fo0.
Proof.
  intros [_ H] Hg. specialize (H k). rewrite Hg in H. destruct (dget t k) as [fo|]; [|discriminate].
  exists fo. split; [reflexivity|]. cbn in H. congruence.
Qed.

Lemma same_skel_Shape es t0 t : same_skel t0 t -> Shape es t0 -> Shape es t.
Proof.
  intros HSk [HT Hk Hf]. pose proof HSk as [Hkeys Hents]. constructor.
  - apply (TInv_ext [] t0 t Hkeys); [|exact HT]. intros k. specialize (Hents k).
    destruct (dget t0 k), (dget t k); cbn in *; try discriminate; [|reflexivity].
    unfold subs_of. congruence.
  - intros k. rewrite <- Hkeys. apply Hk.
  - intros k. rewrite <- Hf. specialize (Hents k).
    destruct (dget t0 k), (dget t k); cbn in *; try discriminate; [|reflexivity].
    unfold files_of. congruence.
Qed.

Lemma fkey_child_neq cs c ds c' ds' : good (cs ++ c :: ds) -> good (cs ++ c' :: ds') -> c <> c' ->
  fkey (cs ++ c :: ds) <> fkey (cs ++ c' :: ds').
Proof.
  intros H1 H2 Hne E. apply fkey_inj in E; auto. apply app_inv_head in E. congruence.
Qed.

Lemma good_child cs c ds : good cs -> okc c -> good ds -> good (cs ++ c :: ds).
Proof. intros H1 H2 H3. apply good_app. split; [exact H1|]. constructor; assumption. Qed.

Section Agg.
  Variables (es : list FileEntry) (tree0 : dict folder) (D : nat).
  Hypothesis HS : Shape es tree0.
  Hypothesis Hwf : forall e, In e es -> wf_path (e_path e).
  Hypothesis HD : forall cs, good cs -> In (fkey cs) (keys tree0) -> (length cs <= D)%nat.

  Let HT : TInv [] tree0 := sh_t _ _ HS.

  (* ----- arithmetic: a folder's beneath-sum splits into its files and its sub-folders ----- *)
  Lemma beneathb_fkey_true cs p : good cs -> wf_path p ->
    (beneathb (fkey cs) p = true <-> exists suf, suf <> [] /\ split_path p = cs ++ suf).
  Proof.
    intros Hg Hp. apply wf_path_good in Hp. destruct Hp as [Hne Hgp].
    rewrite beneathb_spec. apply beneath_fkey; assumption.
  Qed.

  Lemma in_folder_true cs e : good cs -> wf_path (e_path e) ->
    (in_folder (fkey cs) e = true <-> removelast (split_path (e_path e)) = cs).
  Proof.
    intros Hg Hp. apply wf_path_good in Hp. destruct Hp as [Hne Hgp].
    unfold in_folder. rewrite pystr_eqb_eq. apply folder_of_fkey; assumption.
  Qed.

  Lemma beneath_decomp cs names e v : good cs -> In e es -> NoDup names ->
    (forall c, In c names <-> okc c /\ In (fkey (cs ++ [c])) (keys tree0) /\ ~ In (fkey (cs ++ [c])) []) ->
    (if beneathb (fkey cs) (e_path e) then v else 0) =
    (if in_folder (fkey cs) e then v else 0) +
    sumf (fun c' => if beneathb (fkey (cs ++ [c'])) (e_path e) then v else 0) names.
  Proof.
    intros Hg He Hnd Hnames. pose proof (Hwf e He) as Hp.
    pose proof Hp as Hp'. apply wf_path_good in Hp'. destruct Hp' as [Hne Hgp].
    destruct (beneathb (fkey cs) (e_path e)) eqn:Eb.
    - apply beneathb_fkey_true in Eb; auto. destruct Eb as (suf & Hsne & Eps).
      destruct suf as [|x suf']; [congruence|]. destruct suf' as [|y suf''].
      + (* the file lies directly in this folder *)
        assert (E1 : in_folder (fkey cs) e = true).
        { apply in_folder_true; auto. rewrite Eps, removelast_snoc. reflexivity. }
        rewrite E1. rewrite sumf_zero; [lia|]. intros c' Hc'.
        destruct (beneathb (fkey (cs ++ [c'])) (e_path e)) eqn:E2; [|reflexivity]. exfalso.
        apply Hnames in Hc'. destruct Hc' as (Hoc' & _).
        apply beneathb_fkey_true in E2; auto; [|apply good_snoc; auto].
        destruct E2 as (suf & Hs & E2). rewrite Eps, <- app_assoc in E2. apply app_inv_head in E2.
        cbn in E2. injection E2 as _ E3. symmetry in E3. contradiction.
      + (* the file lies in the sub-folder x *)
        assert (E1 : in_folder (fkey cs) e = false).
        { destruct (in_folder (fkey cs) e) eqn:E1; [|reflexivity]. exfalso.
          apply in_folder_true in E1; auto. rewrite Eps in E1.
          change (x :: y :: suf'') with ([x] ++ y :: suf'') in E1.
          rewrite app_assoc in E1.
          destruct (snoc_cases (y :: suf'')) as [E0|(l & z & E0)]; [discriminate|].
          rewrite E0, app_assoc, removelast_snoc in E1.
          apply (f_equal (@length pystr)) in E1. rewrite !app_length in E1. cbn in E1. lia. }
        rewrite E1.
        assert (Hgx : good (cs ++ [x])).
        { rewrite Eps in Hgp. change (x :: y :: suf'') with ([x] ++ y :: suf'') in Hgp.
          rewrite app_assoc in Hgp. eapply good_prefix; exact Hgp. }
        assert (Hox : okc x) by (apply good_snoc in Hgx; tauto).
        rewrite (sumf_ext _ (fun c' => if pystr_eqb c' x then v else 0)).
        * rewrite (sumf_indicator pystr_eqb names x v pystr_eqb_eq Hnd).
          assert (Ex : existsb (fun a => pystr_eqb a x) names = true).
          { apply existsb_exists. exists x. split; [|apply pystr_eqb_refl]. apply Hnames.
            split; [exact Hox|]. split; [|intros []]. apply (sh_keys _ _ HS). right. exists e.
            split; [exact He|]. unfold ancestors. apply in_map. apply In_pprefixes.
            split; [destruct cs; discriminate|]. exists (y :: suf''). split; [discriminate|].
            rewrite Eps, <- app_assoc. reflexivity. }
          rewrite Ex. lia.
        * intros c' Hc'. apply Hnames in Hc'. destruct Hc' as (Hoc' & _).
          destruct (pystr_eqb_spec c' x) as [->|Hne'].
          -- assert (E2 : beneathb (fkey (cs ++ [x])) (e_path e) = true).
             { apply beneathb_fkey_true; auto. exists (y :: suf''). split; [discriminate|].
               rewrite Eps, <- app_assoc. reflexivity. }
             rewrite E2. reflexivity.
          -- destruct (beneathb (fkey (cs ++ [c'])) (e_path e)) eqn:E2; [|reflexivity]. exfalso.
             apply beneathb_fkey_true in E2; auto; [|apply good_snoc; auto].
             destruct E2 as (suf & Hs & E2). rewrite Eps, <- app_assoc in E2. apply app_inv_head in E2.
             cbn in E2. injection E2 as E3 _. congruence.
    - assert (E1 : in_folder (fkey cs) e = false).
      { destruct (in_folder (fkey cs) e) eqn:E1; [|reflexivity]. exfalso.
        apply in_folder_true in E1; auto.
        destruct (snoc_cases (split_path (e_path e))) as [E0|(l & z & E0)]; [contradiction|].
        rewrite E0, removelast_snoc in E1. subst l.
        assert (Eb' : beneathb (fkey cs) (e_path e) = true).
        { apply beneathb_fkey_true; auto. exists [z]. split; [discriminate|exact E0]. }
        congruence. }
      rewrite E1. rewrite sumf_zero; [lia|]. intros c' Hc'.
      destruct (beneathb (fkey (cs ++ [c'])) (e_path e)) eqn:E2; [|reflexivity]. exfalso.
      apply Hnames in Hc'. destruct Hc' as (Hoc' & _).
      apply beneathb_fkey_true in E2; auto; [|apply good_snoc; auto].
      destruct E2 as (suf & Hs & E2).
      assert (Eb' : beneathb (fkey cs) (e_path e) = true).
      { apply beneathb_fkey_true; auto. exists (c' :: suf). split; [discriminate|].
        rewrite E2, <- app_assoc. reflexivity. }
      congruence.
  Qed.

  Lemma agg_sum_cat (i : nat) cs fo0 :
    (forall fs, nthZ i (prof4 fs) = sumf (pe i) fs) ->
    good cs -> dget tree0 (fkey cs) = Some fo0 ->
    sumf (fun en => nthZ i (val es (fkey cs) en)) (fo_entries fo0) = sumf (pe i) (files_beneath es (fkey cs)).
  Proof.
    intros Hp4 Hg Hfo.
    destruct (ti_subs _ _ HT cs fo0 Hg Hfo) as (names & Hn1 & Hn2 & Hn3).
    pose proof (sh_files _ _ HS (fkey cs)) as Hf. rewrite Hfo in Hf. cbn [ffiles] in Hf.
    rewrite sumf_entries. fold (files_of fo0). fold (subs_of fo0). rewrite Hf, Hn1.
    cbn [val]. rewrite sumf_filter, sumf_map.
    unfold files_beneath. rewrite sumf_filter.
    rewrite (sumf_ext (fun a => nthZ i (target es (sub_key (fkey cs) (a ++ [slash]))))
                      (fun a => sumf (fun e => if beneathb (fkey (cs ++ [a])) (e_path e) then pe i e else 0) es)).
    2:{ intros a Ha. rewrite sub_key_fkey by exact Hg. unfold target. rewrite Hp4.
        unfold files_beneath. apply sumf_filter. }
    rewrite sumf_swap, <- sumf_plus. symmetry. apply sumf_ext. intros e He.
    rewrite (beneath_decomp cs names e (pe i e) Hg He Hn2 Hn3). reflexivity.
  Qed.

  Lemma agg_sum cs fo0 : good cs -> dget tree0 (fkey cs) = Some fo0 ->
    fold_left merge_profiles (map (val es (fkey cs)) (fo_entries fo0)) zero4 = target es (fkey cs).
  Proof.
    intros Hg Hfo. unfold zero4. rewrite fold_merge, !sumf_map. unfold target at 1, prof4.
    rewrite (agg_sum_cat 0 cs fo0), (agg_sum_cat 1 cs fo0),
            (agg_sum_cat 2 cs fo0), (agg_sum_cat 3 cs fo0); auto;
      try (intros fs; reflexivity).
  Qed.
End Agg.

Section Agg2.
  Variables (es : list FileEntry) (tree0 : dict folder) (D : nat).
  Hypothesis HS : Shape es tree0.
  Hypothesis Hwf : forall e, In e es -> wf_path (e_path e).
  Hypothesis HD : forall cs, good cs -> In (fkey cs) (keys tree0) -> (length cs <= D)%nat.

  Let HT : TInv [] tree0 := sh_t _ _ HS.

  (* what one recursive call achieves for the sub-tree rooted at cs *)
  Definition agg_post (f : nat) (cs : list pystr) : Prop :=
    forall tree, good cs -> In (fkey cs) (keys tree0) -> same_skel tree0 tree ->
      (forall ds, good ds -> fprof (dget tree (fkey (cs ++ ds))) = zero4) ->
      exists tree', aggregate_folder f tree (fkey cs) = OK (tree', target es (fkey cs)) /\
        same_skel tree0 tree' /\
        (forall k, (forall ds, good ds -> k <> fkey (cs ++ ds)) -> dget tree' k = dget tree k) /\
        (forall ds, good ds -> In (fkey (cs ++ ds)) (keys tree0) ->
                    fprof (dget tree' (fkey (cs ++ ds))) = target es (fkey (cs ++ ds))).

  Definition is_sub (ens : list entry) (c : pystr) : Prop := In (EFolder (c ++ [slash])) ens.

  Lemma go_spec f cs : good cs -> (forall c, agg_post f (cs ++ [c])) ->
    forall ens tree acc,
      (forall n, In (EFolder n) ens -> exists c : pystr, n = c ++ [slash] /\ okc c /\ In (fkey (cs ++ [c])) (keys tree0)) ->
      NoDup (ents_subs ens) ->
      same_skel tree0 tree ->
      (forall c ds, is_sub ens c -> okc c -> good ds -> fprof (dget tree (fkey (cs ++ c :: ds))) = zero4) ->
      exists tree',
        agg_go (aggregate_folder f) (fkey cs) ens tree acc =
          OK (tree', fold_left merge_profiles (map (val es (fkey cs)) ens) acc) /\
        same_skel tree0 tree' /\
        (forall k, (forall c ds, is_sub ens c -> okc c -> good ds -> k <> fkey (cs ++ c :: ds)) ->
                   dget tree' k = dget tree k) /\
        (forall c ds, is_sub ens c -> okc c -> good ds -> In (fkey (cs ++ c :: ds)) (keys tree0) ->
                      fprof (dget tree' (fkey (cs ++ c :: ds))) = target es (fkey (cs ++ c :: ds))).
  Proof.
    intros Hg Hrec. induction ens as [|[e|n] r IH]; intros tree acc Hens Hnd Hsk Hzero.
    - exists tree. split; [reflexivity|]. split; [exact Hsk|]. split; [reflexivity|].
      intros c ds [].
    - destruct (IH tree (merge_profiles acc (e_profile e))) as (tree' & E & Hsk' & Hfr & Hres).
      + intros n Hn. apply Hens. right. exact Hn.
      + exact Hnd.
      + exact Hsk.
      + intros c ds Hc. apply Hzero. right. exact Hc.
      + exists tree'. split; [exact E|]. split; [exact Hsk'|]. split.
        * intros k Hk. apply Hfr. intros c ds Hc. apply Hk. right. exact Hc.
        * intros c ds [Hc|Hc]; [discriminate|]. apply Hres. exact Hc.
    - destruct (Hens n (or_introl eq_refl)) as (c & -> & Hoc & Hkc).
      change (ents_subs (EFolder (c ++ [slash]) :: r)) with ((c ++ [slash]) :: ents_subs r) in Hnd.
      inversion Hnd as [|? ? Hnotin Hnd']; subst.
      assert (Hgc : good (cs ++ [c])) by (apply good_snoc; auto).
      (* other sub-folders of the remaining entries are different from c *)
      assert (Hdiff : forall c', is_sub r c' -> c' <> c).
      { intros c' Hc' ->. apply Hnotin. apply In_ents_subs. exact Hc'. }
      destruct (Hrec c tree Hgc Hkc Hsk) as (tree1 & E1 & Hsk1 & Hfr1 & Hres1).
      { intros ds Hds. rewrite <- app_assoc. apply Hzero; auto. left. reflexivity. }
      destruct (IH tree1 (merge_profiles acc (target es (fkey (cs ++ [c]))))) as (tree2 & E2 & Hsk2 & Hfr2 & Hres2).
      + intros n Hn. apply Hens. right. exact Hn.
      + exact Hnd'.
      + exact Hsk1.
      + intros c' ds Hc' Hoc' Hds. rewrite Hfr1.
        * apply Hzero; auto. right. exact Hc'.
        * intros ds' Hds'. rewrite <- app_assoc. apply fkey_child_neq.
          -- apply good_child; auto.
          -- apply good_child; auto.
          -- apply Hdiff. exact Hc'.
      + exists tree2. split; [|split; [exact Hsk2|split]].
        * cbn [agg_go map fold_left val].
          match type of E1 with aggregate_folder _ _ ?y = _ =>
            match goal with |- context [aggregate_folder f tree ?x] =>
              replace x with y by (symmetry; apply (sub_key_fkey cs c Hg)) end end.
          rewrite (sub_key_fkey cs c Hg), E1. exact E2.
        * intros k Hk. rewrite Hfr2.
          -- apply Hfr1. intros ds Hds. rewrite <- app_assoc. apply Hk; auto. left. reflexivity.
          -- intros c' ds Hc'. apply Hk. right. exact Hc'.
        * intros c' ds [Hc'|Hc'] Hoc' Hds Hin.
          -- injection Hc' as Hc'. apply app_inv_tail in Hc'. subst c'.
             rewrite Hfr2.
             ++ specialize (Hres1 ds Hds). rewrite <- app_assoc in Hres1. apply Hres1. exact Hin.
             ++ intros c'' ds'' Hc'' Hoc'' Hds''. apply fkey_child_neq.
                ** apply good_child; auto.
                ** apply good_child; auto.
                ** apply not_eq_sym, Hdiff. exact Hc''.
          -- apply Hres2; auto.
  Qed.

  Lemma agg_spec : forall f cs, (D < f + length cs)%nat -> agg_post f cs.
  Proof.
    induction f as [|f IH]; intros cs Hfuel tree Hg Hin Hsk Hzero.
    - specialize (HD cs Hg Hin). lia.
    - rewrite aggregate_folder_S.
      destruct (dget_In_key tree0 _ Hin) as (fo0 & Hfo0).
      destruct (same_skel_get0 _ _ _ _ Hsk Hfo0) as (fo & Hfo & Eents).
      rewrite Hfo.
      destruct (ti_subs _ _ HT cs fo0 Hg Hfo0) as (names & Hn1 & Hn2 & Hn3).
      assert (Hprof : fo_profile fo = zero4).
      { specialize (Hzero [] (Forall_nil _)). rewrite app_nil_r, Hfo in Hzero. exact Hzero. }
      assert (Hsub_names : forall c, is_sub (fo_entries fo) c -> okc c -> In c names).
      { intros c Hc Hoc. unfold is_sub in Hc. rewrite Eents in Hc. apply In_ents_subs in Hc.
        fold (subs_of fo0) in Hc. rewrite Hn1 in Hc. apply in_map_iff in Hc.
        destruct Hc as (c' & E & Hc'). apply app_inv_tail in E. subst c'. exact Hc'. }
      destruct (go_spec f cs Hg) with (ens := fo_entries fo) (tree := tree) (acc := fo_profile fo)
        as (tree1 & E1 & Hsk1 & Hfr1 & Hres1).
      + intros c. apply IH. rewrite app_length. cbn. lia.
      + intros n Hn. rewrite Eents in Hn. apply In_ents_subs in Hn. fold (subs_of fo0) in Hn.
        rewrite Hn1 in Hn. apply in_map_iff in Hn. destruct Hn as (c & <- & Hc).
        apply Hn3 in Hc. exists c. tauto.
      + rewrite Eents. fold (subs_of fo0). rewrite Hn1.
        apply FinFun.Injective_map_NoDup; [|exact Hn2].
        intros a b E. apply app_inv_tail in E. exact E.
      + exact Hsk.
      + intros c ds _ Hoc Hds. apply Hzero. constructor; assumption.
      + rewrite E1.
        destruct (same_skel_get0 _ _ _ _ Hsk1 Hfo0) as (fo1 & Hfo1 & Eents1).
        rewrite Hfo1, Hprof, Eents, (agg_sum es tree0 HS Hwf cs fo0 Hg Hfo0).
        eexists. split; [reflexivity|].
        set (fo' := mkFolder (fo_entries fo1) (target es (fkey cs))).
        assert (Hink1 : In (fkey cs) (keys tree1)) by (eapply dget_Some_key; eauto).
        split; [|split].
        * destruct Hsk1 as [Hk1 He1]. split.
          -- rewrite Hk1. unfold keys. symmetry. apply keys_dset_present. exact Hink1.
          -- intros k. destruct (pystr_eq_dec k (fkey cs)) as [->|Hne].
             ++ rewrite dget_dset_same, Hfo0. cbn. rewrite Eents1. reflexivity.
             ++ rewrite dget_dset_other by exact Hne. apply He1.
        * intros k Hk. rewrite dget_dset_other.
          -- apply Hfr1. intros c ds _ Hoc Hds. apply Hk. constructor; assumption.
          -- specialize (Hk [] (Forall_nil _)). rewrite app_nil_r in Hk. exact Hk.
        * intros ds Hds Hind. destruct ds as [|c ds].
          -- rewrite app_nil_r, dget_dset_same. reflexivity.
          -- assert (Hoc : okc c) by (inversion Hds; assumption).
             assert (Hds' : good ds) by (inversion Hds; assumption).
             rewrite dget_dset_other.
             ++ apply Hres1; auto. unfold is_sub. rewrite Eents. apply In_ents_subs.
                fold (subs_of fo0). rewrite Hn1. apply (in_map (fun c => c ++ [slash])).
                apply Hn3. split; [exact Hoc|]. split; [|intros []].
                apply (TInv_prefix_closed tree0 (cs ++ [c]) HT ds).
                ** rewrite <- app_assoc. apply good_child; auto.
                ** rewrite <- app_assoc. exact Hind.
             ++ intros E. apply fkey_inj in E; [|apply good_child; auto|exact Hg].
                apply (f_equal (@length pystr)) in E. rewrite app_length in E. cbn in E. lia.
  Qed.
End Agg2.
