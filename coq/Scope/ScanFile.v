(* ScanFile.v — scope_utils.build_scopes and Scanner.scan_file. *)
From Verif Require Import Base Token Lex Headers Blocks Pairing Fold.
Open Scope Z_scope.

(* build_scopes + unfold_scopes: every reported scope with its direct children *)
Definition build_scopes (l : language) (tokens : list token) : res (list (scope0 * list scope0)) :=
  let code := filter_tokens false tokens in
  let nocl_lines := map t_line (filter_nocl_comment_tokens tokens) in
  match extract_headers l code with
  | Err k => Err k
  | OK headers =>
      match extract_blocks l code headers with
      | Err k => Err k
      | OK blocks =>
          let scopes := build_scopes_from code headers blocks in
          let filtered := filter_nocl_scopes code scopes nocl_lines in
          if lang_nested l then OK (unfold_scopes (fold_scopes filtered))
          else OK (map (fun s => (s, [])) (filter_scopes_nested_functions filtered))
      end
  end.

(* position just past the last character of a token (its text may contain line breaks) *)
Fixpoint after_last_newline (v : pystr) (nl : Z) (cur : Z) : Z * Z :=   (* (newlines seen, chars since the last one) *)
  match v with
  | [] => (nl, cur)
  | c :: r => if c =? 10 then after_last_newline r (nl + 1) 0 else after_last_newline r nl (cur + 1)
  end.
Definition end_location (t : token) : Location :=
  let '(nl, cur) := after_last_newline (t_value t) 0 0 in
  if nl =? 0 then mkLoc (t_line t) (t_col t + Z.of_nat (length (t_value t)))
  else mkLoc (t_line t + nl) (cur + 1).

Definition measure (code : list token) (sc : scope0 * list scope0) : res Measurement :=
  let '(s, children) := sc in
  match nth_error code (h_name (s_header s)), nth_error code (h_start (s_header s)) with
  | Some nm, Some st =>
      match snd (s_block s) with
      | O => Err IndexError
      | S e' =>
          match nth_error code e' with
          | None => Err IndexError
          | Some lt =>
              OK (mkMeas (t_value nm) (mkLoc (t_line st) (t_col st))
                         (end_location lt)
                         (count_lines code s children))
          end
      end
  | _, _ => Err IndexError
  end.

Fixpoint measure_all (code : list token) (scs : list (scope0 * list scope0)) : res (list Measurement) :=
  match scs with
  | [] => OK []
  | sc :: r =>
      match measure code sc with
      | Err k => Err k
      | OK m => match measure_all code r with Err k => Err k | OK ms => OK (m :: ms) end
      end
  end.

Definition scan_file (l : language) (tokens : list token) : res (list Measurement) :=
  match build_scopes l tokens with
  | Err k => Err k
  | OK scs => measure_all (filter_tokens false tokens) scs
  end.

(* from lexer output: _analyze_file = lex(keep comments) + scan_file + loc *)
Definition analyze (l : language) (code : pystr) (lts : list ltok) : res (list Measurement * Z) :=
  match scan_file l (lex code lts false) with
  | Err k => Err k
  | OK ms => OK (ms, fold_left (fun a m => a + m_value m) ms 0)
  end.

Definition enc_scan (r : res (list Measurement)) : tree := enc_res (enc_list enc_meas) r.
