(* RenderProofsCheck.v — axiom audit of the C18 theorems (prints only). *)
From Verif Require Import Base BaseProofs GenDelta Render RenderProofsNum RenderProofs.
Print Assumptions digits_correct.
Print Assumptions leading_int_fmt_n.
Print Assumptions fmt_n_chars.
Print Assumptions signed_int_fmt_plus_n.
Print Assumptions ltd_cells.
Print Assumptions std_cells.
Print Assumptions cell_number.
Print Assumptions cell_annotation.
Print Assumptions cell_annotation_value.
Print Assumptions cell_plain.
Print Assumptions cell_diff_annotated.
Print Assumptions C18_formats_agree.
Print Assumptions C18_order.
Print Assumptions language_total_spec.
Print Assumptions C18_rows_all.
Print Assumptions C18_rows.
Print Assumptions C18_rows_cover.
Print Assumptions C18_totals.
