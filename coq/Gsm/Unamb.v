(* Unamb.v — a finite certificate that a token pattern can never trigger the
   matcher's "Multiple transitions found!" error (C15).  Definitions only:
   abstract tokens (kind x distinguished literal or "other"), abstract depth
   classes of Balanced predicates, abstract consume, and a checker for an
   inductive invariant (a finite set of abstract configurations containing the
   start configuration, closed under abstract steps, without ambiguity). *)
From Verif Require Import Base Regex Nfa Dfa Token.
Open Scope Z_scope.

(* ---------- literals and abstract tokens ---------- *)
Fixpoint lits_pred (p : tpred) : list pystr :=
  match p with
  | PValue s | PKeyword s | PSymbol s | POperator s | PIdentity s => [s]
  | PName => []
  | PAnd a b | POr a b | PBalanced a b => lits_pred a ++ lits_pred b
  | PNot a => lits_pred a
  end.
Definition heap_preds (h : heap tpred) : list tpred := flat_map (fun n => map fst (ntrans n)) h.
Definition heap_lits (h : heap tpred) : list pystr := flat_map lits_pred (heap_preds h).
Definition max_len (l : list pystr) : nat := fold_right (fun s m => Nat.max (length s) m) O l.
Definition fresh (l : list pystr) : pystr := repeat 0 (S (max_len l)).
Definition str_mem (s : pystr) (l : list pystr) : bool := existsb (pystr_eqb s) l.
Definition all_kinds : list kind := [KKeyword; KName; KPunct; KOperator; KComment; KText; KWhitespace; KOther].
Definition abs_tokens (lits : list pystr) : list token :=
  flat_map (fun k => map (fun v => mkTok k v 0 0) (lits ++ [fresh lits])) all_kinds.
Definition rep (lits : list pystr) (t : token) : token :=
  mkTok (t_kind t) (if str_mem (t_value t) lits then t_value t else fresh lits) 0 0.

(* ---------- depth classes ---------- *)
Inductive dclass := DNeg | DZero | DPos.
Definition dclass_eqb (a b : dclass) : bool :=
  match a, b with DNeg, DNeg | DZero, DZero | DPos, DPos => true | _, _ => false end.
Definition class_of (d : Z) : dclass := if d <? 0 then DNeg else if d =? 0 then DZero else DPos.
Definition succ_classes (c : dclass) : list dclass :=      (* classes of d+1 *)
  match c with DNeg => [DNeg; DZero] | DZero => [DPos] | DPos => [DPos] end.
Definition pred_classes (c : dclass) : list dclass :=      (* classes of d-1 *)
  match c with DNeg => [DNeg] | DZero => [DNeg] | DPos => [DZero; DPos] end.

Definition is_balanced (p : tpred) : bool := match p with PBalanced _ _ => true | _ => false end.
Definition bal_preds (h : heap tpred) : list tpred := pdedup tpred_eqb (filter is_balanced (heap_preds h)).

(* abstract configuration: DFA state and one class per Balanced predicate of the heap *)
Definition config : Type := list nat * list dclass.
Fixpoint list_eqb {A} (eqb : A -> A -> bool) (a b : list A) : bool :=
  match a, b with
  | [], [] => true
  | x :: a', y :: b' => eqb x y && list_eqb eqb a' b'
  | _, _ => false
  end.
Definition config_eqb (a b : config) : bool :=
  list_eqb Nat.eqb (fst a) (fst b) && list_eqb dclass_eqb (snd a) (snd b).
Definition config_mem (c : config) (S : list config) : bool := existsb (config_eqb c) S.

Fixpoint index_of (p : tpred) (l : list tpred) : option nat :=
  match l with
  | [] => None
  | q :: t => if tpred_eqb p q then Some O else option_map S (index_of p t)
  end.
Definition cls_of (bal : list tpred) (cls : list dclass) (p : tpred) : dclass :=
  match index_of p bal with Some i => nth i cls DZero | None => DZero end.

(* accept decision and possible successor classes of one predicate on an abstract token *)
Definition abs_accept (p : tpred) (c : dclass) (t : token) : bool :=
  match p with
  | PBalanced l r =>
      if taccept l t then true
      else if taccept r t then (match c with DPos => true | _ => false end)
      else (match c with DPos => true | _ => false end)
  | _ => taccept p t
  end.
Definition abs_classes (p : tpred) (c : dclass) (t : token) : list dclass :=
  match p with
  | PBalanced l r =>
      if taccept l t then succ_classes c
      else if taccept r t then pred_classes c
      else [c]
  | _ => [c]
  end.

(* all class vectors obtained by letting each consulted predicate move to one of its classes *)
Fixpoint update_classes (bal : list tpred) (cls : list dclass) (cands : list tpred) (t : token)
  : list (list dclass) :=
  match bal, cls with
  | b :: bal', c :: cls' =>
      let rest := update_classes bal' cls' cands t in
      let choices := if pmem tpred_eqb b cands then abs_classes b c t else [c] in
      flat_map (fun c' => map (cons c') rest) choices
  | _, _ => [[]]
  end.

Inductive abs_result := AAmbiguous | ADead | ASucc (l : list config) | AError.

Definition abs_consume (a : automaton tpred) (bal : list tpred) (c : config) (t : token) : abs_result :=
  let h := a_heap a in
  let trans := dtrans tpred_eqb h (fst c) in
  let open := filter (fun p => dclass_eqb (cls_of bal (snd c) p) DPos) trans in
  let cands := match open with [] => trans | _ => open end in
  match filter (fun p => abs_accept p (cls_of bal (snd c) p) t) cands with
  | [] => ADead
  | [p] =>
      match closure h (move tpred_eqb h (fst c) p) with
      | Err _ => AError
      | OK T' => ASucc (map (fun cls' => (T', cls')) (update_classes bal (snd c) cands t))
      end
  | _ => AAmbiguous
  end.

Definition start_config (a : automaton tpred) (bal : list tpred) : config :=
  (a_start a, map (fun _ => DZero) bal).

Definition inv_check_aut (a : automaton tpred) (S : list config) : bool :=
  let bal := bal_preds (a_heap a) in
  let toks := abs_tokens (heap_lits (a_heap a)) in
  config_mem (start_config a bal) S &&
  forallb (fun c => Nat.eqb (length (snd c)) (length bal) &&
     forallb (fun t =>
       match abs_consume a bal c t with
       | AAmbiguous | AError => false
       | ADead => true
       | ASucc l => forallb (fun c' => config_mem c' S) l
       end) toks) S.

(* unverified search for the invariant: breadth-first exploration with fuel *)
Fixpoint explore (fuel : nat) (a : automaton tpred) (bal : list tpred) (toks : list token)
         (work : list config) (seen : list config) : list config :=
  match fuel with
  | O => seen
  | S f =>
      match work with
      | [] => seen
      | c :: w =>
          if config_mem c seen then explore f a bal toks w seen
          else
            let succs := flat_map (fun t => match abs_consume a bal c t with ASucc l => l | _ => [] end) toks in
            explore f a bal toks (w ++ succs) (c :: seen)
      end
  end.
Definition explore_fuel : nat := (64 * 64 * 16)%nat.
Definition invariant_of (a : automaton tpred) : list config :=
  let bal := bal_preds (a_heap a) in
  explore explore_fuel a bal (abs_tokens (heap_lits (a_heap a))) [start_config a bal] [].

Definition unambiguous_check (e : expr tpred) : bool :=
  match to_dfa e with
  | Err _ => false
  | OK a => inv_check_aut a (invariant_of a)
  end.

(* further certificates on captured patterns *)
(* every Balanced predicate value occurs at most once as an atom: keying predicate state by value = by object identity *)
Fixpoint count_pred (p : tpred) (l : list tpred) : nat :=
  match l with [] => O | q :: t => ((if tpred_eqb p q then 1 else 0) + count_pred p t)%nat end.
Definition single_stateful_check (e : expr tpred) : bool :=
  let ps := preds_seq e in
  forallb (fun p => negb (is_balanced p) || Nat.eqb (count_pred p ps) 1) ps.
