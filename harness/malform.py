"""The malformed-input stream shared by C03 and C05: prefixes / suffixes of
canonical programs, token and line deletions, duplications, swaps, token soups
over each language's lexical alphabet, deep nesting, odd characters."""
import progen

SOUP = {
    "C": ["int", "f", "g", "(", ")", "{", "}", ";", ",", "=", "1", '"s"', "if", "\n", "\n", " ", "/* c */", "// c\n", "#define X(a) {", "'{'"],
    "Cpp": ["int", "f", "g", "(", ")", "{", "}", ";", ",", "=", "1", "class", "::", "\n", "\n", " ", "// c\n", "template<T>", "[&](", "->"],
    "CSharp": ["int", "f", "g", "(", ")", "{", "}", ";", ",", "=", "1", "new", "class", "record", "\n", "\n", " ", "// c\n", "=>", "@\"{\""],
    "Java": ["int", "f", "g", "(", ")", "{", "}", ";", ",", "=", "1", "new", "class", "record", "throws", "E", "\n", "\n", " ", "// c\n", "@A(1)", "->"],
    "JavaScript": ["function", "f", "g", "(", ")", "{", "}", ";", ",", "=", "=>", "1", "const", "async", "class", "\n", "\n", " ", "// c\n", "`${x}`", "/re/", ":"],
    "TypeScript": ["function", "f", "g", "(", ")", "{", "}", ";", ",", "=", "=>", "1", "const", "async", "class", ":", "number", "\n", "\n", " ", "// c\n", "<T>", "?", "declare"],
    "Python": ["def", "async", "f", "g", "(", ")", ":", ",", "=", "1", "class", "return", "\n", "\n", "    ", "  ", "\t", "# c\n", "# nocl\n", "\\\n", '"""s\n"""', "lambda", "->", "@d\n", "pass"],
}


def mutate(rng, lang, text):
    """one random malformation of a canonical program text"""
    k = rng.random()
    lines = text.split("\n")
    if k < 0.16:
        return "prefix", text[: rng.randint(0, len(text))]
    if k < 0.28:
        return "suffix", text[rng.randint(0, len(text)):]
    if k < 0.40 and len(lines) > 1:
        i = rng.randrange(len(lines))
        return "line-deleted", "\n".join(lines[:i] + lines[i + 1:])
    if k < 0.48 and len(lines) > 1:
        i = rng.randrange(len(lines))
        return "line-duplicated", "\n".join(lines[:i] + [lines[i]] + lines[i:])
    if k < 0.56 and len(lines) > 2:
        i, j = rng.randrange(len(lines)), rng.randrange(len(lines))
        lines[i], lines[j] = lines[j], lines[i]
        return "lines-swapped", "\n".join(lines)
    if k < 0.72:
        # delete / duplicate one delimiter-ish character
        idx = [i for i, c in enumerate(text) if c in "(){}:;=,\"'"]
        if idx:
            i = rng.choice(idx)
            if rng.random() < 0.6:
                return "char-deleted", text[:i] + text[i + 1:]
            return "char-duplicated", text[:i] + text[i] + text[i:]
    if k < 0.80:
        i = rng.randint(0, len(text))
        return "junk-inserted", text[:i] + rng.choice(["(", ")", "{", "}", "def f(", "function (", "=> {", "\x00", "\u00e9", "\u2028", "\t", "\r\n", "\x0c"]) + text[i:]
    if k < 0.88 and len(lines) > 3:
        a = rng.randrange(len(lines))
        b = min(len(lines), a + rng.randint(1, 8))
        return "block-deleted", "\n".join(lines[:a] + lines[b:])
    return "dedent", "\n".join(l[rng.choice([0, 1, 2, 4]):] if l.startswith("    ") else l for l in lines)


def soup(rng, lang, n):
    return "".join(rng.choice(SOUP[lang]) + rng.choice(["", " ", " "]) for _ in range(n))


def deep(lang, depth):
    if lang == "Python":
        out = []
        for d in range(depth):
            out.append("    " * min(d, 30) + " " * max(0, d - 30) + f"def f{d}():")
        out.append("    " * min(depth, 30) + " " * max(0, depth - 30) + "pass")
        return "\n".join(out) + "\n"
    head = {"C": "int f{d}(void) {{", "Cpp": "int f{d}() {{", "CSharp": "void f{d}() {{", "Java": "void f{d}() {{",
            "JavaScript": "function f{d}() {{", "TypeScript": "function f{d}(): void {{"}[lang]
    return "\n".join(head.format(d=d) for d in range(depth)) + "\n" + "}\n" * depth


SPECIALS = ["", "\n", "\n\n\n", " ", "\t", "(", ")", "{", "}", "def f(", "def f()", "def f():", "def f():\n", "def f(): pass",
            "f(", "f()", "f() {", "f(){}", "f () { }", "x => {", "const f = (", "const f = () =>", "const f = (a = () => 0) => {}",
            "function f(a = g(1)) { }", "f({)}", "f(}{)", "\ufeffdef f():\n  pass\n", "def f():\r\n    pass\r\n", "def f():\n\tpass\n",
            "a\\\n", "def f(a,\n", "class A:\n  def f(self):\n    pass", "f()\n{", "f(\n)\n{\n}", "void f() { /* } */ }", "void f() { // }\n}",
            "void f() { \"}\" }", "void f() { '}' }", "x = 1\n// c\n", "function f() {\n  x = 1\n// c\n}\n",
            "def o():\n  def g():\n    async\n  def f(): pass\n  x\n", "total = 1 + \\\n",
            # encoding declarations naming no usable text codec, complete and truncated
            "# -*- coding: klingon -*-\ndef f():\n    pass\n", "#!/usr/bin/python\n# vim: set fileencoding=latin_one :\nx = 1\n",
            "# -*- coding: ut", "# coding=hex\nvoid f() { }\n", "// -*- coding: rot13 -*-\nvoid f() { }\n",
            "# -*- coding: utf-8 -*-\ndef f():\n    return 'é'\n",
            # a token that begins on a line break: an unterminated triple-quoted string, backslash-newline before an empty line
            'def f():\n    x = """abc\\\n\n', 'def f():\n    x = """abc\\\n\n\n', "def f():\n    x = '''a\\\n\n",
            # a lone carriage return inside a function
            "def f():\n    a = 1\r    b = 2\n    return a\n", "void f() {\n  a = 1;\r  b = 2;\n}\n",
            # a header far to the right on its line, followed by others on the next lines
            'var data="' + "x" * 70000 + '";function a(){return 1}\nfunction b(){\n  return 2\n}\nfunction c(){\n  return 3\n}\n',
            'String d="' + "x" * 70000 + '"; void a(){ } \nvoid b(){\n}\n']


def stream(rng, lang, n, seed_base):
    """yield (kind, text) — about n malformed texts"""
    for s in SPECIALS:
        yield "special", s
    yield "deep-nesting", deep(lang, 120)
    yield "deep-nesting", deep(lang, 1200)
    i = 0
    while i < n:
        if rng.random() < 0.3:
            yield "soup", soup(rng, lang, rng.choice([3, 8, 20, 60, 200]))
        else:
            p = progen.generate(seed_base + i, lang, {"long_bodies": rng.random() < 0.3})
            t = p["text"]
            kind, t = mutate(rng, lang, t)
            if rng.random() < 0.3:
                k2, t = mutate(rng, lang, t)
                kind += "+" + k2
            yield kind, t
        i += 1
