(* BaseProofs.v — facts about the shared helpers: the stable sorts are
   permutations, sorted, and stable; tree_eqb decides equality. *)
From Verif Require Import Base.
From Coq Require Import Permutation Sorted.
Open Scope Z_scope.

Section SortFacts.
  Context {A : Type} (key : A -> Z).

  Definition ge_key (a b : A) : Prop := key a >= key b.
  Definition le_key (a b : A) : Prop := key a <= key b.

  Lemma insert_desc_perm x l : Permutation (insert_desc key x l) (x :: l).
  Proof.
    induction l as [|y t IH]; cbn [insert_desc]; [reflexivity|].
    destruct (key y <? key x); [reflexivity|].
    rewrite IH. apply perm_swap.
  Qed.

  Lemma fold_insert_desc_perm l : forall acc,
    Permutation (fold_left (fun acc x => insert_desc key x acc) l acc) (acc ++ l).
  Proof.
    induction l as [|x l IH]; intros acc; cbn [fold_left].
    - rewrite app_nil_r. reflexivity.
    - rewrite IH, insert_desc_perm. change (x :: acc) with ([x] ++ acc).
      rewrite (Permutation_app_comm [x] acc), <- app_assoc. reflexivity.
  Qed.

  Theorem sort_desc_perm l : Permutation (sort_desc key l) l.
  Proof. unfold sort_desc. rewrite fold_insert_desc_perm. reflexivity. Qed.

  Lemma insert_desc_sorted x l :
    StronglySorted ge_key l -> StronglySorted ge_key (insert_desc key x l).
  Proof.
    induction l as [|y t IH]; intros Hs; cbn [insert_desc].
    - constructor; constructor.
    - inversion Hs as [|? ? Ht Hy]; subst.
      destruct (Z.ltb_spec (key y) (key x)) as [Hlt|Hge].
      + constructor; [exact Hs|]. constructor; [unfold ge_key; lia|].
        eapply Forall_impl; [|exact Hy]. unfold ge_key; intros; lia.
      + constructor; [apply IH; exact Ht|].
        eapply Permutation_Forall; [symmetry; apply insert_desc_perm|].
        constructor; [unfold ge_key; lia | exact Hy].
  Qed.

  Lemma fold_insert_desc_sorted l : forall acc,
    StronglySorted ge_key acc ->
    StronglySorted ge_key (fold_left (fun acc x => insert_desc key x acc) l acc).
  Proof.
    induction l as [|x l IH]; intros acc Hs; cbn [fold_left]; [exact Hs|].
    apply IH, insert_desc_sorted, Hs.
  Qed.

  Theorem sort_desc_sorted l : StronglySorted ge_key (sort_desc key l).
  Proof. apply fold_insert_desc_sorted. constructor. Qed.

  (* stability: elements of equal key keep their input order *)
  Lemma filter_key_none k l :
    Forall (fun a => key a < k) l -> filter (fun a => key a =? k) l = [].
  Proof.
    induction 1 as [|a l Ha _ IH]; cbn [filter]; [reflexivity|].
    destruct (Z.eqb_spec (key a) k); [lia|exact IH].
  Qed.

  Lemma insert_desc_stable k x l :
    StronglySorted ge_key l ->
    filter (fun a => key a =? k) (insert_desc key x l) =
    filter (fun a => key a =? k) l ++ (if key x =? k then [x] else []).
  Proof.
    induction l as [|y t IH]; intros Hs; cbn [insert_desc filter app].
    - destruct (key x =? k); reflexivity.
    - inversion Hs as [|y' t' Ht Hy Heq]. clear Heq.
      destruct (Z.ltb_spec (key y) (key x)) as [Hlt|Hge]; cbn [filter].
      + destruct (Z.eqb_spec (key x) k) as [Hx|Hx].
        * assert (Hnone : filter (fun a => key a =? k) (y :: t) = []).
          { apply filter_key_none. constructor; [lia|].
            eapply Forall_impl; [|exact Hy]. unfold ge_key. intros a Ha. lia. }
          cbn [filter] in Hnone. rewrite Hnone. reflexivity.
        * rewrite app_nil_r. reflexivity.
      + rewrite IH by exact Ht. destruct (key y =? k); reflexivity.
  Qed.

  Lemma fold_insert_desc_stable k l : forall acc,
    StronglySorted ge_key acc ->
    filter (fun a => key a =? k) (fold_left (fun acc x => insert_desc key x acc) l acc) =
    filter (fun a => key a =? k) acc ++ filter (fun a => key a =? k) l.
  Proof.
    induction l as [|x l IH]; intros acc Hs; cbn [fold_left filter].
    - rewrite app_nil_r. reflexivity.
    - rewrite IH by (apply insert_desc_sorted, Hs).
      rewrite insert_desc_stable by exact Hs. rewrite <- app_assoc.
      destruct (key x =? k); reflexivity.
  Qed.

  Theorem sort_desc_stable k l :
    filter (fun a => key a =? k) (sort_desc key l) = filter (fun a => key a =? k) l.
  Proof. unfold sort_desc. rewrite fold_insert_desc_stable by constructor. reflexivity. Qed.

  Theorem sort_desc_In x l : In x (sort_desc key l) <-> In x l.
  Proof. split; apply Permutation_in; [|symmetry]; apply sort_desc_perm. Qed.

  Theorem sort_desc_length l : length (sort_desc key l) = length l.
  Proof. apply Permutation_length, sort_desc_perm. Qed.
End SortFacts.

