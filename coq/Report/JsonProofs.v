(* JsonProofs.v — property C08, part A: every rendered document is well-formed
   JSON (token level), parses to the value of the document, the pretty and the
   compact layout parse to the same value, and white-space tokens only contain
   blanks and newlines.  Generic in the document. *)
From Verif Require Import Base Json.
Open Scope Z_scope.

(* ---------- induction principle for the nested inductive jdoc ---------- *)
Section JdocInd.
  Variable P : jdoc -> Prop.
  Hypothesis HNull : P DNull.
  Hypothesis HNum : forall z, P (DNum z).
  Hypothesis HStr : forall s, P (DStr s).
  Hypothesis HAI : forall l, Forall P l -> P (DArrInline l).
  Hypothesis HAB : forall l, Forall P l -> P (DArrBlock l).
  Hypothesis HOI : forall l, Forall (fun kv => P (snd kv)) l -> P (DObjInline l).
  Hypothesis HOB : forall l, Forall (fun kv => P (snd kv)) l -> P (DObjBlock l).
  Fixpoint jdoc_ind2 (d : jdoc) : P d :=
    let arr := fix go (l : list jdoc) : Forall P l :=
                 match l with
                 | [] => Forall_nil _
                 | x :: r => Forall_cons x (jdoc_ind2 x) (go r)
                 end in
    let obj := fix go (l : list (pystr * jdoc)) : Forall (fun kv => P (snd kv)) l :=
                 match l with
                 | [] => Forall_nil _
                 | kv :: r => Forall_cons (P := fun kv => P (snd kv)) kv (jdoc_ind2 (snd kv)) (go r)
                 end in
    match d with
    | DNull => HNull
    | DNum z => HNum z
    | DStr s => HStr s
    | DArrInline l => HAI l (arr l)
    | DArrBlock l => HAB l (arr l)
    | DObjInline l => HOI l (obj l)
    | DObjBlock l => HOB l (obj l)
    end.
End JdocInd.

(* ---------- the white-space-free token printer ---------- *)
Section Join.
  Variable f : jdoc -> list jtok.
  Fixpoint join_elems (l : list jdoc) : list jtok :=
    match l with
    | [] => []
    | [x] => f x
    | x :: r => f x ++ TComma :: join_elems r
    end.
  Fixpoint join_members (l : list (pystr * jdoc)) : list jtok :=
    match l with
    | [] => []
    | [(k, v)] => TStr k :: TColon :: f v
    | (k, v) :: r => TStr k :: TColon :: f v ++ TComma :: join_members r
    end.
End Join.

Fixpoint toks (d : jdoc) : list jtok :=
  match d with
  | DNull => [TNull] | DNum z => [TNum z] | DStr s => [TStr s]
  | DArrInline l | DArrBlock l => TLBrack :: join_elems toks l ++ [TRBrack]
  | DObjInline l | DObjBlock l => TLBrace :: join_members toks l ++ [TRBrace]
  end.

Definition key_toks (key : option pystr) : list jtok :=
  match key with Some k => [TStr k; TColon] | None => [] end.
Definition tokens_of (key : option pystr) (d : jdoc) : list jtok := key_toks key ++ toks d.

Lemma join_elems_cons2 f x y r : join_elems f (x :: y :: r) = f x ++ TComma :: join_elems f (y :: r).
Proof. reflexivity. Qed.
Lemma join_members_cons2 f k v y r :
  join_members f ((k, v) :: y :: r) = TStr k :: TColon :: f v ++ TComma :: join_members f (y :: r).
Proof. reflexivity. Qed.

(* ---------- strip_ws of the rendering ---------- *)
Lemma strip_ws_app a b : strip_ws (a ++ b) = strip_ws a ++ strip_ws b.
Proof. apply filter_app. Qed.

Lemma strip_ind b lvl : strip_ws (ind b lvl) = [].
Proof. destruct b; reflexivity. Qed.
Lemma strip_eol b : strip_ws (eol b) = [].
Proof. destruct b; reflexivity. Qed.
Lemma strip_sep b : strip_ws (sep b) = [TComma].
Proof. destruct b; reflexivity. Qed.

(* named versions of the local loops of inline / item *)
Fixpoint inl_elems (l : list jdoc) : list jtok :=
  match l with
  | [] => [] | [x] => inline x
  | x :: r => inline x ++ [TComma; TWs sp1] ++ inl_elems r
  end.
Fixpoint inl_members (l : list (pystr * jdoc)) : list jtok :=
  match l with
  | [] => []
  | [(k, v)] => [TStr k; TColon; TWs sp1] ++ inline v
  | (k, v) :: r => [TStr k; TColon; TWs sp1] ++ inline v ++ [TComma; TWs sp1] ++ inl_members r
  end.
Lemma inline_arr_inline l : inline (DArrInline l) = TLBrack :: inl_elems l ++ [TRBrack].
Proof. reflexivity. Qed.
Lemma inline_arr_block l : inline (DArrBlock l) = TLBrack :: inl_elems l ++ [TRBrack].
Proof. reflexivity. Qed.
Lemma inline_obj_inline l : inline (DObjInline l) = TLBrace :: inl_members l ++ [TRBrace].
Proof. reflexivity. Qed.
Lemma inline_obj_block l : inline (DObjBlock l) = TLBrace :: inl_members l ++ [TRBrace].
Proof. reflexivity. Qed.
Lemma inl_elems_cons2 x y r : inl_elems (x :: y :: r) = inline x ++ [TComma; TWs sp1] ++ inl_elems (y :: r).
Proof. reflexivity. Qed.
Lemma inl_members_cons2 k v y r :
  inl_members ((k, v) :: y :: r) = [TStr k; TColon; TWs sp1] ++ inline v ++ [TComma; TWs sp1] ++ inl_members (y :: r).
Proof. reflexivity. Qed.

Lemma strip_inl_elems l : Forall (fun x => strip_ws (inline x) = toks x) l ->
  strip_ws (inl_elems l) = join_elems toks l.
Proof.
  induction 1 as [|x r Hx Hr IH]; [reflexivity|].
  destruct r as [|y r]; [exact Hx|].
  rewrite inl_elems_cons2, join_elems_cons2, !strip_ws_app, IH, Hx. reflexivity.
Qed.
Lemma strip_inl_members l : Forall (fun kv => strip_ws (inline (snd kv)) = toks (snd kv)) l ->
  strip_ws (inl_members l) = join_members toks l.
Proof.
  induction 1 as [|[k v] r Hx Hr IH]; [reflexivity|]. cbn [snd] in Hx.
  destruct r as [|y r].
  - cbn [inl_members join_members]. rewrite strip_ws_app, Hx. reflexivity.
  - rewrite inl_members_cons2, join_members_cons2, !strip_ws_app, IH, Hx. reflexivity.
Qed.

Lemma strip_cons_nws t ts : is_ws t = false -> strip_ws (t :: ts) = t :: strip_ws ts.
Proof. intros H. unfold strip_ws. cbn [filter]. rewrite H. reflexivity. Qed.

Lemma strip_inline d : strip_ws (inline d) = toks d.
Proof.
  induction d using jdoc_ind2; try reflexivity.
  - rewrite inline_arr_inline, strip_cons_nws, strip_ws_app, strip_inl_elems by (reflexivity || assumption). reflexivity.
  - rewrite inline_arr_block, strip_cons_nws, strip_ws_app, strip_inl_elems by (reflexivity || assumption). reflexivity.
  - rewrite inline_obj_inline, strip_cons_nws, strip_ws_app, strip_inl_members by (reflexivity || assumption). reflexivity.
  - rewrite inline_obj_block, strip_cons_nws, strip_ws_app, strip_inl_members by (reflexivity || assumption). reflexivity.
Qed.

(* item *)
Definition head_toks (b : bool) (lvl : nat) (key : option pystr) : list jtok :=
  ind b lvl ++ match key with Some k => [TStr k; TColon; TWs sp1] | None => [] end.
Section ItemLoops.
  Variable b : bool.
  Variable lvl : nat.
  Fixpoint itm_elems (l : list jdoc) : list jtok :=
    match l with
    | [] => [] | [x] => item b (S (S lvl)) None x ++ eol b
    | x :: r => item b (S (S lvl)) None x ++ sep b ++ itm_elems r
    end.
  Fixpoint itm_members (l : list (pystr * jdoc)) : list jtok :=
    match l with
    | [] => []
    | [(k, v)] => item b (S (S lvl)) (Some k) v ++ eol b
    | (k, v) :: r => item b (S (S lvl)) (Some k) v ++ sep b ++ itm_members r
    end.
End ItemLoops.
Lemma item_arr_block b lvl key l :
  item b lvl key (DArrBlock l) = head_toks b lvl key ++ [TLBrack] ++ eol b ++ itm_elems b lvl l ++ ind b lvl ++ [TRBrack].
Proof. reflexivity. Qed.
Lemma item_obj_block b lvl key l :
  item b lvl key (DObjBlock l) = head_toks b lvl key ++ [TLBrace] ++ eol b ++ itm_members b lvl l ++ ind b lvl ++ [TRBrace].
Proof. reflexivity. Qed.
Lemma item_other b lvl key d :
  match d with DArrBlock _ | DObjBlock _ => False | _ => True end ->
  item b lvl key d = head_toks b lvl key ++ inline d.
Proof. destruct d; intros []; reflexivity. Qed.
Lemma itm_elems_cons2 b lvl x y r :
  itm_elems b lvl (x :: y :: r) = item b (S (S lvl)) None x ++ sep b ++ itm_elems b lvl (y :: r).
Proof. reflexivity. Qed.
Lemma itm_members_cons2 b lvl k v y r :
  itm_members b lvl ((k, v) :: y :: r) = item b (S (S lvl)) (Some k) v ++ sep b ++ itm_members b lvl (y :: r).
Proof. reflexivity. Qed.

Lemma strip_head b lvl key : strip_ws (head_toks b lvl key) = key_toks key.
Proof. unfold head_toks. rewrite strip_ws_app, strip_ind. destruct key; reflexivity. Qed.

Lemma strip_itm_elems b lvl l :
  Forall (fun x => forall lvl key, strip_ws (item b lvl key x) = tokens_of key x) l ->
  strip_ws (itm_elems b lvl l) = join_elems toks l.
Proof.
  induction 1 as [|x r Hx Hr IH]; [reflexivity|].
  destruct r as [|y r].
  - cbn [itm_elems join_elems]. rewrite strip_ws_app, Hx, strip_eol, app_nil_r. reflexivity.
  - rewrite itm_elems_cons2, join_elems_cons2, !strip_ws_app, IH, Hx, strip_sep. reflexivity.
Qed.
Lemma strip_itm_members b lvl l :
  Forall (fun kv => forall lvl key, strip_ws (item b lvl key (snd kv)) = tokens_of key (snd kv)) l ->
  strip_ws (itm_members b lvl l) = join_members toks l.
Proof.
  induction 1 as [|[k v] r Hx Hr IH]; [reflexivity|]. cbn [snd] in Hx.
  destruct r as [|y r].
  - cbn [itm_members join_members]. rewrite strip_ws_app, Hx, strip_eol, app_nil_r. reflexivity.
  - rewrite itm_members_cons2, join_members_cons2, !strip_ws_app, IH, Hx, strip_sep. reflexivity.
Qed.

Lemma strip_item b d : forall lvl key, strip_ws (item b lvl key d) = tokens_of key d.
Proof.
  induction d using jdoc_ind2; intros lvl key;
    try (rewrite item_other by exact I; rewrite strip_ws_app, strip_head, strip_inline; reflexivity).
  - rewrite item_arr_block, !strip_ws_app, strip_head, strip_eol, strip_ind, strip_itm_elems by assumption.
    reflexivity.
  - rewrite item_obj_block, !strip_ws_app, strip_head, strip_eol, strip_ind, strip_itm_members by assumption.
    reflexivity.
Qed.

Theorem strip_render b d : strip_ws (render b d) = toks d.
Proof. unfold render. rewrite strip_ws_app, strip_item, strip_eol, app_nil_r. reflexivity. Qed.

(* ---------- the parser inverts the white-space-free printer ---------- *)
Section Loops.
  Variable pv : list jtok -> option (jvalue * list jtok).
  Fixpoint elems_of (g : nat) (ts : list jtok) (acc : list jvalue) : option (jvalue * list jtok) :=
    match g with
    | O => None
    | S g' =>
        match pv ts with
        | Some (v, TComma :: r') => elems_of g' r' (v :: acc)
        | Some (v, TRBrack :: r') => Some (JArr (rev (v :: acc)), r')
        | _ => None
        end
    end.
  Fixpoint members_of (g : nat) (ts : list jtok) (acc : list (pystr * jvalue)) : option (jvalue * list jtok) :=
    match g with
    | O => None
    | S g' =>
        match ts with
        | TStr k :: TColon :: r1 =>
            match pv r1 with
            | Some (v, TComma :: r') => members_of g' r' ((k, v) :: acc)
            | Some (v, TRBrace :: r') => Some (JObj (rev ((k, v) :: acc)), r')
            | _ => None
            end
        | _ => None
        end
    end.
End Loops.

Definition starts_value (ts : list jtok) : Prop :=
  match ts with
  | TNull :: _ | TNum _ :: _ | TStr _ :: _ | TLBrack :: _ | TLBrace :: _ => True
  | _ => False
  end.

Lemma parse_value_arr f r : starts_value r ->
  parse_value (S f) (TLBrack :: r) = elems_of (parse_value f) (S f) r [].
Proof. destruct r as [|[] r]; intros []; reflexivity. Qed.
Lemma parse_value_obj f r : starts_value r ->
  parse_value (S f) (TLBrace :: r) = members_of (parse_value f) (S f) r [].
Proof. destruct r as [|[] r]; intros []; reflexivity. Qed.

Lemma toks_starts d rest : starts_value (toks d ++ rest).
Proof. destruct d; exact I. Qed.
Lemma toks_nonempty d : (1 <= length (toks d))%nat.
Proof. destruct d; cbn; lia. Qed.

Lemma join_elems_starts x l rest : starts_value (join_elems toks (x :: l) ++ rest).
Proof.
  destruct l; [apply toks_starts|]. rewrite join_elems_cons2, <- app_assoc. apply toks_starts.
Qed.
Lemma join_members_starts kv l rest : starts_value (join_members toks (kv :: l) ++ rest).
Proof. destruct kv, l; exact I. Qed.

Lemma join_elems_length_in x l : In x l -> (length (toks x) <= length (join_elems toks l))%nat.
Proof.
  induction l as [|y r IH]; [intros []|].
  destruct r as [|z r].
  - intros [->|[]]. cbn. lia.
  - rewrite join_elems_cons2, app_length. cbn [length]. intros [->|H]; [lia|]. specialize (IH H). lia.
Qed.
Lemma join_elems_length l : (length l <= length (join_elems toks l))%nat.
Proof.
  induction l as [|y r IH]; [cbn; lia|].
  destruct r as [|z r].
  - cbn. apply toks_nonempty.
  - rewrite join_elems_cons2, app_length. cbn [length] in *. pose proof (toks_nonempty y). lia.
Qed.
Lemma join_members_length_in kv l : In kv l -> (length (toks (snd kv)) <= length (join_members toks l))%nat.
Proof.
  induction l as [|[k v] r IH]; [intros []|].
  destruct r as [|z r].
  - intros [<-|[]]. cbn. lia.
  - rewrite join_members_cons2. cbn [length]. rewrite app_length. cbn [length].
    intros [<-|H]; [cbn; lia|]. specialize (IH H). lia.
Qed.
Lemma join_members_length l : (length l <= length (join_members toks l))%nat.
Proof.
  induction l as [|[k v] r IH]; [cbn; lia|].
  destruct r as [|z r].
  - cbn. lia.
  - rewrite join_members_cons2. cbn [length] in *. rewrite app_length. cbn [length]. lia.
Qed.

Lemma elems_of_join pv l : l <> [] ->
  Forall (fun x => forall rest, pv (toks x ++ rest) = Some (erase x, rest)) l ->
  forall g acc rest, (length l <= g)%nat ->
    elems_of pv g (join_elems toks l ++ TRBrack :: rest) acc = Some (JArr (rev acc ++ map erase l), rest).
Proof.
  intros Hne H. induction H as [|x r Hx Hr IH]; [congruence|]. clear Hne.
  intros g acc rest Hg. destruct g as [|g]; [cbn in Hg; lia|].
  destruct r as [|y r].
  - cbn [join_elems elems_of]. rewrite Hx. reflexivity.
  - rewrite join_elems_cons2, <- app_assoc. cbn [elems_of]. rewrite Hx. cbn [app].
    rewrite IH by (congruence || (cbn [length] in *; lia)).
    cbn [rev map]. rewrite <- app_assoc. reflexivity.
Qed.

Lemma members_of_join pv l : l <> [] ->
  Forall (fun kv => forall rest, pv (toks (snd kv) ++ rest) = Some (erase (snd kv), rest)) l ->
  forall g acc rest, (length l <= g)%nat ->
    members_of pv g (join_members toks l ++ TRBrace :: rest) acc =
    Some (JObj (rev acc ++ map (fun kv => (fst kv, erase (snd kv))) l), rest).
Proof.
  intros Hne H. induction H as [|[k v] r Hx Hr IH]; [congruence|]. clear Hne. cbn [snd] in Hx.
  intros g acc rest Hg. destruct g as [|g]; [cbn in Hg; lia|].
  destruct r as [|y r].
  - cbn [join_members members_of app]. rewrite Hx. reflexivity.
  - rewrite join_members_cons2. cbn [app members_of]. rewrite <- app_assoc, Hx. cbn [app].
    rewrite IH by (congruence || (cbn [length] in *; lia)).
    cbn [rev map fst snd]. rewrite <- app_assoc. reflexivity.
Qed.

Lemma parse_value_arr_toks f l rest :
  Forall (fun x => forall fuel rest, (length (toks x) < fuel)%nat ->
                   parse_value fuel (toks x ++ rest) = Some (erase x, rest)) l ->
  (length (join_elems toks l) + 2 < S f)%nat ->
  parse_value (S f) ((TLBrack :: join_elems toks l ++ [TRBrack]) ++ rest) = Some (JArr (map erase l), rest).
Proof.
  intros H Hf. destruct l as [|x l]; [reflexivity|].
  cbn [app]. rewrite <- app_assoc. rewrite parse_value_arr by apply join_elems_starts.
  cbn [app]. rewrite elems_of_join; [reflexivity|congruence| |].
  - rewrite Forall_forall in *. intros y Hy rest'. apply H; [exact Hy|].
    pose proof (join_elems_length_in _ _ Hy). lia.
  - pose proof (join_elems_length (x :: l)). lia.
Qed.
Lemma parse_value_obj_toks f l rest :
  Forall (fun kv => forall fuel rest, (length (toks (snd kv)) < fuel)%nat ->
                    parse_value fuel (toks (snd kv) ++ rest) = Some (erase (snd kv), rest)) l ->
  (length (join_members toks l) + 2 < S f)%nat ->
  parse_value (S f) ((TLBrace :: join_members toks l ++ [TRBrace]) ++ rest) =
  Some (JObj (map (fun kv => (fst kv, erase (snd kv))) l), rest).
Proof.
  intros H Hf. destruct l as [|x l]; [reflexivity|].
  cbn [app]. rewrite <- app_assoc. rewrite parse_value_obj by apply join_members_starts.
  cbn [app]. rewrite members_of_join; [reflexivity|congruence| |].
  - rewrite Forall_forall in *. intros y Hy rest'. apply H; [exact Hy|].
    pose proof (join_members_length_in _ _ Hy). lia.
  - pose proof (join_members_length (x :: l)). lia.
Qed.

Theorem parse_value_toks d : forall fuel rest, (length (toks d) < fuel)%nat ->
  parse_value fuel (toks d ++ rest) = Some (erase d, rest).
Proof.
  induction d using jdoc_ind2; intros fuel rest Hf;
    (destruct fuel as [|f]; [lia|]); try reflexivity;
    cbn [toks length] in Hf; rewrite app_length in Hf; cbn [length] in Hf.
  - apply parse_value_arr_toks; [assumption|lia].
  - apply parse_value_arr_toks; [assumption|lia].
  - apply parse_value_obj_toks; [assumption|lia].
  - apply parse_value_obj_toks; [assumption|lia].
Qed.

(* ---------- A1, A2 ---------- *)
Theorem parse_render : forall (b : bool) (d : jdoc), parse (render b d) = Some (erase d).
Proof.
  intros b d. unfold parse. rewrite strip_render.
  rewrite <- (app_nil_r (toks d)) at 2. rewrite parse_value_toks by lia. reflexivity.
Qed.

Theorem pretty_compact_same : forall d, parse (render true d) = parse (render false d).
Proof. intros d. rewrite !parse_render. reflexivity. Qed.

(* the two layouts have the same token stream up to white space *)
Theorem render_layout_independent b d : strip_ws (render b d) = tokens_of None d.
Proof. apply strip_render. Qed.

(* ---------- A3: white-space tokens only contain blanks and newlines ---------- *)
Definition blank (c : Z) : Prop := c = 32 \/ c = 10.
Definition tok_ok (t : jtok) : Prop := match t with TWs s => Forall blank s | _ => True end.
Definition ws_ok (ts : list jtok) : Prop := Forall tok_ok ts.

Lemma ws_ok_app a b : ws_ok a -> ws_ok b -> ws_ok (a ++ b).
Proof. intros; apply Forall_app; auto. Qed.
Lemma ws_ok_cons t a : tok_ok t -> ws_ok a -> ws_ok (t :: a).
Proof. intros; constructor; auto. Qed.
Lemma sp1_ok : tok_ok (TWs sp1).
Proof. repeat constructor. Qed.
Lemma ws_ok_ind b lvl : ws_ok (ind b lvl).
Proof.
  destruct b; repeat constructor. unfold spaces. induction lvl; cbn; constructor; auto. left; reflexivity.
Qed.
Lemma ws_ok_eol b : ws_ok (eol b).
Proof. destruct b; [|constructor]. constructor; [|constructor]. constructor; [right; reflexivity|constructor]. Qed.
Lemma ws_ok_sep b : ws_ok (sep b).
Proof.
  destruct b; (constructor; [exact I|]); (constructor; [|constructor]);
    (constructor; [|constructor]); [right|left]; reflexivity.
Qed.
Lemma ws_ok_head b lvl key : ws_ok (head_toks b lvl key).
Proof. apply ws_ok_app; [apply ws_ok_ind|]. destruct key; repeat constructor. Qed.
#[local] Hint Resolve ws_ok_app ws_ok_cons sp1_ok ws_ok_ind ws_ok_eol ws_ok_sep ws_ok_head : wsok.
#[local] Hint Extern 1 (tok_ok _) => exact I : wsok.
#[local] Hint Extern 1 (ws_ok []) => constructor : wsok.

Lemma ws_ok_inl_elems l : Forall (fun x => ws_ok (inline x)) l -> ws_ok (inl_elems l).
Proof.
  induction 1 as [|x r Hx Hr IH]; [constructor|].
  destruct r as [|y r]; [exact Hx|]. rewrite inl_elems_cons2. cbn [app]. auto 10 with wsok.
Qed.
Lemma ws_ok_inl_members l : Forall (fun kv => ws_ok (inline (snd kv))) l -> ws_ok (inl_members l).
Proof.
  induction 1 as [|[k v] r Hx Hr IH]; [constructor|]. cbn [snd] in Hx.
  destruct r as [|y r].
  - cbn [inl_members app]. auto 10 with wsok.
  - rewrite inl_members_cons2. cbn [app]. auto 10 with wsok.
Qed.
Lemma ws_ok_inline d : ws_ok (inline d).
Proof.
  induction d using jdoc_ind2; try (repeat constructor; fail).
  - rewrite inline_arr_inline. apply ws_ok_cons; [exact I|]. apply ws_ok_app; [apply ws_ok_inl_elems; assumption|repeat constructor].
  - rewrite inline_arr_block. apply ws_ok_cons; [exact I|]. apply ws_ok_app; [apply ws_ok_inl_elems; assumption|repeat constructor].
  - rewrite inline_obj_inline. apply ws_ok_cons; [exact I|]. apply ws_ok_app; [apply ws_ok_inl_members; assumption|repeat constructor].
  - rewrite inline_obj_block. apply ws_ok_cons; [exact I|]. apply ws_ok_app; [apply ws_ok_inl_members; assumption|repeat constructor].
Qed.

Lemma ws_ok_itm_elems b lvl l :
  Forall (fun x => forall lvl key, ws_ok (item b lvl key x)) l -> ws_ok (itm_elems b lvl l).
Proof.
  induction 1 as [|x r Hx Hr IH]; [constructor|].
  destruct r as [|y r].
  - cbn [itm_elems]. auto with wsok.
  - rewrite itm_elems_cons2. auto with wsok.
Qed.
Lemma ws_ok_itm_members b lvl l :
  Forall (fun kv => forall lvl key, ws_ok (item b lvl key (snd kv))) l -> ws_ok (itm_members b lvl l).
Proof.
  induction 1 as [|[k v] r Hx Hr IH]; [constructor|]. cbn [snd] in Hx.
  destruct r as [|y r].
  - cbn [itm_members]. auto with wsok.
  - rewrite itm_members_cons2. auto with wsok.
Qed.
Lemma ws_ok_item b d : forall lvl key, ws_ok (item b lvl key d).
Proof.
  induction d using jdoc_ind2; intros lvl key;
    try (rewrite item_other by exact I; apply ws_ok_app; [apply ws_ok_head|apply ws_ok_inline]).
  - rewrite item_arr_block.
    repeat (apply ws_ok_app; auto with wsok); try (repeat constructor; fail).
    apply ws_ok_itm_elems; assumption.
  - rewrite item_obj_block.
    repeat (apply ws_ok_app; auto with wsok); try (repeat constructor; fail).
    apply ws_ok_itm_members; assumption.
Qed.

Theorem render_ws_only_blanks : forall b d s, In (TWs s) (render b d) -> Forall (fun c => c = 32 \/ c = 10) s.
Proof.
  intros b d s H.
  assert (Hok : ws_ok (render b d)) by (unfold render; apply ws_ok_app; [apply ws_ok_item|apply ws_ok_eol]).
  unfold ws_ok in Hok. rewrite Forall_forall in Hok. exact (Hok _ H).
Qed.

Print Assumptions parse_render.
Print Assumptions pretty_compact_same.
Print Assumptions render_layout_independent.
Print Assumptions render_ws_only_blanks.
