(* C14 — search returns sound, ordered, disjoint, longest and complete matches.
   Statements only; proofs in Gsm/ScanProofs.v over the model Gsm/Dfa.v
   (find_all after the GD2/GD3 repairs) and the specification Gsm/Scan.v. *)
From Verif Require Import Base Regex Nfa Dfa DfaProofs Scan ScanProofs Token GenCompare TieProofs.
From Coq Require Import Sorted.
Open Scope nat_scope.

(* find_all is the leftmost selection over the isolated greedy runs — for ANY
   predicates (stateful Balanced included) and any acceptance filter (the form get_headers uses) *)
Theorem C14_find_all_is_scan : forall P I (peqb : P -> P -> bool) (ast : P -> Z -> I -> bool * Z)
    (a : automaton P) w f cs,
  all_greedy peqb ast a w = OK cs ->
  find_all_dfa peqb ast a w f = select_leftmost f 0 cs /\
  find_all_dfa peqb ast a w f = scan_spec peqb ast a w f.
Proof. intros. split; [eapply find_all_is_scan | eapply C14_filtered]; eassumption. Qed.

Theorem C14_bounds_ordered_disjoint : forall P I (peqb : P -> P -> bool) (ast : P -> Z -> I -> bool * Z)
    (a : automaton P) w f cs ms,
  all_greedy peqb ast a w = OK cs -> find_all_dfa peqb ast a w f = OK ms ->
  (forall s t, In (s, t) ms -> s < length w /\ s <= t <= length w) /\
  StronglySorted (fun c1 c2 : cand => snd c1 <= fst c2) ms.
Proof.
  intros P I peqb ast a w f cs ms Hg Hf. split.
  - apply (C14_bounds peqb ast a w f cs ms Hg Hf).
  - apply (C14_ordered_disjoint peqb ast a w f cs ms Hg Hf).
Qed.

(* a match can only end before the end of the input when every Balanced group among the
   current transitions is closed: while a group is open its predicate accepts every token *)
Theorem C14_balanced_depth : forall (a : automaton tpred) (pt : pat tpred) (x : token),
  consume tpred_eqb taccept_st a pt x = OK None ->
  forall l r, In (PBalanced l r) (dtrans tpred_eqb (a_heap a) (p_state pt)) ->
    (depth_of tpred_eqb (p_depths pt) (PBalanced l r) <= 0)%Z.
Proof. exact C14_balanced_closed_at_end. Qed.

Section Sem.
  Context {P I : Type}.
  Variable peqb : P -> P -> bool.
  Hypothesis peqb_spec : forall p q, peqb p q = true <-> p = q.
  Variable accepts : P -> I -> bool.

  (* stateless, pairwise-disjoint predicates: never an error *)
  Theorem C14_total : forall (e : expr P) w f,
    wf e = true -> disjoint accepts (preds_seq e) -> (forall c, exists b, f c = OK b) ->
    exists ms, find_all peqb (accept_st accepts) e w f = OK ms.
  Proof. exact (C14_find_all_total peqb peqb_spec accepts). Qed.

  (* bounds, soundness (word of the language), longest, ordered / non-overlapping (also at the
     end of the sequence), completeness (every start from which the greedy run succeeds is covered) *)
  Theorem C14_spec : forall (e : expr P) (a : automaton P) w ms,
    wf e = true -> disjoint accepts (preds_seq e) -> to_dfa e = OK a ->
    find_all peqb (accept_st accepts) e w (fun _ => OK true) = OK ms ->
    (forall s t, In (s, t) ms ->
       s < length w /\ s <= t <= length w /\ lang accepts e (sublist w s t) /\
       (forall t', t < t' <= length w -> ~ lang accepts e (sublist w s t')) /\
       greedy peqb (accept_st accepts) a w s = OK (Some t)) /\
    StronglySorted (fun c1 c2 : cand => snd c1 <= fst c2) ms /\
    (forall i t, i < length w -> i < t -> greedy peqb (accept_st accepts) a w i = OK (Some t) ->
       exists s t', In (s, t') ms /\ s <= i < t').
  Proof. exact (C14_find_all_spec peqb peqb_spec accepts). Qed.

  (* non-nullable patterns only report non-empty matches *)
  Theorem C14_nonempty_matches : forall (e : expr P) (a : automaton P) w i t,
    wf e = true -> disjoint accepts (preds_seq e) -> to_dfa e = OK a ->
    nullable_seq e = false -> greedy peqb (accept_st accepts) a w i = OK (Some t) -> i < t.
  Proof. intros e a w i t Hwf Hd Ha Hn. exact (C14_nonempty peqb peqb_spec accepts e Hwf Hd a Ha Hn w i t). Qed.
End Sem.

(* the selection rule, the open-group test and the Balanced depth counter of the model are the ones the source states
   (equal to the definitions regenerated from matcher.py / Pattern.py / Balanced.py on this run) *)
Theorem C14_operators_tied :
  (forall (f : cand -> res bool) last_end c rest, f c = OK true ->
     select_leftmost f last_end (c :: rest) =
     if find_all_after_last (Z.of_nat (fst c)) (Z.of_nat last_end)
     then match select_leftmost f (snd c) rest with Err k => Err k | OK r => OK (c :: r) end
     else select_leftmost f last_end rest) /\
  (forall d : Z, (0 <? d)%Z = group_is_open d) /\
  (forall l r d t sat, taccept_st (PBalanced l r) d t =
     (let '(b, d', _) := balanced_accept (taccept l t) (taccept r t) d sat in (b, d'))).
Proof. split; [exact tie_select_leftmost|]. split; [exact tie_group_is_open|exact tie_balanced_accept]. Qed.

Print Assumptions C14_find_all_is_scan.
Print Assumptions C14_operators_tied.
Print Assumptions C14_bounds_ordered_disjoint.
Print Assumptions C14_balanced_depth.
Print Assumptions C14_total.
Print Assumptions C14_spec.
Print Assumptions C14_nonempty_matches.

Open Scope Z_scope.
Example C14_example :
  find_all id_peqb id_accept_st [Atom 1; Plus [Union [Atom 2] [Atom 3]]] [9; 1; 2; 3; 1; 1; 3; 9; 1; 2] (fun _ => OK true)
  = OK [(1, 4); (5, 7); (8, 10)]%nat.
Proof. vm_compute. reflexivity. Qed.
