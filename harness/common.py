"""Shared machinery of all property checks: regenerate -> build -> theorems ->
correspondence (Coq vm_compute on generated cases) -> failing-input search ->
known findings -> evidence.  See DESIGN.md section 4."""
import fcntl
import hashlib
import json
import os
import random
import re
import subprocess
import sys
import time

VERIF = os.path.dirname(os.path.dirname(os.path.abspath(__file__)))
REPO = os.environ.get("VERIF_REPO", "/repo")
COQ = os.path.join(VERIF, "coq")
BUILD = os.path.join(VERIF, "build")
PY = "/venv/bin/python"
NPROC = int(os.environ.get("VERIF_JOBS", "16"))

os.environ.setdefault("LC_ALL", "C")
os.environ["PYTHONDONTWRITEBYTECODE"] = "1"
sys.dont_write_bytecode = True
if REPO not in sys.path:
    sys.path.insert(0, REPO)


def assert_repo_import():
    import codelimit
    p = os.path.realpath(codelimit.__file__)
    if not p.startswith(os.path.realpath(REPO) + os.sep):
        raise SystemExit(f"harness error: codelimit imported from {p}, not from {REPO}")


# ---------------------------------------------------------------- trees
def tree_to_coq(t) -> str:
    if isinstance(t, bool):
        return "L 1" if t else "L 0"
    if isinstance(t, int):
        return f"L {t}" if t >= 0 else f"L ({t})"
    if isinstance(t, str):
        return "T [" + "; ".join(f"L {ord(c)}" for c in t) + "]"
    if isinstance(t, (list, tuple)):
        return "T [" + "; ".join(tree_to_coq(x) for x in t) + "]"
    raise TypeError(f"no tree encoding for {type(t)}")


def z(n: int) -> str:
    return str(n) if n >= 0 else f"({n})"


def pystr(s: str) -> str:
    return "[" + "; ".join(str(ord(c)) for c in s) + "]"


def coq_list(items) -> str:
    return "[" + "; ".join(items) + "]"


def coq_bool(b) -> str:
    return "true" if b else "false"


def parse_tree(text: str):
    """parse Coq's printing of a `tree` value back into nested Python lists/ints"""
    toks = re.findall(r"T|L|\[|\]|;|\(|\)|-?\d+", text)
    pos = 0

    def parse():
        nonlocal pos
        tk = toks[pos]
        if tk == "(":
            pos += 1
            v = parse()
            assert toks[pos] == ")"
            pos += 1
            return v
        if tk == "L":
            pos += 1
            if toks[pos] == "(":
                pos += 1
                v = int(toks[pos])
                pos += 1
                assert toks[pos] == ")"
                pos += 1
                return v
            v = int(toks[pos])
            pos += 1
            return v
        if tk == "T":
            pos += 1
            assert toks[pos] == "["
            pos += 1
            out = []
            while toks[pos] != "]":
                out.append(parse())
                if toks[pos] == ";":
                    pos += 1
            pos += 1
            return out
        raise ValueError(f"unexpected token {tk}")
    return parse()


def canon_tree(t):
    """python-side canonical form comparable with parse_tree output"""
    if isinstance(t, bool):
        return 1 if t else 0
    if isinstance(t, int):
        return t
    if isinstance(t, str):
        return [ord(c) for c in t]
    return [canon_tree(x) for x in t]


# ---------------------------------------------------------------- build
class BuildLock:
    def __enter__(self):
        os.makedirs(BUILD, exist_ok=True)
        self.f = open(os.path.join(BUILD, ".lock"), "w")
        fcntl.flock(self.f, fcntl.LOCK_EX)
        return self

    def __exit__(self, *a):
        fcntl.flock(self.f, fcntl.LOCK_UN)
        self.f.close()


def run(cmd, timeout, cwd=None, env=None):
    try:
        p = subprocess.run(cmd, cwd=cwd, env=env, capture_output=True, text=True, timeout=timeout)
        return p.returncode, p.stdout + p.stderr
    except subprocess.TimeoutExpired as e:
        out = (e.stdout or b"").decode("utf8", "replace") if isinstance(e.stdout, bytes) else (e.stdout or "")
        return 124, out + "\nTIMEOUT"


def regenerate():
    """translator T and capture K: rewrite coq/Gen/*.v from /repo's working tree"""
    env = dict(os.environ, VERIF_REPO=REPO, PYTHONPATH=REPO, PYTHONHASHSEED="0")
    rc, out = run([PY, os.path.join(VERIF, "translate", "gen.py")], 300, env=env)
    return rc == 0, out


def ensure_makefile():
    mk = os.path.join(COQ, "Makefile")
    cp = os.path.join(COQ, "_CoqProject")
    if not os.path.exists(mk) or os.path.getmtime(mk) < os.path.getmtime(cp):
        run(["coq_makefile", "-f", "_CoqProject", "-o", "Makefile"], 60, cwd=COQ)


def make(targets, timeout=3600):
    ensure_makefile()
    rc, out = run(["make", "-j", str(NPROC), "-k"] + list(targets), timeout, cwd=COQ)
    return rc == 0, out


def coqc(path, timeout=2400):
    rc, out = run(["coqc", "-Q", COQ, "Verif", "-w", "-notation-overridden,-deprecated-hint-without-locality,-deprecated-instance-without-locality", path], timeout, cwd=COQ)
    return rc == 0, out


def check_props(prop_id, timeout=2400):
    """compile Props/<id>.v; returns dict(ok, theorems, closed, axioms, log)"""
    path = os.path.join(COQ, "Props", prop_id + ".v")
    src = open(path).read()
    theorems = re.findall(r"^\s*(?:Theorem|Lemma)\s+(\w+)", src, re.M)
    ok, out = coqc(path, timeout)
    closed = out.count("Closed under the global context")
    axioms = []
    for blk in re.findall(r"Axioms:\n((?:.+\n?)+?)(?:\n|$)", out):
        for line in blk.splitlines():
            m = re.match(r"^(\S+)\s*:", line)
            if m and m.group(1) != "Axioms":
                axioms.append(m.group(1))
    return dict(ok=ok, theorems=theorems, closed=closed, axioms=sorted(set(axioms)), log=out[-3000:])


def forbidden_scan():
    """no Admitted/admit/Axiom/Parameter etc. anywhere in the development"""
    pat = re.compile(r"\b(Admitted|admit|Axiom|Axioms|Parameter|Parameters|Conjecture|Abort All|bypass_check|Unset Guard Checking|Unset Positivity Checking|Unset Universe Checking|Admit Obligations)\b")
    hits = []
    for root, _, files in os.walk(COQ):
        for f in files:
            if f.endswith(".v"):
                text = open(os.path.join(root, f)).read()
                text = re.sub(r"\(\*.*?\*\)", "", text, flags=re.S)
                for m in pat.finditer(text):
                    hits.append(f"{os.path.relpath(os.path.join(root, f), COQ)}: {m.group(1)}")
    return hits


# ---------------------------------------------------------------- model evaluation
def eval_cases(tag, imports, cases, shard=400, timeout=3600, prelude=""):          # generous: the machine may be shared
    """cases: list of (gallina_expr_of_type_tree, expected_tree_python).
    Returns (mismatch_indices, error_log_or_None)."""
    os.makedirs(BUILD, exist_ok=True)
    files = []
    for k in range(0, len(cases), shard):
        chunk = cases[k:k + shard]
        path = os.path.join(BUILD, f"cases_{tag}_{k // shard}.v")
        with open(path, "w") as f:
            f.write(f"From Verif Require Import {imports}.\nOpen Scope Z_scope.\n{prelude}\n")
            f.write("Definition cases : list (tree * tree) := [\n")
            f.write(";\n".join(f"({m}, {tree_to_coq(e)})" for m, e in chunk))
            f.write("].\nEval vm_compute in (mismatches cases).\n")
        files.append((k, path))
    procs = []
    mism, err = [], None
    pending = list(files)
    running = []
    t0 = time.time()
    while pending or running:
        while pending and len(running) < NPROC:
            k, path = pending.pop(0)
            p = subprocess.Popen(["coqc", "-Q", COQ, "Verif", "-w", "-notation-overridden", path],
                                 cwd=BUILD, stdout=subprocess.PIPE, stderr=subprocess.STDOUT, text=True)
            running.append((k, path, p))
        for item in list(running):
            k, path, p = item
            if p.poll() is not None:
                out = p.stdout.read()
                running.remove(item)
                m = re.search(r"=\s*\[(.*?)\]\s*:\s*list nat", out, re.S)
                if p.returncode != 0 or not m:
                    err = (err or "") + f"\n{os.path.basename(path)}: rc={p.returncode}\n{out[-1500:]}"
                else:
                    body = m.group(1).strip()
                    if body:
                        mism.extend(k + int(x) for x in re.findall(r"\d+", body))
                for ext in (".v", ".vo", ".glob", ".vok", ".vos"):
                    try:
                        os.remove(path[:-2] + ext)
                    except OSError:
                        pass
        if time.time() - t0 > timeout:
            for _, _, p in running:
                p.kill()
            err = (err or "") + "\nTIMEOUT in eval_cases"
            break
        time.sleep(0.02)
    return sorted(mism), err


def eval_one(tag, imports, expr, prelude="", timeout=600):
    """model output tree of a single case (diagnosis of a mismatch)"""
    path = os.path.join(BUILD, f"one_{tag}.v")
    with open(path, "w") as f:
        f.write(f"From Verif Require Import {imports}.\nOpen Scope Z_scope.\n{prelude}\n"
                "Set Printing Width 1000000.\nSet Printing Depth 1000000.\n"
                f"Eval vm_compute in ({expr}).\n")
    ok, out = coqc(path, timeout)
    for ext in (".v", ".vo", ".glob", ".vok", ".vos"):
        try:
            os.remove(path[:-2] + ext)
        except OSError:
            pass
    m = re.search(r"=\s*(.*?)\s*:\s*tree", out, re.S)
    if not ok or not m:
        return None
    try:
        return parse_tree(m.group(1))
    except Exception:
        return None


# ---------------------------------------------------------------- check skeleton
class Check:
    def __init__(self, prop_id, tier, seed, level="proof"):
        self.id = prop_id
        self.tier = tier
        self.seed = seed
        self.level = level
        self.rng = random.Random(seed * 1000003 + int(hashlib.md5(prop_id.encode()).hexdigest()[:6], 16))
        self.t0 = time.time()
        self.violations = []          # (replay_path, suffix)
        self.known_hits = []
        self.obligations = 0
        self.discharged = 0
        self.axioms = []
        self.evaluations = 0
        self.traces = 0               # cases compared model vs implementation
        self.nontrivial = set()
        self.samples = []
        self.distribution = {}
        self.notes = []
        self.trusted = []
        self.broken = []              # names of theorems / correspondence stages that no longer check
        self.checker_cmd = ""
        kf = os.path.join(VERIF, "known_findings.json")
        self.known = json.load(open(kf)) if os.path.exists(kf) else {"open": [], "fixed": []}

    # ---- bookkeeping
    def count(self, key, n=1):
        self.distribution[key] = self.distribution.get(key, 0) + n

    def case_seen(self, case, nontrivial):
        self.evaluations += 1
        if nontrivial:
            h = hashlib.md5(json.dumps(case, sort_keys=True, default=str).encode()).hexdigest()
            self.nontrivial.add(h)
        if len(self.samples) < 4 and nontrivial:
            self.samples.append(case)

    # ---- standard proof stage
    def proof_stage(self, make_targets, extra_obligations=0):
        with BuildLock():
            ok_gen, gen_log = regenerate()
            if not ok_gen:
                self.broken.append("translation/capture of /repo source (tie T/K): " + gen_log.strip()[-400:])
            # bring EVERY compiled file up to date with the regenerated Gen/*.v first (files outside this check's
            # targets must not stay compiled against an older Gen file), then decide on this check's own targets
            make([])
            ok_mk, mk_log = make(make_targets)
            model_ok = ok_mk
            if not ok_mk:
                errs = re.findall(r"File \"\./([^\"]+)\", line (\d+)[^\n]*\n(Error:[^\n]*(?:\n[^\n]+){0,3})", mk_log)
                for f, ln, msg in errs[:5]:
                    self.broken.append(f"{f}:{ln}: {msg.strip()[:300]}")
                if not errs:
                    self.broken.append("make failed: " + mk_log[-500:])
            pr = check_props(self.id)
        self.obligations = len(pr["theorems"]) + extra_obligations
        # a compiled Props file means the kernel accepted every theorem in it
        self.discharged = (len(pr["theorems"]) + extra_obligations) if pr["ok"] else min(pr["closed"], max(len(pr["theorems"]) - 1, 0))
        self.axioms = pr["axioms"]
        allowed = ("ClassicalDedekindReals.", "FunctionalExtensionality.", "Classical_Prop.", "Eqdep.", "ProofIrrelevance.", "JMeq.")
        ours = [a for a in self.axioms if not a.startswith(allowed)]
        if ours:
            self.broken.append("a property theorem depends on an axiom outside the standard library: " + ", ".join(ours[:6]))
        self.checker_cmd = f"coqc -Q coq Verif coq/Props/{self.id}.v (after make -C coq {' '.join(make_targets)})"
        if not pr["ok"]:
            m = re.search(r"File \"[^\"]*Props/(\w+)\.v\", line (\d+)", pr["log"])
            where = ""
            if m:
                src = open(os.path.join(COQ, "Props", self.id + ".v")).read().splitlines()
                ln = int(m.group(2))
                for i in range(ln - 1, -1, -1):
                    mm = re.match(r"^\s*(?:Theorem|Lemma|Example)\s+(\w+)", src[i])
                    if mm:
                        where = mm.group(1)
                        break
            self.broken.append(f"theorem file Props/{self.id}.v no longer checks" + (f" at {where}" if where else "")
                               + ": " + pr["log"].strip()[-300:])
        hits = forbidden_scan()
        if hits:
            self.broken.append("forbidden constructs in development: " + "; ".join(hits[:5]))
        if self.tier == "thorough" and pr["ok"]:
            # independent re-check of the compiled theorem file and everything it depends on
            rc, out = run(["coqchk", "-silent", "-o", "-Q", COQ, "Verif", f"Verif.Props.{self.id}"], 1800, cwd=COQ)
            m = re.search(r"\* Axioms:\s*(.*?)\n\s*\n", out, re.S)
            self.coqchk = (m.group(1).strip() if m else "no summary")
            if rc != 0 or not m:
                self.broken.append("coqchk rejects the compiled theorem file: " + out.strip()[-300:])
            elif self.coqchk != "<none>":
                # axioms the standard library itself declares (real numbers, classical logic, functional
                # extensionality: used by the Flocq bound of C19 only) are named in DESIGN.md; anything else is ours
                names = re.findall(r"[\w.]+", self.coqchk)
                foreign = [n for n in names if not n.startswith(("Coq.Reals.", "Coq.Logic.", "Coq.Sets.", "Coq.setoid_ring.", "Coq.Floats.", "Coq.Numbers."))]
                if foreign:
                    self.broken.append("coqchk reports axioms outside the standard library: " + ", ".join(foreign[:8]))
            for key in ("type-in-type", "unsafe (co)fixpoints", "positivity is assumed"):
                mm = re.search(re.escape(key) + r":\s*(\S+)", out)
                if mm and mm.group(1) != "<none>":
                    self.broken.append(f"coqchk: constants relying on {key}: {mm.group(1)}")
            self.checker_cmd += f"; coqchk -o -Q coq Verif Verif.Props.{self.id}"
        return model_ok

    # ---- violations
    def is_known(self, case_key):
        for k in self.known.get("open", []):
            if k.get("property") == self.id and k.get("key") == case_key:
                return k
        return None

    def violation(self, case, what, key=None, suffix=""):
        k = self.is_known(key) if key else None
        if k:
            if key not in self.known_hits:
                self.known_hits.append(key)
                print(f"KNOWN-FINDING: property={self.id} {k.get('what', what)}")
            return
        if os.environ.get("VERIF_DEBUG"):
            print("DEBUG-VIOLATION", what[:300].replace("\n", " "))
        if len(self.violations) >= 10:
            self.violations.append(self.violations[-1])
            return
        os.makedirs(os.path.join(VERIF, "replays"), exist_ok=True)
        h = hashlib.md5(json.dumps(case, sort_keys=True, default=str).encode()).hexdigest()[:10]
        path = os.path.join(VERIF, "replays", f"{self.id}-{h}.json")
        if path in self.violations:
            return
        with open(path, "w") as f:
            json.dump({"property": self.id, "what": what, "case": case, "seed": self.seed, "tier": self.tier},
                      f, indent=1, default=str)
        if len(self.violations) < 5:
            print(f"VIOLATION property={self.id} replay={path}{(' ' + suffix) if suffix else ''}")
            print(f"  what: {what[:400]}")
        self.violations.append(path)

    def finish(self, rule, assumptions=(), extra=None):
        # broken obligations / correspondence with no concrete failing input
        if self.broken and not self.violations:
            self.violation({"broken": self.broken}, "no longer shown to hold: " + " | ".join(self.broken)[:600],
                           suffix="no-failing-input-found")
        cov = {
            "obligations": self.obligations,
            "discharged": self.discharged if not self.broken else min(self.discharged, max(self.obligations - 1, 0)),
            "checker_cmd": self.checker_cmd,
            "trusted_base": ["Coq 8.16.1 kernel (coqc), vm_compute for model evaluation; no native_compute",
                             "axioms reported by Print Assumptions: " + (", ".join(self.axioms) if self.axioms else "none (Closed under the global context)")]
                            + list(self.trusted),
            "evaluations": self.evaluations,
            "distinct_nontrivial": len(self.nontrivial),
            "traces_validated_against_impl": self.traces,
            "rule": rule,
            "samples": self.samples[:4] or ["(none)"],
            "distribution": self.distribution,
            "broken": self.broken,
            "known_findings_hit": self.known_hits,
        }
        if extra:
            cov.update(extra)
        ev = {"property_id": self.id, "tier": self.tier, "seed": self.seed, "level": self.level,
              "coverage": cov, "assumptions": list(assumptions), "wall_s": round(time.time() - self.t0, 2),
              "violations": len(self.violations)}
        os.makedirs(os.path.join(VERIF, "evidence"), exist_ok=True)
        with open(os.path.join(VERIF, "evidence", self.id + ".json"), "w") as f:
            json.dump(ev, f, indent=1, default=str)
        print(f"{self.id}: obligations {cov['discharged']}/{self.obligations}, cases {self.evaluations} "
              f"(model-vs-impl {self.traces}, distinct non-trivial {len(self.nontrivial)}), "
              f"violations {len(self.violations)}, {ev['wall_s']} s")
        return 1 if self.violations else 0
