(* CodebaseProofsInv.v — the invariant of add_files: shape of the folder tree
   in terms of the inserted files; totality of add_files (no Recursion / KeyError). *)
From Verif Require Import Base BaseProofs GenThresholds Thresholds Codebase
  CodebaseProofsStr CodebaseProofsTotals CodebaseProofsTree.
Open Scope Z_scope.

Definition in_folder (k : pystr) (e : FileEntry) : bool := pystr_eqb (folder_of (e_path e)) k.

Record Shape (done : list FileEntry) (tree : dict folder) : Prop := mkShape {
  sh_t : TInv [] tree;
  sh_keys : forall k, In k (keys tree) <-> k = rootk \/ exists e, In e done /\ In k (ancestors (e_path e));
  sh_files : forall k, ffiles (dget tree k) = filter (in_folder k) done
}.

Definition Inv (done : list FileEntry) (tree : dict folder) : Prop :=
  Shape done tree /\ forall k, fprof (dget tree k) = zero4.

(* ---------- base case ---------- *)
Lemma dget_single {V} (k0 : pystr) (v0 : V) k : dget [(k0, v0)] k = if pystr_eqb k k0 then Some v0 else None.
Proof. reflexivity. Qed.

Lemma TInv_new : TInv [] [(rootk, empty_folder)].
Proof.
  constructor; cbn [keys map fst].
  - constructor; [intros []|constructor].
  - intros k [<-|[]]. exists []. split; [constructor|reflexivity].
  - left. reflexivity.
  - intros cs c Hg [E|[]] _. exfalso. symmetry in E. revert E. apply fkey_not_root; [exact Hg|].
    destruct cs; discriminate.
  - intros cs fo Hg Hd. rewrite dget_single in Hd.
    destruct (pystr_eqb (fkey cs) rootk); [|discriminate]. inversion Hd; subst fo.
    exists []. split; [reflexivity|]. split; [constructor|]. intros c. split; [intros []|].
    intros (Ho & [E|[]] & _). exfalso. symmetry in E. revert E. apply fkey_not_root.
    + apply good_snoc. auto.
    + destruct cs; discriminate.
Qed.

Lemma Inv_new : Inv [] [(rootk, empty_folder)].
Proof.
  split; [constructor|].
  - apply TInv_new.
  - intros k. cbn [keys map fst In]. split.
    + intros [<-|[]]. left. reflexivity.
    + intros [->|(e & [] & _)]. left. reflexivity.
  - intros k. rewrite dget_single. destruct (pystr_eqb k rootk); reflexivity.
  - intros k. rewrite dget_single. destruct (pystr_eqb k rootk); reflexivity.
Qed.

(* ---------- prefix closure ---------- *)
Lemma TInv_prefix_closed t pre : TInv [] t -> forall suf, good (pre ++ suf) ->
  In (fkey (pre ++ suf)) (keys t) -> In (fkey pre) (keys t).
Proof.
  intros HT suf. induction suf as [|x suf IH] using rev_ind; intros Hg Hin.
  - rewrite app_nil_r in Hin. exact Hin.
  - rewrite app_assoc in Hg, Hin. apply IH; [eapply good_prefix; exact Hg|].
    apply (ti_parent _ _ HT _ x Hg Hin). intros [].
Qed.

(* ---------- ensuring the parent folder exists ---------- *)
Lemma ensure_folder_spec tree cs fuel : TInv [] tree -> good cs -> (length cs < fuel)%nat ->
  exists tree1,
    (if dmem tree (fkey cs) then OK tree else add_folder fuel tree (fpath cs)) = OK tree1 /\
    TInv [] tree1 /\ In (fkey cs) (keys tree1) /\
    (forall k, In k (keys tree) -> In k (keys tree1)) /\
    (forall k, In k (keys tree1) -> In k (keys tree) \/ is_prefix_key cs k) /\
    (forall k, ffiles (dget tree1 k) = ffiles (dget tree k) /\ fprof (dget tree1 k) = fprof (dget tree k)).
Proof.
  intros HT Hg Hlen. destruct (dmem tree (fkey cs)) eqn:Hm.
  - apply dmem_true in Hm. exists tree.
    split; [reflexivity|]. split; [exact HT|]. split; [exact Hm|]. repeat split; auto.
  - apply add_folder_spec; auto. intros us _ [].
Qed.

Lemma add_file_tree cb e tree1 pf :
  (if dmem (cb_tree cb) (key_of (get_parent_folder (e_path e))) then OK (cb_tree cb)
   else add_folder (S (S (length (split_path (e_path e))))) (cb_tree cb) (get_parent_folder (e_path e))) = OK tree1 ->
  dget tree1 (key_of (get_parent_folder (e_path e))) = Some pf ->
  exists cb', add_file cb e = OK cb' /\
    cb_tree cb' = dset tree1 (key_of (get_parent_folder (e_path e)))
                       (mkFolder (fo_entries pf ++ [EFile e]) (fo_profile pf)).
Proof.
  intros H1 H2. unfold add_file. cbv zeta.
  assert (Ht : exists t, dget (if dmem (cb_totals cb) (e_language e) then cb_totals cb
                  else dset (cb_totals cb) (e_language e) (mkLT (e_language e) 0 0 0 0 0)) (e_language e) = Some t).
  { unfold dmem. destruct (dget (cb_totals cb) (e_language e)) eqn:E; [eauto|].
    rewrite dget_dset_same. eauto. }
  destruct Ht as (t & Ht). rewrite Ht, H1, H2. eexists. split; reflexivity.
Qed.

Lemma ents_files_snoc_file l e : ents_files (l ++ [EFile e]) = ents_files l ++ [e].
Proof. rewrite ents_files_app. reflexivity. Qed.
Lemma ents_subs_snoc_file l e : ents_subs (l ++ [EFile e]) = ents_subs l.
Proof. rewrite ents_subs_app. cbn. apply app_nil_r. Qed.

(* ---------- the step ---------- *)
Lemma add_file_step done cb e : Inv done (cb_tree cb) -> wf_path (e_path e) ->
  exists cb', add_file cb e = OK cb' /\ Inv (done ++ [e]) (cb_tree cb').
Proof.
  intros [[HT Hkeys Hfiles] Hprof] Hwf.
  apply wf_path_good in Hwf. destruct Hwf as [Hne Hgood].
  destruct (snoc_cases (split_path (e_path e))) as [E|(cs & x & Eps)]; [contradiction|].
  assert (Hgc : good cs) by (rewrite Eps in Hgood; eapply good_prefix; exact Hgood).
  assert (Epar : get_parent_folder (e_path e) = fpath cs).
  { rewrite get_parent_folder_split, Eps, removelast_snoc. reflexivity. }
  assert (Efo : folder_of (e_path e) = fkey cs).
  { unfold folder_of. rewrite Eps, removelast_snoc. reflexivity. }
  destruct (ensure_folder_spec (cb_tree cb) cs (S (S (length (split_path (e_path e))))) HT Hgc)
    as (tree1 & E1 & HT1 & Hin1 & Hsub1 & Hsup1 & Hfr1).
  { rewrite Eps, app_length. cbn. lia. }
  destruct (dget_In_key tree1 (fkey cs) Hin1) as (pf & Hpf).
  destruct (add_file_tree cb e tree1 pf) as (cb' & Eadd & Etree).
  { rewrite Epar. exact E1. }
  { rewrite Epar. exact Hpf. }
  exists cb'. split; [exact Eadd|]. rewrite Etree, Epar.
  change (key_of (fpath cs)) with (fkey cs).
  set (fo' := mkFolder (fo_entries pf ++ [EFile e]) (fo_profile pf)).
  assert (Hk2 : keys (dset tree1 (fkey cs) fo') = keys tree1).
  { unfold keys. apply keys_dset_present. exact Hin1. }
  split; [constructor|].
  - apply (TInv_dset_same_subs [] tree1 (fkey cs) pf); auto.
    unfold subs_of, fo'. cbn [fo_entries]. apply ents_subs_snoc_file.
  - intros k. rewrite Hk2. split.
    + intros Hin. apply Hsup1 in Hin. destruct Hin as [Hin|(pre & suf & Ecs & ->)].
      * apply Hkeys in Hin. destruct Hin as [->|(e' & He' & Ha)]; [left; reflexivity|].
        right. exists e'. split; [apply in_or_app; left; exact He'|exact Ha].
      * destruct pre as [|p0 pre]; [left; reflexivity|]. right. exists e.
        split; [apply in_or_app; right; left; reflexivity|].
        unfold ancestors. apply in_map. apply In_pprefixes. split; [discriminate|].
        exists (suf ++ [x]). split; [destruct suf; discriminate|].
        rewrite Eps, Ecs, <- app_assoc. reflexivity.
    + intros [->|(e' & He' & Ha)]; [apply (ti_root _ _ HT1)|].
      apply in_app_or in He'. destruct He' as [He'|[<-|[]]].
      * apply Hsub1. apply Hkeys. right. eauto.
      * unfold ancestors in Ha. apply in_map_iff in Ha. destruct Ha as (pre & <- & Hpre).
        apply In_pprefixes in Hpre. destruct Hpre as (Hpne & suf & Hsne & Esp).
        destruct (snoc_cases suf) as [->|(suf' & y & ->)]; [congruence|].
        rewrite Eps, app_assoc in Esp. apply app_inj_tail in Esp. destruct Esp as [Ecs _].
        apply (TInv_prefix_closed tree1 pre HT1 suf'); rewrite <- Ecs; assumption.
  - intros k. unfold in_folder. rewrite filter_snoc, Efo. fold (in_folder k).
    destruct (pystr_eqb_spec (fkey cs) k) as [<-|Hnk].
    + rewrite dget_dset_same. cbn [ffiles]. unfold files_of, fo'. cbn [fo_entries].
      rewrite ents_files_snoc_file. f_equal. rewrite <- Hfiles.
      destruct (Hfr1 (fkey cs)) as [F _]. rewrite <- F, Hpf. reflexivity.
    + rewrite dget_dset_other by congruence. rewrite app_nil_r.
      destruct (Hfr1 k) as [F _]. rewrite F. apply Hfiles.
  - intros k. destruct (pystr_eq_dec k (fkey cs)) as [->|Hnk].
    + rewrite dget_dset_same. cbn [fprof fo' fo_profile]. rewrite <- (Hprof (fkey cs)).
      destruct (Hfr1 (fkey cs)) as [_ F]. rewrite <- F, Hpf. reflexivity.
    + rewrite dget_dset_other by exact Hnk. destruct (Hfr1 k) as [_ F]. rewrite F. apply Hprof.
Qed.

Lemma add_files_Inv root es : Forall wf_path (map e_path es) ->
  exists cb0, add_files (new_codebase root) es = OK cb0 /\ Inv es (cb_tree cb0).
Proof.
  intros Hwf. apply (add_files_total (fun done cb => Inv done (cb_tree cb))).
  - apply Inv_new.
  - intros done e rest cb E HI. apply add_file_step; [exact HI|].
    rewrite Forall_forall in Hwf. apply Hwf. apply in_map. rewrite E.
    apply in_or_app. right. left. reflexivity.
Qed.

(* ---------- consequences of Shape (items 4 and 7) ---------- *)
Lemma In_ents_files l e : In e (ents_files l) <-> In (EFile e) l.
Proof.
  unfold ents_files. rewrite in_flat_map. split.
  - intros ([e'|n] & Hin & H); cbn in H; [|destruct H]. destruct H as [<-|[]]. exact Hin.
  - intros H. exists (EFile e). split; [exact H|left; reflexivity].
Qed.
Lemma In_ents_subs l n : In n (ents_subs l) <-> In (EFolder n) l.
Proof.
  unfold ents_subs. rewrite in_flat_map. split.
  - intros ([e'|n'] & Hin & H); cbn in H; [destruct H|]. destruct H as [<-|[]]. exact Hin.
  - intros H. exists (EFolder n). split; [exact H|left; reflexivity].
Qed.

Lemma NoDup_map_inv' {A B} (f : A -> B) l : NoDup (map f l) -> NoDup l.
Proof.
  induction l as [|a l IH]; cbn [map]; intros H; [constructor|].
  inversion H; subst. constructor; [|auto]. intros Hin. apply (in_map f) in Hin. contradiction.
Qed.

(* an element that occurs exactly once *)
Definition occurs_once {A} (x : A) (l : list A) : Prop :=
  exists l1 l2, l = l1 ++ x :: l2 /\ ~ In x l1 /\ ~ In x l2.

Lemma occurs_once_files l e : NoDup (ents_files l) -> In (EFile e) l -> occurs_once (EFile e) l.
Proof.
  intros Hnd Hin. apply in_split in Hin. destruct Hin as (l1 & l2 & ->). exists l1, l2.
  split; [reflexivity|]. rewrite ents_files_app in Hnd. cbn in Hnd.
  apply NoDup_remove_2 in Hnd. rewrite in_app_iff, !In_ents_files in Hnd. tauto.
Qed.
Lemma occurs_once_subs l n : NoDup (ents_subs l) -> In (EFolder n) l -> occurs_once (EFolder n) l.
Proof.
  intros Hnd Hin. apply in_split in Hin. destruct Hin as (l1 & l2 & ->). exists l1, l2.
  split; [reflexivity|]. rewrite ents_subs_app in Hnd. cbn in Hnd.
  apply NoDup_remove_2 in Hnd. rewrite in_app_iff, !In_ents_subs in Hnd. tauto.
Qed.

Section ShapeFacts.
  Variables (es : list FileEntry) (tree : dict folder).
  Hypothesis HS : Shape es tree.

  Lemma shape_lookup k fo : In (k, fo) tree <-> dget tree k = Some fo.
  Proof.
    split; [apply In_dget, (ti_nodup _ _ (sh_t _ _ HS))|apply dget_Some_In].
  Qed.

  Lemma shape_files k fo : In (k, fo) tree -> files_of fo = filter (in_folder k) es.
  Proof. intros H. apply shape_lookup in H. rewrite <- (sh_files _ _ HS), H. reflexivity. Qed.

  Lemma shape_folder_of_in e : In e es -> wf_path (e_path e) -> In (folder_of (e_path e)) (keys tree).
  Proof.
    intros He Hwf. apply wf_path_good in Hwf. destruct Hwf as [Hne Hg].
    destruct (snoc_cases (split_path (e_path e))) as [E|(cs & x & Eps)]; [contradiction|].
    unfold folder_of. rewrite Eps, removelast_snoc. destruct cs as [|c cs].
    - apply (ti_root _ _ (sh_t _ _ HS)).
    - apply (sh_keys _ _ HS). right. exists e. split; [exact He|]. unfold ancestors.
      apply in_map, In_pprefixes. split; [discriminate|]. exists [x]. split; [discriminate|exact Eps].
  Qed.

  (* item 7a *)
  Lemma shape_file_once e : NoDup (map e_path es) -> In e es -> wf_path (e_path e) ->
    (exists fo, In (folder_of (e_path e), fo) tree /\ occurs_once (EFile e) (fo_entries fo)) /\
    (forall k fo, In (k, fo) tree -> In (EFile e) (fo_entries fo) -> k = folder_of (e_path e)).
  Proof.
    intros Hnd He Hwf. split.
    - destruct (dget_In_key tree _ (shape_folder_of_in e He Hwf)) as (fo & Hfo).
      exists fo. split; [apply shape_lookup, Hfo|].
      assert (Hf := shape_files _ _ (proj2 (shape_lookup _ _) Hfo)).
      apply occurs_once_files.
      + fold (files_of fo). rewrite Hf. apply NoDup_filter. eapply NoDup_map_inv'; exact Hnd.
      + apply In_ents_files. fold (files_of fo). rewrite Hf. apply filter_In. split; [exact He|].
        apply pystr_eqb_refl.
    - intros k fo Hin Hen. apply In_ents_files in Hen. fold (files_of fo) in Hen.
      rewrite (shape_files k fo Hin) in Hen. apply filter_In in Hen. destruct Hen as [_ Hen].
      symmetry. apply pystr_eqb_eq. exact Hen.
  Qed.

  (* item 4 *)
  Lemma shape_keys_nodup : NoDup (keys tree).
  Proof. apply (ti_nodup _ _ (sh_t _ _ HS)). Qed.

  (* item 7b *)
  Lemma shape_folder_once k : In k (keys tree) -> k <> rootk ->
    exists cs c, good (cs ++ [c]) /\ k = fkey (cs ++ [c]) /\
      (exists pfo, In (fkey cs, pfo) tree /\ occurs_once (EFolder (c ++ [slash])) (fo_entries pfo)) /\
      sub_key (fkey cs) (c ++ [slash]) = k /\
      (forall pk fo n, In (pk, fo) tree -> In (EFolder n) (fo_entries fo) -> sub_key pk n = k ->
                       pk = fkey cs /\ n = c ++ [slash]).
  Proof.
    intros Hin Hnr. pose proof (sh_t _ _ HS) as HT.
    destruct (ti_keys _ _ HT k Hin) as (ks & Hg & ->).
    destruct (snoc_cases ks) as [->|(cs & c & ->)]; [contradiction Hnr; reflexivity|].
    exists cs, c. split; [exact Hg|]. split; [reflexivity|].
    assert (Hgc : good cs) by (eapply good_prefix; exact Hg).
    assert (Hoc : okc c) by (apply good_snoc in Hg; tauto).
    assert (Hp : In (fkey cs) (keys tree)) by (apply (ti_parent _ _ HT cs c Hg Hin); intros []).
    destruct (dget_In_key tree _ Hp) as (pfo & Hpfo).
    destruct (ti_subs _ _ HT cs pfo Hgc Hpfo) as (names & Hn1 & Hn2 & Hn3).
    split; [|split].
    - exists pfo. split; [apply shape_lookup, Hpfo|]. apply occurs_once_subs.
      + fold (subs_of pfo). rewrite Hn1. apply FinFun.Injective_map_NoDup; [|exact Hn2].
        intros a b E. apply app_inv_tail in E. exact E.
      + apply In_ents_subs. fold (subs_of pfo). rewrite Hn1. apply (in_map (fun c => c ++ [slash])). apply Hn3.
        split; [exact Hoc|]. split; [exact Hin|]. intros [].
    - apply sub_key_fkey. exact Hgc.
    - intros pk fo n Hpk Hn Esub. apply shape_lookup in Hpk.
      destruct (ti_keys _ _ HT pk (dget_Some_key _ _ _ Hpk)) as (ds & Hgd & ->).
      destruct (ti_subs _ _ HT ds fo Hgd Hpk) as (names' & Hm1 & Hm2 & Hm3).
      apply In_ents_subs in Hn. fold (subs_of fo) in Hn. rewrite Hm1 in Hn.
      apply in_map_iff in Hn. destruct Hn as (c' & <- & Hc'). apply Hm3 in Hc'.
      destruct Hc' as (Hoc' & _ & _). rewrite sub_key_fkey in Esub by exact Hgd.
      apply fkey_snoc_inj in Esub; auto; [|apply good_snoc; auto].
      destruct Esub as [-> ->]. auto.
  Qed.

  (* reachability from the root through EFolder entries *)
  Inductive reach : pystr -> Prop :=
  | reach_root : reach rootk
  | reach_sub pk fo n : reach pk -> In (pk, fo) tree -> In (EFolder n) (fo_entries fo) ->
                        reach (sub_key pk n).

  Lemma shape_reach k : In k (keys tree) -> reach k.
  Proof.
    intros Hin. pose proof (sh_t _ _ HS) as HT.
    destruct (ti_keys _ _ HT k Hin) as (ks & Hg & ->). revert Hg Hin.
    induction ks as [|c cs IH] using rev_ind; intros Hg Hin; [apply reach_root|].
    assert (Hgc : good cs) by (eapply good_prefix; exact Hg).
    assert (Hoc : okc c) by (apply good_snoc in Hg; tauto).
    assert (Hp : In (fkey cs) (keys tree)) by (apply (ti_parent _ _ HT cs c Hg Hin); intros []).
    destruct (dget_In_key tree _ Hp) as (pfo & Hpfo).
    destruct (ti_subs _ _ HT cs pfo Hgc Hpfo) as (names & Hn1 & Hn2 & Hn3).
    refine (eq_ind _ reach _ _ (sub_key_fkey cs c Hgc)). apply (reach_sub (fkey cs) pfo).
    - apply IH; assumption.
    - apply shape_lookup, Hpfo.
    - apply In_ents_subs. fold (subs_of pfo). rewrite Hn1. apply (in_map (fun c => c ++ [slash])). apply Hn3.
      split; [exact Hoc|]. split; [exact Hin|]. intros [].
  Qed.
End ShapeFacts.
