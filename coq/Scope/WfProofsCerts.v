(* WfProofsCerts.v — the distinct-start certificate evaluated (by the kernel's
   virtual machine) on the header patterns captured from the Python source
   (Gen/GenPatterns.v), and the unconditional form of C05_source_order: for
   every language, the measurements are listed in source order with pairwise
   distinct starts. *)
From Verif Require Import Base Regex Nfa Dfa Token TokEngine GenPatterns Lex Headers ScanFile LexProofs
  DistinctStart WfProofsHeaders WfProofsDistinct WfProofs.
From Coq Require Import Sorted.

Theorem distinct_cert_all :
  forallb (fun l => pairwise_distinct_start (map fst (lang_patterns l)))
    [LC; LCpp; LCSharp; LJava; LJavaScript; LPython; LTypeScript] = true.
Proof. vm_compute. reflexivity. Qed.

Lemma distinct_cert : forall l, pairwise_distinct_start (map fst (lang_patterns l)) = true.
Proof.
  intros l. pose proof distinct_cert_all as H. rewrite forallb_forall in H.
  apply H. destruct l; cbn; tauto.
Qed.

Theorem extract_headers_NoDup : forall (l : language) (ts : list token) (hs : list header),
  extract_headers l ts = OK hs -> NoDup (map h_start hs).
Proof. intros l ts hs. apply extract_headers_NoDup_cert. apply distinct_cert. Qed.

Theorem C05_source_order_all : forall (l : language) (toks : list token) (ms : list Measurement),
  StronglySorted pos_lt (filter_tokens false toks) ->
  scan_file l toks = OK ms ->
  StronglySorted loc_lt (map m_start ms).
Proof.
  intros l toks ms Hsorted H.
  destruct (extract_headers l (filter_tokens false toks)) as [headers|k] eqn:Eh.
  - eapply C05_source_order; try eassumption. eapply extract_headers_NoDup; eassumption.
  - unfold scan_file, build_scopes in H. rewrite Eh in H. discriminate.
Qed.

(* end to end, from the lexer's output (C16 supplies the increasing positions) *)
Corollary C05_analyze : forall (l : language) (code_text : pystr) (lts : list ltok) ms loc,
  contract code_text lts ->
  analyze l code_text lts = OK (ms, loc) ->
  Forall (wf_meas (filter_tokens false (lex code_text lts false))) ms /\
  StronglySorted loc_lt (map m_start ms) /\
  loc = fold_right (fun m a => (m_value m + a)%Z) 0%Z ms.
Proof.
  intros l code_text lts ms loc Hc H.
  assert (Hs : StronglySorted pos_lt (filter_tokens false (lex code_text lts false))).
  { unfold filter_tokens at 1. apply SS_filter. apply C16_strictly_increasing_lex. exact Hc. }
  pose proof (C05_loc_is_sum l code_text lts ms loc H) as Hsum.
  unfold analyze in H.
  destruct (scan_file l (lex code_text lts false)) as [ms'|k] eqn:E; [|discriminate].
  assert (Ems : ms' = ms) by congruence. subst ms'. clear H.
  split; [|split; [|exact Hsum]].
  - apply (C05_wellformed l); assumption.
  - eapply C05_source_order_all; eassumption.
Qed.

Print Assumptions distinct_cert_all.
Print Assumptions C05_analyze.
Print Assumptions extract_headers_NoDup.
Print Assumptions C05_source_order_all.
