(* Spec.v — specification side of C01 for the brace languages: function
   descriptors over a code-token stream and the measurement the property text
   prescribes for each ("span from the header's first token to just past the
   body's last token; length = number of distinct lines on which a token of the
   function begins, not counting tokens of nested reported functions"). *)
From Verif Require Import Base Token Lex Headers Blocks Pairing Fold ScanFile.
Open Scope Z_scope.

Record fdesc := mkFd
  { fd_name : nat;       (* index of the name token *)
    fd_start : nat;      (* first token of the header *)
    fd_hend : nat;       (* one past the last token of the recognised header shape *)
    fd_open : nat;       (* index of the body's opening brace *)
    fd_close : nat }.    (* index of the matching closing brace *)

Definition header_of (d : fdesc) : header := mkHeader (fd_name d) (fd_start d) (fd_hend d).
Definition span_of (d : fdesc) : range := (fd_start d, S (fd_close d)).

(* Dyck matching of braces: ts[i] = "{" and ts[j] = "}" match *)
Fixpoint brace_depth_after (ts : list token) (d : Z) : list Z :=       (* running depth after each token *)
  match ts with
  | [] => []
  | t :: r => let d' := if is_symbol t lbrace then d + 1 else if is_symbol t rbrace then d - 1 else d in
              d' :: brace_depth_after r d'
  end.
Definition sym_at (ts : list token) (i : nat) (s : pystr) : bool :=
  match nth_error ts i with Some t => is_symbol t s | None => false end.
(* i < j, "{" at i, "}" at j, the segment ts[i..j] is balanced and never dips below its start level before j *)
Definition matched (ts : list token) (i j : nat) : Prop :=
  (i < j)%nat /\ sym_at ts i lbrace = true /\ sym_at ts j rbrace = true /\
  let seg := brace_depth_after (firstn (S j - i) (skipn i ts)) 0 in
  last seg 1 = 0 /\ Forall (fun d => 0 < d) (removelast seg).

Definition nested_in (c d : fdesc) : Prop := (fd_open d < fd_start c)%nat /\ (fd_close c < fd_close d)%nat.
Definition after (c d : fdesc) : Prop := (fd_close d < fd_start c)%nat.      (* c lies after d *)

(* well-formed family of function descriptors over the code tokens ts *)
Record wf_descs (ts : list token) (ds : list fdesc) : Prop := mkWfDescs
  { wd_shape : Forall (fun d => (fd_start d <= fd_name d < fd_hend d)%nat /\ (fd_hend d <= fd_open d)%nat /\
                                matched ts (fd_open d) (fd_close d) /\ (fd_close d < length ts)%nat /\
                                (* no brace between the header and the body's opening brace *)
                                (forall k, (fd_hend d <= k < fd_open d)%nat -> sym_at ts k lbrace = false /\ sym_at ts k rbrace = false)) ds;
    wd_sorted : forall i j di dj, (i < j)%nat -> nth_error ds i = Some di -> nth_error ds j = Some dj ->
                                  (fd_start di < fd_start dj)%nat /\ (nested_in dj di \/ after dj di) }.

(* tokens of d not inside a function nested in d *)
Definition own_indices (ds : list fdesc) (d : fdesc) : list nat :=
  filter (fun k => negb (existsb (fun c => Nat.ltb (fd_open d) (fd_start c) && Nat.ltb (fd_close c) (fd_close d)
                                           && Nat.leb (fd_start c) k && Nat.leb k (fd_close c)) ds))
         (seq (fd_start d) (S (fd_close d) - fd_start d)).

Definition expected (ts : list token) (ds : list fdesc) (d : fdesc) : res Measurement :=
  match nth_error ts (fd_name d), nth_error ts (fd_start d), nth_error ts (fd_close d) with
  | Some nm, Some st, Some cl =>
      OK (mkMeas (t_value nm) (mkLoc (t_line st) (t_col st)) (end_location cl)
                 (Z.of_nat (length (dedupZ (map (tok_line ts) (own_indices ds d))))))
  | _, _, _ => Err IndexError
  end.

Fixpoint expected_all (ts : list token) (ds all : list fdesc) : res (list Measurement) :=
  match ds with
  | [] => OK []
  | d :: r => match expected ts all d with
              | Err k => Err k
              | OK m => match expected_all ts r all with Err k => Err k | OK ms => OK (m :: ms) end
              end
  end.
