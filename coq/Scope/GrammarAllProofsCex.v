(* GrammarAllProofsCex.v — why the grammar of Scope/GrammarAll.v has the premise `no_throws_kw cond` in the
   control-statement rule and `type_tok` for the tokens of a TypeScript return type: streams that the
   grammar WITHOUT these restrictions generated (earlier revision), and for which the lexical
   specification finds a header that is no function / misses the function's header.
   Java: a call followed by the `throws` keyword inside the condition of a control statement — the
   follow-up test follow_throws scans over the ")" up to the "{" of the statement's block.
   TypeScript (follow_rettype with until_brace_type): a return type containing a token whose text is
   "(" without being the parenthesis symbol (clause_tok admits it, the scan of the type rejects it).
   With the earlier follow_rettype (until_brace) the streams `if ( f ( ) : x ) { y ; }` and
   `g = ( f ( ) : x ) => { }` were counter-examples too; they no longer are (GD26, checked below). *)
From Verif Require Import Base Regex Token TokEngine Lex Headers Blocks Pairing Fold ScanFile Spec HeaderSpec LexShapes Grammar GrammarAll.

Open Scope Z_scope.
(* Java:  if ( f ( ) throws x ) { y ; } *)
Definition cex_java : list token :=
  toks [(0,[105;102]);(2,[40]);(1,[102]);(2,[40]);(2,[41]);(0,s_throws);(1,[120]);(2,[41]);(2,[123]);(1,[121]);(2,[59]);(2,[125])].
(* TypeScript:  f ( ) : <operator token with text "("> { } *)
Definition cex_ts_type : list token :=
  toks [(1,[102]);(2,[40]);(2,[41]);(3,s_colon);(3,[40]);(2,[123]);(2,[125])].
(* TypeScript, repaired by GD26:  if ( f ( ) : x ) { y ; }   and   g = ( f ( ) : x ) => { } *)
Definition old_ts_ctrl : list token :=
  toks [(0,[105;102]);(2,[40]);(1,[102]);(2,[40]);(2,[41]);(3,s_colon);(1,[120]);(2,[41]);(2,[123]);(1,[121]);(2,[59]);(2,[125])].
Definition old_ts_arrow : list token :=
  toks [(1,[103]);(3,s_eq);(2,[40]);(1,[102]);(2,[40]);(2,[41]);(3,s_colon);(1,[120]);(2,[41]);(2,s_arrow);(2,[123]);(2,[125])].
Close Scope Z_scope.

(* the condition ( f ( ) throws x ) is a parenthesis group whose tokens are plain, and the stream has no function,
   but a header is recognised at f; the condition violates no_throws_kw *)
Example cex_java_header : lexical_headers_of LJava cex_java = [mkHeader 2 2 5].
Proof. vm_compute. reflexivity. Qed.

Example cex_java_excluded : ~ no_throws_kw (firstn 7 (skipn 1 cex_java)).
Proof.
  intros H. unfold no_throws_kw in H. rewrite Forall_forall in H.
  assert (Hin : In (nth 5 cex_java (mkTok KOther [] 0 0)) (firstn 7 (skipn 1 cex_java))) by (vm_compute; auto 10).
  apply H in Hin. vm_compute in Hin. discriminate Hin.
Qed.

(* f ( ) : "(" { } is the head name-groups-colon-type followed by a body, the type token is a clause token,
   but no header is recognised; the token is no type_tok *)
Example cex_ts_type_no_header : lexical_headers_of LTypeScript cex_ts_type = [].
Proof. vm_compute. reflexivity. Qed.

Example cex_ts_type_excluded :
  forallb clause_tok (firstn 1 (skipn 4 cex_ts_type)) = true /\ forallb type_tok (firstn 1 (skipn 4 cex_ts_type)) = false.
Proof. vm_compute. split; reflexivity. Qed.

Example old_ts_counterexamples_repaired :
  lexical_headers_of LTypeScript old_ts_ctrl = [] /\ lexical_headers_of LTypeScript old_ts_arrow = [mkHeader 0 0 10].
Proof. vm_compute. split; reflexivity. Qed.

(* an initialiser statement may start with "{" and abut a function body:  f ( ) { } { } ;
   With TokenRange.overlaps on half-open ranges that merely touch (before the repair) the tool measured the
   function over the abutting block; with the strict overlap test the scan equals the specification. *)
Definition cex_abut : list token :=
  toks [(1,[102]);(2,[40]);(2,[41]);(2,[123]);(2,[125]);(2,[123]);(2,[125]);(2,[59])]%Z.
Definition cex_abut_ds : list fdesc := [mkFd 0 0 3 3 4].

Example abut_canonical : canonical_program_of LC cex_abut cex_abut_ds.
Proof.
  unfold canonical_program_of, cex_abut_ds.
  let s := eval vm_compute in cex_abut in change cex_abut with s.
  apply (io_func LC 0 [] [_; _; _] 0 3 _ [] _ [_; _; _] [] []);
    [reflexivity | | reflexivity | reflexivity | constructor | reflexivity | ].
  - apply (fh_plain LC _ [_; _]); [reflexivity | reflexivity |].
    apply groups_one. apply (group_intro _ [] _); [reflexivity | constructor | reflexivity].
  - apply (io_init LC _ [] _ [] _ [] _ [] []);
      [reflexivity | reflexivity | constructor | reflexivity | constructor | reflexivity | constructor].
Qed.

Example abut_scan_equals_spec :
  lexical_headers_of LC cex_abut = [mkHeader 0 0 3] /\
  scan_file LC cex_abut = expected_all cex_abut cex_abut_ds cex_abut_ds /\
  scan_file LCpp cex_abut = expected_all cex_abut cex_abut_ds cex_abut_ds /\
  scan_file LJava cex_abut = expected_all cex_abut cex_abut_ds cex_abut_ds.
Proof. vm_compute. repeat split; reflexivity. Qed.

(* why tsq_tok has the premise type_next_ok: return types in which a header shape of its own begins
   (each stream is  f ( ) : ty { } ; the second header starts inside ty) *)
Definition cex_ty_call : list token :=      (* ty = Foo ( x ) *)
  toks [(1,[102]);(2,[40]);(2,[41]);(3,s_colon);(1,[70]);(2,[40]);(1,[120]);(2,[41]);(2,[123]);(2,[125])]%Z.
Definition cex_ty_call_ret : list token :=  (* ty = Foo ( x ) : T *)
  toks [(1,[102]);(2,[40]);(2,[41]);(3,s_colon);(1,[70]);(2,[40]);(1,[120]);(2,[41]);(3,s_colon);(1,[84]);(2,[123]);(2,[125])]%Z.
Definition cex_ty_function : list token :=  (* ty = function g ( x ) *)
  toks [(1,[102]);(2,[40]);(2,[41]);(3,s_colon);(0,s_function);(1,[103]);(2,[40]);(1,[120]);(2,[41]);(2,[123]);(2,[125])]%Z.
Definition cex_ty_arrow : list token :=     (* ty = x = ( a ) => *)
  toks [(1,[102]);(2,[40]);(2,[41]);(3,s_colon);(1,[120]);(3,s_eq);(2,[40]);(1,[97]);(2,[41]);(2,s_arrow);(2,[123]);(2,[125])]%Z.
Example cex_type_seq_headers :
  lexical_headers_of LTypeScript cex_ty_call = [mkHeader 0 0 3; mkHeader 4 4 8] /\
  lexical_headers_of LTypeScript cex_ty_call_ret = [mkHeader 0 0 3; mkHeader 4 4 8] /\
  lexical_headers_of LTypeScript cex_ty_function = [mkHeader 0 0 3; mkHeader 5 4 9] /\
  lexical_headers_of LTypeScript cex_ty_arrow = [mkHeader 0 0 3; mkHeader 4 4 10].
Proof. vm_compute. repeat split; reflexivity. Qed.

(* why brace groups in a parameter list are restricted (the state machine of binner: no brace group right after a
   group or after `(…) =>`, none at all after `(…) :`): a brace group can complete a header shape that started inside
   the list *)
Definition cex_param_arrow : list token :=   (* function f ( cb = ( a ) => { } ) { } *)
  toks [(0,s_function);(1,[102]);(2,[40]);(1,[99;98]);(3,s_eq);(2,[40]);(1,[97]);(2,[41]);(2,s_arrow);(2,[123]);(2,[125]);(2,[41]);(2,[123]);(2,[125])]%Z.
Definition cex_param_rettype : list token := (* const f = ( a : g ( x ) : T , { b } ) => { } *)
  toks [(0,s_const);(1,[102]);(3,s_eq);(2,[40]);(1,[97]);(3,s_colon);(1,[103]);(2,[40]);(1,[120]);(2,[41]);(3,s_colon);(1,[84]);(2,[44]);
        (2,[123]);(1,[98]);(2,[125]);(2,[41]);(2,s_arrow);(2,[123]);(2,[125])]%Z.
Example cex_binner_headers :
  lexical_headers_of LJavaScript cex_param_arrow = [mkHeader 1 0 12; mkHeader 3 3 9] /\
  lexical_headers_of LTypeScript cex_param_arrow = [mkHeader 1 0 12; mkHeader 3 3 9] /\
  lexical_headers_of LTypeScript cex_param_rettype = [mkHeader 6 6 10; mkHeader 1 0 18] /\
  lexical_headers_of LJavaScript cex_param_rettype = [mkHeader 1 0 18].
Proof. vm_compute. repeat split; reflexivity. Qed.

Print Assumptions cex_java_header.
Print Assumptions cex_ts_type_no_header.
