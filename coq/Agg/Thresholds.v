(* Thresholds.v — specification of the four length categories and the proofs
   that every translated threshold site (Gen/GenThresholds.v, regenerated from
   /repo on every run) implements exactly these boundaries. *)
From Verif Require Import Base GenThresholds.
From Coq Require Import Permutation Sorted.
Open Scope Z_scope.

Inductive category := Easy | Verbose | Hard | Unm.
Definition cat (len : Z) : category :=
  if len <=? 15 then Easy else if len <=? 30 then Verbose else if len <=? 60 then Hard else Unm.
Definition cat_eqb (a b : category) : bool :=
  match a, b with Easy, Easy | Verbose, Verbose | Hard, Hard | Unm, Unm => true | _, _ => false end.

Ltac cases_le :=
  repeat match goal with
         | |- context [?a <=? ?b] => destruct (Z.leb_spec a b)
         | |- context [?a >? ?b] => rewrite (Z.gtb_ltb a b); destruct (Z.ltb_spec b a)
         | |- context [?a <? ?b] => destruct (Z.ltb_spec a b)
         end.

Lemma cat_Easy len : cat len = Easy <-> len <= 15.
Proof. unfold cat. cases_le; split; intros; try discriminate; try reflexivity; lia. Qed.
Lemma cat_Verbose len : cat len = Verbose <-> 16 <= len <= 30.
Proof. unfold cat. cases_le; split; intros; try discriminate; try reflexivity; lia. Qed.
Lemma cat_Hard len : cat len = Hard <-> 31 <= len <= 60.
Proof. unfold cat. cases_le; split; intros; try discriminate; try reflexivity; lia. Qed.
Lemma cat_Unm len : cat len = Unm <-> len > 60.
Proof. unfold cat. cases_le; split; intros; try discriminate; try reflexivity; lia. Qed.

(* sums / counts of the lengths of one category *)
Definition in_cat (c : category) (m : Measurement) : bool := cat_eqb (cat (m_value m)) c.
Fixpoint sum_cat (c : category) (ms : list Measurement) : Z :=
  match ms with [] => 0 | m :: ms' => (if in_cat c m then m_value m else 0) + sum_cat c ms' end.
Fixpoint count_cat (c : category) (ms : list Measurement) : Z :=
  match ms with [] => 0 | m :: ms' => (if in_cat c m then 1 else 0) + count_cat c ms' end.
Fixpoint total_len (ms : list Measurement) : Z :=
  match ms with [] => 0 | m :: ms' => m_value m + total_len ms' end.

Definition colour (c : category) : pystr :=
  match c with
  | Easy => [103; 114; 101; 101; 110]                              (* green *)
  | Verbose => [121; 101; 108; 108; 111; 119]                      (* yellow *)
  | Hard => [100; 97; 114; 107; 95; 111; 114; 97; 110; 103; 101]   (* dark_orange *)
  | Unm => [114; 101; 100]                                         (* red *)
  end.
Definition symbol (c : category) : pystr :=
  match c with Easy | Verbose => [10003] | Hard => [9888] | Unm => [10006] end.


Lemma make_profile_gen ms : forall a b c d,
  fold_left (fun result m =>
    let result := (if (f_value m <=? 15) then let result := upd 0 (nthZ 0 result + f_value m) result in result
      else let result := (if (f_value m <=? 30) then let result := upd 1 (nthZ 1 result + f_value m) result in result
      else let result := (if (f_value m <=? 60) then let result := upd 2 (nthZ 2 result + f_value m) result in result
      else let result := upd 3 (nthZ 3 result + f_value m) result in result) in result) in result) in result)
    ms [a; b; c; d]
  = [a + sum_cat Easy ms; b + sum_cat Verbose ms; c + sum_cat Hard ms; d + sum_cat Unm ms].
Proof.
  induction ms as [|m ms IH]; intros a b c d; cbn [fold_left sum_cat].
  - repeat rewrite Z.add_0_r. reflexivity.
  - unfold in_cat, cat, f_value, meas_value.
    cases_le; cbn [upd nthZ nth cat_eqb]; rewrite IH; repeat (apply (f_equal2 (@cons Z)); [lia|]); reflexivity.
Qed.

Theorem make_profile_spec ms :
  make_profile ms = [sum_cat Easy ms; sum_cat Verbose ms; sum_cat Hard ms; sum_cat Unm ms].
Proof. unfold make_profile. cbv zeta. rewrite make_profile_gen. reflexivity. Qed.

Lemma make_count_profile_gen ms : forall a b c d,
  fold_left (fun result m =>
    let result := (if (f_value m <=? 15) then let result := upd 0 (nthZ 0 result + 1) result in result
      else let result := (if (f_value m <=? 30) then let result := upd 1 (nthZ 1 result + 1) result in result
      else let result := (if (f_value m <=? 60) then let result := upd 2 (nthZ 2 result + 1) result in result
      else let result := upd 3 (nthZ 3 result + 1) result in result) in result) in result) in result)
    ms [a; b; c; d]
  = [a + count_cat Easy ms; b + count_cat Verbose ms; c + count_cat Hard ms; d + count_cat Unm ms].
Proof.
  induction ms as [|m ms IH]; intros a b c d; cbn [fold_left count_cat].
  - repeat rewrite Z.add_0_r. reflexivity.
  - unfold in_cat, cat, f_value, meas_value.
    cases_le; cbn [upd nthZ nth cat_eqb]; rewrite IH; repeat (apply (f_equal2 (@cons Z)); [lia|]); reflexivity.
Qed.

Theorem make_count_profile_spec ms :
  make_count_profile ms = [count_cat Easy ms; count_cat Verbose ms; count_cat Hard ms; count_cat Unm ms].
Proof. unfold make_count_profile. cbv zeta. rewrite make_count_profile_gen. reflexivity. Qed.

Theorem profile_partitions ms :
  sumZ (make_profile ms) = total_len ms.
Proof.
  rewrite make_profile_spec. unfold sumZ. cbn [fold_left].
  induction ms as [|m ms IH]; cbn [sum_cat total_len]; [reflexivity|].
  rewrite <- IH.
  unfold in_cat, cat. cases_le; cbn [cat_eqb]; lia.
Qed.

Theorem style_spec len : get_style_for_measurement len = colour (cat len).
Proof. unfold get_style_for_measurement, cat. cases_le; try reflexivity; lia. Qed.
Theorem emoji_spec len : get_emoji_for_measurement len = symbol (cat len).
Proof. unfold get_emoji_for_measurement, cat. cases_le; try reflexivity; lia. Qed.
Theorem unit_colour_spec len : format_unit_color len = colour (cat len).
Proof. unfold format_unit_color, cat. cbv zeta. cases_le; try reflexivity; lia. Qed.

Lemma count_filter_cat (f : Measurement -> bool) c ms :
  (forall m, f m = in_cat c m) -> Z.of_nat (length (filter f ms)) = count_cat c ms.
Proof.
  intros H. induction ms as [|m ms IH]; cbn [filter count_cat]; [reflexivity|].
  rewrite H. destruct (in_cat c m); cbn [length]; lia.
Qed.

Theorem check_result_add_spec fl h u file ms :
  check_result_add fl h u file ms = (fl ++ [(file, ms)], h + count_cat Hard ms, u + count_cat Unm ms).
Proof.
  unfold check_result_add. cbv zeta.
  rewrite (count_filter_cat _ Hard), (count_filter_cat _ Unm); [reflexivity| |];
    intros m; unfold in_cat, cat, f_value, meas_value; cases_le; cbn [cat_eqb andb]; try reflexivity; lia.
Qed.

Theorem exit_code_spec cc : check_exit_code cc = if 0 <? cc_unmaintainable cc then 1 else 0.
Proof. unfold check_exit_code, f_unmaintainable, cc_has_unm. rewrite Z.gtb_ltb. reflexivity. Qed.

Theorem should_report_spec quiet cc :
  check_should_report quiet cc = false <->
  quiet = true /\ cc_hard_to_maintain cc <= 0 /\ cc_unmaintainable cc <= 0.
Proof.
  unfold check_should_report, f_hard_to_maintain, f_unmaintainable, cc_has_htm, cc_has_unm.
  destruct quiet; cbn [negb orb]; cases_le; cbn [orb]; split; intros; try discriminate; try lia; try tauto;
    try (destruct H as (? & ? & ?); try discriminate; lia).
Qed.

Definition is_finding (m : Measurement) : bool := m_value m >? 30.
Lemma is_finding_cat m : is_finding m = true <-> cat (m_value m) = Hard \/ cat (m_value m) = Unm.
Proof.
  unfold is_finding. rewrite cat_Hard, cat_Unm, Z.gtb_ltb. destruct (Z.ltb_spec 30 (m_value m)); split; intros; try lia; try discriminate; reflexivity.
Qed.

Theorem check_risks_spec ms : check_risks ms = sort_desc m_value (filter is_finding ms).
Proof. reflexivity. Qed.

Theorem language_totals_add_spec f l fn h u e :
  language_totals_add f l fn h u e =
  (f + 1, l + e_loc e, fn + Z.of_nat (length (e_measurements e)),
   h + count_cat Hard (e_measurements e), u + count_cat Unm (e_measurements e)).
Proof.
  unfold language_totals_add. cbv zeta. rewrite make_count_profile_spec. reflexivity.
Qed.

Theorem md_icon_spec u :
  md_icon_plain u = md_icon_repo u /\
  (md_icon_plain u = [10060] <-> cat (m_value (ru_measurement u)) = Unm) /\
  (md_icon_plain u = [9888] <-> cat (m_value (ru_measurement u)) <> Unm).
Proof.
  unfold md_icon_plain, md_icon_repo, f_value, f_measurement, ru_has_measurement, meas_value.
  split; [reflexivity|]. rewrite cat_Unm, Z.gtb_ltb.
  destruct (Z.ltb_spec 60 (m_value (ru_measurement u))); split; split; intros; try discriminate; try reflexivity; try lia.
Qed.

Theorem findings_constants :
  findings_threshold_text = 30 /\ findings_threshold_md = 30 /\
  (forall full n, findings_truncate_text full n = (negb full && (10 <? n))) /\
  (forall full n, findings_truncate_md full n = (negb full && (10 <? n))) /\
  (forall full n, findings_more_rows_text full n = findings_truncate_text full n) /\
  (forall full n, findings_more_rows_md full n = findings_truncate_md full n) /\
  (forall l, findings_shown_text l = firstn 10 l) /\ (forall l, findings_shown_md l = firstn 10 l) /\
  (forall n, findings_omitted_text n = n - 10) /\ (forall n, findings_omitted_md n = n - 10).
Proof.
  repeat split; intros; try reflexivity;
    unfold findings_truncate_text, findings_truncate_md; rewrite Z.gtb_ltb; reflexivity.
Qed.
