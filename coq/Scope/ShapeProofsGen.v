(* ShapeProofsGen.v — generic part of the proofs that the matcher, run on the header
   patterns of Java, JavaScript, TypeScript and Python, returns LexShapes.shape_headers:
   (1) an abstract machine for Pattern.consume that keeps only the DFA state and the depth
       of the one Balanced predicate "( ... )" instead of the whole depth map, with its
       simulation theorems for the greedy run and for starts_with;
   (2) the selection: select_leftmost over the greedy candidates is select_shape. *)
From Verif Require Import Base Regex Nfa Dfa Token TokEngine GenPatterns Headers Blocks Spec HeaderSpec Scan ScanProofs.
From Verif Require Import Unamb UnambProofs LexShapes HeaderProofsDfa HeaderProofsSelect.
Open Scope Z_scope.

Local Notation consume := (consume tpred_eqb taccept_st).
Local Notation greedy_run := (greedy_run tpred_eqb taccept_st).
Local Notation greedy := (greedy tpred_eqb taccept_st).
Local Notation run_prefix := (run_prefix tpred_eqb taccept_st).
Local Notation depth_of := (depth_of tpred_eqb).
Local Notation set_depth := (set_depth tpred_eqb).

(* ====================================================================== *)
(* 1. the depth map seen through the one Balanced predicate                *)
(* ====================================================================== *)
Definition dinv (ds : @depths tpred) (d : Z) : Prop :=
  forall p, depth_of ds p = if tpred_eqb p Bal then d else 0.

Lemma dinv_nil : dinv [] 0.
Proof. intros p. cbn [Dfa.depth_of]. destruct (tpred_eqb p Bal); reflexivity. Qed.

Lemma depth_of_set_same ds p v : depth_of (set_depth ds p v) p = v.
Proof.
  induction ds as [|[q d'] t IH]; cbn [Dfa.set_depth Dfa.depth_of].
  - rewrite tpred_eqb_refl. reflexivity.
  - destruct (tpred_eqb p q) eqn:E; cbn [Dfa.depth_of]; rewrite E; [reflexivity | exact IH].
Qed.

Lemma dinv_set ds d p v :
  dinv ds d -> (tpred_eqb p Bal = false -> v = 0) ->
  dinv (set_depth ds p v) (if tpred_eqb p Bal then v else d).
Proof.
  intros Hd Hv q. destruct (tpred_eqb q p) eqn:Eqp.
  - apply tpred_eqb_eq in Eqp. subst q. rewrite depth_of_set_same.
    destruct (tpred_eqb p Bal); [reflexivity | apply Hv; reflexivity].
  - apply tpred_eqb_neq in Eqp.
    rewrite (UnambProofs.depth_of_set_other ds p v q Eqp), Hd.
    destruct (tpred_eqb q Bal) eqn:Eq; [|reflexivity].
    destruct (tpred_eqb p Bal) eqn:Ep; [|reflexivity].
    apply tpred_eqb_eq in Eq. apply tpred_eqb_eq in Ep. congruence.
Qed.

(* predicates the abstraction covers: stateless ones and Bal itself *)
Definition okp (p : tpred) : bool :=
  match p with PBalanced _ _ => tpred_eqb p Bal | _ => true end.
Definition okheap (a : automaton tpred) : bool := forallb okp (heap_preds (a_heap a)).

Lemma taccept_st_stateless p d x :
  okp p = true -> tpred_eqb p Bal = false -> taccept_st p d x = (taccept p x, d).
Proof. intros Hok Hne. destruct p; try reflexivity. cbn [okp] in Hok. congruence. Qed.

(* the candidate loop of consume on (depth of Bal, found) *)
Fixpoint pfold (x : token) (cands : list tpred) (d : Z) (found : option tpred) : res (Z * option tpred) :=
  match cands with
  | [] => OK (d, found)
  | p :: r =>
      let '(b, d2) := if tpred_eqb p Bal then taccept_st Bal d x else (taccept p x, d) in
      if b then match found with Some _ => Err ValueErrorAmbiguous | None => pfold x r d2 (Some p) end
      else pfold x r d2 found
  end.

Lemma fold_sim x : forall cands ds d found,
  dinv ds d -> (forall p, In p cands -> okp p = true) ->
  match pfold x cands d found with
  | Err k => fold_left (gstep tpred_eqb taccept_st x) cands (OK (ds, found)) = Err k
  | OK (d', fo) => exists ds', fold_left (gstep tpred_eqb taccept_st x) cands (OK (ds, found)) = OK (ds', fo) /\ dinv ds' d'
  end.
Proof.
  induction cands as [|p r IH]; intros ds d found Hd Hok; cbn [pfold fold_left].
  - exists ds. split; [reflexivity | exact Hd].
  - assert (Hokp : okp p = true) by (apply Hok; left; reflexivity).
    assert (Hokr : forall q, In q r -> okp q = true) by (intros q Hq; apply Hok; right; exact Hq).
    assert (Eg : gstep tpred_eqb taccept_st x (OK (ds, found)) p =
                 let '(b, d') := taccept_st p (if tpred_eqb p Bal then d else 0) x in
                 let ds' := set_depth ds p d' in
                 if b then match found with Some _ => Err ValueErrorAmbiguous | None => OK (ds', Some p) end
                 else OK (ds', found))
      by (unfold gstep; rewrite (Hd p); reflexivity).
    rewrite Eg. clear Eg.
    destruct (tpred_eqb p Bal) eqn:Ep.
    + assert (p = Bal) by (apply tpred_eqb_eq; exact Ep). subst p.
      destruct (taccept_st Bal d x) as [b d2].
      pose proof (dinv_set ds d Bal d2 Hd) as Hs. rewrite Ep in Hs.
      specialize (Hs (fun H => ltac:(discriminate))).
      destruct b.
      * destruct found; [apply fold_gstep_err|]. apply IH; assumption.
      * apply IH; assumption.
    + rewrite (taccept_st_stateless p 0 x Hokp Ep).
      pose proof (dinv_set ds d p 0 Hd (fun _ => eq_refl)) as Hs. rewrite Ep in Hs.
      destruct (taccept p x).
      * destruct found; [apply fold_gstep_err|]. apply IH; assumption.
      * apply IH; assumption.
Qed.

(* ====================================================================== *)
(* 2. the abstract machine                                                 *)
(* ====================================================================== *)
Definition aconsume (a : automaton tpred) (S : list nat) (d : Z) (x : token) : res (option (list nat * Z)) :=
  let h := a_heap a in
  let trans := dtrans tpred_eqb h S in
  let open := filter (fun p => if tpred_eqb p Bal then 0 <? d else false) trans in
  let cands := match open with [] => trans | _ => open end in
  match pfold x cands d None with
  | Err k => Err k
  | OK (_, None) => OK None
  | OK (d', Some p) =>
      match closure h (move tpred_eqb h S p) with
      | Err k => Err k
      | OK S' => OK (Some (S', d'))
      end
  end.

Fixpoint arun (a : automaton tpred) (S : list nat) (d : Z) (n : nat) (w : list token) : res (option nat) :=
  match w with
  | [] => OK (if mem (a_acc a) S then Some n else None)
  | x :: w' =>
      match aconsume a S d x with
      | Err k => Err k
      | OK None => OK (if mem (a_acc a) S then Some n else None)
      | OK (Some (S', d')) => arun a S' d' (Datatypes.S n) w'
      end
  end.

Fixpoint aprefix (a : automaton tpred) (S : list nat) (d : Z) (n : nat) (w : list token) : res (option nat) :=
  match w with
  | [] => OK None
  | x :: w' =>
      match aconsume a S d x with
      | Err k => Err k
      | OK None => OK None
      | OK (Some (S', d')) => if mem (a_acc a) S' then OK (Some (Datatypes.S n)) else aprefix a S' d' (Datatypes.S n) w'
      end
  end.

Section Sim.
  Variable a : automaton tpred.
  Hypothesis Hok : okheap a = true.

  Lemma trans_ok S p : In p (dtrans tpred_eqb (a_heap a) S) -> okp p = true.
  Proof.
    intros H. apply dtrans_heap_preds in H. unfold okheap in Hok.
    rewrite forallb_forall in Hok. apply Hok, H.
  Qed.

  Lemma consume_sim pt x d : dinv (p_depths pt) d ->
    match aconsume a (p_state pt) d x with
    | Err k => consume a pt x = Err k
    | OK None => consume a pt x = OK None
    | OK (Some (S', d')) =>
        exists ds', consume a pt x = OK (Some (mkPat (p_start pt) S' ds' (S (p_len pt)))) /\ dinv ds' d'
    end.
  Proof.
    intros Hd. rewrite consume_eq_g. unfold aconsume. cbv zeta.
    set (trans := dtrans tpred_eqb (a_heap a) (p_state pt)).
    assert (Ef : filter (fun p => 0 <? depth_of (p_depths pt) p) trans
                 = filter (fun p => if tpred_eqb p Bal then 0 <? d else false) trans).
    { apply filter_ext. intros p. rewrite (Hd p). destruct (tpred_eqb p Bal); reflexivity. }
    rewrite Ef. set (open := filter _ trans).
    set (cands := match open with [] => trans | _ => open end).
    assert (Hc : forall p, In p cands -> okp p = true).
    { intros p Hp. apply (trans_ok (p_state pt)). fold trans. subst cands.
      destruct open eqn:Eo; [exact Hp|]. rewrite <- Eo in Hp. subst open.
      apply filter_In in Hp. apply Hp. }
    pose proof (fold_sim x cands (p_depths pt) d None Hd Hc) as Hs.
    destruct (pfold x cands d None) as [[d' fo]|k].
    - destruct Hs as (ds' & E & Hd'). rewrite E. destruct fo as [p|]; [|reflexivity].
      destruct (closure (a_heap a) (move tpred_eqb (a_heap a) (p_state pt) p)) as [S'|k]; [|reflexivity].
      exists ds'. split; [reflexivity | exact Hd'].
    - rewrite Hs. reflexivity.
  Qed.

  Lemma arun_sim : forall w pt d, dinv (p_depths pt) d ->
    greedy_run a pt w = arun a (p_state pt) d (p_len pt) w.
  Proof.
    induction w as [|x w IH]; intros pt d Hd; cbn [Scan.greedy_run arun]; [reflexivity|].
    pose proof (consume_sim pt x d Hd) as Hs.
    destruct (aconsume a (p_state pt) d x) as [[[S' d']|]|k].
    - destruct Hs as (ds' & E & Hd'). rewrite E. rewrite (IH (mkPat (p_start pt) S' ds' (S (p_len pt))) d' Hd'). reflexivity.
    - rewrite Hs. reflexivity.
    - rewrite Hs. reflexivity.
  Qed.

  Lemma aprefix_sim : forall w pt d, dinv (p_depths pt) d ->
    run_prefix a pt w = aprefix a (p_state pt) d (p_len pt) w.
  Proof.
    induction w as [|x w IH]; intros pt d Hd; cbn [Dfa.run_prefix aprefix]; [reflexivity|].
    pose proof (consume_sim pt x d Hd) as Hs.
    destruct (aconsume a (p_state pt) d x) as [[[S' d']|]|k].
    - destruct Hs as (ds' & E & Hd'). rewrite E. unfold is_accepting. cbn [p_state p_len].
      destruct (mem (a_acc a) S'); [reflexivity|]. rewrite (IH (mkPat (p_start pt) S' ds' (S (p_len pt))) d' Hd'). reflexivity.
    - rewrite Hs. reflexivity.
    - rewrite Hs. reflexivity.
  Qed.

  Theorem greedy_arun ts i :
    greedy a ts i = match arun a (a_start a) 0 0 (skipn i ts) with
                    | Err k => Err k
                    | OK None => OK None
                    | OK (Some n) => OK (Some (i + n)%nat)
                    end.
  Proof. unfold Scan.greedy. rewrite (arun_sim (skipn i ts) (new_pat a i) 0 dinv_nil). reflexivity. Qed.

  Theorem starts_with_aprefix w :
    tk_starts_with_dfa a w = aprefix a (a_start a) 0 0 w.
  Proof.
    unfold tk_starts_with_dfa, starts_with_dfa. rewrite (aprefix_sim w (new_pat a 0) 0 dinv_nil). reflexivity.
  Qed.
End Sim.

(* ====================================================================== *)
(* 3. candidates and selection                                             *)
(* ====================================================================== *)
Open Scope nat_scope.

Fixpoint cands_shape (c : cand_fn) (ts : list token) (starts : list nat) : list (nat * nat) :=
  match starts with
  | [] => []
  | i :: r => match c ts i with Some (_, j) => (i, j) :: cands_shape c ts r | None => cands_shape c ts r end
  end.

Definition cand_end_of (c : cand_fn) (ts : list token) (i : nat) : option nat :=
  match c ts i with Some (_, j) => Some j | None => None end.

Lemma all_greedy_shape (a : automaton tpred) (c : cand_fn) ts :
  (forall i, greedy a ts i = OK (cand_end_of c ts i)) ->
  all_greedy tpred_eqb taccept_st a ts = OK (cands_shape c ts (seq 0 (length ts))).
Proof.
  intros Hg. unfold all_greedy. generalize (seq 0 (length ts)) as starts.
  induction starts as [|i r IH]; cbn [all_greedy_from cands_shape]; [reflexivity|].
  rewrite Hg, IH. unfold cand_end_of. destruct (c ts i) as [[n j]|]; reflexivity.
Qed.

Lemma select_shape_spec (c : cand_fn) (fl : follow_fn) ts (f : cand -> res bool) :
  (forall cd, f cd = OK (fl ts (snd cd))) ->
  (forall i n j, c ts i = Some (n, j) -> name_index ts i j = OK n) ->
  forall starts le, exists ms,
    select_leftmost f le (cands_shape c ts starts) = OK ms /\
    mk_headers ts ms = OK (select_shape c fl ts starts le).
Proof.
  intros Hf Hn. induction starts as [|i r IH]; intros le; cbn [cands_shape select_shape].
  - exists []. split; reflexivity.
  - destruct (c ts i) as [[n j]|] eqn:Ec; [|apply IH].
    cbn [select_leftmost]. rewrite Hf. cbn [snd fst].
    destruct (fl ts j); cbn [andb]; [|apply IH].
    destruct (Nat.leb le i); [|apply IH].
    destruct (IH j) as (ms & E1 & E2). rewrite E1. exists ((i, j) :: ms). split; [reflexivity|].
    cbn [mk_headers]. rewrite (Hn i n j Ec), E2. reflexivity.
Qed.

(* the follow-up automaton decides the follow-up test *)
Definition follow_decides (af : automaton tpred) (fl : follow_fn) (ts : list token) : Prop :=
  forall j, exists r, tk_starts_with_dfa af (skipn j ts) = OK r /\
                      (match r with Some _ => true | None => false end) = fl ts j.

Theorem get_headers_shape_some (e fe : expr tpred) (a af : automaton tpred) (c : cand_fn) (fl : follow_fn) ts :
  tk_to_dfa e = OK a -> tk_to_dfa fe = OK af ->
  (forall i, greedy a ts i = OK (cand_end_of c ts i)) ->
  follow_decides af fl ts ->
  (forall i n j, c ts i = Some (n, j) -> name_index ts i j = OK n) ->
  get_headers ts e (Some fe) = OK (shape_headers c fl ts).
Proof.
  intros Ea Eaf Hg Hfl Hn. unfold get_headers. rewrite Ea, Eaf. unfold tk_find_all_dfa.
  rewrite (find_all_is_scan tpred_eqb taccept_st a ts _ _ (all_greedy_shape a c ts Hg)).
  match goal with |- context [select_leftmost ?f _ _] =>
    destruct (select_shape_spec c fl ts f) with (starts := seq 0 (length ts)) (le := 0) as (ms & E1 & E2)
  end.
  - intros cd. destruct (Hfl (snd cd)) as (r & Er & Eb). rewrite Er, <- Eb. destruct r; reflexivity.
  - exact Hn.
  - rewrite E1. exact E2.
Qed.

Theorem get_headers_shape_none (e : expr tpred) (a : automaton tpred) (c : cand_fn) ts :
  tk_to_dfa e = OK a ->
  (forall i, greedy a ts i = OK (cand_end_of c ts i)) ->
  (forall i n j, c ts i = Some (n, j) -> name_index ts i j = OK n) ->
  get_headers ts e None = OK (shape_headers c follow_any ts).
Proof.
  intros Ea Hg Hn. unfold get_headers. rewrite Ea. unfold tk_find_all_dfa.
  rewrite (find_all_is_scan tpred_eqb taccept_st a ts _ _ (all_greedy_shape a c ts Hg)).
  match goal with |- context [select_leftmost ?f _ _] =>
    destruct (select_shape_spec c follow_any ts f) with (starts := seq 0 (length ts)) (le := 0) as (ms & E1 & E2)
  end.
  - intros cd. reflexivity.
  - exact Hn.
  - rewrite E1. exact E2.
Qed.

(* ====================================================================== *)
(* 4. positions, names, groups                                             *)
(* ====================================================================== *)
Lemma nth_error_skipn_S {A} i (l : list A) x r : skipn i l = x :: r -> nth_error l i = Some x.
Proof. intros H. rewrite nth_error_skipn_hd, H. reflexivity. Qed.

Lemma skipn_nil_nth {A} i (l : list A) : skipn i l = [] -> nth_error l i = None.
Proof. intros H. rewrite nth_error_skipn_hd, H. reflexivity. Qed.

(* Keyword tokens are not names *)
Lemma keyword_not_name t : is_keyword t = true -> is_name t = false.
Proof. unfold is_keyword, is_name. destruct (t_kind t); cbn; congruence. Qed.

Lemma kw_at_inv ts i s : kw_at ts i s = true ->
  exists t, nth_error ts i = Some t /\ is_keyword t = true.
Proof.
  unfold kw_at. destruct (nth_error ts i) as [t|]; [|discriminate].
  intros H. apply andb_true_iff in H. exists t. split; [reflexivity | apply H].
Qed.

Lemma name_at_inv ts i : name_at ts i = true ->
  exists t, nth_error ts i = Some t /\ is_name t = true.
Proof.
  unfold name_at. destruct (nth_error ts i) as [t|]; [|discriminate].
  intros H. exists t. split; [reflexivity | exact H].
Qed.

(* name_index: the name directly at the start, or after some non-name tokens *)
Lemma name_index_0 ts i j : name_at ts i = true -> i < j -> name_index ts i j = OK i.
Proof.
  intros Hn Hlt. destruct (name_at_inv ts i Hn) as (t & Ht & Hnm).
  exact (name_index_at ts i j t Ht Hnm Hlt).
Qed.

Lemma name_index_skip ts i j t :
  nth_error ts i = Some t -> is_name t = false -> S i <= j -> name_index ts i j = name_index ts (S i) j.
Proof.
  intros Ht Hn Hlt. unfold name_index. rewrite nth_error_skipn_hd in Ht.
  destruct (skipn i ts) as [|x w] eqn:E; [discriminate|]. cbn [hd_error] in Ht. injection Ht as ->.
  rewrite (skipn_cons_S i ts t w E).
  replace (j - i) with (S (j - S i)) by lia. cbn [firstn first_name_from]. rewrite Hn. reflexivity.
Qed.

Lemma name_index_kw ts i j s :
  kw_at ts i s = true -> S i <= j -> name_index ts i j = name_index ts (S i) j.
Proof.
  intros Hk Hlt. destruct (kw_at_inv ts i s Hk) as (t & Ht & Hkw).
  exact (name_index_skip ts i j t Ht (keyword_not_name t Hkw) Hlt).
Qed.

(* a group run starting at "(" is at least one token long *)
Lemma groups_end_lt ts p j : groups_end ts p = Some j -> p < j.
Proof.
  unfold groups_end, sym_at. rewrite nth_error_skipn_hd.
  destruct (skipn p ts) as [|x w]; [discriminate|]. cbn [hd_error groups_len].
  destruct (is_symbol x lparen); [|discriminate]. change (0 <? 0)%Z with false. cbv iota.
  intros [= <-]. lia.
Qed.

(* ====================================================================== *)
(* 5. candidate functions commute with dropping a prefix                   *)
(* ====================================================================== *)
Definition shift1 (r : option (nat * nat)) : option (nat * nat) :=
  match r with Some (n, j) => Some (S n, S j) | None => None end.
Definition shift_inv (c : cand_fn) : Prop :=
  (forall t ts i, c (t :: ts) (S i) = shift1 (c ts i)) /\ (forall i, c [] i = None).

Lemma cand_end_of_skipn (c : cand_fn) : shift_inv c -> forall i ts,
  cand_end_of c ts i = match cand_end_of c (skipn i ts) 0 with Some j => Some (i + j) | None => None end.
Proof.
  intros [Hc Hn]. induction i as [|i IH]; intros ts.
  - cbn [skipn]. destruct (cand_end_of c ts 0); reflexivity.
  - destruct ts as [|t ts].
    + cbn [skipn]. unfold cand_end_of. rewrite !Hn. reflexivity.
    + cbn [skipn]. unfold cand_end_of in *. rewrite Hc. specialize (IH ts).
      destruct (c ts i) as [[n j]|]; cbn [shift1].
      * destruct (c (skipn i ts) 0) as [[n' j']|]; [|discriminate]. injection IH as ->. reflexivity.
      * destruct (c (skipn i ts) 0) as [[n' j']|]; [discriminate | reflexivity].
Qed.

Lemma greedy_of_arun (a : automaton tpred) (c : cand_fn) :
  okheap a = true -> shift_inv c ->
  (forall w, arun a (a_start a) 0 0 w = OK (cand_end_of c w 0)) ->
  forall ts i, greedy a ts i = OK (cand_end_of c ts i).
Proof.
  intros Hok Hs Hr ts i. rewrite (greedy_arun a Hok), Hr, (cand_end_of_skipn c Hs i ts).
  destruct (cand_end_of c (skipn i ts) 0); reflexivity.
Qed.

Lemma nth_error_nil_any {A} i : nth_error (@nil A) i = None.
Proof. destruct i; reflexivity. Qed.

(* ====================================================================== *)
(* 6. the run through the parenthesis groups, for any automaton            *)
(* ====================================================================== *)
Open Scope Z_scope.

Definition kwt (x : token) (s : pystr) : bool := is_keyword x && pystr_eqb (t_value x) s.

Lemma kwt_excl x s s' : pystr_eqb s s' = false -> kwt x s = true -> kwt x s' = false.
Proof.
  unfold kwt. intros Hne H. apply andb_true_iff in H. destruct H as [Hk Hv].
  apply pystr_eqb_spec in Hv. rewrite Hk, Hv, Hne. reflexivity.
Qed.

Lemma kwt_not_name x s : kwt x s = true -> is_name x = false.
Proof. unfold kwt. intros H. apply andb_true_iff in H. apply keyword_not_name, H. Qed.

(* length of the group run at the head of w, if w starts with "(" *)
Definition groups_opt (w : list token) : option nat :=
  match w with
  | x :: _ => if is_symbol x lparen then Some (groups_len w 0) else None
  | [] => None
  end.

Lemma groups_end_opt ts p :
  groups_end ts p = match groups_opt (skipn p ts) with Some k => Some (p + k)%nat | None => None end.
Proof.
  unfold groups_end, sym_at, groups_opt. rewrite nth_error_skipn_hd.
  destruct (skipn p ts) as [|x w]; [reflexivity|]. cbn [hd_error].
  destruct (is_symbol x lparen); reflexivity.
Qed.

Section Groups.
  Variable a : automaton tpred.
  Variables G : list nat.
  Hypothesis HT : dtrans tpred_eqb (a_heap a) G = [Bal].
  Hypothesis HN : closure (a_heap a) (move tpred_eqb (a_heap a) G Bal) = OK G.
  Hypothesis HA : mem (a_acc a) G = true.

  Lemma aconsume_G d x :
    aconsume a G d x = let '(b, d') := taccept_st Bal d x in if b then OK (Some (G, d')) else OK None.
  Proof.
    unfold aconsume. cbv zeta. rewrite HT. cbn [filter]. rewrite eqb_Bal_Bal.
    destruct (0 <? d); cbn [pfold]; rewrite eqb_Bal_Bal; destruct (taccept_st Bal d x) as [b d'];
      destruct b; [rewrite HN| |rewrite HN|]; reflexivity.
  Qed.

  Lemma arun_groups : forall w d n, 0 <= d ->
    arun a G d n w = OK (Some (n + groups_len w d)%nat).
  Proof.
    induction w as [|x w IH]; intros d n Hd.
    - cbn [arun groups_len]. rewrite HA. f_equal. f_equal. lia.
    - cbn [arun groups_len]. rewrite aconsume_G, (bal_step d x Hd), HA.
      destruct (is_symbol x lparen).
      + rewrite IH by lia. destruct (Z.ltb_spec 0 d) as [Hp|Hz].
        * f_equal. f_equal. lia.
        * replace (d + 1) with 1 by lia. f_equal. f_equal. lia.
      + destruct (is_symbol x rparen).
        * destruct (Z.ltb_spec 0 d) as [Hp|Hz].
          -- rewrite IH by lia. f_equal. f_equal. lia.
          -- f_equal. f_equal. lia.
        * destruct (Z.ltb_spec 0 d) as [Hp|Hz].
          -- rewrite IH by lia. f_equal. f_equal. lia.
          -- f_equal. f_equal. lia.
  Qed.

  (* a state from which only "(" leads on, into G *)
  Variable Q : list nat.
  Hypothesis HTQ : dtrans tpred_eqb (a_heap a) Q = [Bal].
  Hypothesis HNQ : closure (a_heap a) (move tpred_eqb (a_heap a) Q Bal) = OK G.
  Hypothesis HAQ : mem (a_acc a) Q = false.

  Lemma aconsume_Q x :
    aconsume a Q 0 x = if is_symbol x lparen then OK (Some (G, 1)) else OK None.
  Proof.
    unfold aconsume. cbv zeta. rewrite HTQ. cbn [filter]. rewrite eqb_Bal_Bal.
    change (0 <? 0) with false. cbv iota. cbn [pfold]. rewrite eqb_Bal_Bal.
    rewrite (bal_step 0 x (Z.le_refl 0)).
    destruct (is_symbol x lparen); [rewrite HNQ; reflexivity|].
    destruct (is_symbol x rparen); reflexivity.
  Qed.

  Lemma arun_pregroups n w :
    arun a Q 0 n w = OK (match groups_opt w with Some k => Some (n + k)%nat | None => None end).
  Proof.
    destruct w as [|x w]; cbn [arun groups_opt]; [rewrite HAQ; reflexivity|].
    rewrite aconsume_Q, HAQ. destruct (is_symbol x lparen) eqn:E; [|reflexivity].
    rewrite arun_groups by lia. cbn [groups_len]. rewrite E. change (0 <? 0) with false. cbv iota.
    f_equal. f_equal. lia.
  Qed.
End Groups.
