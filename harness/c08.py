"""C08 — the report document is always valid JSON and round-trips losslessly."""
import json
import os
import re

from common import Check, assert_repo_import, eval_cases, eval_one, canon_tree, coq_list, z, parse_tree
import lang_common as LC
import c07

IMPORTS = "Base GenThresholds Codebase Json Writer"
NASTY = ['q"uote', "back\\slash", "tab\there", "new\nline", "nul\x00", "é", "日本", "emoji😀", " sep", "a/b", "{}[],:", "", "'", "\x7f\x1f",
         "\\u0041", "</script>", "None", "null",
         # not in Unicode normal form C / characters that line-splitting and normalising helpers treat specially
         "cafe\u0301", "\u212b", "\u2126", "\ufb01", "\u1100\u1161", "x\u2028y", "x\u2029y", "x\x85y", "\x0b\x0c\x1c\x1d\x1e", "\ud7ff\ue000",
         "\U0001f600\u200d", "\ufeff",
         # suffixes / spellings that a "normalising" constructor or reader would rewrite
         ".git", "x.git.git", "ABCDEF12-3456-7890-ABCD-EF1234567890", "{abcdef12-3456-7890-abcd-ef1234567890}",
         "urn:uuid:abcdef12-3456-7890-abcd-ef1234567890", "abcdef1234567890abcdef1234567890", " padded ", "MiXeD",
         # otherwise plain text that ENDS in (or is) one control character: `$` in a regular expression also matches before a
         # final line feed, so an "is it plain?" test lets these through (seeded change C08-13)
         # what os.walk delivers for a file name that is not valid UTF-8 (surrogateescape): lone surrogates
         "caf\udce9.py", "\udcff\udcfe", "dir\udc80",
         # runs of ordinary spaces inside a name (seeded change C08-19: white space of the compact form squeezed, also inside strings)
         "two  spaces", "My   Projects", "  lead2", "trail2  ",
         "\n", "plain\n", "plain\r", "plain\t", "\nlead", "x\n\n", "plain\x00", "tail\x0b", "tail\x0c", "tail\x85", "tail\u2028"]


def gen_str(rng, base):
    r = rng.random()
    if r < 0.45:
        return base
    if r < 0.9:
        return base + rng.choice(NASTY)
    return rng.choice(NASTY)


def gen_report(rng):
    n = rng.choice([0, 1, 2, 3, 5, 8])
    paths = []
    for p in c07.gen_paths(rng, n):
        comps = p.split("/")
        comps = [gen_str(rng, c).replace("/", "_") or "x" for c in comps]
        if any(c in (".", "") for c in comps):
            continue
        if len(comps) >= 2 and rng.random() < 0.1:
            # a path that is not in os.path.normpath form: stored paths are data, a reader must hand them back verbatim
            # (seeded change C08-15)
            comps.insert(rng.randrange(1, len(comps)), "..")
        q = "/".join(comps)
        if q not in paths:
            paths.append(q)
    entries = []
    for p in paths:
        lang = rng.choice(["Python", "C", "JavaScript", gen_str(rng, "Lang")])
        ms = [(gen_str(rng, f"f{i}"), rng.choice([1, 15, 16, 30, 31, 61])) for i in range(rng.choice([0, 1, 2, 3]))]
        # loc: the sum of the measurements, or an unrelated stored number — including 0, which is a number, not "missing"
        entries.append((p, gen_str(rng, "abc123"), lang, ms, rng.choice([True, True, True, 7, 0])))
    repo = None
    if rng.random() < 0.5:
        repo = (gen_str(rng, "owner"), gen_str(rng, "name"), None if rng.random() < 0.3 else gen_str(rng, "main"))
    version = None if rng.random() < 0.1 else gen_str(rng, "1.2.3")
    return {"root": gen_str(rng, "/home/u/proj"), "uuid": gen_str(rng, "abcd-ef"), "version": version, "repository": repo,
            "entries": entries}


def impl_report(spec):
    from codelimit.common.Codebase import Codebase
    from codelimit.common.GithubRepository import GithubRepository
    from codelimit.common.Location import Location
    from codelimit.common.Measurement import Measurement
    from codelimit.common.SourceFileEntry import SourceFileEntry
    from codelimit.common.report.Report import Report
    cb = Codebase(spec["root"])
    for path, ck, lang, ms, loc_is_sum in spec["entries"]:
        mm = [Measurement(n, Location(i + 1, 1), Location(i + 2, 3), v) for i, (n, v) in enumerate(ms)]
        cb.add_file(SourceFileEntry(path, ck, lang, sum(v for _, v in ms) if loc_is_sum is True else loc_is_sum, mm))
    cb.aggregate()
    rp = spec["repository"]
    rep = Report(cb, GithubRepository(rp[0], rp[1], branch=rp[2]) if rp else None)
    rep.uuid = spec["uuid"]
    rep.version = spec["version"]
    rep.timestamp = "2026-01-01T00:00:00+00:00"
    return rep


def model_report(spec):
    es = coq_list(
        "mk_entry %s %s %s %s %s" % (LC.pystr(p), LC.pystr(ck), LC.pystr(lang), z(sum(v for _, v in ms) if lis is True else lis), coq_list(
            "mkMeas %s (mkLoc %d 1) (mkLoc %d 3) %s" % (LC.pystr(n), i + 1, i + 2, z(v)) for i, (n, v) in enumerate(ms)))
        for p, ck, lang, ms, lis in spec["entries"])
    rp = spec["repository"]
    repo = "None" if rp is None else "(Some (mkRepo %s %s %s))" % (
        LC.pystr(rp[0]), LC.pystr(rp[1]), "None" if rp[2] is None else f"(Some {LC.pystr(rp[2])})")
    ver = "None" if spec["version"] is None else f"(Some {LC.pystr(spec['version'])})"
    return (f"(match build {LC.pystr(spec['root'])} {es} with OK cb => OK (mkReport {ver} {LC.pystr(spec['uuid'])} "
            f"{LC.pystr('2026-01-01T00:00:00+00:00')} {repo} cb) | Err k => Err k end)")


def render_tokens(tree):
    """model token tree -> document text (TStr via json.dumps: the string-codec oracle)"""
    out = []
    for t in tree:
        tag = t[0]
        if tag == 6:
            out.append(json.dumps("".join(chr(c) for c in t[1])))
        elif tag == 7:
            out.append(str(t[1]))
        elif tag == 9:
            out.append("".join(chr(c) for c in t[1]))
        else:
            out.append("{}[]:,  null"[tag] if tag < 6 else "null")
    return "".join(out)


TOK = re.compile(r'"(?:[^"\\]|\\.)*"|-?\d+|null|[{}\[\]:,]|[ \n]+')


def tokenise(text):
    """JSON text -> token tree in the encoding of Report/Json.v enc_jtok (white space kept)"""
    out = []
    pos = 0
    for m in TOK.finditer(text):
        if m.start() != pos:
            raise ValueError(f"untokenisable at {pos}")
        pos = m.end()
        t = m.group(0)
        if t[0] == '"':
            out.append([6, json.loads(t)])
        elif t[0] in " \n":
            out.append([9, t])
        elif t == "null":
            out.append([8])
        elif t in "{}[]:,":
            out.append(["{}[]:,".index(t)])
        else:
            out.append([7, int(t)])
    if pos != len(text):
        raise ValueError(f"untokenisable at {pos}")
    return out


def canon_report(rep):
    cb = rep.codebase
    rp = rep.repository
    return [rep.version, rep.uuid, cb.root, None if rp is None else [rp.owner, rp.name, rp.branch], c07.enc_cb(cb)]


def opt(x):
    return [] if x is None else [x]


def tree_report(rep):
    """encoding of Report/Writer.v enc_report"""
    cb = rep.codebase
    rp = rep.repository
    return [opt(rep.version), rep.uuid, cb.root, [] if rp is None else [[rp.owner, rp.name, opt(rp.branch)]], c07.enc_cb(cb)]


def run(tier, seed, replay=None):
    assert_repo_import()
    from codelimit.common.report.ReportReader import ReportReader
    from codelimit.common.report.ReportWriter import ReportWriter
    chk = Check("C08", tier, seed)
    model_ok = chk.proof_stage(["Report/Writer.vo", "Report/WriterProofs.vo"])
    # ---- the document a scan leaves ON DISK: after the code base has shrunk (a file removed, functions deleted) the next
    #      scan's document replaces the longer one entirely (seeded change C08-18: written in place without truncation)
    import shutil
    import tempfile
    import fs_common as F
    tmp_d = tempfile.mkdtemp(prefix="verif_c08d_")
    try:
        for k in range(4 if tier == "quick" else 40):
            root = os.path.join(tmp_d, f"t{k}")
            os.makedirs(os.path.join(root, "d"))
            present = [("a.py", 31), ("d/b.js", 40), ("d/c.py", 16), ("d/e.ts", 70 if k % 2 else 31)]
            for pth, cid in present:
                F.write_file(root, pth, cid)
            try:
                F.run_scan(root, [])
                victims = chk.rng.sample(present, chk.rng.choice([1, 2, 3]))
                for pth, _ in victims:
                    os.remove(os.path.join(root, pth))
                on_disk, _ = F.run_scan(root, [])          # reads the document the scan left behind
                shutil.rmtree(os.path.join(root, ".codelimit_cache"), ignore_errors=True)
                fresh, _ = F.run_scan(root, [])
                chk.evaluations += 1
                chk.count("document on disk after the code base shrank")
                if on_disk != fresh:
                    chk.violation({"removed": [v[0] for v in victims]}, "after removing files the document the second scan left on disk "
                                  "differs from the document of a scan without cache")
                else:
                    chk.nontrivial.add(("disk", k))
            except Exception as ex:
                chk.violation({"scenario": "shrinking code base"}, f"the document left on disk after the code base shrank cannot be read: "
                              f"{type(ex).__name__}: {str(ex)[:120]}")
    finally:
        shutil.rmtree(tmp_d, ignore_errors=True)
    n = 250 if tier == "quick" else 8000
    cases = []
    texts = []
    for i in range(n):
        spec = gen_report(chk.rng)
        try:
            rep = impl_report(spec)
            pretty = ReportWriter(rep, True).to_json()
            compact = ReportWriter(rep, False).to_json()
        except Exception as ex:
            chk.violation({"report": spec}, f"writing the report raised {type(ex).__name__}: {ex}")
            continue
        probs = []
        vals = []
        for nm, txt in (("pretty", pretty), ("compact", compact)):
            try:
                vals.append(json.loads(txt))
            except ValueError as ex:
                probs.append(f"{nm} document is not valid JSON: {ex}")
            try:
                txt.encode("utf-8")          # the document is written to a UTF-8 file: a name that is not valid UTF-8 on disk
            except UnicodeEncodeError as ex:          # reaches it as a lone surrogate and has to be escaped (seeded change C08-17)
                probs.append(f"{nm} document cannot be written as UTF-8: {ex}")
        if len(vals) == 2:
            if vals[0] != vals[1]:
                probs.append("pretty and compact documents parse to different values")
            try:
                # the document is read back in a process that has detected a repository of its own for the current run
                # (scan / upload in a clone with a GitHub remote set Configuration.repository): what is read is still only
                # what the document says (seeded change C08-21: a report without repository adopting the run's)
                from codelimit.common.Configuration import Configuration
                from codelimit.common.GithubRepository import GithubRepository
                run_repo = i % 2 == 0
                saved_repo = Configuration.repository
                if run_repo:
                    Configuration.repository = GithubRepository("run-owner", "run-name", "run-branch")
                try:
                    back = ReportReader.from_json(pretty)
                finally:
                    Configuration.repository = saved_repo
                chk.count("read back " + ("with" if run_repo else "without") + " a repository detected for the run")
                a, b = canon_report(rep), canon_report(back)
                names = ["version", "identifier", "root", "repository", "codebase (totals, tree, files)"]
                for nm, x, y in zip(names, a, b):
                    if x != y:
                        probs.append(f"round trip changed {nm}: {str(x)[:80]!r} -> {str(y)[:80]!r}")
                back.timestamp = rep.timestamp
                if ReportWriter(back, True).to_json() != pretty:
                    probs.append("writing the re-read report does not reproduce the document")
            except Exception as ex:
                probs.append(f"reading the document back raised {type(ex).__name__}: {ex}")
        chk.evaluations += 1
        if spec["entries"] and any(not re.fullmatch(r"[\w./ -]*", str(x)) for x in
                                   [spec["root"], spec["uuid"]] + [e[0] for e in spec["entries"]]):
            chk.nontrivial.add(json.dumps(spec, sort_keys=True, default=str))
        chk.count("repository " + ("present" if spec["repository"] else "absent"))
        chk.count(f"files {min(len(spec['entries']), 5)}")
        if probs:
            chk.violation({"report": spec}, "report with root %r: " % spec["root"] + "; ".join(probs[:3]))
        m = model_report(spec)
        cases.append((f"match {m} with OK r => T [enc_list enc_jtok (merge_ws (to_json true r)); enc_list enc_jtok (merge_ws (to_json false r))] | Err _ => T [] end",
                      spec, pretty, compact))
    chk.samples = [c[1] for c in cases[:2]]
    # the implementation's text, tokenised (strings decoded with json.loads), must equal the model's token stream
    if model_ok:
        mcases = []
        for expr, spec, pretty, compact in cases:
            try:
                exp = [tokenise(pretty), tokenise(compact)]
            except ValueError:
                continue          # not even tokenisable: already reported as invalid JSON above
            mcases.append((expr, exp, {"root": spec["root"], "files": [e[0] for e in spec["entries"]]}))
            try:
                back = ReportReader.from_json(pretty)
                mcases.append((f"match {model_report(spec)} with OK r => enc_res enc_report (from_json (erase (to_doc r))) | Err _ => T [] end",
                               [0, tree_report(back)], {"reader": True, "root": spec["root"]}))
            except Exception:
                pass
        mism, err = eval_cases("C08", IMPORTS, [(m, o) for m, o, _ in mcases], shard=20)
        chk.traces = len(mcases)
        if err:
            chk.broken.append("correspondence evaluation failed: " + err[-400:])
        for i in mism[:3]:
            got = eval_one("C08", IMPORTS, mcases[i][0])
            try:
                mp = render_tokens(got[0]) if got else None
            except TypeError:
                mp = got          # the model returned an error value, not a document
            chk.broken.append(f"correspondence: writer model and implementation differ on {mcases[i][2]}: model document "
                              f"{str(mp)[:200]!r}")
    else:
        chk.broken.append("report model does not build; correspondence not run")
    nt = len(chk.nontrivial)
    chk.nontrivial = {str(i) for i in range(nt)}
    return chk.finish(
        rule="random reports: codebases as in C07 with quotes, backslashes, control characters, NUL, non-ASCII, JSON "
             "meta-characters in every string field (paths, names, checksums, languages, root, identifier, version, "
             "repository owner/name/branch), repository present/absent/branch None, version None, pretty and compact; "
             "judged with json.loads, field-wise comparison after from_json and byte equality of the rewrite; the Coq "
             "writer's token stream, rendered with json.dumps for strings, must equal the implementation's text exactly.  "
             "Non-trivial: at least one file and one string outside [A-Za-z0-9_./ -].",
        assumptions=["json.dumps / json.loads round-trip every string and render it as one JSON string token (checked by the "
                     "round trip itself)"])
