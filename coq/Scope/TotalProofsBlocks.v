(* TotalProofsBlocks.v — extract_blocks never fails, and every block range it
   returns ends inside the token list: 1 <= snd r <= length ts. *)
From Verif Require Import Base Token Headers Blocks UnambProofs.
Open Scope nat_scope.

Definition good_block (n : nat) (r : range) : Prop := 1 <= snd r <= n.

(* ====================================================================== *)
(* 1. the stable sorts only rearrange                                      *)
(* ====================================================================== *)

Section SortIn.
  Context {A : Type} (k1 k2 : A -> Z).

  Lemma insert_asc2_In : forall x l y, In y (insert_asc2 k1 k2 x l) <-> y = x \/ In y l.
  Proof.
    intros x. induction l as [|z l IH]; intros y; cbn [insert_asc2].
    - cbn. intuition.
    - destruct (lt2 k1 k2 x z).
      + cbn [In]. intuition.
      + cbn [In]. rewrite IH. intuition.
  Qed.

  Lemma insert_desc2_In : forall x l y, In y (insert_desc2 k1 k2 x l) <-> y = x \/ In y l.
  Proof.
    intros x. induction l as [|z l IH]; intros y; cbn [insert_desc2].
    - cbn. intuition.
    - destruct (lt2 k1 k2 z x).
      + cbn [In]. intuition.
      + cbn [In]. rewrite IH. intuition.
  Qed.

  Lemma sort_asc2_In : forall l y, In y (sort_asc2 k1 k2 l) <-> In y l.
  Proof.
    intros l y. unfold sort_asc2.
    assert (H : forall acc, In y (fold_left (fun acc x => insert_asc2 k1 k2 x acc) l acc)
                            <-> In y l \/ In y acc).
    { induction l as [|x l IH]; intros acc; cbn [fold_left].
      - cbn. tauto.
      - rewrite IH, insert_asc2_In. cbn [In]. intuition. }
    rewrite H. cbn. tauto.
  Qed.

  Lemma sort_desc2_In : forall l y, In y (sort_desc2 k1 k2 l) <-> In y l.
  Proof.
    intros l y. unfold sort_desc2.
    assert (H : forall acc, In y (fold_left (fun acc x => insert_desc2 k1 k2 x acc) l acc)
                            <-> In y l \/ In y acc).
    { induction l as [|x l IH]; intros acc; cbn [fold_left].
      - cbn. tauto.
      - rewrite IH, insert_desc2_In. cbn [In]. intuition. }
    rewrite H. cbn. tauto.
  Qed.
End SortIn.

Lemma sort_ranges_In : forall ts rs r, In r (sort_ranges ts rs) <-> In r rs.
Proof. intros. unfold sort_ranges. apply sort_asc2_In. Qed.

(* ====================================================================== *)
(* 2. brace blocks                                                         *)
(* ====================================================================== *)

Lemma balanced_from_bounds : forall ts i op cl stack r,
  In r (balanced_from i ts op cl stack) -> i < snd r <= i + length ts.
Proof.
  induction ts as [|t ts IH]; intros i op cl stack r H; cbn [balanced_from] in H.
  - destruct H.
  - cbn [length].
    destruct (is_symbol t op).
    + apply IH in H. lia.
    + destruct (is_symbol t cl).
      * destruct stack as [|s stack'].
        -- apply IH in H. lia.
        -- destruct H as [<-|H]; [cbn [snd]; lia|]. apply IH in H. lia.
      * apply IH in H. lia.
Qed.

Lemma get_blocks_good : forall ts, Forall (good_block (length ts)) (get_blocks ts).
Proof.
  intros ts. apply Forall_forall. intros r H. unfold get_blocks in H.
  apply sort_ranges_In in H. apply balanced_from_bounds in H. unfold good_block. lia.
Qed.

(* ====================================================================== *)
(* 3. Python: token lines                                                  *)
(* ====================================================================== *)

Definition good_line (n : nat) (l : list nat) : Prop := l <> [] /\ Forall (fun k => k < n) l.

Lemma Forall_lt_weaken : forall n m l, n <= m -> Forall (fun k => k < n) l -> Forall (fun k => k < m) l.
Proof. intros n m l H. apply Forall_impl. intros; lia. Qed.

Lemma token_lines_from_good : forall ts i line cont nr l,
  Forall (fun k => k < i) line ->
  In l (token_lines_from i ts line cont nr) -> good_line (i + length ts) l.
Proof.
  induction ts as [|t ts IH]; intros i line cont nr l Hline H; cbn [token_lines_from] in H.
  - destruct line as [|k line']; [destruct H|].
    destruct H as [<-|[]]. split; [discriminate|].
    eapply Forall_lt_weaken; [|exact Hline]. lia.
  - cbn [length]. replace (i + S (length ts)) with (S i + length ts) by lia.
    assert (Hi : Forall (fun k => k < S i) [i]) by (constructor; [lia | constructor]).
    assert (Hline' : Forall (fun k => k < S i) line)
      by (eapply Forall_lt_weaken; [|exact Hline]; lia).
    destruct line as [|k line'].
    + eapply IH; [|exact H]. exact Hi.
    + set (line := k :: line') in *.
      assert (Hl1 : forall l1, l1 = line ++ [i] \/ l1 = line ->
                l1 <> [] /\ Forall (fun k => k < S i) l1).
      { intros l1 [->| ->].
        - split; [unfold line; discriminate|]. apply Forall_app. split; assumption.
        - split; [unfold line; discriminate | assumption]. }
      destruct cont.
      * destruct (Hl1 (line ++ [i]) (or_introl eq_refl)) as [Hne Hf].
        destruct (Z.eqb (t_line t) (t_line t)).
        -- eapply IH; [|exact H]. apply Forall_app. split; assumption.
        -- destruct H as [<-|H].
           ++ split; [exact Hne|]. eapply Forall_lt_weaken; [|exact Hf]. lia.
           ++ eapply IH; [|exact H]. exact Hi.
      * destruct (Hl1 line (or_intror eq_refl)) as [Hne Hf].
        destruct (Z.eqb (t_line t) nr).
        -- eapply IH; [|exact H]. apply Forall_app. split; assumption.
        -- destruct H as [<-|H].
           ++ split; [exact Hne|]. eapply Forall_lt_weaken; [|exact Hf]. lia.
           ++ eapply IH; [|exact H]. exact Hi.
Qed.

Lemma token_lines_good : forall ts l, In l (token_lines ts) -> good_line (length ts) l.
Proof.
  intros ts l H. unfold token_lines in H.
  apply (token_lines_from_good ts 0 [] false 0%Z l (Forall_nil _)) in H. exact H.
Qed.

(* ====================================================================== *)
(* 4. Python: block lines are valid line indices                           *)
(* ====================================================================== *)

Lemma number_from_In : forall {A} (l : list A) i k x,
  In (k, x) (number_from i l) -> i <= k /\ nth_error l (k - i) = Some x.
Proof.
  intros A. induction l as [|y l IH]; intros i k x H; cbn [number_from] in H.
  - destruct H.
  - destruct H as [E|H].
    + inversion E; subst. split; [lia|]. rewrite Nat.sub_diag. reflexivity.
    + apply IH in H. destruct H as [H1 H2]. split; [lia|].
      replace (k - i) with (S (k - S i)) by lia. exact H2.
Qed.

Lemma number_from_In0 : forall {A} (l : list A) k x (d : A),
  In (k, x) (number_from 0 l) -> k < length l /\ nth k l d = x /\ In x l.
Proof.
  intros A l k x d H. apply number_from_In in H. destruct H as [_ H].
  rewrite Nat.sub_0_r in H. split; [apply nth_error_Some; congruence|].
  split; [apply nth_error_nth; exact H | eapply nth_error_In; exact H].
Qed.

Lemma block_lines_In : forall ts rl hl hi acc li,
  In li (block_lines ts rl hl hi acc) -> In li acc \/ In li (map fst rl).
Proof.
  intros ts. induction rl as [|[k l] r IH]; intros hl hi acc li H; cbn [block_lines] in H.
  - left. exact H.
  - cbn [map fst In].
    destruct (Z.leb _ hl); [left; exact H|].
    destruct (Z.gtb _ hi).
    + apply IH in H. destruct H as [H|H]; [|tauto].
      apply in_app_or in H. destruct H as [H|[<-|[]]]; tauto.
    + apply IH in H. destruct H as [[]|H]. tauto.
Qed.

(* ====================================================================== *)
(* 5. Python: index_of_token                                               *)
(* ====================================================================== *)

Lemma kind_eqb_refl : forall k, kind_eqb k k = true.
Proof. destruct k; reflexivity. Qed.

Lemma token_eqb_refl : forall t, token_eqb t t = true.
Proof.
  intros t. unfold token_eqb.
  rewrite !Z.eqb_refl, kind_eqb_refl, pystr_eqb_refl. reflexivity.
Qed.

Lemma index_of_token_ok : forall ts i k t,
  nth_error ts k = Some t -> exists n, index_of_token i ts t = OK n /\ i <= n <= i + k.
Proof.
  induction ts as [|x ts IH]; intros i k t H.
  - destruct k; discriminate.
  - cbn [index_of_token]. destruct (token_eqb x t) eqn:E.
    + exists i. split; [reflexivity | lia].
    + destruct k as [|k].
      * cbn in H. inversion H; subst. rewrite token_eqb_refl in E. discriminate.
      * cbn in H. destruct (IH (S i) k t H) as (n & En & Hb).
        exists n. split; [exact En | lia].
Qed.

Lemma last_In : forall {A} (l : list A) d, l <> [] -> In (last l d) l.
Proof.
  intros A. induction l as [|x l IH]; intros d H; [congruence|].
  destruct l as [|y l].
  - left. reflexivity.
  - right. apply IH. discriminate.
Qed.

(* ====================================================================== *)
(* 6. Python: py_block / py_extract_blocks                                 *)
(* ====================================================================== *)

Lemma py_block_ok : forall ts lines h,
  (forall l, In l lines -> good_line (length ts) l) ->
  exists ob, py_block ts lines h = OK ob /\
             match ob with Some b => good_block (length ts) b | None => True end.
Proof.
  intros ts lines h Hlines. unfold py_block.
  destruct (Nat.leb (length ts) (h_end h)); [exists None; split; [reflexivity | exact I]|].
  remember (block_lines ts (rev (number_from 0 lines)) (tok_line ts (h_end h))
               (tok_col ts (h_start h)) []) as bl eqn:Ebl.
  assert (Hbl : forall li, In li bl -> good_line (length ts) (nth li lines [])).
  { intros li Hin. rewrite Ebl in Hin. apply block_lines_In in Hin.
    destruct Hin as [[]|Hin]. apply in_map_iff in Hin.
    destruct Hin as ([k l] & Ek & Hin). cbn [fst] in Ek. subst k.
    apply in_rev in Hin. apply (number_from_In0 lines li l []) in Hin.
    destruct Hin as (_ & En & Hl). rewrite En. apply Hlines. exact Hl. }
  clear Ebl.
  destruct bl as [|b0 bl']; [exists None; split; [reflexivity | exact I]|].
  remember (flat_map (fun li => nth li lines []) (rev (b0 :: bl'))) as st eqn:Est.
  assert (Hst : Forall (fun k => k < length ts) st).
  { apply Forall_forall. intros k Hk. rewrite Est in Hk. apply in_flat_map in Hk.
    destruct Hk as (li & Hli & Hk). apply in_rev in Hli.
    destruct (Hbl li Hli) as [_ Hf]. rewrite Forall_forall in Hf. apply Hf. exact Hk. }
  assert (Hne : st <> []).
  { rewrite Est. cbn [rev]. rewrite flat_map_app. cbn [flat_map]. rewrite app_nil_r.
    intro K. apply app_eq_nil in K. destruct K as [_ K].
    destruct (Hbl b0 (or_introl eq_refl)) as [Hn _]. contradiction. }
  clear Est.
  destruct st as [|f rest]; [congruence|].
  set (st := f :: rest) in *.
  assert (Hf : f < length ts) by (inversion Hst; assumption).
  assert (Hl : last st f < length ts).
  { rewrite Forall_forall in Hst. apply Hst. apply last_In. exact Hne. }
  destruct (nth_error ts f) as [tf|] eqn:Ef; [|apply nth_error_None in Ef; lia].
  destruct (nth_error ts (last st f)) as [tl|] eqn:El; [|apply nth_error_None in El; lia].
  destruct (index_of_token_ok ts 0 f tf Ef) as (s & Es & Hs). rewrite Es.
  destruct (index_of_token_ok ts 0 _ tl El) as (e & Ee & He). rewrite Ee.
  eexists. split; [reflexivity|]. unfold good_block. cbn [snd]. lia.
Qed.

Lemma py_blocks_rev_ok : forall ts lines hs,
  (forall l, In l lines -> good_line (length ts) l) ->
  exists bs, py_blocks_rev ts lines hs = OK bs /\ Forall (good_block (length ts)) bs.
Proof.
  intros ts lines hs Hlines. induction hs as [|h r IH]; cbn [py_blocks_rev].
  - exists []. split; [reflexivity | constructor].
  - destruct (py_block_ok ts lines h Hlines) as (ob & E & Hob). rewrite E.
    destruct IH as (bs & Ebs & Hbs). rewrite Ebs.
    eexists. split; [reflexivity|]. destruct ob; [constructor|]; assumption.
Qed.

Lemma py_extract_blocks_ok : forall ts hs,
  exists bs, py_extract_blocks ts hs = OK bs /\ Forall (good_block (length ts)) bs.
Proof.
  intros ts hs. unfold py_extract_blocks.
  destruct (py_blocks_rev_ok ts (token_lines ts) (rev hs) (token_lines_good ts)) as (bs & E & H).
  rewrite E. eexists. split; [reflexivity|].
  apply Forall_forall. intros b Hb. apply in_rev in Hb.
  rewrite Forall_forall in H. apply H. exact Hb.
Qed.

Theorem extract_blocks_ok : forall l ts hs,
  exists bs, extract_blocks l ts hs = OK bs /\ Forall (good_block (length ts)) bs.
Proof.
  intros l ts hs. unfold extract_blocks.
  destruct l; try (eexists; split; [reflexivity | apply get_blocks_good]).
  apply py_extract_blocks_ok.
Qed.

Print Assumptions extract_blocks_ok.
