(* SpecProofsFold.v — C01, part 3: shape of the forest built by fold_scopes on
   a laminar list of scopes sorted by start: the direct children reported for a
   scope cover every scope contained in it. *)
From Verif Require Import Base Token Lex Headers Blocks Pairing Fold ScanFile.
From Verif Require Import TotalProofsScopes WfProofsBase WfProofsFold MarkerProofsFold MarkerProofsNonint.
From Coq Require Import Sorted Permutation.
Open Scope nat_scope.

Definition sc_start (s : scope0) : nat := h_start (s_header s).
Definition sc_end (s : scope0) : nat := snd (s_block s).

(* a before b: b is inside a (ends no later) or starts at/after a's end *)
Definition lam (a b : scope0) : Prop :=
  sc_start a < sc_start b /\ (sc_end b <= sc_end a \/ sc_end a <= sc_start b).
Definition swf (a : scope0) : Prop := sc_start a < sc_end a.

Lemma s_contains_iff a b : s_contains a b = true <-> sc_start a < sc_start b /\ sc_end b <= sc_end a.
Proof. unfold s_contains, sc_start, sc_end. rewrite andb_true_iff, Nat.ltb_lt, Nat.leb_le. tauto. Qed.

Lemma s_contains_false_iff a b :
  s_contains a b = false <-> ~ (sc_start a < sc_start b /\ sc_end b <= sc_end a).
Proof. rewrite <- s_contains_iff. destruct (s_contains a b); split; congruence. Qed.

(* ====================================================================== *)
(* 1. a bottom frame that contains everything is never popped              *)
(* ====================================================================== *)

Lemma flush_bottom s cs : forall frames extra roots,
  flush (frames ++ [(s, cs)]) extra roots = roots ++ [Node s (flush frames extra (rev cs))].
Proof.
  induction frames as [|[s' cs'] rest IH]; intros extra roots; cbn [app flush].
  - rewrite rev_app_distr, rev_involutive. reflexivity.
  - apply IH.
Qed.

Lemma pop_until_bottom s cs sc : s_contains s sc = true -> forall frames extra roots,
  pop_until (frames ++ [(s, cs)]) extra sc roots =
  (fst (pop_until frames extra sc (rev cs)) ++ [(s, rev (snd (pop_until frames extra sc (rev cs))))], roots).
Proof.
  intros Hc. induction frames as [|[s' cs'] rest IH]; intros extra roots; cbn [app pop_until].
  - rewrite Hc. cbn [fst snd app]. rewrite rev_app_distr, rev_involutive. reflexivity.
  - destruct (s_contains s' sc).
    + cbn [fst snd app]. rewrite rev_involutive. reflexivity.
    + apply IH.
Qed.

Lemma fold_loop_bottom s : forall l, (forall x, In x l -> s_contains s x = true) ->
  forall frames cs roots,
  fold_loop l (frames ++ [(s, cs)]) roots = roots ++ [Node s (fold_loop l frames (rev cs))].
Proof.
  induction l as [|sc r IH]; intros Hall frames cs roots; cbn [fold_loop].
  - apply flush_bottom.
  - rewrite (pop_until_bottom s cs sc) by (apply Hall; left; reflexivity).
    destruct (pop_until frames [] sc (rev cs)) as [f1 r1]. cbn [fst snd].
    change ((sc, []) :: f1 ++ [(s, rev r1)]) with (((sc, @nil stree) :: f1) ++ [(s, rev r1)]).
    rewrite IH by (intros x Hx; apply Hall; right; exact Hx).
    rewrite rev_involutive. reflexivity.
Qed.

Lemma fold_scopes_inside s l : (forall x, In x l -> s_contains s x = true) ->
  fold_scopes (s :: l) = [Node s (fold_scopes l)].
Proof.
  intros H. unfold fold_scopes. cbn [fold_loop pop_until app].
  change [(s, @nil stree)] with ([] ++ [(s, @nil stree)]).
  rewrite (fold_loop_bottom s l H [] [] []). reflexivity.
Qed.

(* ====================================================================== *)
(* 2. decomposition of a laminar sorted list                               *)
(* ====================================================================== *)

Lemma lam_split s : forall rest, Forall (lam s) rest -> StronglySorted lam rest -> Forall swf rest ->
  exists inside outside, rest = inside ++ outside /\
    Forall (fun x => s_contains s x = true) inside /\
    Forall (fun x => sc_end s <= sc_start x) outside.
Proof.
  induction rest as [|x rest IH]; intros HF HS HW.
  - exists [], []. repeat split; constructor.
  - inversion HF as [|? ? Hx HFr]; subst. inversion HS as [|? ? HSr HFx]; subst.
    inversion HW as [|? ? Hwx HWr]; subst.
    destruct Hx as [Hlt [Hin|Hout]].
    + destruct (IH HFr HSr HWr) as (i & o & -> & Hi & Ho).
      exists (x :: i), o. repeat split; auto. constructor; [|exact Hi].
      apply s_contains_iff. auto.
    + exists [], (x :: rest). repeat split; [constructor|]. constructor; [exact Hout|].
      rewrite Forall_forall in *. intros y Hy. destruct (HFx y Hy) as [H1 _]. lia.
Qed.

Lemma fold_scopes_cons s inside outside :
  Forall (fun x => s_contains s x = true) inside ->
  Forall (fun x => sc_end s <= sc_start x) outside -> Forall swf outside ->
  fold_scopes (s :: inside ++ outside) = Node s (fold_scopes inside) :: fold_scopes outside.
Proof.
  intros Hi Ho Hw. change (s :: inside ++ outside) with ((s :: inside) ++ outside).
  rewrite fold_scopes_split.
  - rewrite fold_scopes_inside; [reflexivity|]. rewrite Forall_forall in Hi. exact Hi.
  - intros a x Ha Hx. destruct outside as [|y o]; inversion Hx; subst y.
    inversion Ho as [|? ? Hox _]; subst. inversion Hw as [|? ? Hwx _]; subst. unfold swf in Hwx.
    apply s_contains_false_iff. intros [A B]. destruct Ha as [<-|Ha]; [lia|].
    rewrite Forall_forall in Hi. apply Hi in Ha. apply s_contains_iff in Ha. lia.
Qed.

Lemma unfold_scopes_cons s F G :
  unfold_scopes (Node s F :: G) = (s, map root_of F) :: unfold_scopes F ++ unfold_scopes G.
Proof. unfold unfold_scopes. cbn [flat_map]. rewrite unfold_tree_eq. reflexivity. Qed.

(* ====================================================================== *)
(* 3. the children cover the contained scopes                              *)
(* ====================================================================== *)

Definition covers (ch : list scope0) (e : scope0) : Prop :=
  exists c, In c ch /\ (c = e \/ s_contains c e = true).

Definition lam_sorted (l : list scope0) : Prop := StronglySorted lam l /\ Forall swf l.

Lemma lam_sorted_cons_inv s rest : lam_sorted (s :: rest) ->
  exists inside outside, rest = inside ++ outside /\
    Forall (fun x => s_contains s x = true) inside /\
    Forall (fun x => sc_end s <= sc_start x) outside /\
    lam_sorted inside /\ lam_sorted outside /\ Forall (lam s) rest /\
    (forall a b, In a inside -> In b outside -> lam a b).
Proof.
  intros [HS HW]. inversion HS as [|? ? HSr HF]; subst. inversion HW as [|? ? Hws HWr]; subst.
  destruct (lam_split s rest HF HSr HWr) as (i & o & -> & Hi & Ho).
  apply SSf_app in HSr. destruct HSr as (S1 & S2 & S3).
  apply Forall_app in HWr. destruct HWr as [W1 W2].
  exists i, o. split; [reflexivity|]. split; [exact Hi|]. split; [exact Ho|].
  split; [split; assumption|]. split; [split; assumption|]. split; [exact HF | exact S3].
Qed.

Lemma roots_cover_n : forall n l, length l <= n -> lam_sorted l ->
  forall e, In e l -> covers (map root_of (fold_scopes l)) e.
Proof.
  induction n as [|n IH]; intros l Hn Hl e He.
  - destruct l; [destruct He | cbn in Hn; lia].
  - destruct l as [|s rest]; [destruct He|].
    destruct (lam_sorted_cons_inv s rest Hl) as (i & o & -> & Hi & Ho & Li & Lo & _ & _).
    rewrite fold_scopes_cons; [|exact Hi|exact Ho|apply Lo]. cbn [map root_of].
    cbn [length] in Hn. rewrite app_length in Hn.
    destruct He as [<-|He]; [exists s; split; [left; reflexivity | left; reflexivity]|].
    apply in_app_or in He. destruct He as [He|He].
    + exists s. split; [left; reflexivity|]. right. rewrite Forall_forall in Hi. apply Hi, He.
    + destruct (IH o ltac:(lia) Lo e He) as (c & Hc & Hce). exists c. split; [right; exact Hc | exact Hce].
Qed.

Lemma roots_cover l : lam_sorted l -> forall e, In e l -> covers (map root_of (fold_scopes l)) e.
Proof. apply (roots_cover_n (length l)). lia. Qed.

Lemma children_cover_n : forall n l, length l <= n -> lam_sorted l ->
  forall sc ch, In (sc, ch) (unfold_scopes (fold_scopes l)) ->
  forall e, In e l -> s_contains sc e = true -> covers ch e.
Proof.
  induction n as [|n IH]; intros l Hn Hl sc ch Hin e He Hc.
  - destruct l; [destruct He | cbn in Hn; lia].
  - destruct l as [|s rest]; [destruct He|].
    destruct (lam_sorted_cons_inv s rest Hl) as (i & o & -> & Hi & Ho & Li & Lo & Hs & Hio).
    rewrite fold_scopes_cons in Hin; [|exact Hi|exact Ho|apply Lo].
    rewrite unfold_scopes_cons in Hin. cbn [length] in Hn. rewrite app_length in Hn.
    rewrite Forall_forall in Hi, Ho, Hs.
    apply s_contains_iff in Hc. destruct Hc as [Hc1 Hc2].
    assert (Hwo : forall x, In x o -> swf x) by (destruct Lo as [_ W]; rewrite Forall_forall in W; exact W).
    destruct Hin as [E|Hin]; [|apply in_app_or in Hin; destruct Hin as [Hin|Hin]].
    + inversion E; subst sc ch. destruct He as [<-|He]; [lia|].
      apply in_app_or in He. destruct He as [He|He].
      * apply roots_cover; assumption.
      * specialize (Ho e He). specialize (Hwo e He). unfold swf in Hwo. lia.
    + pose proof (unfold_fold_In _ _ _ Hin) as [Hsc _].
      assert (Hssc := Hi sc Hsc). apply s_contains_iff in Hssc.
      destruct He as [<-|He]; [lia|]. apply in_app_or in He. destruct He as [He|He].
      * apply (IH i ltac:(lia) Li sc ch Hin e He). apply s_contains_iff. auto.
      * specialize (Ho e He). specialize (Hwo e He). unfold swf in Hwo. lia.
    + pose proof (unfold_fold_In _ _ _ Hin) as [Hsc _].
      destruct He as [<-|He].
      * destruct (Hs sc (in_or_app _ _ _ (or_intror Hsc))) as [H1 _]. lia.
      * apply in_app_or in He. destruct He as [He|He].
        -- destruct (Hio e sc He Hsc) as [H1 _]. lia.
        -- apply (IH o ltac:(lia) Lo sc ch Hin e He). apply s_contains_iff. auto.
Qed.

(* deliverable 3 *)
Theorem children_cover l : lam_sorted l ->
  forall sc ch, In (sc, ch) (unfold_scopes (fold_scopes l)) ->
  (forall c, In c ch -> In c l /\ s_contains sc c = true) /\
  (forall e, In e l -> s_contains sc e = true -> covers ch e).
Proof.
  intros Hl sc ch Hin. split.
  - intros c Hc. split; [apply (unfold_fold_In _ _ _ Hin); exact Hc|].
    pose proof (unfold_fold_children l) as H. rewrite Forall_forall in H.
    specialize (H _ Hin). cbn [fst snd] in H. rewrite Forall_forall in H. apply H, Hc.
  - apply (children_cover_n (length l) l (le_n _) Hl sc ch Hin).
Qed.

(* the flat variant: nothing is dropped when no scope contains another *)
Lemma filter_nested_loop_id : forall l last,
  (forall a, last = Some a -> forall b, In b l -> s_contains a b = false) ->
  (forall a b, In a l -> In b l -> s_contains a b = false) ->
  filter_nested_loop l last = l.
Proof.
  induction l as [|x l IH]; intros last H1 H2; cbn [filter_nested_loop]; [reflexivity|].
  assert (E : filter_nested_loop l (Some x) = l).
  { apply IH.
    - intros a Ha b Hb. inversion Ha; subst a. apply H2; [left; reflexivity | right; exact Hb].
    - intros a b Ha Hb. apply H2; right; assumption. }
  destruct last as [a|]; [|rewrite E; reflexivity].
  rewrite (H1 a eq_refl x (or_introl eq_refl)). rewrite E. reflexivity.
Qed.

Print Assumptions children_cover.
