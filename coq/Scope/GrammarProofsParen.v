(* GrammarProofsParen.v — token facts and the parenthesis-run function groups_len on the
   parenthesis groups of the canonical grammar (Scope/Grammar.v). *)
From Verif Require Import Base Regex Token TokEngine Headers Blocks Spec HeaderSpec Grammar.
Open Scope nat_scope.

(* ---------- normalising nested appends ---------- *)
Ltac norm_app := repeat (progress (rewrite <- ?app_assoc; cbn [app])).
Ltac norm_len := repeat (rewrite app_length || cbn [length]).

(* ---------- token facts ---------- *)
Lemma symbol_kind t s : is_symbol t s = true -> t_kind t = KPunct.
Proof. unfold is_symbol. intros H. apply andb_prop in H as [H _]. destruct (t_kind t); try discriminate; reflexivity. Qed.

Lemma symbol_value t s : is_symbol t s = true -> pystr_eqb (t_value t) s = true.
Proof. unfold is_symbol. intros H. apply andb_prop in H as [_ H]. exact H. Qed.

Lemma symbol_not_name t s : is_symbol t s = true -> is_name t = false.
Proof. intros H. unfold is_name. rewrite (symbol_kind _ _ H). reflexivity. Qed.

Lemma name_not_symbol t s : is_name t = true -> is_symbol t s = false.
Proof. unfold is_name, is_symbol. destruct (t_kind t); try discriminate; reflexivity. Qed.

Lemma keyword_not_symbol t s : is_keyword t = true -> is_symbol t s = false.
Proof. unfold is_keyword, is_symbol. destruct (t_kind t); try discriminate; reflexivity. Qed.

Lemma keyword_not_name t : is_keyword t = true -> is_name t = false.
Proof. unfold is_keyword, is_name. destruct (t_kind t); try discriminate; reflexivity. Qed.

(* a token is a symbol of at most one one-character text *)
Lemma symbol_distinct t a b : is_symbol t [a] = true -> (a =? b)%Z = false -> is_symbol t [b] = false.
Proof.
  unfold is_symbol. intros H Hab. apply andb_prop in H as [_ H].
  destruct (t_value t) as [|x [|y r]]; cbn [pystr_eqb] in *.
  - discriminate.
  - rewrite andb_true_r in H. apply Z.eqb_eq in H. subst x. rewrite Hab. rewrite andb_false_r. reflexivity.
  - rewrite andb_false_r in H. discriminate.
Qed.

Lemma lparen_not_rparen t : is_lparen t = true -> is_rparen t = false.
Proof. intros H. apply (symbol_distinct t 40%Z 41%Z H). reflexivity. Qed.
Lemma lparen_not_lbrace t : is_lparen t = true -> is_lbrace t = false.
Proof. intros H. apply (symbol_distinct t 40%Z 123%Z H). reflexivity. Qed.
Lemma lparen_not_rbrace t : is_lparen t = true -> is_rbrace t = false.
Proof. intros H. apply (symbol_distinct t 40%Z 125%Z H). reflexivity. Qed.
Lemma rparen_not_lparen t : is_rparen t = true -> is_lparen t = false.
Proof. intros H. apply (symbol_distinct t 41%Z 40%Z H). reflexivity. Qed.
Lemma rparen_not_lbrace t : is_rparen t = true -> is_lbrace t = false.
Proof. intros H. apply (symbol_distinct t 41%Z 123%Z H). reflexivity. Qed.
Lemma rparen_not_rbrace t : is_rparen t = true -> is_rbrace t = false.
Proof. intros H. apply (symbol_distinct t 41%Z 125%Z H). reflexivity. Qed.
Lemma lbrace_not_rbrace t : is_lbrace t = true -> is_rbrace t = false.
Proof. intros H. apply (symbol_distinct t 123%Z 125%Z H). reflexivity. Qed.
Lemma lbrace_not_lparen t : is_lbrace t = true -> is_lparen t = false.
Proof. intros H. apply (symbol_distinct t 123%Z 40%Z H). reflexivity. Qed.
Lemma rbrace_not_lbrace t : is_rbrace t = true -> is_lbrace t = false.
Proof. intros H. apply (symbol_distinct t 125%Z 123%Z H). reflexivity. Qed.
Lemma rbrace_not_lparen t : is_rbrace t = true -> is_lparen t = false.
Proof. intros H. apply (symbol_distinct t 125%Z 40%Z H). reflexivity. Qed.
Lemma semi_not_lparen t : is_symbol t semicolon = true -> is_lparen t = false.
Proof. intros H. apply (symbol_distinct t 59%Z 40%Z H). reflexivity. Qed.
Lemma semi_not_lbrace t : is_symbol t semicolon = true -> is_lbrace t = false.
Proof. intros H. apply (symbol_distinct t 59%Z 123%Z H). reflexivity. Qed.
Lemma semi_not_rbrace t : is_symbol t semicolon = true -> is_rbrace t = false.
Proof. intros H. apply (symbol_distinct t 59%Z 125%Z H). reflexivity. Qed.

Lemma plain_inv t : plain t = true ->
  is_lparen t = false /\ is_rparen t = false /\ is_lbrace t = false /\ is_rbrace t = false.
Proof.
  unfold plain. intros H.
  apply andb_prop in H as [H H4]. apply andb_prop in H as [H H3]. apply andb_prop in H as [H1 H2].
  apply negb_true_iff in H1. apply negb_true_iff in H2. apply negb_true_iff in H3. apply negb_true_iff in H4.
  auto.
Qed.

Lemma prefix_tok_plain t : prefix_tok t = true -> plain t = true.
Proof. unfold prefix_tok. intros H. apply andb_prop in H as [_ H]. exact H. Qed.

(* ---------- the head of a list ---------- *)
(* a token at which a run of groups stops and which is not "{" *)
Definition stop_tok (t : token) : bool := negb (is_lparen t) && negb (is_lbrace t).
Definition hd_ok (P : token -> bool) (l : list token) : Prop :=
  match l with [] => True | t :: _ => P t = true end.

Lemma stop_tok_inv t : stop_tok t = true -> is_lparen t = false /\ is_lbrace t = false.
Proof.
  unfold stop_tok. intros H. apply andb_prop in H as [H1 H2].
  apply negb_true_iff in H1. apply negb_true_iff in H2. auto.
Qed.
Lemma stop_tok_intro t : is_lparen t = false -> is_lbrace t = false -> stop_tok t = true.
Proof. unfold stop_tok. intros -> ->. reflexivity. Qed.
Lemma rparen_stop t : is_rparen t = true -> stop_tok t = true.
Proof. intros H. apply stop_tok_intro; [apply rparen_not_lparen | apply rparen_not_lbrace]; exact H. Qed.
Lemma semi_stop t : is_symbol t semicolon = true -> stop_tok t = true.
Proof. intros H. apply stop_tok_intro; [apply semi_not_lparen | apply semi_not_lbrace]; exact H. Qed.

(* ---------- groups are inner sequences ---------- *)
Lemma inner_app a b : inner a -> inner b -> inner (a ++ b).
Proof.
  intros Ha Hb. induction Ha as [|t r Ht Hr IH|o g c r Ho Hg IHg Hc Hr IHr].
  - exact Hb.
  - cbn [app]. apply inner_plain; assumption.
  - replace ((o :: g ++ c :: r) ++ b) with (o :: g ++ c :: (r ++ b)) by (norm_app; reflexivity).
    apply inner_group; assumption.
Qed.

Lemma group_inner g : group g -> inner g.
Proof.
  intros [o g' c Ho Hg Hc]. apply (inner_group o g' c []); try assumption. constructor.
Qed.

Lemma groups_inner gs : groups gs -> inner gs.
Proof.
  induction 1 as [g Hg|g r Hg Hr IH].
  - apply group_inner; exact Hg.
  - apply inner_app; [apply group_inner; exact Hg | exact IH].
Qed.

Lemma group_head g : group g -> exists o r, g = o :: r /\ is_lparen o = true.
Proof. intros [o g' c Ho Hg Hc]. exists o, (g' ++ [c]). split; [reflexivity | exact Ho]. Qed.

Lemma groups_head gs : groups gs -> exists o r, gs = o :: r /\ is_lparen o = true.
Proof.
  induction 1 as [g Hg|g r Hg Hr IH].
  - apply group_head; exact Hg.
  - destruct (group_head g Hg) as (o & r' & -> & Ho). exists o, (r' ++ r). split; [reflexivity | exact Ho].
Qed.

(* ---------- groups_len ---------- *)
Lemma groups_len_inside_plain t r (d : Z) :
  (0 < d)%Z -> is_lparen t = false -> is_rparen t = false -> groups_len (t :: r) d = S (groups_len r d).
Proof.
  intros Hd H1 H2. cbn [groups_len]. apply Z.ltb_lt in Hd. rewrite Hd.
  unfold is_lparen in H1. unfold is_rparen in H2. rewrite H1, H2. reflexivity.
Qed.

Lemma groups_len_inside_lparen t r (d : Z) :
  (0 < d)%Z -> is_lparen t = true -> groups_len (t :: r) d = S (groups_len r (d + 1)).
Proof.
  intros Hd H1. cbn [groups_len]. apply Z.ltb_lt in Hd. rewrite Hd.
  unfold is_lparen in H1. rewrite H1. reflexivity.
Qed.

Lemma groups_len_inside_rparen t r (d : Z) :
  (0 < d)%Z -> is_rparen t = true -> groups_len (t :: r) d = S (groups_len r (d - 1)).
Proof.
  intros Hd H2. cbn [groups_len]. apply Z.ltb_lt in Hd. rewrite Hd.
  pose proof (rparen_not_lparen t H2) as H1.
  unfold is_lparen in H1. unfold is_rparen in H2. rewrite H1, H2. reflexivity.
Qed.

Lemma groups_len_outside_lparen t r : is_lparen t = true -> groups_len (t :: r) 0 = S (groups_len r 1).
Proof. intros H1. cbn [groups_len]. unfold is_lparen in H1. rewrite H1. reflexivity. Qed.

Lemma groups_len_outside_stop t r : is_lparen t = false -> groups_len (t :: r) 0 = 0.
Proof. intros H1. cbn [groups_len]. unfold is_lparen in H1. rewrite H1. reflexivity. Qed.

(* inside a group (depth >= 1) an inner sequence is consumed entirely and leaves the depth unchanged *)
Lemma groups_len_inner g : inner g -> forall (d : Z) rest, (0 < d)%Z ->
  groups_len (g ++ rest) d = length g + groups_len rest d.
Proof.
  induction 1 as [|t r Ht Hr IH|o g c r Ho Hg IHg Hc Hr IHr]; intros d rest Hd.
  - reflexivity.
  - apply plain_inv in Ht as (H1 & H2 & _ & _). cbn [app].
    rewrite groups_len_inside_plain by assumption. rewrite IH by assumption. reflexivity.
  - replace ((o :: g ++ c :: r) ++ rest) with (o :: g ++ c :: (r ++ rest)) by (norm_app; reflexivity).
    rewrite groups_len_inside_lparen by assumption.
    rewrite IHg by lia. rewrite groups_len_inside_rparen by (assumption || lia).
    replace (d + 1 - 1)%Z with d by lia. rewrite IHr by assumption.
    norm_len. lia.
Qed.

(* between groups: the maximal run of groups at the head of an inner sequence followed by a stop
   token (or nothing) ends inside the sequence or at its end, at a token that is not "{" *)
Lemma inner_run_not_lbrace g : inner g -> forall post, hd_ok stop_tok post ->
  groups_len (g ++ post) 0 <= length g /\ sym_at (g ++ post) (groups_len (g ++ post) 0) lbrace = false.
Proof.
  induction 1 as [|t r Ht Hr IH|o g c r Ho Hg IHg Hc Hr IHr]; intros post Hpost.
  - cbn [app length]. destruct post as [|p post'].
    + split; [reflexivity|]. reflexivity.
    + cbn [hd_ok] in Hpost. apply stop_tok_inv in Hpost as [H1 H2].
      rewrite groups_len_outside_stop by exact H1. split; [lia|].
      unfold sym_at. cbn [nth_error]. exact H2.
  - apply plain_inv in Ht as (H1 & _ & H3 & _). cbn [app].
    rewrite groups_len_outside_stop by exact H1. split; [lia|].
    unfold sym_at. cbn [nth_error]. exact H3.
  - replace ((o :: g ++ c :: r) ++ post) with (o :: g ++ c :: (r ++ post)) by (norm_app; reflexivity).
    rewrite groups_len_outside_lparen by exact Ho.
    rewrite (groups_len_inner g Hg 1%Z) by lia.
    rewrite groups_len_inside_rparen by (assumption || lia).
    replace (1 - 1)%Z with 0%Z by lia.
    destruct (IHr post Hpost) as [Hle Hsym]. split.
    + norm_len. lia.
    + replace (S (length g + S (groups_len (r ++ post) 0))) with (length (o :: g ++ [c]) + groups_len (r ++ post) 0)
        by (norm_len; lia).
      replace (o :: g ++ c :: r ++ post) with ((o :: g ++ [c]) ++ (r ++ post)) by (norm_app; reflexivity).
      unfold sym_at. rewrite nth_error_app2 by lia.
      replace (length (o :: g ++ [c]) + groups_len (r ++ post) 0 - length (o :: g ++ [c]))
        with (groups_len (r ++ post) 0) by lia.
      exact Hsym.
Qed.

(* a run of groups followed by a token that is not "(" is consumed exactly *)
Lemma groups_len_groups gs : groups gs -> forall t rest, is_lparen t = false ->
  groups_len (gs ++ t :: rest) 0 = length gs.
Proof.
  induction 1 as [g Hg|g r Hg Hr IH]; intros t rest Ht.
  - destruct Hg as [o g' c Ho Hg' Hc].
    replace ((o :: g' ++ [c]) ++ t :: rest) with (o :: g' ++ c :: t :: rest) by (norm_app; reflexivity).
    rewrite groups_len_outside_lparen by exact Ho.
    rewrite (groups_len_inner g' Hg' 1%Z) by lia.
    rewrite groups_len_inside_rparen by (assumption || lia).
    replace (1 - 1)%Z with 0%Z by lia. rewrite groups_len_outside_stop by exact Ht.
    norm_len. lia.
  - destruct Hg as [o g' c Ho Hg' Hc].
    replace (((o :: g' ++ [c]) ++ r) ++ t :: rest) with (o :: g' ++ c :: (r ++ t :: rest)) by (norm_app; reflexivity).
    rewrite groups_len_outside_lparen by exact Ho.
    rewrite (groups_len_inner g' Hg' 1%Z) by lia.
    rewrite groups_len_inside_rparen by (assumption || lia).
    replace (1 - 1)%Z with 0%Z by lia. rewrite IH by exact Ht.
    norm_len. lia.
Qed.

(* ---------- brace-freeness ---------- *)
Definition brace_free (l : list token) : Prop := Forall (fun t => is_lbrace t = false /\ is_rbrace t = false) l.

Lemma inner_brace_free g : inner g -> brace_free g.
Proof.
  induction 1 as [|t r Ht Hr IH|o g c r Ho Hg IHg Hc Hr IHr].
  - constructor.
  - constructor; [|exact IH]. apply plain_inv in Ht as (_ & _ & H3 & H4). auto.
  - constructor; [split; [apply lparen_not_lbrace | apply lparen_not_rbrace]; exact Ho|].
    apply Forall_app. split; [exact IHg|].
    constructor; [split; [apply rparen_not_lbrace | apply rparen_not_rbrace]; exact Hc | exact IHr].
Qed.

Lemma groups_brace_free gs : groups gs -> brace_free gs.
Proof. intros H. apply inner_brace_free, groups_inner, H. Qed.

Lemma simple_stmt_brace_free s : simple_stmt s -> brace_free s.
Proof.
  intros (body & semi & -> & Hb & Hs). apply Forall_app. split; [apply inner_brace_free; exact Hb|].
  constructor; [|constructor]. split; [apply semi_not_lbrace | apply semi_not_rbrace]; exact Hs.
Qed.

Lemma prefix_brace_free pre : forallb prefix_tok pre = true -> brace_free pre.
Proof.
  intros H. apply Forall_forall. intros t Ht. rewrite forallb_forall in H. apply H in Ht.
  apply prefix_tok_plain in Ht. apply plain_inv in Ht as (_ & _ & H3 & H4). auto.
Qed.
