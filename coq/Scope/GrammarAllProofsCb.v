(* GrammarAllProofsCb.v — the front of a callback statement (rule io_cb of GrammarAll.v):
   `a ++ tail ++ [o]` with a = an open parenthesis prefix (open_prefix), tail = `function (…)+` or `(…)+ =>`.
   A candidate whose parenthesis group is still open at the callback's "{" runs through the body to its matching
   ")" in `post` and is rejected there (the next token is ")" or ";"); a candidate that ends inside `a` is
   followed by a token of `a` (no brace, no ":" operator).  No shape is accepted in `a ++ tail ++ [o]`. *)
From Verif Require Import Base Regex Token TokEngine Headers Blocks Spec HeaderSpec LexShapes Grammar GrammarAll.
From Verif Require Import GrammarProofsParen GrammarProofsBrace GrammarProofsHeaders GrammarAllProofsTok.
From Verif Require Import GrammarAllProofsSel GrammarAllProofsCand.
Open Scope nat_scope.

(* ---------- lists consumed by the group run at depth >= 1, with their gain of depth ---------- *)
Definition pgain (x : list token) (k : nat) : Prop :=
  forall (d : Z) rest, (0 < d)%Z -> groups_len (x ++ rest) d = length x + groups_len rest (d + Z.of_nat k).

Lemma pgain_nil : pgain [] 0.
Proof. intros d rest Hd. cbn [app length Z.of_nat]. rewrite Z.add_0_r. reflexivity. Qed.

Lemma pgain_app x1 k1 x2 k2 : pgain x1 k1 -> pgain x2 k2 -> pgain (x1 ++ x2) (k1 + k2).
Proof.
  intros H1 H2 d rest Hd. rewrite <- app_assoc, H1 by exact Hd. rewrite H2 by lia.
  rewrite app_length, Nat2Z.inj_add, Z.add_assoc. lia.
Qed.

Lemma pgain_app0 x1 x2 k : pgain x1 0 -> pgain x2 k -> pgain (x1 ++ x2) k.
Proof. intros H1 H2. exact (pgain_app x1 0 x2 k H1 H2). Qed.

Lemma pgain_of_eq x : (forall (d : Z) rest, (0 < d)%Z -> groups_len (x ++ rest) d = length x + groups_len rest d) -> pgain x 0.
Proof. intros H d rest Hd. cbn [Z.of_nat]. rewrite Z.add_0_r. apply H. exact Hd. Qed.

Lemma pgain_single t : is_lparen t = false -> is_rparen t = false -> pgain [t] 0.
Proof. intros H1 H2. apply pgain_of_eq. intros d rest Hd. cbn [app length]. rewrite groups_len_inside_plain by assumption. reflexivity. Qed.

Lemma pgain_lparen t : is_lparen t = true -> pgain [t] 1.
Proof. intros H d rest Hd. cbn [app length]. rewrite groups_len_inside_lparen by assumption. reflexivity. Qed.

Lemma pgain_inner g : inner g -> pgain g 0.
Proof. intros H. apply pgain_of_eq. intros d rest Hd. apply groups_len_inner; assumption. Qed.

Lemma pgain_binner ok g : binner ok g -> pgain g 0.
Proof. intros H. apply pgain_of_eq. intros d rest Hd. apply (groups_len_binner ok); assumption. Qed.

Lemma pgain_plains ps : forallb plain ps = true -> pgain ps 0.
Proof. intros H. apply pgain_of_eq. intros d rest Hd. apply groups_len_plains; assumption. Qed.

Lemma pgain_groups gs : groups gs -> pgain gs 0.
Proof. intros H. apply pgain_inner, groups_inner, H. Qed.

Lemma pgain_bgroups gs : bgroups gs -> pgain gs 0.
Proof.
  induction 1 as [g Hg|g r Hg Hr IH].
  - destruct Hg as [o g' c Ho Hg' Hc]. apply (pgain_binner BSafe). replace (o :: g' ++ [c]) with (o :: g' ++ c :: []) by reflexivity.
    apply bi_group; [exact Ho | exact Hg' | exact Hc | apply bi_nil].
  - apply pgain_app0; [|exact IH]. destruct Hg as [o g' c Ho Hg' Hc]. apply (pgain_binner BSafe).
    replace (o :: g' ++ [c]) with (o :: g' ++ c :: []) by reflexivity.
    apply bi_group; [exact Ho | exact Hg' | exact Hc | apply bi_nil].
Qed.

Lemma pgain_cons t x k : is_lparen t = false -> is_rparen t = false -> pgain x k -> pgain (t :: x) k.
Proof. intros H1 H2 H. change (t :: x) with ([t] ++ x). apply pgain_app0; [apply pgain_single; assumption | exact H]. Qed.

Lemma name_noparen t : is_name t = true -> is_lparen t = false /\ is_rparen t = false.
Proof. intros H. split; apply name_not_symbol; exact H. Qed.
Lemma keyword_noparen t : is_keyword t = true -> is_lparen t = false /\ is_rparen t = false.
Proof. intros H. split; apply keyword_not_symbol; exact H. Qed.
Lemma operator_noparen t s : is_operator t s = true -> is_lparen t = false /\ is_rparen t = false.
Proof. intros H. split; eapply operator_not_symbol; exact H. Qed.
Lemma arrow_noparen t : is_symbol t s_arrow = true -> is_lparen t = false /\ is_rparen t = false.
Proof. intros H. split; apply (symbol_other t s_arrow); try exact H; discriminate. Qed.
Lemma lbrace_noparen t : is_lbrace t = true -> is_lparen t = false /\ is_rparen t = false.
Proof. intros H. split; [apply lbrace_not_lparen | apply lbrace_not_rparen]; exact H. Qed.
Lemma rbrace_noparen t : is_rbrace t = true -> is_lparen t = false /\ is_rparen t = false.
Proof. intros H. split; [apply rbrace_not_lparen | apply rbrace_not_rparen]; exact H. Qed.
Lemma semi_noparen t : is_symbol t semicolon = true -> is_lparen t = false /\ is_rparen t = false.
Proof. intros H. split; apply (symbol_other t semicolon); try exact H; discriminate. Qed.

Lemma pgain_tok t x k : (is_lparen t = false /\ is_rparen t = false) -> pgain x k -> pgain (t :: x) k.
Proof. intros [H1 H2]. apply pgain_cons; assumption. Qed.

Lemma pgain_words ws : forallb word_tok ws = true -> pgain ws 0.
Proof.
  induction ws as [|t ws IH]; intros H; [apply pgain_nil|].
  cbn [forallb] in H. apply andb_prop in H as [Ht H]. apply pgain_tok; [|apply IH; exact H].
  unfold word_tok in Ht. apply orb_prop in Ht as [Ht|Ht]; [apply name_noparen | apply keyword_noparen]; exact Ht.
Qed.

Lemma pgain_group o g c : is_lparen o = true -> inner g -> is_rparen c = true -> pgain (o :: g ++ [c]) 0.
Proof. intros Ho Hg Hc. apply pgain_inner. apply (inner_group o g c []); try assumption. constructor. Qed.

Lemma pgain_type_seq ty : type_seq ty -> pgain ty 0.
Proof.
  induction 1 as [|t r Ht _ _ IH|o g c r Ho Hg Hc _ IH].
  - apply pgain_nil.
  - apply type_tok_clause, clause_tok_plain, plain_inv in Ht as (H1 & H2 & _). apply pgain_cons; assumption.
  - replace (o :: g ++ c :: r) with ((o :: g ++ [c]) ++ r) by (norm_app; reflexivity).
    apply pgain_app0; [apply pgain_group; assumption | exact IH].
Qed.

Lemma pgain_clause cl : forallb clause_tok cl = true -> pgain cl 0.
Proof.
  intros H. apply pgain_plains. apply forallb_forall. intros t Ht. rewrite forallb_forall in H. apply clause_tok_plain, H, Ht.
Qed.

Lemma pgain_snoc x k t : pgain x k -> (is_lparen t = false /\ is_rparen t = false) -> pgain (x ++ [t]) k.
Proof.
  intros H [H1 H2]. replace k with (k + 0) by lia. apply pgain_app; [exact H | apply pgain_single; assumption].
Qed.

(* the heads *)
Lemma fhead_pgain l hd n h : fhead l hd n h -> pgain hd 0.
Proof.
  intros H. destruct H;
    repeat first [ apply pgain_tok; [first [apply name_noparen; assumption | eapply keyword_noparen, kw_is_keyword; eassumption
                                            | eapply operator_noparen; eassumption]|]
                 | apply pgain_app0; [first [apply pgain_groups; assumption | apply pgain_bgroups; assumption]|]
                 | apply pgain_groups; assumption | apply pgain_bgroups; assumption
                 | apply pgain_clause; assumption | apply pgain_type_seq; assumption
                 | (apply pgain_tok; [apply arrow_noparen; assumption | apply pgain_nil]) ].
Qed.

(* an open prefix gains its number of open parentheses *)
Lemma pgain_open_prefix a d : open_prefix a d -> pgain a d.
Proof.
  induction 1 as [|t a d Ht _ _ IH|t a d Ht _ IH|t a d Ht _ IH].
  - apply pgain_nil.
  - apply pgain_snoc; [exact IH|]. apply plain_inv in Ht as (H1 & H2 & _). auto.
  - replace (S d) with (d + 1) by lia. apply pgain_app; [exact IH | apply pgain_lparen; exact Ht].
  - intros dd rest Hd. rewrite <- app_assoc, IH by exact Hd. cbn [app].
    rewrite groups_len_inside_rparen by (try assumption; lia). rewrite app_length. cbn [length].
    replace (dd + Z.of_nat (S d) - 1)%Z with (dd + Z.of_nat d)%Z by lia. lia.
Qed.

(* closing parentheses *)
Lemma groups_len_closers post : forallb is_rparen post = true -> forall (d : Z) rest, (0 <= d)%Z ->
  groups_len (post ++ rest) (d + Z.of_nat (length post)) = length post + groups_len rest d.
Proof.
  induction post as [|c post IH]; intros H d rest Hd.
  - cbn [app length Z.of_nat]. rewrite Z.add_0_r. reflexivity.
  - cbn [forallb] in H. apply andb_prop in H as [Hc H]. cbn [app length].
    rewrite groups_len_inside_rparen by (try assumption; lia).
    replace (d + Z.of_nat (S (length post)) - 1)%Z with (d + Z.of_nat (length post))%Z by lia.
    rewrite IH by assumption. reflexivity.
Qed.

Lemma pgain_cb_tail tail : cb_tail tail -> pgain tail 0.
Proof.
  intros [fk gs Hfk Hgs|gs arrow Hgs Har].
  - apply pgain_tok; [eapply keyword_noparen, kw_is_keyword; exact Hfk | apply pgain_groups; exact Hgs].
  - apply pgain_snoc; [apply pgain_groups; exact Hgs | apply arrow_noparen; exact Har].
Qed.

(* ---------- the facts at the end of a group run that make every follow-up fail ---------- *)
Definition RF (W : list token) : Prop :=
  sym_at W (groups_len W 0) lbrace = false /\ op_at W (groups_len W 0) s_colon = false /\
  (sym_at W (groups_len W 0) s_arrow = true -> sym_at W (S (groups_len W 0)) lbrace = false).

Lemma RF_plain_head t W :
  is_lparen t = false -> is_lbrace t = false -> is_operator t s_colon = false ->
  (is_symbol t s_arrow = true -> sym_at W 0 lbrace = false) -> RF (t :: W).
Proof.
  intros H1 H2 H3 H4. unfold RF. rewrite groups_len_outside_stop by exact H1.
  unfold sym_at at 1 2, op_at. cbn [nth_error]. split; [exact H2|]. split; [exact H3|].
  intros Ha. change (sym_at (t :: W) 1 lbrace) with (sym_at W 0 lbrace). apply H4. exact Ha.
Qed.

Lemma RF_nil : RF [].
Proof. unfold RF. cbn. repeat split; auto. Qed.

Lemma RF_group o g c W : is_lparen o = true -> pgain g 0 -> is_rparen c = true -> RF W -> RF ((o :: g ++ [c]) ++ W).
Proof.
  intros Ho Hg Hc (R1 & R2 & R3).
  assert (E : groups_len ((o :: g ++ [c]) ++ W) 0 = length (o :: g ++ [c]) + groups_len W 0).
  { replace ((o :: g ++ [c]) ++ W) with (o :: g ++ c :: W) by (norm_app; reflexivity).
    rewrite groups_len_outside_lparen by exact Ho. rewrite Hg by lia. cbn [Z.of_nat]. rewrite Z.add_0_r.
    rewrite groups_len_inside_rparen by (assumption || lia). replace (1 - 1)%Z with 0%Z by lia. norm_len. lia. }
  unfold RF. rewrite E.
  replace (S (length (o :: g ++ [c]) + groups_len W 0)) with (length (o :: g ++ [c]) + S (groups_len W 0)) by lia.
  rewrite !sym_at_shift, op_at_shift. repeat split; assumption.
Qed.

(* what may follow an inner sequence of the prefix: an open parenthesis whose run is rejected, or "," *)
Definition cont (Y : list token) : Prop :=
  exists y Y', Y = y :: Y' /\ ((is_lparen y = true /\ RF Y) \/ is_symbol y s_comma = true).

Lemma comma_facts y : is_symbol y s_comma = true ->
  is_lparen y = false /\ is_lbrace y = false /\ is_operator y s_colon = false /\ is_symbol y s_arrow = false.
Proof.
  intros H. split; [apply (symbol_other y s_comma); [exact H | discriminate]|].
  split; [apply (symbol_other y s_comma); [exact H | discriminate]|].
  split; [eapply symbol_not_operator; exact H | apply (symbol_other y s_comma); [exact H | discriminate]].
Qed.

Lemma cont_head Y : cont Y -> sym_at Y 0 lbrace = false.
Proof.
  intros (y & Y' & -> & [[H _]|H]); unfold sym_at; cbn [nth_error].
  - apply lparen_not_lbrace. exact H.
  - apply comma_facts in H. apply H.
Qed.

Definition nocolon (t : token) : Prop := is_operator t s_colon = false.

Lemma inner_cont_RF g : inner g -> Forall nocolon g -> forall Y, cont Y -> RF (g ++ Y).
Proof.
  induction 1 as [|t r Ht Hr IH|o g c r Ho Hg IHg Hc Hr IHr]; intros Hnc Y HY.
  - cbn [app]. pose proof HY as (y & Y' & -> & [[_ H]|H]); [exact H|].
    apply comma_facts in H as (H1 & H2 & H3 & H4). apply RF_plain_head; try assumption. congruence.
  - inversion Hnc as [|? ? N1 N2]; subst. apply plain_inv in Ht as (H1 & _ & H3 & _). cbn [app].
    apply RF_plain_head; try assumption. intros _.
    destruct r as [|x r']; [cbn [app]; apply cont_head; exact HY|].
    pose proof (inner_brace_free _ Hr) as Hbf. inversion Hbf as [|? ? [Q _] _]; subst.
    unfold sym_at. cbn [app nth_error]. exact Q.
  - replace ((o :: g ++ c :: r) ++ Y) with ((o :: g ++ [c]) ++ (r ++ Y)) by (norm_app; reflexivity).
    apply RF_group; [exact Ho | apply pgain_inner; exact Hg | exact Hc|].
    apply IHr; [|exact HY]. inversion Hnc as [|? ? _ N2]; subst. apply Forall_app in N2 as [_ N2].
    inversion N2; assumption.
Qed.

(* suffixes of such a sequence at its top level *)
Definition fsuf (W : list token) : Prop := exists g Y, W = g ++ Y /\ inner g /\ Forall nocolon g /\ cont Y.

Lemma fsuf_RF v : fsuf v -> RF v.
Proof. intros (g & Y & -> & Hg & Hnc & HY). apply inner_cont_RF; assumption. Qed.

Lemma fsuf_tail x w : fsuf (x :: w) -> is_lparen x = false -> is_symbol x s_comma = false -> fsuf w.
Proof.
  intros (g & Y & E & Hg & Hnc & HY) H1 H2. destruct Hg as [|t r Ht Hr|o g c r Ho Hg Hc Hr].
  - cbn [app] in E. destruct HY as (y & Y' & -> & [[H _]|H]); injection E as -> _; congruence.
  - cbn [app] in E. injection E as -> ->. inversion Hnc; subst. exists r, Y. auto.
  - cbn [app] in E. injection E as -> _. congruence.
Qed.

Lemma fsuf_tail_name x w : fsuf (x :: w) -> is_name x = true -> fsuf w.
Proof. intros H Hn. apply (fsuf_tail x w H); apply (name_not_symbol _ _ Hn). Qed.
Lemma fsuf_tail_keyword x w : fsuf (x :: w) -> is_keyword x = true -> fsuf w.
Proof. intros H Hn. apply (fsuf_tail x w H); apply (keyword_not_symbol _ _ Hn). Qed.
Lemma fsuf_tail_operator x w s : fsuf (x :: w) -> is_operator x s = true -> fsuf w.
Proof. intros H Hn. apply (fsuf_tail x w H); apply (operator_not_symbol _ _ _ Hn). Qed.

(* follow-up tests that fail on RF *)
Definition frejects (f : follow_fn) : Prop := forall v, RF v -> f v (groups_len v 0) = false.

Lemma frejects_brace : frejects follow_brace.
Proof. intros v (H & _). exact H. Qed.

Lemma frejects_rettype : frejects follow_rettype.
Proof. intros v (H1 & H2 & _). unfold follow_rettype. rewrite H1, H2. reflexivity. Qed.

(* the candidate functions at the head of such a suffix *)
Lemma fsuf_plain f w : fshift f -> frejects f -> fsuf w -> acc cand_plain f w 0 = None.
Proof.
  intros Hf Hr Hw. destruct w as [|t W]; [reflexivity|]. apply acc_none_intro. intros n j E.
  rewrite cand_plain_0 in E. destruct (is_name t) eqn:En; [|discriminate].
  pose proof (fsuf_tail_name t W Hw En) as HW.
  destruct (ge0 W) as [e|] eqn:Ee; [|discriminate]. injection E as <- <-.
  rewrite (fshift_S f t W e Hf). destruct (ge0_some W e Ee) as [-> _]. apply Hr. apply fsuf_RF. exact HW.
Qed.

Lemma fsuf_function f w : fshift f -> frejects f -> fsuf w -> acc cand_function f w 0 = None.
Proof.
  intros Hf Hr Hw. destruct w as [|t W]; [reflexivity|].
  destruct (kw_is t s_function) eqn:Ek.
  - apply acc_none_intro. intros n j E. rewrite cand_function_0, Ek in E.
    pose proof (fsuf_tail_keyword t W Hw (kw_is_keyword _ _ Ek)) as HW.
    destruct W as [|x W']; [discriminate|]. rewrite cand_plain_0 in E.
    destruct (is_name x) eqn:En; [|discriminate].
    pose proof (fsuf_tail_name x W' HW En) as HW'.
    destruct (ge0 W') as [e|] eqn:Ee; [|discriminate]. cbn [shift1] in E. injection E as <- <-.
    rewrite !(fshift_S f _ _ _ Hf). destruct (ge0_some W' e Ee) as [-> _]. apply Hr. apply fsuf_RF. exact HW'.
  - rewrite (acc_same cand_function cand_plain) by (rewrite cand_function_0, Ek; reflexivity).
    apply fsuf_plain; assumption.
Qed.

Lemma f_arrow_tail pre v j : fsuf v -> groups_end (pre ++ v) (length pre) = Some j ->
  sym_at (pre ++ v) j s_arrow = true -> sym_at (pre ++ v) (S j) lbrace = false.
Proof.
  intros Hv E. apply groups_end_pre in E as [-> _]. rewrite sym_at_shift.
  replace (S (length pre + groups_len v 0)) with (length pre + S (groups_len v 0)) by lia.
  rewrite sym_at_shift. apply (fsuf_RF _ Hv).
Qed.

Lemma fsuf_arrow_nc w : fsuf w -> forall n j, arrow_nc w = Some (n, j) -> sym_at w j lbrace = false.
Proof.
  intros Hw n j E. unfold arrow_nc in E.
  destruct w as [|x0 w1]; [discriminate|]. change (name_at (x0 :: w1) 0) with (is_name x0) in E.
  destruct (is_name x0) eqn:E0; [|discriminate]. cbn [andb] in E.
  pose proof (fsuf_tail_name x0 w1 Hw E0) as H1.
  destruct w1 as [|x1 w2]; [discriminate|]. change (op_at (x0 :: x1 :: w2) 1 s_eq) with (is_operator x1 s_eq) in E.
  destruct (is_operator x1 s_eq) eqn:E1; [|discriminate].
  pose proof (fsuf_tail_operator x1 w2 s_eq H1 E1) as H2.
  destruct w2 as [|x2 w3].
  - discriminate.
  - change (kw_at (x0 :: x1 :: x2 :: w3) 2 s_async) with (kw_is x2 s_async) in E.
    destruct (kw_is x2 s_async) eqn:E2; cbv zeta iota in E.
    + pose proof (fsuf_tail_keyword x2 w3 H2 (kw_is_keyword _ _ E2)) as H3.
      destruct (groups_end (x0 :: x1 :: x2 :: w3) 3) as [j0|] eqn:Eg; [|discriminate].
      destruct (sym_at (x0 :: x1 :: x2 :: w3) j0 s_arrow) eqn:Ea; [|discriminate]. injection E as <- <-.
      exact (f_arrow_tail [x0; x1; x2] w3 j0 H3 Eg Ea).
    + destruct (groups_end (x0 :: x1 :: x2 :: w3) 2) as [j0|] eqn:Eg; [|discriminate].
      destruct (sym_at (x0 :: x1 :: x2 :: w3) j0 s_arrow) eqn:Ea; [|discriminate]. injection E as <- <-.
      exact (f_arrow_tail [x0; x1] (x2 :: w3) j0 H2 Eg Ea).
Qed.

Lemma fsuf_arrow w : fsuf w -> acc cand_arrow follow_brace w 0 = None.
Proof.
  intros Hw. destruct w as [|t W]; [reflexivity|]. apply acc_none_intro. intros n j E.
  rewrite cand_arrow_0 in E. destruct (kw_is t s_const) eqn:Ek.
  - pose proof (fsuf_tail_keyword t W Hw (kw_is_keyword _ _ Ek)) as HW.
    destruct (arrow_nc W) as [[n' j']|] eqn:Ea; [|discriminate]. cbn [shift1] in E. injection E as <- <-.
    rewrite follow_brace_S. exact (fsuf_arrow_nc W HW n' j' Ea).
  - exact (fsuf_arrow_nc (t :: W) Hw n j E).
Qed.

(* ---------- the open prefix as frames ---------- *)
Inductive oframes : list token -> nat -> Prop :=
| of_base g : inner g -> Forall nocolon g -> oframes g 0
| of_open g o rest d : inner g -> Forall nocolon g -> is_lparen o = true -> oframes rest d -> oframes (g ++ o :: rest) (S d).

Lemma paren_nocolon t s : is_symbol t s = true -> nocolon t.
Proof. intros H. unfold nocolon. eapply symbol_not_operator. exact H. Qed.

Lemma oframes_snoc_plain a d t : oframes a d -> plain t = true -> nocolon t -> oframes (a ++ [t]) d.
Proof.
  intros H Ht Hn. induction H as [g Hg Hnc|g o rest d Hg Hnc Ho Hr IH].
  - apply of_base.
    + apply inner_app; [exact Hg|]. apply inner_plain; [exact Ht | constructor].
    + apply Forall_app. split; [exact Hnc | constructor; [exact Hn | constructor]].
  - replace ((g ++ o :: rest) ++ [t]) with (g ++ o :: (rest ++ [t])) by (norm_app; reflexivity).
    apply of_open; assumption.
Qed.

Lemma oframes_snoc_open a d t : oframes a d -> is_lparen t = true -> oframes (a ++ [t]) (S d).
Proof.
  intros H Ht. induction H as [g Hg Hnc|g o rest d Hg Hnc Ho Hr IH].
  - apply (of_open g t [] 0); try assumption. apply of_base; constructor.
  - replace ((g ++ o :: rest) ++ [t]) with (g ++ o :: (rest ++ [t])) by (norm_app; reflexivity).
    apply of_open; assumption.
Qed.

Lemma oframes_snoc_close a n : oframes a n -> forall d t, n = S d -> is_rparen t = true -> oframes (a ++ [t]) d.
Proof.
  induction 1 as [g Hg Hnc|g o rest d0 Hg Hnc Ho Hr IH]; intros d t E Ht; [discriminate|].
  injection E as ->.
  replace ((g ++ o :: rest) ++ [t]) with (g ++ o :: (rest ++ [t])) by (norm_app; reflexivity).
  destruct d as [|d'].
  - inversion Hr as [g2 Hg2 Hnc2|]; subst. apply of_base.
    + apply inner_app; [exact Hg|]. apply (inner_group o rest t []); try assumption. constructor.
    + apply Forall_app. split; [exact Hnc|]. constructor; [eapply paren_nocolon; exact Ho|].
      apply Forall_app. split; [exact Hnc2|]. constructor; [eapply paren_nocolon; exact Ht | constructor].
  - apply of_open; try assumption. apply (IH d' t eq_refl Ht).
Qed.

Lemma open_prefix_frames a d : open_prefix a d -> oframes a d.
Proof.
  induction 1 as [|t a d Ht Hc _ IH|t a d Ht _ IH|t a d Ht _ IH].
  - apply of_base; constructor.
  - apply oframes_snoc_plain; assumption.
  - apply oframes_snoc_open; assumption.
  - apply (oframes_snoc_close a (S d) IH d t eq_refl Ht).
Qed.

Lemma pgain_frames a k : oframes a k -> pgain a k.
Proof.
  induction 1 as [g Hg Hnc|g o rest d Hg Hnc Ho Hr IH].
  - apply pgain_inner. exact Hg.
  - apply pgain_app0; [apply pgain_inner; exact Hg|].
    change (o :: rest) with ([o] ++ rest). replace (S d) with (1 + d) by lia.
    apply pgain_app; [apply pgain_lparen; exact Ho | exact IH].
Qed.

(* ---------- a group still open at the callback runs to its ")" and is followed by ")" or ";" ---------- *)
Lemma long_run o X k post1 Z :
  is_lparen o = true -> pgain X k -> forallb is_rparen post1 = true -> length post1 = S k -> hd_ok closer Z ->
  RF (o :: X ++ post1 ++ Z).
Proof.
  intros Ho HX Hp Hl HZ.
  assert (EZ : groups_len Z 0 = 0).
  { destruct Z as [|z Z]; [reflexivity|]. cbn [hd_ok] in HZ. apply closer_inv in HZ as (_ & _ & H & _).
    apply groups_len_outside_stop. exact H. }
  assert (E : groups_len (o :: X ++ post1 ++ Z) 0 = length (o :: X ++ post1)).
  { rewrite groups_len_outside_lparen by exact Ho. rewrite HX by lia.
    replace (1 + Z.of_nat k)%Z with (0 + Z.of_nat (length post1))%Z by lia.
    rewrite groups_len_closers by (assumption || lia). rewrite EZ. norm_len. lia. }
  unfold RF. rewrite E.
  replace (o :: X ++ post1 ++ Z) with ((o :: X ++ post1) ++ Z) by (norm_app; reflexivity).
  replace (S (length (o :: X ++ post1))) with (length (o :: X ++ post1) + 1) by lia.
  replace (length (o :: X ++ post1)) with (length (o :: X ++ post1) + 0) at 1 2 3 by lia.
  rewrite !sym_at_shift, op_at_shift.
  destruct Z as [|z Z]; [repeat split; auto; discriminate|]. cbn [hd_ok] in HZ.
  unfold sym_at, op_at. cbn [nth_error].
  pose proof (closer_inv z HZ) as (_ & H1 & _ & H2 & _). split; [exact H1|]. split; [|congruence].
  unfold closer in HZ. apply orb_prop in HZ as [HZ|HZ]; eapply symbol_not_operator; exact HZ.
Qed.

(* ---------- no accepted candidate in the front of a callback statement ---------- *)
Section CbFront.
  Variable l : language.
  Variable c : cand_fn.
  Variable f : follow_fn.
  Hypothesis G : good l c f.
  Hypothesis Hfs : forall w, fsuf w -> acc c f w 0 = None.

  Let Hc := g_c _ _ _ G.
  Let Hf := g_f _ _ _ G.

  Lemma inner_fs_no_acc g : inner g -> Forall nocolon g -> forall Y, cont Y -> no_acc c f g Y.
  Proof.
    induction 1 as [|t r Ht Hr IH|o g c0 r Ho Hg IHg Hc0 Hr IHr]; intros Hnc Y HY.
    - apply no_acc_nil.
    - inversion Hnc as [|? ? N1 N2]; subst. apply (no_acc_cons c f Hc Hf); [|apply IH; assumption].
      apply Hfs. exists (t :: r), Y. split; [reflexivity|]. split; [apply inner_plain; assumption|]. split; assumption.
    - inversion Hnc as [|? ? _ N2]; subst. apply Forall_app in N2 as [_ N2]. inversion N2 as [|? ? _ N3]; subst.
      change (o :: g ++ c0 :: r) with ([o] ++ g ++ [c0] ++ r).
      apply (no_acc_app c f Hc Hf); [eapply (symbol_no_acc l c f G); exact Ho|].
      apply (no_acc_app c f Hc Hf).
      + apply (inner_no_acc l c f G); [exact Hg|]. cbn [app hd_ok]. apply rparen_closer. exact Hc0.
      + apply (no_acc_app c f Hc Hf); [eapply (symbol_no_acc l c f G); exact Hc0 | apply IHr; assumption].
  Qed.

  (* t = the last token of the prefix ("(" with gain 1, or "," with gain 0), M = what follows up to the body's "}" *)
  Lemma frames_no_acc a k : oframes a k -> forall t mt M postA Z,
    ((is_lparen t = true /\ mt = 1) \/ (is_symbol t s_comma = true /\ mt = 0)) ->
    pgain M 0 -> forallb is_rparen postA = true -> length postA = k + mt -> hd_ok closer Z ->
    no_acc c f a (t :: M ++ postA ++ Z).
  Proof.
    induction 1 as [g Hg Hnc|g o rest d Hg Hnc Ho Hr IH]; intros t mt M postA Z Ht HM Hp Hl HZ.
    - apply inner_fs_no_acc; try assumption.
      exists t, (M ++ postA ++ Z). split; [reflexivity|]. destruct Ht as [[Ht ->]|[Ht ->]]; [left | right; exact Ht].
      split; [exact Ht|]. apply (long_run t M 0 postA Z); assumption.
    - assert (Hgt : pgain [t] mt).
      { destruct Ht as [[Ht ->]|[Ht ->]]; [apply pgain_lparen; exact Ht|].
        apply pgain_single; apply (symbol_other t s_comma); try exact Ht; discriminate. }
      assert (Hgain : pgain (rest ++ t :: M) (d + mt)).
      { apply pgain_app; [apply pgain_frames; exact Hr|]. change (t :: M) with ([t] ++ M). replace mt with (mt + 0) by lia.
        apply pgain_app; assumption. }
      apply (no_acc_app c f Hc Hf).
      + apply inner_fs_no_acc; try assumption.
        exists o, (rest ++ t :: M ++ postA ++ Z). split; [reflexivity|]. left. split; [exact Ho|].
        cbn [app]. replace (o :: rest ++ t :: M ++ postA ++ Z) with (o :: (rest ++ t :: M) ++ postA ++ Z) by (norm_app; reflexivity).
        apply (long_run o (rest ++ t :: M) (d + mt) postA Z); assumption.
      + apply (no_acc_cons c f Hc Hf).
        * apply (g_sym _ _ _ G); [eapply symbol_not_name | eapply symbol_not_keyword]; exact Ho.
        * assert (Hne : postA <> []) by (intros ->; cbn [length] in Hl; lia).
          destruct (exists_last Hne) as (postA' & cl & ->).
          rewrite forallb_app in Hp. apply andb_prop in Hp as [Hp1 Hp2]. cbn [forallb] in Hp2. rewrite andb_true_r in Hp2.
          replace (t :: M ++ (postA' ++ [cl]) ++ Z) with (t :: M ++ postA' ++ (cl :: Z)) by (norm_app; reflexivity).
          apply (IH t mt M postA' (cl :: Z)); try assumption.
          -- rewrite app_length in Hl. cbn [length] in Hl. lia.
          -- cbn [hd_ok]. apply rparen_closer. exact Hp2.
  Qed.

  Lemma cb_tail_no_acc tail o B : cb_tail tail -> is_lbrace o = true -> no_acc c f (tail ++ [o]) B.
  Proof.
    intros Ht Ho. apply (no_acc_app c f Hc Hf); [|eapply (symbol_no_acc l c f G); exact Ho].
    destruct Ht as [fk gs Hfk Hgs|gs arrow Hgs Har].
    - apply (no_acc_cons c f Hc Hf); [|apply (groups_no_acc l c f G); exact Hgs].
      apply (g_wlist _ _ _ G). destruct (groups_head gs Hgs) as (p & r & -> & Hp). cbn [app].
      apply wl_group; [|apply keyword_not_name; eapply kw_is_keyword; exact Hfk | exact Hp].
      unfold word. rewrite (kw_is_keyword _ _ Hfk). apply orb_true_r.
    - apply (no_acc_app c f Hc Hf); [apply (groups_no_acc l c f G); exact Hgs|].
      eapply (symbol_no_acc l c f G). exact Har.
  Qed.

  (* the whole front: prefix, tail, "{" — in front of a body that the group run consumes *)
  Theorem cb_front_no_acc a tail o body cl post semi R :
    a <> [] -> open_prefix a (length post) ->
    (is_lparen (last a o) = true \/ is_symbol (last a o) s_comma = true) ->
    cb_tail tail -> is_lbrace o = true -> is_rbrace cl = true ->
    forallb is_rparen post = true -> is_symbol semi semicolon = true -> pgain body 0 ->
    no_acc c f (a ++ tail ++ [o]) (body ++ cl :: post ++ semi :: R).
  Proof.
    intros Hne Hop Hlast Htail Ho Hcl Hpost Hsemi Hbody.
    assert (HM : pgain (tail ++ o :: body ++ [cl]) 0).
    { apply pgain_app0; [apply pgain_cb_tail; exact Htail|]. apply pgain_tok; [apply lbrace_noparen; exact Ho|].
      apply pgain_snoc; [exact Hbody | apply rbrace_noparen; exact Hcl]. }
    assert (HZ : hd_ok closer (semi :: R)) by (cbn [hd_ok]; apply semi_closer; exact Hsemi).
    assert (Hdec : exists a' t mt k, a = a' ++ [t] /\ oframes a' k /\ length post = k + mt /\
                     ((is_lparen t = true /\ mt = 1) \/ (is_symbol t s_comma = true /\ mt = 0))).
    { destruct Hop as [|t a0 d Ht Hc0 Ha0|t a0 d Ht Ha0|t a0 d Ht Ha0]; [congruence| | |].
      - rewrite last_last in Hlast. exists a0, t, 0, d. split; [reflexivity|]. split; [apply open_prefix_frames; exact Ha0|].
        split; [lia|]. right. split; [|reflexivity]. destruct Hlast as [H|H]; [|exact H].
        apply plain_inv in Ht as (H1 & _). congruence.
      - exists a0, t, 1, d. split; [reflexivity|]. split; [apply open_prefix_frames; exact Ha0|]. split; [lia|]. left. auto.
      - rewrite last_last in Hlast. exfalso. destruct Hlast as [H|H].
        + rewrite (rparen_not_lparen t Ht) in H. discriminate.
        + rewrite (symbol_other t rparen s_comma Ht) in H by discriminate. discriminate. }
    destruct Hdec as (a' & t & mt & k & -> & Hfr & Hlen & Ht).
    pose proof (frames_no_acc a' k Hfr t mt (tail ++ o :: body ++ [cl]) post (semi :: R) Ht HM Hpost Hlen HZ) as H1.
    replace ((a' ++ [t]) ++ tail ++ [o]) with (a' ++ [t] ++ (tail ++ [o])) by (norm_app; reflexivity).
    apply (no_acc_app c f Hc Hf).
    - replace (([t] ++ tail ++ [o]) ++ body ++ cl :: post ++ semi :: R)
        with (t :: (tail ++ o :: body ++ [cl]) ++ post ++ semi :: R) by (norm_app; reflexivity).
      exact H1.
    - apply (no_acc_app c f Hc Hf); [|apply cb_tail_no_acc; assumption].
      destruct Ht as [[Ht _]|[Ht _]]; eapply (symbol_no_acc l c f G); exact Ht.
  Qed.
End CbFront.

(* ---------- a checker for open_prefix (forward scan), sound ---------- *)
Fixpoint open_prefix_b (ts : list token) (d : nat) : option nat :=
  match ts with
  | [] => Some d
  | t :: r =>
      if is_lparen t then open_prefix_b r (S d)
      else if is_rparen t then match d with O => None | S d' => open_prefix_b r d' end
      else if plain t && negb (is_operator t s_colon) then open_prefix_b r d else None
  end.

Lemma open_prefix_b_sound ts : forall d0 d a0, open_prefix_b ts d0 = Some d -> open_prefix a0 d0 -> open_prefix (a0 ++ ts) d.
Proof.
  induction ts as [|t r IH]; intros d0 d a0 H Ha; cbn [open_prefix_b] in H.
  - injection H as <-. rewrite app_nil_r. exact Ha.
  - replace (a0 ++ t :: r) with ((a0 ++ [t]) ++ r) by (rewrite <- app_assoc; reflexivity).
    destruct (is_lparen t) eqn:E1.
    + apply (IH (S d0) d); [exact H | apply op_open; assumption].
    + destruct (is_rparen t) eqn:E2.
      * destruct d0 as [|d0']; [discriminate|]. apply (IH d0' d); [exact H | apply op_close; assumption].
      * destruct (plain t && negb (is_operator t s_colon)) eqn:E3; [|discriminate].
        apply andb_prop in E3 as [P1 P2]. apply negb_true_iff in P2.
        apply (IH d0 d); [exact H | apply op_plain; assumption].
Qed.

Lemma open_prefix_of_b ts d : open_prefix_b ts 0 = Some d -> open_prefix ts d.
Proof. intros H. exact (open_prefix_b_sound ts 0 d [] H op_nil). Qed.
