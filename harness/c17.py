"""C17 — the suppression marker removes exactly the marked function."""
import multiprocessing as mp
import random

from common import Check, assert_repo_import, eval_cases, eval_one, canon_tree, NPROC
import lang_common as LC
import progen

IMPORTS = "Base Token TokEngine Lex Headers Blocks Pairing Fold ScanFile"


def marker(rng, lang):
    word = rng.choice(["nocl", "NOCL", "NoCl", "nocl: generated", "nocl because it is long", "noclx"])
    sp = rng.choice(["", " ", "  ", "\t"])
    if lang == "Python":
        return "#" + sp + word
    k = rng.random()
    if k < 0.6:
        return "//" + sp + word
    if k < 0.9:
        return "/*" + sp + word + " */"
    return "/*" + sp + word + "\n   continues */"


def decoy(rng, lang):
    lead = "# " if lang == "Python" else "// "
    return lead + rng.choice(["see nocl below", "do not add nocl here", "x nocl", "no cl", "n ocl", "-nocl", "'nocl'"])


def _work(args):
    lang, seeds, base_seed = args
    out = []
    for sd in seeds:
        rng = random.Random(base_seed * 31 + sd)
        p = progen.generate(sd, lang, {"comments": False, "long_bodies": sd % 4 == 0})
        exp = p["expected"]
        if not exp:
            continue
        lines = p["text"].split("\n")
        funcs = p["funcs"]                       # (fid, name, depth, parent)
        by_name = {n: (f, par) for f, n, d, par in funcs}
        has_child = {par for _, _, _, par in funcs if par is not None}
        unrelated = [e["name"] for e in exp if by_name[e["name"]][1] is None and by_name[e["name"]][0] not in has_child]
        mode = rng.random()
        if mode < 0.55 and unrelated:
            marked = [n for n in unrelated if rng.random() < 0.5] or [rng.choice(unrelated)]
            kind = "unrelated"
        elif mode < 0.8:
            marked = [e["name"] for e in exp if rng.random() < 0.4]
            kind = "any"
        else:
            marked = []
            kind = "decoys-only"
        used_lines = set()
        for e in exp:
            if e["name"] in marked:
                ln = e["start"][0]
                if ln in used_lines:
                    continue
                used_lines.add(ln)
                lines[ln - 1] = lines[ln - 1] + "  " + marker(rng, lang)
        # two functions whose names share a line are both marked by one comment
        marked = [e["name"] for e in exp if e["start"][0] in used_lines]
        # decoys: comments that merely mention the word, markers on neighbouring lines
        inserted_before = []
        for e in exp:
            if e["name"] in marked:
                continue
            r = rng.random()
            ln = e["start"][0]
            if r < 0.2 and ln not in used_lines:
                lines[ln - 1] = lines[ln - 1] + "  " + decoy(rng, lang)
                used_lines.add(ln)
            elif r < 0.3 and e["end"][0] != ln and e["end"][0] not in used_lines and \
                    not any(x["start"][0] == e["end"][0] for x in exp):
                # a real marker on the function's LAST line (not the line of its name)
                lines[e["end"][0] - 1] = lines[e["end"][0] - 1] + "  " + marker(rng, lang).split("\n")[0].replace("/*", "//").replace(" */", "")
                used_lines.add(e["end"][0])
        text = "\n".join(lines)
        # multi-line block markers add lines below the marked line: recompute expected positions
        added = {}
        for i, l in enumerate(text.split("\n")):
            pass
        shift = []
        cur = 0
        for i, l in enumerate(lines, 1):
            shift.append(cur)
            cur += l.count("\n")
        got = LC.guarded(lambda: LC.impl_scan(lang, text))
        probs = []
        want_names = [e["name"] for e in exp if e["name"] not in marked or "noclx" in lines[e["start"][0] - 1].lower() and False]
        # 'noclx' still begins with the marker: it IS a marker (startswith)
        if got[0] != 0:
            probs.append(f"scan_file raised (error kind {got[1]})")
        else:
            got_names = [g[0] for g in got[1]]
            if got_names != want_names:
                probs.append(f"reported {got_names}, expected {want_names} (marked: {marked})")
            elif kind in ("unrelated", "decoys-only"):
                for g, e in zip(got[1], [e for e in exp if e["name"] not in marked]):
                    sl = e["start"][0] + shift[e["start"][0] - 1]
                    el = e["end"][0] + shift[e["end"][0] - 1]
                    w = [e["name"], [sl, e["start"][1]], [el, e["end"][1]], e["length"]]
                    if g != w:
                        probs.append(f"{e['name']}: {g[1:]} but unmarked result is {w[1:]}")
        # the scanner's own route (file on disk -> _analyze_file) must give what lexing and scanning the text gives
        if sd % 3 == 0 and got[0] == 0:
            import os
            import tempfile
            from codelimit.common.Scanner import _analyze_file
            fd, path = tempfile.mkstemp(suffix="." + LC.EXT[lang], prefix="verif_c17_")
            try:
                with os.fdopen(fd, "w", encoding="utf8", newline="") as f:
                    f.write(text)
                entry = _analyze_file(path, "x." + LC.EXT[lang], "c", LC.lexer_for(lang))
                via_file = [[m.unit_name, [m.start.line, m.start.column], [m.end.line, m.end.column], m.value] for m in entry.measurements()]
                if via_file != got[1]:
                    probs.append(f"analysed as a file the program reports {[m[0] for m in via_file]}, as text {[g[0] for g in got[1]]} (marked: {marked})")
                # ... and the check command's route lists exactly the reported functions longer than 30 lines: a marked
                # function is not listed by it either (seeded change C17-14: check analyses the file without its comments)
                from pathlib import Path
                from codelimit.commands.check import check_file
                from codelimit.common.CheckResult import CheckResult
                cr = CheckResult()
                check_file(Path(path), cr)
                listed = sorted(m.unit_name for _, ms in cr.file_list for m in ms)
                want_listed = sorted(g[0] for g in got[1] if g[3] > 30)
                if listed != want_listed:
                    probs.append(f"the check command lists {listed}, the reported functions above 30 lines are {want_listed} (marked: {marked})")
            except Exception as ex:
                probs.append(f"analysing the program as a file raised {type(ex).__name__}: {ex}")
            finally:
                os.remove(path)
        toklit = LC.tokens_lit(LC.impl_lex(lang, text)) if len(text) < 2500 else None
        out.append((sd, kind, marked, got, probs, toklit, text if probs else None, len(exp)))
    return lang, out


def run(tier, seed, replay=None):
    assert_repo_import()
    chk = Check("C17", tier, seed)
    model_ok = chk.proof_stage(["Scope/ScanFile.vo", "Scope/MarkerProofs.vo"])
    n = 300 if tier == "quick" else 8000
    jobs = []
    for lang in LC.LANGS:
        seeds = list(range(seed * 5000, seed * 5000 + n))
        for k in range(0, n, 50):
            jobs.append((lang, seeds[k:k + 50], seed))
    model_cases = []
    budget = {lang: (40 if tier == "quick" else 400) for lang in LC.LANGS}
    with mp.Pool(NPROC) as pool:
        for lang, res in pool.imap_unordered(_work, jobs):
            li = LC.LANGS.index(lang)
            for sd, kind, marked, got, probs, toklit, text, nf in res:
                chk.evaluations += 1
                chk.count(f"marking: {kind}")
                chk.count(f"marked functions: {min(len(marked), 4)}{'+' if len(marked) >= 4 else ''}")
                if marked and nf > len(marked):
                    chk.nontrivial.add((lang, sd))
                if probs:
                    chk.violation({"language": lang, "generator_seed": sd, "marked": marked, "text": text},
                                  f"{lang} program (seed {sd}, {kind}): " + "; ".join(probs[:3]))
                if toklit is not None and budget[lang] > 0 and marked:
                    budget[lang] -= 1
                    model_cases.append((f"enc_scan (scan_file (lang_code {li}) {toklit})", got,
                                        {"language": lang, "generator_seed": sd, "marked": marked}))
    # ---- relational pass: the same text with and without a marker on one unrelated function, on programs that also
    #      hold non-canonical filler right above function headers (one-line definitions, declarations)
    rng = chk.rng
    fillers = {"Python": ["def stub{i}(x): return x", "def stub{i}(): ...", "x{i} = 1"],
               "default": ["int decl{i}(int x);", "x{i} = 1;", "call{i}(1);"]}
    for lang in LC.LANGS:
        for i in range(60 if tier == "quick" else 1500):
            p = progen.generate(seed * 7001 + i, lang, {"comments": i % 2 == 0, "long_bodies": False})
            lines = p["text"].split("\n")
            tops = sorted({e["start"][0] for e in p["expected"] if e["start"][1] == 1}, reverse=True)
            for ln in tops:                                     # filler right above top-level headers
                if rng.random() < 0.6 and (ln < 2 or not lines[ln - 2].rstrip().endswith("\\")):
                    lines.insert(ln - 1, rng.choice(fillers.get(lang, fillers["default"])).format(i=ln))
            t0 = "\n".join(lines)
            base = LC.guarded(lambda: LC.impl_scan(lang, t0))
            if base[0] != 0 or not base[1]:
                continue
            spans = [(tuple(m[1]), tuple(m[2])) for m in base[1]]
            unrelated = [k for k, (a, b) in enumerate(spans)
                         if not any(j != k and ((c <= a and b <= d) or (a <= c and d <= b)) for j, (c, d) in enumerate(spans))]
            toks = LC.impl_lex(lang, t0)
            cands = []
            for k in unrelated:
                nm, (sl, sc) = base[1][k][0], base[1][k][1]
                on_line = [t for t in toks if t.location.line == sl]
                starts_of_others = [m[1][0] for j, m in enumerate(base[1]) if j != k]
                # the name token is on the start line, no other function starts there, and the line end is not inside a token
                if any(t.value == nm and t.is_name() for t in on_line) and sl not in starts_of_others \
                        and not any(t.is_comment() for t in on_line) \
                        and not any("\n" in t.value and t.location.line <= sl < t.location.line + t.value.count("\n") for t in toks) \
                        and not t0.split("\n")[sl - 1].rstrip().endswith("\\"):
                    cands.append(k)
            if not cands:
                continue
            k = rng.choice(cands)
            sl = base[1][k][1][0]
            l1 = t0.split("\n")
            mk = marker(rng, lang).split("\n")[0]
            if mk.startswith("/*") and "*/" not in mk:
                mk += " */"
            l1[sl - 1] = l1[sl - 1] + "  " + mk
            t1 = "\n".join(l1)
            got = LC.guarded(lambda: LC.impl_scan(lang, t1))
            chk.evaluations += 1
            chk.count("relational: marker added to one function of a program with filler")
            want = [m for j, m in enumerate(base[1]) if j != k]
            if got[0] != 0 or got[1] != want:
                chk.violation({"language": lang, "text": t1, "marked": base[1][k][0]},
                              f"{lang}: adding a marker to {base[1][k][0]} (line {sl}) changed more than that function: "
                              f"{[m[0] for m in (got[1] if got[0] == 0 else [])]} vs {[m[0] for m in want]}"
                              + ("" if got[0] else "".join(f"; {a[0]}: {b[1:]} -> {a[1:]}" for a, b in zip(got[1], want) if a != b)[:200]))
            else:
                chk.nontrivial.add(("rel", lang, i))
    # ---- several functions whose names share one line with ONE marker: all of them are omitted; a commented-out
    #      marker ("// /* nocl */", "# // nocl") marks nothing
    for lang in LC.LANGS:
        if lang == "Python":
            cases2 = [("def a():\n    x = 1\ndef b():  # // nocl\n    y = 2\ndef c():  #; nocl\n    z = 3\n", ["a", "b", "c"]),
                      ("def a():\n    x = 1\ndef b():  # /* nocl */\n    y = 2\n", ["a", "b"])]
        else:
            kw = "function " if lang in ("JavaScript", "TypeScript") else "int "
            f = lambda n: kw + n + "() { x = 1; }"
            cases2 = [(f("one") + " " + f("two") + " // nocl\n" + f("three") + "\n", ["three"]),
                      (f("one") + " " + f("two") + " " + f("three") + " /* NOCL */\n" + f("four") + "\n" + f("five") + " // nocl\n", ["four"]),
                      (f("one") + " // /* nocl */\n" + f("two") + " /* // nocl */\n" + f("three") + " // # nocl\n", ["one", "two", "three"]),
                      (f("one") + " /* nocl */ " + f("two") + "\n" + f("three") + "\n", ["three"])]
        for text, want in cases2:
            got = LC.guarded(lambda: LC.impl_scan(lang, text))
            names = [m[0] for m in got[1]] if got[0] == 0 else got
            chk.evaluations += 1
            chk.count("several names on the marked line / commented-out markers")
            if names != want:
                chk.violation({"language": lang, "text": text}, f"{lang}: {text!r}: reported {names}, expected {want}")
            else:
                chk.nontrivial.add(("shared-line", lang, text))
    # ---- the marked function is the last thing in the file, on one line, with and without a final line break
    for lang in LC.LANGS:
        if lang == "Python":
            continue
        kw = "function " if lang in ("JavaScript", "TypeScript") else "void "
        for mk in ["// nocl", "//nocl", "// NOCL: generated", "/* nocl */", "/*NOCL*/"]:
            for tail in ["", "\n", "\n\n", "  ", "\r\n"]:
                for pre in ["", kw + "first() {\n  x = 1;\n}\n"]:
                    text = pre + kw + "last() { x = 1; } " + mk + tail
                    got = LC.guarded(lambda: LC.impl_scan(lang, text))
                    want = LC.guarded(lambda: LC.impl_scan(lang, pre)) if pre else [0, []]
                    chk.evaluations += 1
                    chk.count("marker on the last line of the file")
                    if got != want:
                        chk.violation({"language": lang, "text": text},
                                      f"{lang}: marker {mk!r} on the last line ({'no ' if not tail else ''}final line break): "
                                      f"reported {[m[0] for m in got[1]] if got[0] == 0 else got}, expected {[m[0] for m in want[1]]}")
                    else:
                        chk.nontrivial.add(("last", lang, mk, tail, pre))
    # marker text: is_nocl_text vs the implementation's predicate on comment texts
    from codelimit.common.Location import Location
    from codelimit.common.Token import Token
    from codelimit.common.source_utils import filter_nocl_comment_tokens
    from pygments.token import Comment, Name
    leaders = ["#", ";", "//", "/*", "", "/", "*", "#!", "///", "/**", "--"]
    words = ["nocl", "NOCL", "nOcL", "nocl x", "noclx", "no cl", "xnocl", "see nocl", "", "n", "nocl */", "ＮＯＣＬ", "ǸOCL", "nocl\n",
             # a second comment leader in front of the word: only ONE leader is stripped
             "/* nocl */", "// nocl", "; nocl", "# nocl", "/*nocl", "//nocl", "#nocl", ";nocl", "* nocl"]
    spaces = ["", " ", "  ", "\t", "\n", "\xa0", " ", "_", "\x0c"]
    tcases = []
    for ld in leaders:
        for sp in spaces:
            for w in words:
                v = ld + sp + w
                impl = bool(filter_nocl_comment_tokens([Token(Location(1, 1), Comment.Single, v)]))
                impl_name = bool(filter_nocl_comment_tokens([Token(Location(1, 1), Name, v)]))
                chk.evaluations += 1
                if impl:
                    chk.nontrivial.add(("text", v))
                # oracle: leader stripped as the code's documentation says, case-insensitive prefix
                low = v.lower()
                if low.startswith("#") or low.startswith(";"):
                    low = low[1:].strip()
                elif low.startswith("//") or low.startswith("/*"):
                    low = low[2:].strip()
                if impl != low.startswith("nocl") or impl_name:
                    chk.violation({"kind": "marker-text", "value": v}, f"comment text {v!r}: marker={impl}, non-comment token marker={impl_name}")
                if all(ord(c) < 128 or c in "\xa0 " for c in v):
                    tcases.append((f"enc_bool (is_nocl_text {LC.pystr(v)})", impl, {"comment_text": v}))
    chk.count("marker texts", len(tcases))
    model_cases += tcases
    chk.samples = [c for _, _, c in model_cases[:3] + tcases[:2]]
    if model_ok:
        mism, err = eval_cases("C17", IMPORTS, [(m, o) for m, o, _ in model_cases], shard=25)
        chk.traces = len(model_cases)
        if err:
            chk.broken.append("correspondence evaluation failed: " + err[-400:])
        for i in mism[:5]:
            got = eval_one("C17", IMPORTS, model_cases[i][0])
            chk.broken.append(f"correspondence: model and implementation differ on {model_cases[i][2]}: "
                              f"model {got} vs implementation {canon_tree(model_cases[i][1])}")
    else:
        chk.broken.append("model does not build; correspondence not run")
    nt = len(chk.nontrivial)
    chk.nontrivial = {str(i) for i in range(nt)}
    return chk.finish(
        rule="canonical programs (comments off) x random subsets of functions marked on the line of their name with every "
             "comment style, letter case, spacing and trailing text (incl. multi-line block markers), plus decoys (comments "
             "that mention the word later, real markers on the function's last line); reported names must be all minus "
             "marked; when only unrelated (non-nested, non-enclosing) functions are marked every other measurement must be "
             "identical to the generator's expectation.  Marker texts: 11 leaders x 9 spacings x 14 words against the "
             "documented rule and the Coq predicate.  Non-trivial: some but not all functions marked / text is a marker.",
        assumptions=["ASCII lower-casing models str.lower() for the marker test (non-ASCII samples are judged by the Python oracle only)"])
