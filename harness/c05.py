"""C05 — every reported measurement is well-formed, for every input."""
import multiprocessing as mp
import random

from common import Check, assert_repo_import, eval_cases, eval_one, canon_tree, NPROC
import lang_common as LC
import malform
import progen

IMPORTS = "Base Token TokEngine Lex Headers Blocks Pairing Fold ScanFile"


def positions(text):
    """offset -> (line, col), independent of codelimit"""
    starts = [0]
    for i, c in enumerate(text):
        if c == "\n":
            starts.append(i + 1)
    import bisect

    def pos(off):
        ln = bisect.bisect_right(starts, off) - 1
        return ln + 1, off - starts[ln] + 1
    return pos, len(starts), starts


def judge(lang, text, ms):
    from pygments.token import Comment, Text, Whitespace, Name
    probs = []
    raw = LC.raw_lex(lang, text)
    pos, nlines, starts = positions(text)
    line_len = lambda ln: (starts[ln] - 1 if ln < len(starts) else len(text)) - starts[ln - 1]
    code = []
    for off, tt, val in raw:
        if val == "" or tt in Comment or ((tt == Text or tt == Whitespace) and val.isspace()):
            continue
        ln, col = pos(off)
        code.append((ln, col, val, tt))
    start_set = {(ln, col) for ln, col, _, _ in code}
    end_set = set()
    for off, tt, val in raw:                       # independent: position of the character after the token
        if val == "" or tt in Comment or ((tt == Text or tt == Whitespace) and val.isspace()):
            continue
        end_set.add(pos(off + len(val)) if off + len(val) <= len(text) else None)
    prev = None
    for name, (sl, sc), (el, ec), length in ms:
        tag = f"{name}@{sl}:{sc}"
        if (sl, sc) not in start_set:
            probs.append(f"{tag}: start is not the position of a code token")
        if (el, ec) not in end_set:
            probs.append(f"{tag}: end {el}:{ec} is not just past a code token")
        if not (1 <= sl <= el <= nlines):
            probs.append(f"{tag}: lines {sl}..{el} outside 1..{nlines}")
        else:
            if not (1 <= sc <= line_len(sl) + 1):
                probs.append(f"{tag}: start column {sc} outside line of length {line_len(sl)}")
            if not (1 <= ec <= line_len(el) + 1):
                probs.append(f"{tag}: end column {ec} outside line of length {line_len(el)}")
        if (sl, sc) > (el, ec):
            probs.append(f"{tag}: start after end")
        inside = [(ln, col, v, tt) for ln, col, v, tt in code if (sl, sc) <= (ln, col) < (el, ec)]
        if not any(tt in Name and v == name for _, _, v, tt in inside):
            probs.append(f"{tag}: name is not the text of an identifier token inside the span")
        nl = len({ln for ln, _, _, _ in inside})
        if not (1 <= length <= nl):
            probs.append(f"{tag}: length {length} not in 1..{nl} (code-bearing lines of the span)")
        if prev is not None and not (prev < (sl, sc)):
            probs.append(f"{tag}: not in source order / duplicate start after {prev}")
        prev = (sl, sc)
    return probs


def _work(args):
    lang, seed, n = args
    rng = random.Random(seed)
    out = []
    for kind, text in malform.stream(rng, lang, n, seed * 7919):
        r = LC.guarded(lambda: LC.impl_scan(lang, text))
        probs = []
        if r[0] == 0:
            try:
                probs = judge(lang, text, r[1])
            except AssertionError as ex:
                probs = [f"harness: lexer contract {ex}"]
            # file line total = sum of the function lengths (_analyze_file)
            try:
                import os
                import tempfile
                from codelimit.common.Scanner import _analyze_file
                fd, path = tempfile.mkstemp(suffix="." + LC.EXT[lang], prefix="verif_c05_")
                with os.fdopen(fd, "w", encoding="utf8", newline="") as f:
                    f.write(text)
                try:
                    entry = _analyze_file(path, "x", "c", LC.lexer_for(lang))
                    if "\r" not in text and "﻿" not in text and "\x0c" not in text:
                        got = [[m.unit_name, [m.start.line, m.start.column], [m.end.line, m.end.column], m.value]
                               for m in entry.measurements()]
                        if got != r[1]:
                            probs.append("analysing the file on disk gives different measurements than analysing its text")
                    if entry.loc != sum(m.value for m in entry.measurements()):
                        probs.append(f"file line total {entry.loc} != sum of function lengths")
                finally:
                    os.remove(path)
            except Exception as ex:  # C03's subject, reported there
                pass
        toklit = None
        if len(text) < 1500:
            try:
                toklit = LC.tokens_lit(LC.impl_lex(lang, text))
            except Exception:
                toklit = None
        out.append((kind, text if (probs or r[0] != 0) else None, r, probs, toklit, len(text)))
    return lang, seed, out


def run(tier, seed, replay=None):
    assert_repo_import()
    chk = Check("C05", tier, seed)
    model_ok = chk.proof_stage(["Scope/ScanFile.vo", "Scope/WfProofsCerts.vo"])
    # ---- what a scan reports about a file is well formed with respect to the file AS IT IS NOW, also when an earlier scan left
    #      a cache: a file that is not valid UTF-8 is edited only in its invalid bytes and rescanned (seeded change C05-17: the
    #      checksum ignores such bytes, the stale entry names a function that is no longer there)
    import shutil
    import tempfile
    import fs_common as F
    tmp_l = tempfile.mkdtemp(prefix="verif_c05l_")
    try:
        for k in range(3 if tier == "quick" else 20):
            try:
                wc, _, now, rel = F.latin1_edit_scenario(tmp_l, k)
                text = now.decode("latin-1")
                lines = text.split("\n")
                chk.evaluations += 1
                chk.count("non-UTF-8 file edited in its invalid bytes, rescanned with the cache")
                probs = []
                for m in wc["codebase"]["files"].get(rel, {}).get("measurements", []):
                    sl, sc, el, ec = m["start"]["line"], m["start"]["column"], m["end"]["line"], m["end"]["column"]
                    if not (1 <= sl <= el <= len(lines)) or not (1 <= sc <= len(lines[sl - 1]) + 1) or not (1 <= ec <= len(lines[el - 1]) + 1):
                        probs.append(f"{m['unit_name']}: span {sl}:{sc}-{el}:{ec} lies outside the text")
                    elif m["unit_name"] not in "\n".join(lines[sl - 1:el]):
                        probs.append(f"{m['unit_name']}: the name does not occur in lines {sl}..{el} of the file")
                if probs:
                    chk.violation({"file": rel, "text": text}, f"{rel} rescanned with the cache after an edit of its non-UTF-8 bytes: " + "; ".join(probs))
                else:
                    chk.nontrivial.add(("latin1", k))
            except Exception as ex:
                chk.violation({"scenario": "latin1"}, f"rescan of an edited non-UTF-8 file raised {type(ex).__name__}: {ex}")
    finally:
        shutil.rmtree(tmp_l, ignore_errors=True)
    per_lang, chunks = (600, 6) if tier == "quick" else (20000, 64)
    jobs = [(lang, seed * 1000 + c, per_lang // chunks) for lang in LC.LANGS for c in range(chunks)]
    model_cases = []
    budget = {lang: (150 if tier == "quick" else 1500) for lang in LC.LANGS}
    with mp.Pool(NPROC) as pool:
        for lang, sd, res in pool.imap_unordered(_work, jobs):
            li = LC.LANGS.index(lang)
            for kind, text, r, probs, toklit, n in res:
                chk.evaluations += 1
                chk.count("input kind: " + kind.split("+")[0])
                chk.count("result: " + ("error" if r[0] else f"{min(len(r[1]), 5)}{'+' if len(r[1]) >= 5 else ''} measurements"))
                if r[0] == 0 and r[1]:
                    chk.nontrivial.add((lang, sd, chk.evaluations))
                if probs:
                    chk.violation({"language": lang, "kind": kind, "text": text, "result": r},
                                  f"{lang} ({kind}): " + "; ".join(probs[:3]))
                if toklit is not None and budget[lang] > 0 and (r[0] != 0 or r[1] or chk.evaluations % 5 == 0):
                    budget[lang] -= 1
                    model_cases.append((f"enc_scan (scan_file (lang_code {li}) {toklit})", r,
                                        {"language": lang, "kind": kind, "chars": n}))
    chk.samples = [c for _, _, c in model_cases[:4]]
    if model_ok:
        mism, err = eval_cases("C05", IMPORTS, [(m, o) for m, o, _ in model_cases], shard=60)
        chk.traces = len(model_cases)
        if err:
            chk.broken.append("correspondence evaluation failed: " + err[-400:])
        for i in mism[:5]:
            got = eval_one("C05", IMPORTS, model_cases[i][0])
            chk.broken.append(f"correspondence: scan_file model and implementation differ on {model_cases[i][2]}: "
                              f"model {got} vs implementation {canon_tree(model_cases[i][1])}")
    else:
        chk.broken.append("scope model does not build; correspondence not run")
    nt = len(chk.nontrivial)
    chk.nontrivial = {str(i) for i in range(nt)}
    return chk.finish(
        rule="malformed stream (harness/malform.py): prefixes, suffixes, line/char deletions, duplications, swaps, "
             "junk insertions, dedents of canonical programs, token soups, deep nesting, special one-liners; every "
             "measurement judged for well-formedness against positions recomputed from the raw text and the raw "
             "Pygments stream.  Non-trivial: at least one measurement reported.",
        assumptions=["Pygments lexers satisfy the offset/text contract (asserted on every text)"])
