(* HeaderProofs.v — C01 for C, C++ and C# with the header-recognition hypothesis
   replaced by the decidable lexical condition of HeaderSpec.v. *)
From Verif Require Import Base Regex Nfa Dfa Token TokEngine GenPatterns Headers Blocks Spec HeaderSpec Scan ScanProofs.
From Verif Require Import Lex LexProofs Pairing Fold ScanFile SpecProofs.
From Verif Require Import HeaderProofsDfa HeaderProofsSelect.
From Coq Require Import Sorted Permutation.

Theorem C01_cpp_lexical : forall toks ds,
  let code := filter_tokens false toks in
  StronglySorted pos_lt code -> filter_nocl_comment_tokens toks = [] ->
  wf_descs code ds -> lexically_canonical code ds ->
  scan_file LCpp toks = expected_all code ds ds.
Proof.
  intros toks ds code HS Hnocl Hwf Hlex.
  apply C01_brace_pipeline; try assumption; [discriminate | reflexivity|].
  exists (lexical_headers code). split; [apply extract_headers_Cpp|].
  rewrite Hlex. apply Permutation_refl.
Qed.

Theorem C01_c_lexical : forall toks ds,
  let code := filter_tokens false toks in
  StronglySorted pos_lt code -> filter_nocl_comment_tokens toks = [] ->
  wf_descs code ds -> (forall c d, In c ds -> In d ds -> ~ nested_in c d) -> lexically_canonical code ds ->
  scan_file LC toks = expected_all code ds ds.
Proof.
  intros toks ds code HS Hnocl Hwf Hflat Hlex.
  apply C01_brace_pipeline_flat; try assumption; [discriminate | reflexivity|].
  exists (lexical_headers code). split; [apply extract_headers_C|].
  rewrite Hlex. apply Permutation_refl.
Qed.

(* C#: headers directly preceded by the keyword `record` or `new` are dropped *)
Theorem C01_csharp_lexical : forall toks ds,
  let code := filter_tokens false toks in
  StronglySorted pos_lt code -> filter_nocl_comment_tokens toks = [] ->
  wf_descs code ds ->
  filter (fun h => negb (java_drop code h)) (lexical_headers code) = map header_of ds ->
  scan_file LCSharp toks = expected_all code ds ds.
Proof.
  intros toks ds code HS Hnocl Hwf Hlex.
  apply C01_brace_pipeline; try assumption; [discriminate | reflexivity|].
  exists (map header_of ds). split; [|apply Permutation_refl].
  rewrite <- Hlex. apply extract_headers_CSharp.
Qed.

Print Assumptions C01_cpp_lexical.
Print Assumptions C01_c_lexical.
Print Assumptions C01_csharp_lexical.

(* non-vacuity: int f ( ) { x ; }  g ( ( a ) ) ( b ) { }  h ( ;  k ( ) *)
Open Scope Z_scope.
Example lexical_headers_example :
  let code := [mkTok KKeyword [105;110;116] 1 1; mkTok KName [102] 1 5; mkTok KPunct [40] 1 6; mkTok KPunct [41] 1 7;
               mkTok KPunct [123] 1 9; mkTok KName [120] 2 3; mkTok KPunct [59] 2 4; mkTok KPunct [125] 3 1;
               mkTok KName [103] 4 1; mkTok KPunct [40] 4 2; mkTok KPunct [40] 4 3; mkTok KName [97] 4 4;
               mkTok KPunct [41] 4 5; mkTok KPunct [41] 4 6; mkTok KPunct [40] 4 7; mkTok KName [98] 4 8;
               mkTok KPunct [41] 4 9; mkTok KPunct [123] 4 10; mkTok KPunct [125] 4 11;
               mkTok KName [104] 5 1; mkTok KPunct [40] 5 2; mkTok KPunct [59] 5 3;
               mkTok KName [107] 6 1; mkTok KPunct [40] 6 2; mkTok KPunct [41] 6 3] in
  lexical_headers code = [mkHeader 1 1 4; mkHeader 8 8 17] /\
  extract_headers LCpp code = OK [mkHeader 1 1 4; mkHeader 8 8 17].
Proof. vm_compute. split; reflexivity. Qed.
