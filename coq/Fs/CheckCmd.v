(* CheckCmd.v — commands.check.check_command over a directory tree, with the
   working directory at the codebase root: which files are checked, depending on
   how they are named (relative file, a directory above them), and with what
   result (the same analyze oracle and the same text decoding as scan). *)
From Verif Require Import Base Codebase Exclude GenScan FsScan.
Open Scope Z_scope.

Section Check.
  Variable supported : pystr -> option pystr.
  Variable analyze : pystr -> Z -> analysis.

  Fixpoint find_node (children : list fnode) (name : pystr) : option fnode :=
    match children with
    | [] => None
    | n :: r => if pystr_eqb (node_name n) name then Some n else find_node r name
    end.

  (* the node at a root-relative path *)
  Fixpoint node_at (children : list fnode) (comps : list pystr) : option fnode :=
    match comps with
    | [] => None
    | [c] => find_node children c
    | c :: r => match find_node children c with Some (Dir _ cs) => node_at cs r | _ => None end
    end.

  (* risks of one analysed file: functions longer than 30 lines, longest first *)
  Definition risks (a : analysis) : list Z := sort_desc (fun v => v) (filter (fun v => v >? 30) (a_meas a)).

  (* check_file: unsupported names are ignored *)
  Definition check_file (comps : list pystr) (content : Z) : list (list pystr * list Z) :=
    match supported (last comps []) with
    | Some lang => [(comps, risks (analyze lang content))]
    | None => []
    end.

  (* one argument of `check`, given relative to the root (= working directory):
     a file: excluded -> skipped, else checked (hidden or not);
     a directory: walked with hidden names pruned BELOW it, excluded files skipped *)
  Definition check_arg (patterns : list pystr) (children : list fnode) (arg : list pystr) : list (list pystr * list Z) :=
    match arg with
    | [] =>  (* the root directory itself *)
        flat_map (fun f => if excluded patterns (fst f) then [] else check_file (fst f) (snd f)) (walk_root children)
    | _ =>
        match node_at children arg with
        | Some (File _ c) => if excluded patterns arg then [] else check_file arg c
        | Some (Dir _ cs) =>
            flat_map (fun f => if excluded patterns (fst f) then [] else check_file (fst f) (snd f))
                     (flat_map (walk arg) cs)
        | None => []
        end
    end.

  Definition unm (l : list (list pystr * list Z)) : Z :=
    Z.of_nat (length (filter (fun v => v >? 60) (flat_map snd l))).
  Definition check_exit (l : list (list pystr * list Z)) : Z := if unm l >? 0 then 1 else 0.
End Check.
