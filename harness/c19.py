"""C19 — summary percentages and verdict are sane."""
import io
import re
from fractions import Fraction

from common import Check, assert_repo_import, eval_cases, eval_one, canon_tree, coq_list, z

IMPORTS = "Base GenPercent Percent PercentFloat"


class FakeReport:
    """a report whose quality profile is given; everything else is the real code"""

    def __init__(self, profile):
        self._p = list(profile)

    def quality_profile(self):
        return list(self._p)


def observe(profile):
    from codelimit.common.report.Report import Report
    from codelimit.common.report import format_markdown, format_text
    from codelimit.common.SummaryTable import SummaryTable
    from rich.console import Console
    FakeReport.quality_profile_percentage = Report.quality_profile_percentage
    rep = FakeReport(profile)
    tup = rep.quality_profile_percentage()
    table = SummaryTable(rep)
    cells = [c._cells[0] for c in table.columns]
    cell_txt = [c.plain for c in cells]
    styles = [str(c.style) for c in cells]
    buf = io.StringIO()
    format_text.print_summary(Console(file=buf, width=300, color_system=None), rep)
    text_out = buf.getvalue()
    buf = io.StringIO()
    format_markdown.print_summary(Console(file=buf, width=300, color_system=None), rep)
    md_out = buf.getvalue()
    md_row = re.search(r"^\| (-?\d+)% \| (-?\d+)% \| (-?\d+)% \|", md_out, re.M)
    return {"tuple": list(tup), "cells": cell_txt, "styles": styles,
            "text_refactor": "no refactoring necessary" not in text_out,
            "md_refactor": "no refactoring necessary" not in md_out,
            "md_row": [int(md_row.group(i)) for i in (1, 2, 3)] if md_row else None,
            "text_verdict_line": [l.strip() for l in text_out.splitlines() if "refactoring" in l][-1:],
            "md_verdict_line": [l.strip() for l in md_out.splitlines() if "refactoring" in l][-1:]}


def judge(profile, o):
    probs = []
    total = sum(profile)
    e, v, h, u = o["tuple"]
    shown = [e + v, h, u]
    if o["cells"] != [f"{x}%" for x in shown]:
        probs.append(f"summary table shows {o['cells']} for figures {shown}")
    if o["md_row"] != shown:
        probs.append(f"markdown summary shows {o['md_row']} for figures {shown}")
    if not all(isinstance(x, int) and 0 <= x <= 100 for x in shown):
        probs.append(f"displayed percentages {shown} not all integers in 0..100")
    if sum(shown) != 100:
        probs.append(f"displayed percentages {shown} sum to {sum(shown)}")
    if total > 0:
        true = [Fraction(100 * (profile[0] + profile[1]), total), Fraction(100 * profile[2], total), Fraction(100 * profile[3], total)]
        for nm, s, t in zip(["easy/verbose", "hard-to-maintain", "unmaintainable"], shown, true):
            if abs(s - t) > 2:
                probs.append(f"{nm} shown as {s}% but its true share is {float(t):.3f}%")
        for nm, s, t in zip(["hard-to-maintain", "unmaintainable"], shown[1:], true[1:]):
            if t > Fraction(1, 1000) and s == 0:
                probs.append(f"{nm} holds {float(t):.5f}% of the code but shows as 0%")
    want_refactor = u > 0 or h > 20
    if o["text_refactor"] != want_refactor:
        probs.append(f"text verdict 'refactoring necessary'={o['text_refactor']} with unm={u}% hard={h}%")
    if o["md_refactor"] != want_refactor:
        probs.append(f"markdown verdict 'refactoring necessary'={o['md_refactor']} with unm={u}% hard={h}%")
    return probs[:4]


def run(tier, seed, replay=None):
    assert_repo_import()
    chk = Check("C19", tier, seed)
    model_ok = chk.proof_stage(["Agg/Percent.vo", "Agg/PercentFloat.vo", "Agg/PercentFloatProofs.vo", "Agg/FloatBridge.vo"])
    bound = 16 if tier == "quick" else 60
    profiles = [(a, b, c, d) for a in range(bound + 1) for b in range(bound + 1 - a)
                for c in range(bound + 1 - a - b) for d in range(bound + 1 - a - b - c)]
    rng = chk.rng
    for _ in range(3000 if tier == "quick" else 200000):
        k = rng.random()
        if k < 0.3:
            t = rng.choice([10 ** 3, 10 ** 5, 10 ** 7, 10 ** 9])
            c, d = rng.randint(0, t), rng.randint(0, t)
            profiles.append((rng.randint(0, 3), rng.randint(0, 3), c, d))        # hard+unm close to 100 %
        elif k < 0.5:
            t = rng.choice([10 ** 4, 10 ** 6, 10 ** 8])
            profiles.append((t, rng.randint(0, 5), rng.randint(0, 3), rng.randint(0, 3)))   # tiny shares
        elif k < 0.7:
            n = rng.randint(1, 10 ** 6)
            profiles.append((n * rng.randint(0, 4), n * rng.randint(0, 4), n * rng.randint(0, 4), n * rng.randint(0, 4)))  # exact ratios
        else:
            profiles.append(tuple(rng.randint(0, 10 ** rng.randint(1, 9)) for _ in range(4)))
    # shares of exactly n.001 % (the value inside ceil() is an integer in exact arithmetic; floating point lands just
    # beside it) and their neighbours: 100000 * x = total * (1000 * n + 1)
    import math
    for n in list(range(0, 100, 7)) + [0, 1, 19, 20, 21, 49, 50, 99]:
        k = 1000 * n + 1
        g = math.gcd(100000, k)
        x0, t0 = k // g, 100000 // g
        for m in (1, 2, 3, 7, rng.randint(4, 5000)):
            x, t = x0 * m, t0 * m
            if x > t or t > 10 ** 9:
                continue
            for dx in (-1, 0, 1):
                if 0 <= x + dx <= t:
                    profiles.append((t - x - dx, 0, x + dx, 0))
                    profiles.append((t - x - dx, 0, 0, x + dx))
                    y = rng.randint(0, t - x - dx)
                    profiles.append((t - x - dx - y, y, x + dx, 0))
    cases = []
    for p in profiles:
        try:
            o = observe(p)
        except Exception as ex:
            chk.violation({"profile": list(p)}, f"profile {list(p)}: summary raised {type(ex).__name__}: {ex}")
            continue
        probs = judge(p, o)
        chk.evaluations += 1
        if sum(1 for x in p if x > 0) >= 2:
            chk.nontrivial.add(p)
        chk.count("total <= %d" % bound if sum(p) <= bound else "large total")
        if probs:
            chk.violation({"profile": list(p), "observed": o}, f"profile {list(p)}: " + "; ".join(probs))
        if sum(p) <= bound and (sum(p) % 3 == 0 or tier != "quick") or sum(p) > bound:
            e, v, h, u = o["tuple"]
            impl = [[e, v, h, u], o["text_refactor"], o["md_refactor"],
                    "red" in o["styles"][2], "dark_orange" in o["styles"][1], "green" in o["styles"][0]]
            # the implementation's figures must be ADMISSIBLE (Agg/PercentFloat.v: each ceil() of a value within 1e-12 of
            # the exact one, then the source's own adjustment), and the verdicts are the model's on those figures
            expr = (f"let '(e, v, h, u) := ({z(e)}, {z(v)}, {z(h)}, {z(u)}) in "
                    f"T [T [L e; L v; L h; L u; enc_bool (may_show_b {coq_list(z(x) for x in p)} (e, v, h, u))]; "
                    "enc_bool (verdict_unm_text u || verdict_htm_text h); "
                    "enc_bool (verdict_unm_md u || verdict_htm_md h); enc_bool (summary_red u h); "
                    "enc_bool (summary_orange u h); enc_bool (summary_green u h)]")
            impl[0] = [e, v, h, u, True]
            cases.append((expr, impl, {"profile": list(p)}))
    chk.samples = [c for _, _, c in cases[100:102] + cases[-2:]]
    if model_ok:
        mism, err = eval_cases("C19", IMPORTS, [(m, o) for m, o, _ in cases], shard=500)
        chk.traces = len(cases)
        if err:
            chk.broken.append("correspondence evaluation failed: " + err[-400:])
        for i in mism[:5]:
            got = eval_one("C19", IMPORTS, cases[i][0])
            chk.broken.append(f"correspondence (float code vs the admissible outcomes of the model): differ on {cases[i][2]}: "
                              f"model {got} vs implementation {canon_tree(cases[i][1])}")
    else:
        chk.broken.append("model / proofs do not build; correspondence not run")
    nt = len(chk.nontrivial)
    chk.nontrivial = {str(i) for i in range(nt)}
    return chk.finish(
        rule=f"all quality profiles (four non-negative integers) with total <= {bound}, exhaustively, plus random large ones "
             "(hard+unmaintainable near 100 %, tiny shares next to 0.001 %, exact ratios, up to 10^9 lines); observed through "
             "Report.quality_profile_percentage, SummaryTable cells and styles, text and Markdown print_summary; judged with "
             "exact fractions.  Non-trivial: at least two non-empty categories.",
        assumptions=["binary64 evaluation of (p/total)*100-0.001 followed by ceil equals the exact rational ceiling for the "
                     "totals explored (margin 1/(1000 total) >> accumulated rounding error for totals < 10^10); this bridge is "
                     "checked bit-for-bit by the correspondence, not proved"],
        extra={"exhaustive": True})
