(* SpecProofsCount.v — C01, part 4: the tokens counted for a scope are the
   tokens of its span that lie in no nested descriptor. *)
From Verif Require Import Base Token Lex Headers Blocks Pairing Fold ScanFile Spec.
From Verif Require Import LexProofs TotalProofsBlocks TotalProofsScopes WfProofsBase WfProofsBlocks WfProofsPairing.
From Verif Require Import SpecProofsDyck SpecProofsPairing.
From Coq Require Import Sorted Permutation.
Open Scope nat_scope.

Definition inr (k : nat) (r : range) : bool := (fst r <=? k) && (k <? snd r).

Lemma drop_passed_spec : forall rs i, exists dropped,
  rs = dropped ++ drop_passed i rs /\ Forall (fun r => snd r <= i) dropped /\
  match drop_passed i rs with c :: _ => i < snd c | [] => True end.
Proof.
  induction rs as [|r rest IH]; intros i; cbn [drop_passed].
  - exists []. repeat split; constructor.
  - destruct (snd r <=? i) eqn:E.
    + destruct (IH i) as (dr & E1 & E2 & E3). exists (r :: dr). split; [cbn [app]; f_equal; exact E1|].
      split; [constructor; [apply Nat.leb_le; exact E | exact E2] | exact E3].
    + exists []. split; [reflexivity|]. split; [constructor | apply Nat.leb_gt; exact E].
Qed.

Lemma existsb_all_false {A} (f : A -> bool) l : (forall x, In x l -> f x = false) -> existsb f l = false.
Proof.
  induction l as [|x l IH]; intros H; cbn [existsb]; [reflexivity|].
  rewrite (H x (or_introl eq_refl)), IH; [reflexivity|]. intros y Hy. apply H. right. exact Hy.
Qed.

Lemma existsb_ext_In {A} (f : A -> bool) l1 l2 : (forall x, In x l1 <-> In x l2) -> existsb f l1 = existsb f l2.
Proof.
  intros H. apply eq_true_iff_eq. rewrite !existsb_exists. split; intros (x & Hx & Hf); exists x; split; auto; apply H; exact Hx.
Qed.

Lemma sti_filter : forall idxs rs,
  StronglySorted le idxs -> StronglySorted (fun a b : range => fst a <= fst b) rs ->
  scope_token_indices idxs rs = filter (fun k => negb (existsb (inr k) rs)) idxs.
Proof.
  induction idxs as [|i r IH]; intros rs Hi Hr; cbn [scope_token_indices filter]; [reflexivity|].
  destruct (drop_passed_spec rs i) as (dr & E & Hd & Hh).
  remember (drop_passed i rs) as rs' eqn:Ers. clear Ers.
  inversion Hi as [|? ? Hir Hif]; subst.
  apply SSf_app in Hr. destruct Hr as (_ & Hr' & _).
  assert (Hex : forall k, i <= k -> existsb (inr k) (dr ++ rs') = existsb (inr k) rs').
  { intros k Hk. rewrite existsb_app. rewrite existsb_all_false; [reflexivity|].
    intros x Hx. rewrite Forall_forall in Hd. specialize (Hd x Hx). unfold inr.
    apply andb_false_iff. right. apply Nat.ltb_ge. lia. }
  assert (Hrest : filter (fun k => negb (existsb (inr k) (dr ++ rs'))) r
                  = filter (fun k => negb (existsb (inr k) rs')) r).
  { apply filter_ext_in. intros k Hk. rewrite Forall_forall in Hif. rewrite Hex; [reflexivity|].
    apply Hif, Hk. }
  rewrite Hrest, (Hex i (le_n _)), <- (IH rs' Hir Hr').
  destruct rs' as [|c rest]; [reflexivity|].
  destruct (i <? fst c) eqn:Ec.
  - apply Nat.ltb_lt in Ec. rewrite existsb_all_false; [reflexivity|].
    intros x [<-|Hx]; unfold inr; apply andb_false_iff; left; apply Nat.leb_gt; [exact Ec|].
    inversion Hr' as [|? ? _ Hf]; subst. rewrite Forall_forall in Hf. specialize (Hf x Hx). lia.
  - apply Nat.ltb_ge in Ec. cbn [existsb]. unfold inr at 1.
    replace (fst c <=? i) with true by (symmetry; apply Nat.leb_le; exact Ec).
    replace (i <? snd c) with true by (symmetry; apply Nat.ltb_lt; exact Hh).
    reflexivity.
Qed.

Lemma sort_ranges_fst_sorted ts rs :
  StronglySorted pos_lt ts -> Forall (fun r : range => fst r < length ts) rs ->
  StronglySorted (fun a b : range => fst a <= fst b) (sort_ranges ts rs).
Proof.
  intros HS Hlt. unfold sort_ranges.
  set (k1 := fun r : range => tok_line ts (fst r)). set (k2 := fun r : range => tok_col ts (fst r)).
  eapply SSf_impl; [|apply (sort_asc2_sorted k1 k2 rs)].
  intros a b Ha Hb Hle. cbv beta.
  apply sort_asc2_In in Ha, Hb. rewrite Forall_forall in Hlt.
  destruct (Nat.le_gt_cases (fst a) (fst b)) as [H|H]; [exact H|]. exfalso.
  unfold le2 in Hle. apply lt2_false in Hle. unfold k1, k2 in Hle.
  pose proof (sorted_pos ts _ _ HS H (Hlt a Ha)). lia.
Qed.

(* deliverable 4 *)
Theorem count_spec code ds d ch :
  StronglySorted pos_lt code ->
  (* every direct child is a descriptor nested in d *)
  (forall c, In c ch -> exists d', In d' ds /\ c = scope_of d' /\ nested_in d' d /\ fd_start d' < length code) ->
  (* every descriptor nested in d lies inside a direct child *)
  (forall d', In d' ds -> nested_in d' d ->
     exists d'', In (scope_of d'') ch /\ fd_start d'' <= fd_start d' /\ fd_close d' <= fd_close d'') ->
  own_token_indices code (scope_of d) ch = own_indices ds d.
Proof.
  intros HS H1 H2. unfold own_token_indices, own_indices.
  cbn [scope_of header_of body_of s_header s_block h_start snd].
  rewrite sti_filter.
  - apply filter_ext_in. intros k Hk. f_equal.
    rewrite (existsb_ext_In (inr k) _ (map child_range ch)) by (intros x; apply sort_ranges_In).
    apply eq_true_iff_eq. rewrite !existsb_exists. split.
    + intros (r & Hr & Hk'). apply in_map_iff in Hr. destruct Hr as (c & <- & Hc).
      destruct (H1 c Hc) as (d' & Hd' & -> & [N1 N2] & _). exists d'. split; [exact Hd'|].
      unfold inr, child_range in Hk'. cbn [scope_of header_of body_of s_header s_block h_start fst snd] in Hk'.
      apply andb_true_iff in Hk'. destruct Hk' as [A B]. apply Nat.leb_le in A. apply Nat.ltb_lt in B.
      rewrite !andb_true_iff, !Nat.ltb_lt, !Nat.leb_le. lia.
    + intros (d' & Hd' & Hk'). rewrite !andb_true_iff, !Nat.ltb_lt, !Nat.leb_le in Hk'.
      destruct (H2 d' Hd') as (d'' & Hc & A & B); [unfold nested_in; lia|].
      exists (child_range (scope_of d'')). split; [apply in_map; exact Hc|].
      unfold inr, child_range. cbn [scope_of header_of body_of s_header s_block h_start fst snd].
      rewrite andb_true_iff, Nat.ltb_lt, Nat.leb_le. lia.
  - eapply SSf_impl; [|apply seq_SS]. intros a b _ _ H. lia.
  - apply sort_ranges_fst_sorted; [exact HS|]. apply Forall_forall. intros r Hr.
    apply in_map_iff in Hr. destruct Hr as (c & <- & Hc).
    destruct (H1 c Hc) as (d' & _ & -> & _ & Hlt). exact Hlt.
Qed.

Print Assumptions count_spec.
