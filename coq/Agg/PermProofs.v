(* PermProofs.v — property C06 part (iii): the order in which the files are
   analysed (inserted into the Codebase) does not matter.  For two insertion
   orders es, es' that are permutations of each other, build gives
     a. the same files (cb_files, up to the order of the dict),
     b. the same per-language totals (dget on every language; the order of the
        totals dict may differ),
     c. the same folder tree: same set of keys, and for every key the same
        aggregated profile and the same entries up to order.
   Uses only the proved invariants of Agg/CodebaseProofs*.v (Shape / Final). *)
From Coq Require Import Permutation.
From Verif Require Import Base BaseProofs GenThresholds Thresholds Codebase
  CodebaseProofsStr CodebaseProofsTotals CodebaseProofsTree CodebaseProofsInv CodebaseProofsAgg CodebaseProofs.
Open Scope Z_scope.

(* ---------- permutation-invariance of filter / sumf / length ---------- *)
Lemma Permutation_filter' {A} (p : A -> bool) l l' :
  Permutation l l' -> Permutation (filter p l) (filter p l').
Proof.
  intros H. induction H as [|x l l' H IH|x y l|l l' l'' H1 IH1 H2 IH2]; cbn [filter].
  - constructor.
  - destruct (p x); [apply perm_skip|]; exact IH.
  - destruct (p x), (p y); try apply Permutation_refl. apply perm_swap.
  - eapply perm_trans; eassumption.
Qed.

Lemma sumf_Permutation {A} (f : A -> Z) l l' : Permutation l l' -> sumf f l = sumf f l'.
Proof.
  intros H. induction H as [|x l l' H IH|x y l|l l' l'' H1 IH1 H2 IH2].
  - reflexivity.
  - rewrite !sumf_cons, IH. reflexivity.
  - rewrite !sumf_cons. lia.
  - congruence.
Qed.

Lemma sumf_filter_Permutation {A} (p : A -> bool) (f : A -> Z) l l' :
  Permutation l l' -> sumf f (filter p l) = sumf f (filter p l').
Proof. intros H. apply sumf_Permutation, Permutation_filter', H. Qed.

Lemma length_filter_Permutation {A} (p : A -> bool) l l' :
  Permutation l l' -> length (filter p l) = length (filter p l').
Proof. intros H. apply Permutation_length, Permutation_filter', H. Qed.

(* ---------- a list of entries is determined, up to order, by its files and its sub-folder names ---------- *)
Lemma entries_split_perm (l : list entry) :
  Permutation l (map EFile (ents_files l) ++ map EFolder (ents_subs l)).
Proof.
  induction l as [|[e|n] l IH].
  - constructor.
  - change (ents_files (EFile e :: l)) with (e :: ents_files l).
    change (ents_subs (EFile e :: l)) with (ents_subs l).
    cbn [map app]. apply perm_skip, IH.
  - change (ents_files (EFolder n :: l)) with (ents_files l).
    change (ents_subs (EFolder n :: l)) with (n :: ents_subs l).
    cbn [map]. apply Permutation_cons_app, IH.
Qed.

Lemma entries_perm (l l' : list entry) :
  Permutation (ents_files l) (ents_files l') -> Permutation (ents_subs l) (ents_subs l') ->
  Permutation l l'.
Proof.
  intros Hf Hs.
  eapply perm_trans; [apply entries_split_perm|].
  eapply perm_trans; [|apply Permutation_sym, entries_split_perm].
  apply Permutation_app; apply Permutation_map; assumption.
Qed.

(* ---------- (a) files ---------- *)
Theorem C06_perm_files root es es' cb cb' :
  Permutation es es' -> NoDup (map e_path es) ->
  build root es = OK cb -> build root es' = OK cb' ->
  Permutation (cb_files cb) (cb_files cb').
Proof.
  intros HP Hnd Hb Hb'.
  assert (Hnd' : NoDup (map e_path es')).
  { eapply Permutation_NoDup; [|exact Hnd]. apply Permutation_map, HP. }
  rewrite (CodebaseProofsTotals.C07_files root es cb Hnd Hb),
          (CodebaseProofsTotals.C07_files root es' cb' Hnd' Hb').
  apply Permutation_map, HP.
Qed.

(* ---------- (b) per-language totals ---------- *)
Lemma opt_lt_Permutation L fs fs' : Permutation fs fs' -> opt_lt L fs = opt_lt L fs'.
Proof.
  intros HP. destruct fs as [|f fs].
  - apply Permutation_nil in HP. subst fs'. reflexivity.
  - destruct fs' as [|f' fs'].
    + apply Permutation_sym, Permutation_nil in HP. discriminate.
    + unfold opt_lt, lt_of.
      rewrite (Permutation_length HP).
      rewrite (sumf_Permutation e_loc _ _ HP), (sumf_Permutation n_functions _ _ HP),
              (sumf_Permutation n_hard _ _ HP), (sumf_Permutation n_unm _ _ HP).
      reflexivity.
Qed.

Theorem C06_perm_totals root es es' cb cb' :
  Permutation es es' -> build root es = OK cb -> build root es' = OK cb' ->
  forall L, dget (cb_totals cb) L = dget (cb_totals cb') L.
Proof.
  intros HP Hb Hb' L.
  apply build_inv in Hb. destruct Hb as (cb0 & Hadd & _ & _ & _ & Ht).
  apply build_inv in Hb'. destruct Hb' as (cb0' & Hadd' & _ & _ & _ & Ht').
  apply add_files_totals in Hadd; [|reflexivity]. destruct Hadd as [_ Hget].
  apply add_files_totals in Hadd'; [|reflexivity]. destruct Hadd' as [_ Hget'].
  rewrite Ht, Ht', Hget, Hget'. apply opt_lt_Permutation, Permutation_filter', HP.
Qed.

(* the same statement, read field by field through C07_lang_totals: when some file has language L,
   both codebases have a totals record for L and all six fields coincide; otherwise neither has one *)
Theorem C06_perm_totals_fields root es es' cb cb' :
  Permutation es es' -> build root es = OK cb -> build root es' = OK cb' ->
  forall L,
    (dget (cb_totals cb) L = None <-> dget (cb_totals cb') L = None) /\
    (forall t t', dget (cb_totals cb) L = Some t -> dget (cb_totals cb') L = Some t' ->
       lt_language t = lt_language t' /\ lt_files t = lt_files t' /\ lt_loc t = lt_loc t' /\
       lt_functions t = lt_functions t' /\ lt_hard_to_maintain t = lt_hard_to_maintain t' /\
       lt_unmaintainable t = lt_unmaintainable t').
Proof.
  intros HP Hb Hb' L. rewrite (C06_perm_totals root es es' cb cb' HP Hb Hb' L). split; [tauto|].
  intros t t' E E'. rewrite E in E'. inversion E'; subst. repeat split; reflexivity.
Qed.

(* ---------- (c) the folder tree ---------- *)
Lemma Shape_perm_keys es es' t t' : Permutation es es' -> Shape es t -> Shape es' t' ->
  forall k, In k (keys t) <-> In k (keys t').
Proof.
  intros HP HS HS' k. rewrite (sh_keys _ _ HS), (sh_keys _ _ HS'). split.
  - intros [->|(e & He & Ha)]; [left; reflexivity|right]. exists e. split; [|exact Ha].
    eapply Permutation_in; eauto.
  - intros [->|(e & He & Ha)]; [left; reflexivity|right]. exists e. split; [|exact Ha].
    eapply Permutation_in; [apply Permutation_sym|]; eauto.
Qed.

Lemma Shape_perm_entries es es' t t' : Permutation es es' -> Shape es t -> Shape es' t' ->
  forall k fo fo', In (k, fo) t -> In (k, fo') t' -> Permutation (fo_entries fo) (fo_entries fo').
Proof.
  intros HP HS HS' k fo fo' Hin Hin'.
  pose proof (Shape_perm_keys es es' t t' HP HS HS') as Hkeys.
  apply entries_perm.
  - (* files *)
    fold (files_of fo). fold (files_of fo').
    rewrite (shape_files es t HS k fo Hin), (shape_files es' t' HS' k fo' Hin').
    apply Permutation_filter', HP.
  - (* sub-folders *)
    pose proof (sh_t _ _ HS) as HT. pose proof (sh_t _ _ HS') as HT'.
    apply (shape_lookup es t HS) in Hin. apply (shape_lookup es' t' HS') in Hin'.
    destruct (ti_keys _ _ HT k (dget_Some_key _ _ _ Hin)) as (cs & Hg & ->).
    destruct (ti_subs _ _ HT cs fo Hg Hin) as (names & Hn1 & Hn2 & Hn3).
    destruct (ti_subs _ _ HT' cs fo' Hg Hin') as (names' & Hm1 & Hm2 & Hm3).
    fold (subs_of fo). fold (subs_of fo'). rewrite Hn1, Hm1.
    apply Permutation_map. apply NoDup_Permutation; [exact Hn2|exact Hm2|].
    intros c. rewrite Hn3, Hm3, (Hkeys (fkey (cs ++ [c]))). reflexivity.
Qed.

Lemma target_Permutation es es' k : Permutation es es' -> target es k = target es' k.
Proof.
  intros HP. unfold target, prof4, files_beneath.
  rewrite (sumf_filter_Permutation _ (pe 0) _ _ HP), (sumf_filter_Permutation _ (pe 1) _ _ HP),
          (sumf_filter_Permutation _ (pe 2) _ _ HP), (sumf_filter_Permutation _ (pe 3) _ _ HP).
  reflexivity.
Qed.

Theorem C06_perm_tree_keys root es es' cb cb' :
  Permutation es es' -> Forall wf_path (map e_path es) ->
  build root es = OK cb -> build root es' = OK cb' ->
  forall k, In k (map fst (cb_tree cb)) <-> In k (map fst (cb_tree cb')).
Proof.
  intros HP Hwf Hb Hb'.
  assert (Hwf' : Forall wf_path (map e_path es')).
  { eapply Permutation_Forall; [|exact Hwf]. apply Permutation_map, HP. }
  destruct (build_Final root es cb Hwf Hb) as [HS _].
  destruct (build_Final root es' cb' Hwf' Hb') as [HS' _].
  apply (Shape_perm_keys es es' _ _ HP HS HS').
Qed.

Theorem C06_perm_tree_profile root es es' cb cb' :
  Permutation es es' -> Forall wf_path (map e_path es) ->
  build root es = OK cb -> build root es' = OK cb' ->
  forall k fo fo', In (k, fo) (cb_tree cb) -> In (k, fo') (cb_tree cb') -> fo_profile fo = fo_profile fo'.
Proof.
  intros HP Hwf Hb Hb' k fo fo' Hin Hin'.
  assert (Hwf' : Forall wf_path (map e_path es')).
  { eapply Permutation_Forall; [|exact Hwf]. apply Permutation_map, HP. }
  destruct (build_Final root es cb Hwf Hb) as [_ HPr].
  destruct (build_Final root es' cb' Hwf' Hb') as [_ HPr'].
  rewrite (HPr k fo Hin), (HPr' k fo' Hin'). apply target_Permutation, HP.
Qed.

Theorem C06_perm_tree_entries root es es' cb cb' :
  Permutation es es' -> Forall wf_path (map e_path es) ->
  build root es = OK cb -> build root es' = OK cb' ->
  forall k fo fo', In (k, fo) (cb_tree cb) -> In (k, fo') (cb_tree cb') ->
    Permutation (fo_entries fo) (fo_entries fo').
Proof.
  intros HP Hwf Hb Hb'.
  assert (Hwf' : Forall wf_path (map e_path es')).
  { eapply Permutation_Forall; [|exact Hwf]. apply Permutation_map, HP. }
  destruct (build_Final root es cb Hwf Hb) as [HS _].
  destruct (build_Final root es' cb' Hwf' Hb') as [HS' _].
  apply (Shape_perm_entries es es' _ _ HP HS HS').
Qed.

(* every folder of one tree has a counterpart (same key) in the other, so the comparisons above are not vacuous *)
Theorem C06_perm_tree_counterpart root es es' cb cb' :
  Permutation es es' -> Forall wf_path (map e_path es) ->
  build root es = OK cb -> build root es' = OK cb' ->
  forall k fo, In (k, fo) (cb_tree cb) -> exists fo', In (k, fo') (cb_tree cb').
Proof.
  intros HP Hwf Hb Hb' k fo Hin.
  assert (Hk : In k (map fst (cb_tree cb'))).
  { apply (C06_perm_tree_keys root es es' cb cb' HP Hwf Hb Hb'). apply (in_map fst) in Hin. exact Hin. }
  destruct (dget_In_key _ _ Hk) as (fo' & E). exists fo'. apply dget_Some_In, E.
Qed.

(* ---------- the whole of part (iii), exactly as required ---------- *)
Theorem C06_order_irrelevant root es es' cb cb' :
  Permutation es es' -> Forall wf_path (map e_path es) -> NoDup (map e_path es) -> Forall mk_built es ->
  build root es = OK cb -> build root es' = OK cb' ->
  (* a *) Permutation (cb_files cb) (cb_files cb') /\
  (* b *) (forall L, dget (cb_totals cb) L = dget (cb_totals cb') L) /\
  (* c *) (forall k, In k (map fst (cb_tree cb)) <-> In k (map fst (cb_tree cb'))) /\
          (forall k fo fo', In (k, fo) (cb_tree cb) -> In (k, fo') (cb_tree cb') ->
             fo_profile fo = fo_profile fo' /\ Permutation (fo_entries fo) (fo_entries fo')).
Proof.
  intros HP Hwf Hnd _ Hb Hb'. split; [|split; [|split]].
  - apply (C06_perm_files root es es' cb cb' HP Hnd Hb Hb').
  - apply (C06_perm_totals root es es' cb cb' HP Hb Hb').
  - apply (C06_perm_tree_keys root es es' cb cb' HP Hwf Hb Hb').
  - intros k fo fo' Hin Hin'. split.
    + apply (C06_perm_tree_profile root es es' cb cb' HP Hwf Hb Hb' k fo fo' Hin Hin').
    + apply (C06_perm_tree_entries root es es' cb cb' HP Hwf Hb Hb' k fo fo' Hin Hin').
Qed.

(* the second build never fails either, so the hypothesis on es' can be dropped *)
Theorem C06_order_irrelevant_total root es es' cb :
  Permutation es es' -> Forall wf_path (map e_path es) -> build root es = OK cb ->
  exists cb', build root es' = OK cb'.
Proof.
  intros HP Hwf _. apply C07_build_total.
  eapply Permutation_Forall; [|exact Hwf]. apply Permutation_map, HP.
Qed.

(* sanity: the ORDER of the dictionaries really depends on the insertion order (so "=" would be false) *)
Example C06_order_visible :
  let e1 := mk_entry [97; 47; 98; 46; 99] [99] [67] 1 [] in
  let e2 := mk_entry [109; 46; 112; 121] [99] [80] 1 [] in
  match build [47] [e1; e2], build [47] [e2; e1] with
  | OK cb, OK cb' => map fst (cb_totals cb) <> map fst (cb_totals cb') /\
                     map fst (cb_files cb) <> map fst (cb_files cb') /\
                     (forall fo fo', In (rootk, fo) (cb_tree cb) -> In (rootk, fo') (cb_tree cb') ->
                        fo_entries fo <> fo_entries fo')
  | _, _ => False
  end.
Proof.
  vm_compute. split; [discriminate|]. split; [discriminate|].
  intros fo fo' [E|[E|[]]] [E'|[E'|[]]]; inversion E; inversion E'; subst; cbn; discriminate.
Qed.

Print Assumptions C06_perm_files.
Print Assumptions C06_perm_totals.
Print Assumptions C06_perm_totals_fields.
Print Assumptions C06_perm_tree_keys.
Print Assumptions C06_perm_tree_profile.
Print Assumptions C06_perm_tree_entries.
Print Assumptions C06_perm_tree_counterpart.
Print Assumptions C06_order_irrelevant.
Print Assumptions C06_order_irrelevant_total.
