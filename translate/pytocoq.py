"""Fail-closed translator from a small subset of Python (ast) to Gallina text.

Used for the *leaf* code of codelimit (threshold ladders, counters, delta
formatting, range comparisons).  Anything outside the supported subset raises
Unsupported: the caller reports a broken tie, it never skips.

Conventions of the emitted Gallina (see coq/Base/Base.v):
  int -> Z, bool -> bool, str -> pystr (list of code points), list -> list,
  obj.attr -> (f_attr obj) (type-class projection), self.attr of a method whose
  `self_fields` are declared -> variable self_attr, Optional objects used as
  conditions -> match .. with Some v | None.
"""
import ast
import warnings
warnings.simplefilter("ignore", SyntaxWarning)

COQ_KEYWORDS = {"end", "type", "in", "fix", "fun", "let", "match", "with", "if", "then",
                "else", "return", "as", "at", "cofix", "exists", "forall", "using", "where",
                "Type", "Prop", "Set", "length", "map", "filter", "nth", "open", "close"}


class Unsupported(Exception):
    pass


def ident(name: str) -> str:
    name = name.lstrip("_") or "u"
    return name + "_" if name in COQ_KEYWORDS else name


def str_lit(s: str) -> str:
    return "[" + "; ".join(str(ord(c)) for c in s) + "]"


class FuncTr:
    def __init__(self, known_funcs=(), ctors=None, option_exprs=(), self_fields=None,
                 qmode=False, method_proj=(), aliases=None, return_state=(), str_exprs=()):
        self.known = set(known_funcs)          # names of other translated functions
        self.ctors = ctors or {}               # Python class name -> Coq constructor
        self.option_exprs = set(option_exprs)  # ast.unparse() texts that are Optional objects
        self.self_fields = self_fields         # list of attr names or None
        self.qmode = qmode                     # ints are Q, '/' allowed
        self.binders = dict(aliases or {})     # unparse text -> variable (aliases, Some-binders)
        self.method_proj = set(method_proj)    # zero-arg methods treated as projections
        self.return_state = list(return_state)  # state variables paired with every returned value (methods that update self)
        self.str_exprs = set(str_exprs)         # ast.unparse() texts of string-valued operands: == / != on them is pystr_eqb

    # ---------- expressions ----------
    def num(self, n):
        if self.qmode:
            return f"({n} # 1)" if n >= 0 else f"(-{-n} # 1)"
        return f"{n}" if n >= 0 else f"({n})"

    def expr(self, e) -> str:
        key = ast.unparse(e)
        if key in self.binders:
            return self.binders[key]
        m = getattr(self, "e_" + type(e).__name__, None)
        if m is None:
            raise Unsupported(f"expression {type(e).__name__}: {key}")
        return m(e)

    def e_Constant(self, e):
        v = e.value
        if v is True:
            return "true"
        if v is False:
            return "false"
        if isinstance(v, int):
            return self.num(v)
        if isinstance(v, str):
            return str_lit(v)
        if isinstance(v, float) and self.qmode:
            from fractions import Fraction
            fr = Fraction(str(v))
            return f"({fr.numerator} # {fr.denominator})"
        raise Unsupported(f"constant {v!r}")

    def e_Name(self, e):
        return ident(e.id)

    def e_Attribute(self, e):
        if isinstance(e.value, ast.Name) and e.value.id == "self" and self.self_fields is not None:
            if e.attr.lstrip("_") not in [f.lstrip("_") for f in self.self_fields]:
                raise Unsupported(f"self.{e.attr} not a declared field")
            return "self_" + ident(e.attr)
        return f"(f_{ident(e.attr)} {self.expr(e.value)})"

    def e_UnaryOp(self, e):
        if isinstance(e.op, ast.Not):
            return f"(negb {self.cond(e.operand)})"
        if isinstance(e.op, ast.USub):
            return f"(- {self.expr(e.operand)})"
        raise Unsupported("unary op")

    def e_BinOp(self, e):
        ops = {ast.Add: "+", ast.Sub: "-", ast.Mult: "*"}
        if type(e.op) in ops:
            return f"({self.expr(e.left)} {ops[type(e.op)]} {self.expr(e.right)})"
        if isinstance(e.op, ast.Div) and self.qmode:
            return f"({self.expr(e.left)} / {self.expr(e.right)})"
        raise Unsupported(f"binary op {type(e.op).__name__}")

    def e_BoolOp(self, e):
        op = "&&" if isinstance(e.op, ast.And) else "||"
        return "(" + f" {op} ".join(self.cond(v) for v in e.values) + ")"

    def e_Compare(self, e):
        parts = []
        left = e.left
        for op, right in zip(e.ops, e.comparators):
            a, b = self.expr(left), self.expr(right)
            if ast.unparse(left) in self.str_exprs or ast.unparse(right) in self.str_exprs or \
                    (isinstance(left, ast.Constant) and isinstance(left.value, str) and ast.unparse(left) not in self.binders) or \
                    (isinstance(right, ast.Constant) and isinstance(right.value, str) and ast.unparse(right) not in self.binders):
                if isinstance(op, ast.Eq):
                    parts.append(f"(pystr_eqb {a} {b})")
                elif isinstance(op, ast.NotEq):
                    parts.append(f"(negb (pystr_eqb {a} {b}))")
                else:
                    raise Unsupported("ordering comparison of strings")
                left = right
                continue
            if self.qmode:
                tbl = {ast.Lt: f"(Qltb {a} {b})", ast.LtE: f"(Qle_bool {a} {b})",
                       ast.Gt: f"(Qltb {b} {a})", ast.GtE: f"(Qle_bool {b} {a})",
                       ast.Eq: f"(Qeq_bool {a} {b})"}
            else:
                tbl = {ast.Lt: f"({a} <? {b})", ast.LtE: f"({a} <=? {b})",
                       ast.Gt: f"({a} >? {b})", ast.GtE: f"({a} >=? {b})",
                       ast.Eq: f"({a} =? {b})", ast.NotEq: f"(negb ({a} =? {b}))"}
            if type(op) not in tbl:
                raise Unsupported(f"comparison {type(op).__name__}")
            parts.append(tbl[type(op)])
            left = right
        return parts[0] if len(parts) == 1 else "(" + " && ".join(parts) + ")"

    def e_IfExp(self, e):
        key = ast.unparse(e.test)
        if key in self.option_exprs:
            return self.option_match(e.test, lambda: self.expr(e.body), lambda: self.expr(e.orelse))
        return f"(if {self.cond(e.test)} then {self.expr(e.body)} else {self.expr(e.orelse)})"

    def option_match(self, test, some_k, none_k):
        key = ast.unparse(test)
        var = "opt_" + "".join(c if c.isalnum() else "_" for c in key)[-24:]
        scrut = self.expr(test)
        self.binders[key] = var
        try:
            s = some_k()
        finally:
            del self.binders[key]
        n = none_k()
        return f"(match {scrut} with Some {var} => {s} | None => {n} end)"

    def cond(self, e) -> str:
        """expression in boolean position"""
        if ast.unparse(e) in self.option_exprs:
            raise Unsupported("Optional object as plain condition: " + ast.unparse(e))
        if isinstance(e, (ast.Compare, ast.BoolOp, ast.Name, ast.Constant, ast.Attribute)) or (
                isinstance(e, ast.UnaryOp) and isinstance(e.op, ast.Not)):
            return self.expr(e)
        if isinstance(e, ast.Call):
            return self.expr(e)
        raise Unsupported("condition " + ast.unparse(e))

    def e_Tuple(self, e):
        return "(" + ", ".join(self.expr(x) for x in e.elts) + ")"

    def e_List(self, e):
        return "[" + "; ".join(self.expr(x) for x in e.elts) + "]"

    def e_Subscript(self, e):
        sl = e.slice
        if isinstance(sl, ast.Constant) and isinstance(sl.value, int) and sl.value >= 0:
            return f"(nthZ {sl.value} {self.expr(e.value)})"
        if isinstance(sl, ast.Slice) and sl.lower is None and sl.step is None and \
                isinstance(sl.upper, ast.Constant) and isinstance(sl.upper.value, int) and sl.upper.value >= 0:
            return f"(firstn {sl.upper.value} {self.expr(e.value)})"
        raise Unsupported("subscript " + ast.unparse(e))

    def e_ListComp(self, e):
        if len(e.generators) != 1 or e.generators[0].is_async:
            raise Unsupported("comprehension shape")
        g = e.generators[0]
        if not isinstance(g.target, ast.Name):
            raise Unsupported("comprehension target")
        v = ident(g.target.id)
        src = self.expr(g.iter)
        for c in g.ifs:
            src = f"(filter (fun {v} => {self.cond(c)}) {src})"
        if isinstance(e.elt, ast.Name) and e.elt.id == g.target.id:
            return src
        return f"(map (fun {v} => {self.expr(e.elt)}) {src})"

    def e_Lambda(self, e):
        if len(e.args.args) != 1:
            raise Unsupported("lambda arity")
        return f"(fun {ident(e.args.args[0].arg)} => {self.expr(e.body)})"

    def e_Call(self, e):
        f = e.func
        kw = {k.arg: k.value for k in e.keywords}
        if isinstance(f, ast.Name):
            n = f.id
            if n == "len" and len(e.args) == 1 and not kw:
                return f"(Z.of_nat (length {self.expr(e.args[0])}))"
            if n in ("max", "min") and len(e.args) == 2 and not kw and not self.qmode:
                return f"(Z.{n} {self.expr(e.args[0])} {self.expr(e.args[1])})"
            if n == "sum" and len(e.args) == 1 and not kw:
                return f"(sumZ {self.expr(e.args[0])})"
            if n == "str" and len(e.args) == 1 and not kw:
                return f"(fmt_d {self.expr(e.args[0])})"
            if n == "ceil" and len(e.args) == 1 and not kw:
                num, den = self.rat(e.args[0])
                return f"(cdiv {num} {den})"
            if n == "sorted" and len(e.args) == 1 and set(kw) <= {"key", "reverse"} and "key" in kw:
                rev = kw.get("reverse")
                if rev is not None and not (isinstance(rev, ast.Constant) and rev.value in (True, False)):
                    raise Unsupported("sorted reverse")
                fn = "sort_desc" if (rev is not None and rev.value) else "sort_asc"
                return f"({fn} {self.expr(kw['key'])} {self.expr(e.args[0])})"
            if n == "Style" and not e.args and set(kw) == {"color"}:
                return self.expr(kw["color"])
            if n in self.ctors and not kw:
                return "(" + " ".join([self.ctors[n]] + [self.expr(a) for a in e.args]) + ")"
            if n in self.known and not kw:
                return "(" + " ".join([ident(n)] + [self.expr(a) for a in e.args]) + ")"
            raise Unsupported("call " + ast.unparse(e))
        if isinstance(f, ast.Attribute) and not e.args and not kw and f.attr in self.method_proj:
            return self.e_Attribute(f)
        if isinstance(f, ast.Attribute) and f.attr == "items" and not e.args and not kw:
            return self.expr(f.value)      # dict -> association list
        if isinstance(f, ast.Attribute) and not kw and f.attr in self.known:
            return "(" + " ".join([ident(f.attr), self.expr(f.value)] + [self.expr(a) for a in e.args]) + ")"
        raise Unsupported("call " + ast.unparse(e))

    def rat(self, e):
        """exact rational value of an arithmetic expression as (numerator, denominator) Gallina Z terms;
        Python floats in the source are read as the decimal fractions they are written as"""
        from fractions import Fraction
        if isinstance(e, ast.Constant) and isinstance(e.value, (int, float)) and not isinstance(e.value, bool):
            fr = Fraction(str(e.value))
            return (str(fr.numerator) if fr.numerator >= 0 else f"({fr.numerator})", str(fr.denominator))
        if isinstance(e, ast.BinOp):
            (an, ad), (bn, bd) = self.rat(e.left), self.rat(e.right)
            if isinstance(e.op, ast.Div):
                return (f"({an} * {bd})", f"({ad} * {bn})")
            if isinstance(e.op, ast.Mult):
                return (f"({an} * {bn})", f"({ad} * {bd})")
            if isinstance(e.op, ast.Sub):
                return (f"({an} * {bd} - {bn} * {ad})", f"({ad} * {bd})")
            if isinstance(e.op, ast.Add):
                return (f"({an} * {bd} + {bn} * {ad})", f"({ad} * {bd})")
            raise Unsupported("rational op " + type(e.op).__name__)
        if isinstance(e, (ast.Name, ast.Subscript, ast.Attribute)):
            return (self.expr(e), "1")
        raise Unsupported("rational expression " + ast.unparse(e))

    def e_JoinedStr(self, e):
        parts = []
        for v in e.values:
            if isinstance(v, ast.Constant):
                parts.append(str_lit(v.value))
            elif isinstance(v, ast.FormattedValue):
                if v.conversion != -1:
                    raise Unsupported("f-string conversion")
                spec = ""
                if v.format_spec is not None:
                    if not all(isinstance(x, ast.Constant) for x in v.format_spec.values):
                        raise Unsupported("dynamic format spec")
                    spec = "".join(x.value for x in v.format_spec.values)
                fn = {"": "fmt_d", "n": "fmt_n", "+n": "fmt_plus_n", "3": "fmt_w3"}.get(spec)
                if fn is None:
                    raise Unsupported(f"format spec {spec!r}")
                parts.append(f"({fn} {self.expr(v.value)})")
            else:
                raise Unsupported("f-string part")
        return "(" + " ++ ".join(parts or ["[]"]) + ")"

    # ---------- statements ----------
    def target(self, t) -> str:
        if isinstance(t, ast.Name):
            return ident(t.id)
        if isinstance(t, ast.Attribute) and isinstance(t.value, ast.Name) and t.value.id == "self" \
                and self.self_fields is not None:
            return self.e_Attribute(t)
        raise Unsupported("assignment target " + ast.unparse(t))

    def assigned(self, stmts) -> list:
        out = []

        def add(x):
            if x not in out:
                out.append(x)
        for s in stmts:
            if isinstance(s, ast.Assign):
                for t in s.targets:
                    if isinstance(t, ast.Tuple):
                        for x in t.elts:
                            add(self.target(x))
                    else:
                        add(self.target(t))
            elif isinstance(s, ast.AugAssign):
                if isinstance(s.target, ast.Subscript):
                    add(self.target(s.target.value))
                else:
                    add(self.target(s.target))
            elif isinstance(s, ast.Expr) and isinstance(s.value, ast.Call) and \
                    isinstance(s.value.func, ast.Attribute) and s.value.func.attr == "append":
                add(self.target(s.value.func.value))
            elif isinstance(s, ast.If):
                for x in self.assigned(s.body) + self.assigned(s.orelse):
                    add(x)
            elif isinstance(s, ast.For):
                for x in self.assigned(s.body):
                    add(x)
            elif isinstance(s, (ast.Return, ast.Pass)):
                pass
            elif isinstance(s, ast.Expr) and isinstance(s.value, ast.Constant):
                pass
            else:
                raise Unsupported("statement " + type(s).__name__ + ": " + ast.unparse(s)[:60])
        return out

    @staticmethod
    def terminates(stmts) -> bool:
        if not stmts:
            return False
        s = stmts[-1]
        if isinstance(s, ast.Return):
            return True
        if isinstance(s, ast.If):
            return FuncTr.terminates(s.body) and FuncTr.terminates(s.orelse)
        return False

    @staticmethod
    def pat(vs):
        return vs[0] if len(vs) == 1 else "'(" + ", ".join(vs) + ")"

    @staticmethod
    def tup(vs):
        return vs[0] if len(vs) == 1 else "(" + ", ".join(vs) + ")"

    def block(self, stmts, tail) -> str:
        if not stmts:
            if tail is None:
                raise Unsupported("control falls off the end without a value")
            return tail
        s, rest = stmts[0], stmts[1:]
        if isinstance(s, ast.Expr) and isinstance(s.value, ast.Constant):
            return self.block(rest, tail)
        if isinstance(s, ast.Pass):
            return self.block(rest, tail)
        if isinstance(s, ast.Return):
            if s.value is None:
                raise Unsupported("bare return")
            if self.return_state:
                return "(" + ", ".join([self.expr(s.value)] + self.return_state) + ")"
            return self.expr(s.value)
        if isinstance(s, ast.Assign):
            if len(s.targets) != 1:
                raise Unsupported("multiple assignment")
            t = s.targets[0]
            if isinstance(t, ast.Tuple):
                p = "'(" + ", ".join(self.target(x) for x in t.elts) + ")"
            else:
                p = self.target(t)
            return f"let {p} := {self.expr(s.value)} in\n{self.block(rest, tail)}"
        if isinstance(s, ast.AugAssign):
            if not isinstance(s.op, (ast.Add, ast.Sub)):
                raise Unsupported("augmented op")
            op = "+" if isinstance(s.op, ast.Add) else "-"
            if isinstance(s.target, ast.Subscript):
                sl = s.target.slice
                if not (isinstance(sl, ast.Constant) and isinstance(sl.value, int) and sl.value >= 0):
                    raise Unsupported("augmented subscript index")
                r = self.target(s.target.value)
                return (f"let {r} := upd {sl.value} (nthZ {sl.value} {r} {op} {self.expr(s.value)}) {r} in\n"
                        f"{self.block(rest, tail)}")
            x = self.target(s.target)
            return f"let {x} := ({x} {op} {self.expr(s.value)}) in\n{self.block(rest, tail)}"
        if isinstance(s, ast.Expr) and isinstance(s.value, ast.Call) and \
                isinstance(s.value.func, ast.Attribute) and s.value.func.attr == "append" \
                and len(s.value.args) == 1 and not s.value.keywords:
            x = self.target(s.value.func.value)
            return f"let {x} := ({x} ++ [{self.expr(s.value.args[0])}]) in\n{self.block(rest, tail)}"
        if isinstance(s, ast.If):
            key = ast.unparse(s.test)
            is_opt = key in self.option_exprs

            def ite(a_k, b_k):
                if is_opt:
                    return self.option_match(s.test, a_k, b_k)
                c = self.cond(s.test)
                return f"(if {c} then {a_k()} else {b_k()})"
            if self.terminates(s.body):
                return ite(lambda: self.block(s.body, None), lambda: self.block(s.orelse + rest, tail))
            if s.orelse and self.terminates(s.orelse):
                return ite(lambda: self.block(s.body + rest, tail), lambda: self.block(s.orelse, None))
            vs = self.assigned(s.body + s.orelse)
            if not vs:
                raise Unsupported("if statement without effect")
            t = self.tup(vs)
            return (f"let {self.pat(vs)} := {ite(lambda: self.block(s.body, t), lambda: self.block(s.orelse, t))} in\n"
                    f"{self.block(rest, tail)}")
        if isinstance(s, ast.For):
            if s.orelse:
                raise Unsupported("for-else")
            vs = self.assigned(s.body)
            if not vs:
                raise Unsupported("loop without effect")
            if isinstance(s.target, ast.Name):
                v = ident(s.target.id)
            elif isinstance(s.target, ast.Tuple) and all(isinstance(x, ast.Name) for x in s.target.elts):
                v = "'(" + ", ".join(ident(x.id) for x in s.target.elts) + ")"
            else:
                raise Unsupported("loop target")
            t = self.tup(vs)
            accp = vs[0] if len(vs) == 1 else "'(" + ", ".join(vs) + ")"
            return (f"let {self.pat(vs)} := fold_left (fun {accp} {v} =>\n{self.block(s.body, t)})\n"
                    f"  {self.expr(s.iter)} {t} in\n{self.block(rest, tail)}")
        raise Unsupported("statement " + type(s).__name__ + ": " + ast.unparse(s)[:60])


def find_func(tree, qualname):
    parts = qualname.split(".")
    body = tree.body
    node = None
    for p in parts:
        node = next((n for n in body if isinstance(n, (ast.FunctionDef, ast.ClassDef)) and n.name == p), None)
        if node is None:
            raise Unsupported(f"{qualname}: not found")
        body = node.body
    if not isinstance(node, ast.FunctionDef):
        raise Unsupported(f"{qualname}: not a function")
    return node
