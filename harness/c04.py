"""C04 — comments, blank lines and white space never change what is measured."""
import glob
import re
import multiprocessing as mp
import os
import random

from common import Check, assert_repo_import, eval_cases, eval_one, canon_tree, NPROC, VERIF
import lang_common as LC
import progen

IMPORTS = "Base Token TokEngine Lex Headers Blocks Pairing Fold ScanFile"

# (the last four: openers longer than the comment leader — after ONE leader the text does not begin with the marker word, so
#  these mark nothing, also as trailing comments on a function's name line; seeded change C04-20: leader stripped as a character set)
_LC = ["// c", "//", "// see nocl below", "/* c */", "/* a } b { */", "/**/", "// page\x0cbreak", "/* a\x85b\u2028c */", "// nbsp\xa0",
       "/// noclobber: keep", "/** noclobber */", "//// nocl", "/* * nocl */"]
_BL = ["/* a\n   b\n*/", "/*\n * } nocl is not first\n */", "// a\n// b", "// nocl\n// on lines of their own"]
LINE_COMMENTS = {"Python": ["# c", "#", "# see nocl below", "#!x", "# page\x0cbreak", "# a\x85b\u2028c", "# nbsp\xa0", "## noclobber", "#; nocl"],
                 # the JavaScript / TypeScript lexers type the HTML-style opener as a plain Comment token
                 "JavaScript": _LC + ["<!-- legacy"], "TypeScript": _LC + ["<!-- legacy"],
                 "default": _LC}
# a disabled preprocessor region is lexed as Comment tokens (the bare Comment type) by the C / C++ lexers
_IF0 = ["#if 0\nint old(void) { return 1; }\n#endif", "#if 0\n  x = y;\n#endif"]
BLOCKS = {"Python": ['# a\n# b', "# nocl\n# on lines of their own"], "C": _BL + _IF0, "Cpp": _BL + _IF0, "default": _BL}


def safe_boundaries(lang, text):
    """line numbers k (1-based) such that new lines may be inserted BEFORE line k, and lines whose end is safe"""
    raw = LC.raw_lex(lang, text)
    starts = [0]
    for i, c in enumerate(text):
        if c == "\n":
            starts.append(i + 1)
    inside = set()        # offsets of line starts lying strictly inside a token
    for off, tt, v in raw:
        if "\n" in v[:-1]:
            for i, c in enumerate(v[:-1]):
                if c == "\n":
                    inside.add(off + i + 1)
    lines = text.split("\n")
    ok = []
    for k in range(1, len(lines) + 1):
        if starts[k - 1] in inside:
            continue
        if k >= 2 and lines[k - 2].rstrip().endswith("\\"):
            continue
        ok.append(k)
    return ok, lines, inside, starts


def code_stream(lang, text):
    from pygments.token import Comment, Text, Whitespace
    out = []
    line = 1
    col = 1
    for off, tt, v in LC.raw_lex(lang, text):
        if v and tt not in Comment and not ((tt == Text or tt == Whitespace) and v.isspace()):
            out.append((LC.kind_code(tt), v, line, col))
        nl = v.count("\n")
        if nl:
            line += nl
            col = len(v) - v.rfind("\n")
        else:
            col += len(v)
    return out


def modify(rng, lang, text):
    """returns (new_text, phi as dict old_line -> new_line, description) or None"""
    ok, lines, inside, starts = safe_boundaries(lang, text)
    if not ok:
        return None
    styles = LINE_COMMENTS.get(lang, LINE_COMMENTS["default"])
    blocks = BLOCKS.get(lang, BLOCKS["default"])
    n_ins = rng.choice([1, 1, 2, 3, 5])
    inserts = {}            # before line k -> list of lines
    trailing = {}           # line k -> suffix
    desc = []
    for _ in range(n_ins):
        r = rng.random()
        if r < 0.7:
            k = rng.choice(ok)
            # a third of the insertions go right below an existing comment line (a marker comment on a line of its
            # own must keep marking nothing when the lines around it move)
            below_comment = [j for j in ok if j >= 2 and lines[j - 2].lstrip().startswith(("//", "#", "/*"))]
            if below_comment and rng.random() < 0.35:
                k = rng.choice(below_comment)
            kind = rng.random()
            indent = " " * rng.choice([0, 0, 2, 4, 8, 12])
            if kind < 0.3:
                # white-space lines, also of characters that are white space without being ASCII blanks and of
                # characters str.splitlines() treats as line boundaries although they are no line breaks
                new = [rng.choice(["", "   ", "\t", "\x0c", " \x0b ", "\xa0", "\u3000\u2003", "\x1c", " \x85", "\u2028"])]
                desc.append(f"blank ({new[0]!r}) before {k}")
            elif kind < 0.8:
                new = [indent + rng.choice(styles)]
                desc.append(f"comment line before {k}")
            else:
                new = [indent + l for l in rng.choice(blocks).split("\n")]
                desc.append(f"block comment before {k}")
            inserts.setdefault(k, []).extend(new)
        else:
            # trailing comment / white space at the end of a line whose end is not inside a token
            cands = [k for k in range(1, len(lines) + 1)
                     if (k == len(lines) or starts[k] not in inside) and not lines[k - 1].rstrip().endswith("\\")
                     and (lines[k - 1].strip() != "")]
            if not cands:
                continue
            k = rng.choice(cands)
            if rng.random() < 0.5:
                trailing[k] = rng.choice(["   ", "   ", "\t", " \xa0", "\u3000", " \x0c"])
                desc.append(f"trailing white space ({trailing[k]!r}) on {k}")
            else:
                st = rng.choice([s for s in styles if "\n" not in s])
                trailing[k] = "  " + st
                desc.append(f"trailing comment on {k}")
    out = []
    phi = {}
    for k in range(1, len(lines) + 1):
        out.extend(inserts.get(k, []))
        phi[k] = len(out) + 1
        out.append(lines[k - 1] + trailing.get(k, ""))
    return "\n".join(out), phi, "; ".join(desc)


def _work(args):
    lang, items, seed, per_file = args
    rng = random.Random(seed)
    res = []
    for name, text in items:
        base = LC.guarded(lambda: LC.impl_scan(lang, text))
        try:
            base_stream = code_stream(lang, text)
        except AssertionError:
            continue
        for _ in range(per_file):
            m = modify(rng, lang, text)
            if m is None:
                continue
            new_text, phi, desc = m
            try:
                new_stream = code_stream(lang, new_text)
            except AssertionError:
                res.append((name, "skipped: lexer contract", None, None, desc, None))
                continue
            exp_stream = [(k, v, phi[l], c) for k, v, l, c in base_stream]
            if new_stream != exp_stream:
                # the insertion changed the lexer's code tokens: not a token-safe insertion for this lexer
                res.append((name, "skipped: lexer tokenises differently", None, None, desc, None))
                continue
            got = LC.guarded(lambda: LC.impl_scan(lang, new_text))
            probs = []
            if base[0] != got[0]:
                probs.append(f"original -> {base}, modified -> {got}")
            elif base[0] == 0:
                exp = [[n, [phi[s[0]], s[1]], [phi.get(e[0], e[0]), e[1]], v] for n, s, e, v in base[1]]
                if [g[0] for g in got[1]] != [e[0] for e in exp]:
                    probs.append(f"functions {[g[0] for g in got[1]]} instead of {[e[0] for e in exp]}")
                else:
                    for g, e, b in zip(got[1], exp, base[1]):
                        if g[3] != e[3]:
                            probs.append(f"{g[0]}: length {e[3]} -> {g[3]}")
                        if g[1] != e[1] or g[2] != e[2]:
                            probs.append(f"{g[0]}: span {b[1]}-{b[2]} -> {g[1]}-{g[2]}, expected {e[1]}-{e[2]}")
            toklit = None
            if len(new_text) < 2500 and base[0] == 0 and base[1]:
                toklit = LC.tokens_lit(LC.impl_lex(lang, new_text))
            res.append((name, "ok" if not probs else "bad", got, probs, desc, (toklit, text if probs else None, new_text if probs else None)))
    return lang, res


def run(tier, seed, replay=None):
    assert_repo_import()
    chk = Check("C04", tier, seed)
    model_ok = chk.proof_stage(["Scope/ShiftProofs.vo"])
    per_file = 12 if tier == "quick" else 60
    n_gen = 40 if tier == "quick" else 250
    jobs = []
    for lang in LC.LANGS:
        items = []
        for f in sorted(glob.glob(os.path.join(VERIF, "corpus", lang, "*"))):
            items.append(("corpus/" + os.path.basename(f), open(f, encoding="utf8").read()))
        for i in range(n_gen):
            p = progen.generate(seed * 131 + i, lang, {"long_bodies": i % 3 == 0})
            items.append((f"generated:{seed * 131 + i}", p["text"]))
        # programs whose code is ONE physical line (with and without a final line break): the insertions can only go above
        # or below it (seeded change C04-11: a single-line fast path that ignores leading blank lines)
        one = {"Python": "def add(a, b): return a + b", "JavaScript": "function add(a, b) { return a + b; }",
               "TypeScript": "function add(a: number, b: number): number { return a + b; }",
               "Java": "class A { int add(int a, int b) { return a + b; } }", "CSharp": "class A { int Add(int a, int b) { return a + b; } }"}
        for j in range(4):
            items.append((f"one-line:{j}", one.get(lang, "int add(int a, int b) { return a + b; }") + ("\n" if j % 2 else "")))
        for k in range(0, len(items), 8):
            jobs.append((lang, items[k:k + 8], seed * 977 + k, per_file))
    model_cases = []
    budget = {lang: (25 if tier == "quick" else 250) for lang in LC.LANGS}
    with mp.Pool(NPROC) as pool:
        for lang, res in pool.imap_unordered(_work, jobs):
            li = LC.LANGS.index(lang)
            for name, status, got, probs, desc, extra in res:
                chk.evaluations += 1
                chk.count(f"{lang}: " + status.split(":")[0])
                chk.count("source: " + name.split("/")[0].split(":")[0])
                if status.startswith("skipped"):
                    continue
                if got[0] == 0 and got[1]:
                    chk.nontrivial.add((lang, name, desc, chk.evaluations))
                if probs:
                    chk.violation({"language": lang, "file": name, "insertions": desc, "original": extra[1], "modified": extra[2]},
                                  f"{lang} {name} [{desc}]: " + "; ".join(probs[:3]))
                if extra and extra[0] is not None and budget[lang] > 0:
                    budget[lang] -= 1
                    model_cases.append((f"enc_scan (scan_file (lang_code {li}) {extra[0]})", got,
                                        {"language": lang, "file": name, "insertions": desc}))
    # ---- through the scanner on disk: header files (*.h, *.hh: extensions several Pygments lexers claim) with comments
    #      whose TEXT looks like another language must still be measured, and measured the same
    import shutil
    import tempfile
    from pathlib import Path
    from codelimit.common import Scanner
    objc = ["// @endcode", "/* @interface Foo @end */", "// mail dev@3com.example", '// @"literal"', "/* @protocol P */", "// #import <x.h>",
            "// [see below]"]
    tmp = tempfile.mkdtemp(prefix="verif_c04h_")
    try:
        for i in range(12 if tier == "quick" else 200):
            lang, ext = ("C", "h") if i % 2 == 0 else ("Cpp", "hh")
            text = progen.generate(seed * 53 + i, lang, {"long_bodies": False, "comments": i % 3 == 0})["text"]
            lines = text.split("\n")
            rng = random.Random(seed * 7 + i)
            k = rng.randrange(0, len(lines))
            ins = rng.choice(objc)
            mod = lines[:k] + [ins] + lines[k:]
            if rng.random() < 0.5:
                mod = [rng.choice(objc)] + mod
                k0 = 1
            else:
                k0 = 0
            res = []
            for name, body in (("base", lines), ("mod", mod)):
                d = os.path.join(tmp, f"{name}{i}")
                os.makedirs(d)
                with open(os.path.join(d, f"m.{ext}"), "w") as f:
                    f.write("\n".join(body))
                try:
                    cb = Scanner.scan_path(Path(d))
                    e = cb.files.get(f"m.{ext}")
                    res.append(None if e is None else [(m.unit_name, m.value) for m in e.measurements()])
                except Exception as ex:
                    res.append(f"{type(ex).__name__}: {ex}")
                shutil.rmtree(d, ignore_errors=True)
            chk.evaluations += 1
            chk.count("header file through the scanner, comment inserted")
            # only token-safe insertions count: the C code tokens must be the same up to the line shift
            try:
                same = [(a, b) for a, b, _, _ in code_stream(lang, "\n".join(lines))] == [(a, b) for a, b, _, _ in code_stream(lang, "\n".join(mod))]
            except AssertionError:
                same = False
            if same and res[0] != res[1]:
                chk.violation({"language": lang, "file": f"m.{ext}", "inserted": ins, "original": text, "modified": "\n".join(mod)},
                              f"m.{ext} scanned from disk: inserting the comment {ins!r} changes the functions (name, length) "
                              f"from {str(res[0])[:150]} to {str(res[1])[:150]}")
            elif same and res[0]:
                chk.nontrivial.add(("hdr", i))
        # ---- the edit made in place, the rescan assisted by the previous scan (what `scan` does with its cache): blank and
        #      white-space lines inserted or removed must shift the functions exactly as a fresh analysis of the new text says
        #      (seeded change C04-10: a checksum that ignores white-space lines keeps the stale entry)
        from codelimit.common.report.Report import Report
        for i in range(16 if tier == "quick" else 300):
            lang = LC.LANGS[i % len(LC.LANGS)]
            ext = LC.EXT[lang]
            rng = random.Random(seed * 11 + i)
            text = progen.generate(seed * 59 + i, lang, {"long_bodies": False})["text"]
            lines = text.split("\n")
            pad = 0
            if i % 3 == 2:
                # a file larger than 64 KiB whose edit lies beyond the first 64 KiB (seeded change C04-14: a checksum of the
                # first block only)
                lead = "# generated table, do not edit" if lang == "Python" else "// generated table, do not edit"
                pad = 70000 // (len(lead) + 1) + 1
                lines = [lead] * pad + lines
                text = "\n".join(lines)
                chk.count("file larger than 64 KiB edited beyond the first 64 KiB")
            mod = list(lines)
            for _ in range(rng.choice([1, 2, 3])):
                k = rng.randrange(pad + 1, len(mod) + 1)    # never before the first line; whatever the edit does to the tokens,
                mod[k:k] = [rng.choice(["", "", "    ", "\t", "  \t "])] * rng.choice([1, 2, 4])     # cached and fresh must agree
            if mod == lines:
                continue
            d = os.path.join(tmp, f"edit{i}")
            os.makedirs(d)
            fp = os.path.join(d, f"m.{ext}")

            def spans(cb):
                e = cb.files.get(f"m.{ext}")
                return None if e is None else [(m.unit_name, m.start.line, m.end.line, m.value) for m in e.measurements()]
            try:
                res = []
                for first, second in ((lines, mod), (mod, lines)):          # insertion, then the same edit as a removal
                    open(fp, "w").write("\n".join(first))
                    cb0 = Scanner.scan_path(Path(d))
                    open(fp, "w").write("\n".join(second))
                    cached = spans(Scanner.scan_path(Path(d), Report(cb0)))
                    fresh = spans(Scanner.scan_path(Path(d)))
                    res.append((cached, fresh))
            except Exception as ex:
                res = [(f"{type(ex).__name__}: {ex}", None)]
            shutil.rmtree(d, ignore_errors=True)
            chk.evaluations += 1
            chk.count("file edited in place (white-space lines), rescanned with the previous scan as cache")
            for cached, fresh in res:
                if cached != fresh:
                    chk.violation({"language": lang, "file": f"m.{ext}", "original": text, "modified": "\n".join(mod)},
                                  f"m.{ext} edited in place by white-space lines and rescanned with the previous scan as cache: "
                                  f"functions (name, first line, last line, length) {str(cached)[:160]}, a fresh analysis gives {str(fresh)[:160]}")
                    break
            else:
                if res[0][1]:
                    chk.nontrivial.add(("edit", i))
        # ---- files that are not valid UTF-8 (read through the Latin-1 fall-back): trailing comments that hold the characters
        #      only str.splitlines() takes for line breaks (NEL 0x85, form feed, vertical tab, 0x1c-0x1e) change nothing
        #      (seeded change C04-28: the fall-back re-joined the text from splitlines())
        for i in range(14 if tier == "quick" else 210):
            lang = LC.LANGS[i % len(LC.LANGS)]
            ext = LC.EXT[lang]
            rng = random.Random(seed * 19 + i)
            text = progen.generate(seed * 67 + i, lang, {"long_bodies": False, "strings": False})["text"]
            if "\r" in text or "\\\n" in text or not text.isascii():
                continue
            lead = "#" if lang == "Python" else "//"
            lines = [lead + " caf\xe9 \xff"] + text.split("\n")
            marked = list(lines)
            used = []
            for k, ln in enumerate(lines):
                if k and ln.rstrip().endswith((";", "{", "}", ":", ")")) and rng.random() < 0.5:
                    ch = rng.choice(["\x85", "\x0c", "\x0b", "\x1c", "\x1d", "\x1e"])
                    marked[k] = ln + "  " + lead + " wait" + ch + " then go ( {"
                    used.append((k + 1, hex(ord(ch))))
            if not used:
                continue
            res = {}
            try:
                for vname, ls in (("plain", lines), ("commented", marked)):
                    d = os.path.join(tmp, f"l1c{i}")
                    os.makedirs(d, exist_ok=True)
                    with open(os.path.join(d, f"m.{ext}"), "wb") as f:
                        f.write("\n".join(ls).encode("latin-1"))
                    cb = Scanner.scan_path(Path(d))
                    e = cb.files.get(f"m.{ext}")
                    res[vname] = None if e is None else [(m.unit_name, m.start.line, m.start.column, m.end.line, m.value) for m in e.measurements()]
                    shutil.rmtree(d, ignore_errors=True)
            except Exception as ex:
                chk.violation({"language": lang, "original": text}, f"m.{ext} (not valid UTF-8): scan_path raised {type(ex).__name__}: {ex}")
                continue
            chk.evaluations += 1
            chk.count("non-UTF-8 file with trailing comments holding NEL / form feed / separator characters")
            if res["plain"] != res["commented"]:
                chk.violation({"language": lang, "file": f"m.{ext}", "original": "\n".join(lines), "trailing_comments_on_lines": used},
                              f"m.{ext} (not valid UTF-8): trailing comments holding {sorted({c for _, c in used})} on lines {[k for k, _ in used][:8]} change the "
                              f"functions (name, line, column, last line, length) from {str(res['plain'])[:150]} to {str(res['commented'])[:150]}")
            elif res["plain"]:
                chk.nontrivial.add(("latin1-comments", i))
        # ---- line ends: a file whose lines end in a lone carriage return (classic Mac) or in CR LF is read in text mode, so it
        #      is measured like the same file with LF — and inserting a comment line shifts it the same way
        #      (seeded change C04-18: the file read as bytes and decoded by hand, universal newlines lost)
        for i in range(14 if tier == "quick" else 210):
            lang = LC.LANGS[i % len(LC.LANGS)]
            ext = LC.EXT[lang]
            rng = random.Random(seed * 17 + i)
            text = progen.generate(seed * 61 + i, lang, {"long_bodies": False, "strings": False})["text"]
            if "\r" in text or "\\\n" in text:
                continue
            lines = text.split("\n")
            k = rng.randrange(0, len(lines))
            lead = "# inserted" if lang == "Python" else "// inserted"
            variants = {"plain": lines, "inserted": lines[:k] + [lead] + lines[k:]}
            res = {}
            try:
                for vname, ls in variants.items():
                    for eol_name, eol in (("LF", "\n"), ("CR", "\r"), ("CRLF", "\r\n")):
                        d = os.path.join(tmp, f"eol{i}")
                        os.makedirs(d, exist_ok=True)
                        with open(os.path.join(d, f"m.{ext}"), "w", newline="") as f:
                            f.write(eol.join(ls))
                        cb = Scanner.scan_path(Path(d))
                        e = cb.files.get(f"m.{ext}")
                        res[(vname, eol_name)] = None if e is None else [(m.unit_name, m.start.line, m.end.line, m.value) for m in e.measurements()]
                        shutil.rmtree(d, ignore_errors=True)
            except Exception as ex:
                chk.violation({"language": lang, "original": text}, f"m.{ext} with other line ends: scan_path raised {type(ex).__name__}: {ex}")
                continue
            chk.evaluations += 1
            chk.count("file scanned with LF / CR / CRLF line ends")
            for vname in variants:
                for eol_name in ("CR", "CRLF"):
                    if res[(vname, eol_name)] != res[(vname, "LF")]:
                        chk.violation({"language": lang, "file": f"m.{ext}", "line_ends": eol_name, "original": text},
                                      f"m.{ext} ({vname}) with {eol_name} line ends: functions (name, first line, last line, length) "
                                      f"{str(res[(vname, eol_name)])[:150]}, with LF {str(res[(vname, 'LF')])[:150]}")
                        break
                else:
                    continue
                break
            else:
                if res[("plain", "LF")]:
                    chk.nontrivial.add(("eol", i))
        # ---- the findings listing over several files: functions of EQUAL length in different files must keep their order
        #      when comment / blank lines are inserted above one of them (seeded change C04-12: ties broken by line number)
        import io
        from rich.console import Console
        from codelimit.common.report import format_markdown, format_text
        for i in range(10 if tier == "quick" else 150):
            rng = random.Random(seed * 13 + i)
            n = rng.choice([31, 40, 61])
            files = {}
            for nm in rng.sample(["alpha.c", "beta.c", "gamma.c", "sub/delta.c"], rng.choice([2, 3])):
                f0 = nm.split("/")[-1][:-2]
                files[nm] = ["/* " + f0 + " */"] * rng.randint(0, 3) + [f"int {f0}(void) {{"] + ["  x = 1;"] * (n - 2) + ["}"]

            def listing(fs):
                d = os.path.join(tmp, f"find{i}")
                shutil.rmtree(d, ignore_errors=True)
                for nm, ls in fs.items():
                    os.makedirs(os.path.dirname(os.path.join(d, nm)), exist_ok=True)
                    open(os.path.join(d, nm), "w").write("\n".join(ls) + "\n")
                cb = Scanner.scan_path(Path(d))
                cb.aggregate()
                rep = Report(cb)
                units = [(u.file, u.measurement.unit_name, u.measurement.value) for u in rep.all_report_units_sorted_by_length_asc(30)]
                out = []
                for fmt in (format_text, format_markdown):
                    buf = io.StringIO()
                    con = Console(file=buf, width=10000, color_system=None)
                    if fmt is format_text:
                        fmt.print_findings(con, rep, True)
                    else:
                        fmt.print_findings(rep, con, True)
                    out.append([w for line in buf.getvalue().splitlines() for w in re.findall(r"alpha|beta|gamma|delta", line)])
                shutil.rmtree(d, ignore_errors=True)
                return units, out
            try:
                before = listing(files)
                victim = rng.choice(sorted(files))
                mod = dict(files)
                mod[victim] = [rng.choice(["", "// note", "/* c */", "   "])] * rng.choice([1, 5, 12]) + files[victim]
                after = listing(mod)
            except Exception as ex:
                chk.violation({"files": {k: len(v) for k, v in files.items()}}, f"findings over several files raised {type(ex).__name__}: {ex}")
                continue
            chk.evaluations += 1
            chk.count("findings listing over files with equally long functions, lines inserted above one")
            if [(f, u, v) for f, u, v in before[0]] != [(f, u, v) for f, u, v in after[0]] or before[1] != after[1]:
                chk.violation({"files": {k: "\n".join(v) for k, v in files.items()}, "inserted_in": victim},
                              f"findings over {sorted(files)} (all functions {n} lines): inserting lines above the function of {victim} changes "
                              f"the order of the listing from {before[0]} to {after[0]}")
            elif before[0]:
                chk.nontrivial.add(("find", i))
    finally:
        shutil.rmtree(tmp, ignore_errors=True)
    chk.samples = [c for _, _, c in model_cases[:4]]
    if model_ok:
        mism, err = eval_cases("C04", IMPORTS, [(m, o) for m, o, _ in model_cases], shard=12)
        chk.traces = len(model_cases)
        if err:
            chk.broken.append("correspondence evaluation failed: " + err[-400:])
        for i in mism[:5]:
            got = eval_one("C04", IMPORTS, model_cases[i][0])
            chk.broken.append(f"correspondence: scan_file model and implementation differ on {model_cases[i][2]}: "
                              f"model {got} vs implementation {canon_tree(model_cases[i][1])}")
    else:
        chk.broken.append("model / proofs do not build; correspondence not run")
    nt = len(chk.nontrivial)
    chk.nontrivial = {str(i) for i in range(nt)}
    return chk.finish(
        rule="vendored real-world corpus (corpus/, ~25 files per language) and generated canonical programs x random sets of "
             "1..5 simultaneous insertions (blank line, white-space line, comment line in every style of the language, "
             "multi-line block comment, trailing comment, trailing spaces) at token-safe line boundaries; an insertion is "
             "used only if the lexer's code-token stream changes by the line shift alone (else counted as skipped); names, "
             "order, lengths must be equal and lines shifted exactly.  Non-trivial: the file has at least one function.",
        assumptions=["inserting a comment at a token-safe boundary leaves the Pygments code tokens unchanged up to line "
                     "numbers — checked per insertion, violating insertions are skipped and counted"])
