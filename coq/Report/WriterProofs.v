(* WriterProofs.v — property C08, part B: ReportReader.from_json inverts
   ReportWriter.to_json on reports whose codebase was produced by `build`
   from mk_entry-built files with distinct paths. *)
From Verif Require Import Base GenThresholds Codebase Json Writer JsonProofs.
Open Scope Z_scope.

(* ---------- strings, dictionaries ---------- *)
Lemma pystr_eqb_eq a : forall b, pystr_eqb a b = true <-> a = b.
Proof.
  induction a as [|x a IH]; intros [|y b]; cbn; try (split; congruence).
  rewrite andb_true_iff, Z.eqb_eq, IH. split; [intros [-> ->]; reflexivity|intros [= -> ->]; auto].
Qed.
Lemma pystr_eqb_refl a : pystr_eqb a a = true.
Proof. apply pystr_eqb_eq. reflexivity. Qed.
Lemma pystr_eqb_neq a b : a <> b -> pystr_eqb a b = false.
Proof. intros H. destruct (pystr_eqb a b) eqn:E; [apply pystr_eqb_eq in E; contradiction|reflexivity]. Qed.

Lemma dset_fresh {V} (d : dict V) k v : ~ In k (map fst d) -> dset d k v = d ++ [(k, v)].
Proof.
  induction d as [|[k' v'] d IH]; cbn; intros H; [reflexivity|].
  rewrite pystr_eqb_neq by (intros ->; apply H; auto). rewrite IH by tauto. reflexivity.
Qed.

Lemma dedup_keys_nodup l : forall acc, NoDup (map fst acc ++ map fst l) -> dedup_keys l acc = acc ++ l.
Proof.
  induction l as [|[k v] l IH]; intros acc H; cbn [dedup_keys].
  - rewrite app_nil_r. reflexivity.
  - cbn [map fst] in H. pose proof (NoDup_remove_2 _ _ _ H) as Hk.
    rewrite dset_fresh by (intros Hin; apply Hk, in_or_app; auto).
    rewrite IH.
    + rewrite <- app_assoc. reflexivity.
    + rewrite map_app, <- app_assoc. exact H.
Qed.

(* ---------- cb_files / cb_root of a built codebase ---------- *)
Lemma add_file_files cb e cb' : add_file cb e = OK cb' ->
  cb_files cb' = dset (cb_files cb) (e_path e) e /\ cb_root cb' = cb_root cb.
Proof.
  unfold add_file. intros H.
  destruct (dget _ (e_language e)); [|discriminate].
  destruct (if dmem (cb_tree cb) _ then _ else _); [|discriminate].
  destruct (dget _ _); [|discriminate].
  injection H as <-. split; reflexivity.
Qed.

Lemma add_files_files es : forall cb cb', add_files cb es = OK cb' ->
  NoDup (map fst (cb_files cb) ++ map e_path es) ->
  cb_files cb' = cb_files cb ++ map (fun e => (e_path e, e)) es /\ cb_root cb' = cb_root cb.
Proof.
  induction es as [|e es IH]; intros cb cb' H Hnd; cbn [add_files] in H.
  - injection H as <-. rewrite app_nil_r. split; reflexivity.
  - destruct (add_file cb e) as [cb1|] eqn:E; [|discriminate].
    apply add_file_files in E. destruct E as [Ef Er].
    cbn [map] in Hnd. pose proof (NoDup_remove_2 _ _ _ Hnd) as Hk.
    rewrite dset_fresh in Ef by (intros Hin; apply Hk, in_or_app; auto).
    apply IH in H.
    + destruct H as [Hf Hr]. rewrite Hf, Hr, Ef, Er, <- app_assoc. split; reflexivity.
    + rewrite Ef, map_app, <- app_assoc. exact Hnd.
Qed.

Lemma aggregate_files cb cb' : aggregate cb = OK cb' -> cb_files cb' = cb_files cb /\ cb_root cb' = cb_root cb.
Proof.
  unfold aggregate. destruct (aggregate_folder _ _ _) as [[t p]|]; [|discriminate].
  intros [= <-]. split; reflexivity.
Qed.

Theorem build_files root es cb : build root es = OK cb -> NoDup (map e_path es) ->
  cb_files cb = map (fun e => (e_path e, e)) es /\ cb_root cb = root.
Proof.
  unfold build. intros H Hnd. destruct (add_files _ es) as [cb1|] eqn:E; [|discriminate].
  apply add_files_files in E; [|exact Hnd]. apply aggregate_files in H.
  destruct E as [E1 E2], H as [H1 H2]. rewrite H1, H2, E1, E2. split; reflexivity.
Qed.

(* ---------- reading back the leaves ---------- *)
Lemma read_list_map {A B} (f : B -> res A) (g : A -> B) l :
  (forall x, In x l -> f (g x) = OK x) -> read_list f (map g l) = OK l.
Proof.
  induction l as [|x l IH]; intros H; [reflexivity|].
  cbn [map read_list]. rewrite H by (left; reflexivity). cbn [bind].
  rewrite IH by (intros; apply H; right; assumption). reflexivity.
Qed.

Lemma read_loc_doc l : read_loc (erase (doc_loc l)) = OK l.
Proof. destruct l. reflexivity. Qed.

Lemma read_meas_doc m : read_meas (erase (doc_meas m)) = OK m.
Proof. destruct m as [n [sl sc] [el ec] x]. reflexivity. Qed.

Lemma read_meas_list ms : read_list read_meas (map erase (map doc_meas ms)) = OK ms.
Proof. rewrite map_map. apply read_list_map. intros; apply read_meas_doc. Qed.

Lemma file_measurements e :
  field (erase (doc_file e)) k_measurements = OK (JArr (map erase (map doc_meas (e_measurements e)))).
Proof. reflexivity. Qed.
Lemma file_checksum e : field (erase (doc_file e)) k_checksum = OK (JStr (e_checksum e)).
Proof. reflexivity. Qed.
Lemma file_language e : field (erase (doc_file e)) k_language = OK (JStr (e_language e)).
Proof. reflexivity. Qed.
Lemma file_loc e : field (erase (doc_file e)) k_loc = OK (JNum (e_loc e)).
Proof. reflexivity. Qed.

Lemma read_file_doc e :
  read_file (e_path e, erase (doc_file e)) =
  OK (mk_entry (e_path e) (e_checksum e) (e_language e) (e_loc e) (e_measurements e)).
Proof.
  unfold read_file. rewrite file_measurements, file_checksum, file_language, file_loc.
  cbn [bind as_str as_num]. rewrite read_meas_list. reflexivity.
Qed.

Lemma read_files_doc es :
  Forall (fun e => e = mk_entry (e_path e) (e_checksum e) (e_language e) (e_loc e) (e_measurements e)) es ->
  read_list read_file (map (fun e => (e_path e, erase (doc_file e))) es) = OK es.
Proof.
  intros H. apply read_list_map. intros e He. rewrite Forall_forall in H.
  rewrite read_file_doc. f_equal. symmetry. apply H, He.
Qed.

(* ---------- the top-level object ---------- *)
Definition top_members (r : report) : list (pystr * jvalue) :=
  map (fun kv => (fst kv, erase (snd kv)))
    ([(k_version, dopt (r_version r)); (k_uuid, DStr (r_uuid r)); (k_timestamp, DStr (r_timestamp r));
      (k_root, DStr (cb_root (r_codebase r)))]
     ++ match r_repository r with Some rp => [(k_repository, doc_repository rp)] | None => [] end
     ++ [(k_codebase, doc_codebase (r_codebase r))]).

Lemma erase_to_doc r : erase (to_doc r) = JObj (top_members r).
Proof. reflexivity. Qed.

Lemma top_root r : jget (top_members r) k_root = Some (JStr (cb_root (r_codebase r))).
Proof. destruct r as [ver uuid ts [rp|] cb]; reflexivity. Qed.
Lemma top_uuid r : jget (top_members r) k_uuid = Some (JStr (r_uuid r)).
Proof. destruct r as [ver uuid ts [rp|] cb]; reflexivity. Qed.
Lemma top_version r : jget (top_members r) k_version = Some (erase (dopt (r_version r))).
Proof. destruct r as [ver uuid ts [rp|] cb]; reflexivity. Qed.
Lemma top_codebase r : jget (top_members r) k_codebase = Some (erase (doc_codebase (r_codebase r))).
Proof. destruct r as [ver uuid ts [rp|] cb]; reflexivity. Qed.
Lemma top_repository r :
  jget (top_members r) k_repository = option_map (fun rp => erase (doc_repository rp)) (r_repository r).
Proof. destruct r as [ver uuid ts [rp|] cb]; reflexivity. Qed.

Lemma field_JObj l k : field (JObj l) k = match jget l k with Some x => OK x | None => Err KeyError end.
Proof. reflexivity. Qed.

Lemma as_opt_str_dopt o : as_opt_str (erase (dopt o)) = OK o.
Proof. destruct o; reflexivity. Qed.

Lemma read_repository rp :
  (do o <- bind (field (erase (doc_repository rp)) k_owner) as_str;
   do n <- bind (field (erase (doc_repository rp)) k_name) as_str;
   do b <- match field (erase (doc_repository rp)) k_branch with OK bv => as_opt_str bv | Err _ => OK None end;
   OK (Some (mkRepo o n b))) = OK (Some rp).
Proof. destruct rp as [o n [b|]]; reflexivity. Qed.

Lemma codebase_files cb :
  field (erase (doc_codebase cb)) k_files =
  OK (JObj (map (fun kf => (fst kf, erase (doc_file (snd kf)))) (cb_files cb))).
Proof.
  change (field (erase (doc_codebase cb)) k_files)
    with (OK (JObj (map (fun kv => (fst kv, erase (snd kv)))
                        (map (fun kf => (fst kf, doc_file (snd kf))) (cb_files cb))))).
  rewrite map_map. reflexivity.
Qed.

(* ---------- B ---------- *)
Definition mk_entry_built (e : FileEntry) : Prop :=
  e = mk_entry (e_path e) (e_checksum e) (e_language e) (e_loc e) (e_measurements e).

Definition with_timestamp (ts : pystr) (r : report) : report :=
  mkReport (r_version r) (r_uuid r) ts (r_repository r) (r_codebase r).

Section C08.
  Variables (root : pystr) (es : list FileEntry) (cb : codebase) (r : report).
  Hypothesis Hbuild : build root es = OK cb.
  Hypothesis Hmk : Forall (fun e => e = mk_entry (e_path e) (e_checksum e) (e_language e) (e_loc e) (e_measurements e)) es.
  Hypothesis Hnd : NoDup (map e_path es).
  Hypothesis Hr : r_codebase r = cb.

  Theorem C08_reader_inverts_writer :
    from_json (erase (to_doc r)) = OK (mkReport (r_version r) (r_uuid r) [] (r_repository r) cb).
  Proof.
    destruct (build_files _ _ _ Hbuild Hnd) as [Hfiles Hroot].
    unfold from_json. rewrite erase_to_doc, !field_JObj.
    rewrite top_root, top_uuid, top_version, top_codebase, top_repository, Hr.
    cbn [bind as_str]. rewrite as_opt_str_dopt, codebase_files. cbn [bind].
    rewrite Hfiles, map_map. cbn [fst snd].
    rewrite dedup_keys_nodup by (cbn [map app]; rewrite map_map; exact Hnd).
    cbn [app]. rewrite (read_files_doc _ Hmk). cbn [bind].
    rewrite Hroot, Hbuild. cbn [bind].
    destruct (r_repository r) as [rp|]; cbn [option_map].
    - rewrite read_repository. reflexivity.
    - reflexivity.
  Qed.

  Theorem C08_version : get_report_version (erase (to_doc r)) = OK (r_version r).
  Proof. rewrite erase_to_doc. unfold get_report_version. rewrite top_version. apply as_opt_str_dopt. Qed.

  Theorem C08_roundtrip b v : parse (to_json b r) = Some v ->
    from_json v = OK (mkReport (r_version r) (r_uuid r) [] (r_repository r) cb).
  Proof.
    unfold to_json. rewrite parse_render. intros [= <-]. apply C08_reader_inverts_writer.
  Qed.

  Theorem C08_rewrite_doc :
    to_doc (mkReport (r_version r) (r_uuid r) (r_timestamp r) (r_repository r) cb) = to_doc r.
  Proof. rewrite <- Hr. destruct r; reflexivity. Qed.

  Theorem C08_rewrite b v r' : parse (to_json b r) = Some v -> from_json v = OK r' ->
    forall b', to_json b' (with_timestamp (r_timestamp r) r') = to_json b' r.
  Proof.
    intros Hp Hj b'. rewrite (C08_roundtrip _ _ Hp) in Hj. injection Hj as <-.
    unfold to_json, with_timestamp. cbn [r_version r_uuid r_repository r_codebase].
    rewrite C08_rewrite_doc. reflexivity.
  Qed.

  Corollary C08_rewrite_direct b :
    to_json b (with_timestamp (r_timestamp r) (mkReport (r_version r) (r_uuid r) [] (r_repository r) cb)) = to_json b r.
  Proof. unfold to_json, with_timestamp. cbn [r_version r_uuid r_repository r_codebase]. rewrite C08_rewrite_doc. reflexivity. Qed.
End C08.

(* non-vacuity: the hypotheses hold for a concrete two-file codebase ("a/b.c", "d.py"), one measurement *)
Example C08_hyps_satisfiable :
  let es := [mk_entry [97; 47; 98; 46; 99] [49] [67] 10 [mkMeas [102] (mkLoc 1 0) (mkLoc 9 1) 9];
             mk_entry [100; 46; 112; 121] [50] [80] 3 []] in
  match build [47] es with
  | OK cb =>
      Forall mk_entry_built es /\ NoDup (map e_path es) /\
      let r := mkReport (Some [49]) [117] [116] (Some (mkRepo [111] [110] None)) cb in
      from_json (erase (to_doc r)) = OK (mkReport (Some [49]) [117] [] (Some (mkRepo [111] [110] None)) cb)
  | Err _ => False
  end.
Proof.
  vm_compute. split; [repeat constructor|]. split; [|reflexivity].
  repeat constructor; cbn; intuition discriminate.
Qed.

Print Assumptions build_files.
Print Assumptions C08_reader_inverts_writer.
Print Assumptions C08_version.
Print Assumptions C08_roundtrip.
Print Assumptions C08_rewrite_doc.
Print Assumptions C08_rewrite.
Print Assumptions C08_rewrite_direct.
