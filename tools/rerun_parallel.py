"""Re-run the check of every kept seeded change (or only the ids given) in N parallel sandboxes: each has its own copy of
/verif and its own scratch worktree of /repo (under /tmp/verif_par, removed at the end), so /repo itself is never touched.
For every change: suite, demonstration (with / without the change) and the quick check of its property are re-run; the
meta.json files and seeded/README.md are rewritten.
usage: rerun_parallel.py <N> [ids ...]"""
import glob
import json
import os
import re
import shutil
import subprocess
import sys
import threading

N = int(sys.argv[1])
only = set(sys.argv[2:])
BASE = "/tmp/verif_par"
ids = [os.path.basename(d) for d in sorted(glob.glob("/verif/seeded/C*-*"))]
todo = [i for i in ids if not only or i in only]
lock = threading.Lock()
results = {}


def sh(cmd, **kw):
    return subprocess.run(cmd, shell=True, capture_output=True, text=True, **kw)


def worker(k):
    root = f"{BASE}/{k}"
    repo, verif = f"{root}/repo", f"{root}/verif"
    os.makedirs(root, exist_ok=True)
    sh(f"git -C /repo worktree add --detach {repo} HEAD")
    sh(f"rsync -a --exclude .git --exclude replays --exclude seeded /verif/ {verif}/")
    env = dict(os.environ, VERIF_REPO=repo, PYTHONPATH=repo, LC_ALL="C")
    while True:
        with lock:
            if not todo:
                break
            mid = todo.pop(0)
        d = f"/verif/seeded/{mid}"
        meta = json.load(open(f"{d}/meta.json"))
        prop = meta["property"]
        demo = f"{root}/demo_under_test.py"
        open(demo, "w").write(re.sub(r"/repo\b", repo, re.sub(r"/tmp/wt_C\d+", repo, open(f"{d}/demo.py").read())))
        res = {}
        res["demo_without"] = sh(f"cd {repo} && /venv/bin/python {demo}", env=env).returncode
        a = sh(f"git -C {repo} apply {d}/patch.diff")
        if a.returncode != 0:
            res["error"] = "patch does not apply: " + a.stderr[-200:]
        else:
            res["suite"] = sh(f"cd {repo} && /venv/bin/python -m pytest -q -p no:cacheprovider 2>&1 | tail -1", env=env).stdout.strip()
            res["demo_with"] = sh(f"cd {repo} && /venv/bin/python {demo}", env=env).returncode
            checks = sorted(set([prop] + [c for c in meta.get("caught_by", []) if c != prop]))
            res["checks"] = {}
            for c in checks:
                r = sh(f"{verif}/check {c} --tier quick", env=env)
                viol = [l for l in r.stdout.splitlines() if l.startswith("VIOLATION")]
                what = [l.strip() for l in r.stdout.splitlines() if l.strip().startswith("what:")]
                res["checks"][c] = {"exit": r.returncode, "violations": len(viol),
                                    "first_report": [x.replace(verif, "/verif").replace(repo, "/repo") for x in (viol[:1] + what[:1])]}
                sh(f"rm -f {verif}/replays/*.json")
        sh(f"git -C {repo} checkout -- . ; git -C {repo} clean -fdq -- codelimit")
        with lock:
            results[mid] = res
            caught = [c for c, v in res.get("checks", {}).items() if v["exit"] == 1 and v["violations"] > 0]
            print(mid, res.get("error") or f"suite {res.get('suite', '')[:10]} demo {res.get('demo_with')}/{res.get('demo_without')} caught by {caught}", flush=True)
    sh(f"git -C /repo worktree remove --force {repo}")
    shutil.rmtree(root, ignore_errors=True)


threads = [threading.Thread(target=worker, args=(k,)) for k in range(N)]
for t in threads:
    t.start()
for t in threads:
    t.join()
sh("git -C /repo worktree prune")
shutil.rmtree(BASE, ignore_errors=True)
rows = []
for mid in ids:
    d = f"/verif/seeded/{mid}"
    meta = json.load(open(f"{d}/meta.json"))
    res = results.get(mid)
    if res and "checks" in res:
        meta["confirmed"] = res.get("suite", "").startswith("157 passed") and res.get("demo_with") == 1 and res.get("demo_without") == 0
        meta["checks_run"] = res["checks"]
        meta["caught_by"] = [c for c, v in res["checks"].items() if v["exit"] == 1 and v["violations"] > 0]
        meta["what_i_ran"] = [f"git apply patch.diff in a scratch worktree of /repo; /venv/bin/python -m pytest -q -p no:cacheprovider -> {res.get('suite')}",
                              f"demo.py -> exit {res.get('demo_with')} with the change, exit {res.get('demo_without')} without",
                              "VERIF_REPO=<worktree> ./check <id> --tier quick for: " + ", ".join(res["checks"]) + "; worktree removed"]
        json.dump(meta, open(f"{d}/meta.json", "w"), indent=1)
    elif res:
        print("NOT RE-EVALUATED", mid, res.get("error"))
    rows.append((mid, meta["property"], meta.get("summary") or "", meta.get("needs") or "", meta.get("caught_by", []), meta.get("confirmed")))
with open("/verif/seeded/README.md", "w") as f:
    f.write("# Seeded changes\n\nEach directory holds `patch.diff` (apply with `git -C /repo apply`), `demo.py` (exits 1 and prints "
            "PROPERTY VIOLATED with the change, exits 0 without) and `meta.json`.  The changes were written by independent "
            "sub-agents that saw only the property text and a scratch worktree; every one keeps the 157 tests green.  "
            "`tools/rerun_parallel.py <N>` re-evaluates all of them (suite, demonstration, checks) in scratch worktrees and rewrites this table; "
            "`tools/rerun_seeded.py` does the same one by one against /repo itself.\n\n"
            "| id | breaks | what was changed | needs, in order to manifest | reported by |\n|---|---|---|---|---|\n")
    for name, prop, summary, needs, caught, ok in rows:
        f.write(f"| {name} | {prop} | {summary.replace('|', '/')[:260]} | {needs.replace('|', '/')[:260]} | {', '.join(caught) or '**missed**'} |\n")
missed = [r[0] for r in rows if not r[4]]
print("done", len(rows), "missed:", missed)
