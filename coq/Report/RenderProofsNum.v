(* RenderProofsNum.v — property C18, part A: the decimal formatting of Base.v
   (digits / fmt_n / fmt_plus_n) is read back exactly by independent parsers.
   Stdlib only; no axioms. *)
From Verif Require Import Base BaseProofs.
Open Scope Z_scope.

(* ---------- reading decimal digits (Horner on code points 48..57) ---------- *)
Definition digit (c : Z) : Prop := 48 <= c <= 57.
Definition is_digit (c : Z) : bool := (48 <=? c) && (c <=? 57).

Definition num_acc (a : Z) (s : pystr) : Z :=
  fold_left (fun a c => 10 * a + (c - 48)) s a.
Definition num_of_digits (s : pystr) : Z := num_acc 0 s.

Lemma is_digit_spec c : is_digit c = true <-> digit c.
Proof.
  unfold is_digit, digit. rewrite andb_true_iff, Z.leb_le, Z.leb_le. tauto.
Qed.

Lemma is_digit_false c : is_digit c = false <-> ~ digit c.
Proof.
  rewrite <- is_digit_spec. destruct (is_digit c); split; intros; try congruence; tauto.
Qed.

Lemma num_acc_app a s t : num_acc a (s ++ t) = num_acc (num_acc a s) t.
Proof. apply fold_left_app. Qed.

Lemma num_of_digits_snoc s c : num_of_digits (s ++ [c]) = 10 * num_of_digits s + (c - 48).
Proof. unfold num_of_digits. rewrite num_acc_app. reflexivity. Qed.

Lemma num_acc_nonneg s : forall a, 0 <= a -> Forall digit s -> 0 <= num_acc a s.
Proof.
  induction s as [|c s IH]; intros a Ha Hs; [exact Ha|].
  change (num_acc a (c :: s)) with (num_acc (10 * a + (c - 48)) s).
  inversion Hs as [|? ? Hc Hs']; subst. apply IH; [unfold digit in Hc; lia | exact Hs'].
Qed.

(* ---------- A1: digits ---------- *)
(* S f rounds of division by 10 suffice for every n < 2^(S f) *)
Lemma digits_fuel_spec : forall f n acc,
  0 <= n < 2 ^ Z.of_nat (S f) ->
  exists pre, digits_fuel (S f) n acc = pre ++ acc /\ pre <> [] /\
              Forall digit pre /\ num_of_digits pre = n.
Proof.
  assert (Hsmall : forall f n acc, 0 <= n < 10 ->
    exists pre, digits_fuel (S f) n acc = pre ++ acc /\ pre <> [] /\
                Forall digit pre /\ num_of_digits pre = n).
  { intros f n acc Hn. cbn [digits_fuel].
    destruct (Z.ltb_spec n 10) as [_|Hge]; [|lia].
    exists [48 + n]. split; [reflexivity|]. split; [discriminate|].
    split; [constructor; [unfold digit; lia|constructor]|].
    unfold num_of_digits, num_acc; cbn [fold_left]. lia. }
  induction f as [|f IH]; intros n acc Hn.
  - change (2 ^ Z.of_nat 1) with 2 in Hn. apply Hsmall. lia.
  - destruct (Z_lt_ge_dec n 10) as [Hlt|Hge]; [apply Hsmall; lia|].
    assert (Hpow : 0 < 2 ^ Z.of_nat (S f)) by (apply Z.pow_pos_nonneg; lia).
    assert (Hn' : 0 <= n / 10 < 2 ^ Z.of_nat (S f)).
    { rewrite (Nat2Z.inj_succ (S f)), Z.pow_succ_r in Hn by lia.
      split; [apply Z.div_pos; lia|]. apply Z.div_lt_upper_bound; lia. }
    destruct (IH (n / 10) ((48 + n mod 10) :: acc) Hn') as (pre & E & Hne & Hd & Hv).
    change (digits_fuel (S (S f)) n acc) with
      (if n <? 10 then (48 + n) :: acc
       else digits_fuel (S f) (n / 10) ((48 + n mod 10) :: acc)).
    destruct (Z.ltb_spec n 10) as [Hlt|_]; [lia|].
    exists (pre ++ [48 + n mod 10]). rewrite E, <- app_assoc.
    split; [reflexivity|].
    split; [intros Hnil; apply app_eq_nil in Hnil; destruct Hnil; discriminate|].
    assert (Hm : 0 <= n mod 10 < 10) by (apply Z.mod_pos_bound; lia).
    split.
    + apply Forall_app. split; [exact Hd|]. constructor; [unfold digit; lia|constructor].
    + rewrite num_of_digits_snoc, Hv. pose proof (Z.div_mod n 10). lia.
Qed.

Theorem digits_correct : forall n, 0 <= n ->
  num_of_digits (digits n) = n /\ digits n <> [] /\
  Forall (fun c => 48 <= c <= 57) (digits n).
Proof.
  intros n Hn. unfold digits.
  destruct (digits_fuel_spec (Z.to_nat (Z.log2 n)) n []) as (pre & E & Hne & Hd & Hv).
  - rewrite Nat2Z.inj_succ, Z2Nat.id by apply Z.log2_nonneg.
    destruct (Z.eq_dec n 0) as [->|Hnz].
    + cbn. lia.
    + split; [lia|]. apply Z.log2_spec. lia.
  - rewrite E, app_nil_r. split; [exact Hv|]. split; [exact Hne|exact Hd].
Qed.

Corollary digits_digit n : 0 <= n -> Forall digit (digits n).
Proof. intros Hn. apply (digits_correct n Hn). Qed.

(* ---------- parsers ---------- *)
(* the maximal run of digits at the start of a string *)
Fixpoint take_digits (s : pystr) : pystr :=
  match s with
  | c :: s' => if is_digit c then c :: take_digits s' else []
  | [] => []
  end.

Definition nat_of (ds : pystr) : option Z :=
  match ds with [] => None | _ :: _ => Some (num_of_digits ds) end.

Definition leading_nat (s : pystr) : option Z := nat_of (take_digits s).

(* optional '-' (45), then the maximal run of digits (at least one) *)
Definition leading_int (s : pystr) : option Z :=
  match s with
  | c :: s' => if c =? 45 then option_map Z.opp (leading_nat s') else leading_nat s
  | [] => None
  end.

(* the whole string is a non-empty run of digits *)
Definition whole_nat (s : pystr) : option Z :=
  if forallb is_digit s then nat_of s else None.

(* mandatory sign '+' (43) or '-' (45), then digits up to the end of the string *)
Definition signed_int (s : pystr) : option Z :=
  match s with
  | c :: s' => if c =? 43 then whole_nat s'
               else if c =? 45 then option_map Z.opp (whole_nat s') else None
  | [] => None
  end.

(* the text after a number: nothing, or something that does not start with a digit *)
Definition ends_number (rest : pystr) : Prop :=
  match rest with [] => True | c :: _ => ~ digit c end.

Lemma ends_number_space r : ends_number (32 :: r).
Proof. cbn. unfold digit. lia. Qed.

Lemma take_digits_app ds rest :
  Forall digit ds -> ends_number rest -> take_digits (ds ++ rest) = ds.
Proof.
  intros Hd Hr. induction Hd as [|c ds Hc _ IH]; cbn [app take_digits].
  - destruct rest as [|c r]; [reflexivity|]. cbn [take_digits].
    cbn in Hr. apply is_digit_false in Hr. rewrite Hr. reflexivity.
  - apply is_digit_spec in Hc. rewrite Hc, IH. reflexivity.
Qed.

Lemma leading_nat_digits n rest :
  0 <= n -> ends_number rest -> leading_nat (digits n ++ rest) = Some n.
Proof.
  intros Hn Hr. destruct (digits_correct n Hn) as (Hv & Hne & Hd).
  unfold leading_nat. rewrite take_digits_app by assumption.
  destruct (digits n) as [|c ds]; [congruence|]. cbn [nat_of]. rewrite Hv. reflexivity.
Qed.

Lemma whole_nat_digits n : 0 <= n -> whole_nat (digits n) = Some n.
Proof.
  intros Hn. destruct (digits_correct n Hn) as (Hv & Hne & Hd).
  unfold whole_nat.
  assert (Hall : forallb is_digit (digits n) = true).
  { apply forallb_forall. intros c Hc. apply is_digit_spec.
    rewrite Forall_forall in Hd. apply Hd, Hc. }
  rewrite Hall. destruct (digits n) as [|c ds]; [congruence|]. cbn [nat_of].
  rewrite Hv. reflexivity.
Qed.

(* ---------- A2: fmt_n is read back by leading_int ---------- *)
Theorem leading_int_fmt_n : forall z rest,
  ends_number rest -> leading_int (fmt_n z ++ rest) = Some z.
Proof.
  intros z rest Hr. unfold fmt_n, fmt_d.
  destruct (Z.ltb_spec z 0) as [Hneg|Hpos].
  - cbn [app leading_int]. change (45 =? 45) with true. cbv iota.
    rewrite leading_nat_digits by (assumption || lia). cbn [option_map].
    f_equal. lia.
  - destruct (digits_correct z Hpos) as (_ & Hne & Hd).
    pose proof (leading_nat_digits z rest Hpos Hr) as HL.
    destruct (digits z) as [|c ds] eqn:E; [congruence|].
    cbn [app leading_int]. inversion Hd as [|? ? Hc _]; subst.
    destruct (Z.eqb_spec c 45) as [->|_]; [lia|]. exact HL.
Qed.

Corollary leading_int_fmt_n_nil z : leading_int (fmt_n z) = Some z.
Proof. rewrite <- (app_nil_r (fmt_n z)). apply leading_int_fmt_n. exact I. Qed.

Corollary leading_int_fmt_n_space z r : leading_int (fmt_n z ++ 32 :: r) = Some z.
Proof. apply leading_int_fmt_n, ends_number_space. Qed.

(* fmt_n produces only '-' and digits: in particular no blank and no bracket *)
Theorem fmt_n_chars z : Forall (fun c => c = 45 \/ 48 <= c <= 57) (fmt_n z).
Proof.
  unfold fmt_n, fmt_d. destruct (Z.ltb_spec z 0) as [Hneg|Hpos].
  - constructor; [left; reflexivity|].
    eapply Forall_impl; [|apply digits_digit; lia]. intros c Hc; right; exact Hc.
  - eapply Forall_impl; [|apply digits_digit; lia]. intros c Hc; right; exact Hc.
Qed.

Theorem fmt_n_shape z :
  (0 <= z /\ fmt_n z = digits z) \/ (z < 0 /\ fmt_n z = 45 :: digits (- z)).
Proof.
  unfold fmt_n, fmt_d. destruct (Z.ltb_spec z 0); [right|left]; split; (lia || reflexivity).
Qed.

(* ---------- A3: fmt_plus_n ---------- *)
Theorem fmt_plus_n_shape z :
  (0 <= z /\ fmt_plus_n z = 43 :: digits z) \/ (z < 0 /\ fmt_plus_n z = 45 :: digits (- z)).
Proof.
  unfold fmt_plus_n. destruct (Z.ltb_spec z 0); [right|left]; split; (lia || reflexivity).
Qed.

Theorem signed_int_fmt_plus_n : forall z, signed_int (fmt_plus_n z) = Some z.
Proof.
  intros z. unfold fmt_plus_n. destruct (Z.ltb_spec z 0) as [Hneg|Hpos].
  - cbn [signed_int]. change (45 =? 43) with false. change (45 =? 45) with true. cbv iota.
    rewrite whole_nat_digits by lia. cbn [option_map]. f_equal. lia.
  - cbn [signed_int]. change (43 =? 43) with true. cbv iota.
    apply whole_nat_digits, Hpos.
Qed.
