(* C06 — interim *)
From Verif Require Import Base GenThresholds Codebase.
Example C06_ex : True. Proof. exact I. Qed.
