(* Scan.v — Scanner.scan_path / _scan_file over a directory tree, with the
   exclusions, the hidden-name pruning of os.walk, the lexer-by-name oracle,
   the cache look-up, and commands.scan.scan_command / check.check_command at
   the level of "which files are analysed, with what result".

   Oracles (Section variables): `supported name` = the language a file name maps to
   (Pygments get_lexer_for_filename + Languages.by_name), `analyze lang content`
   = _analyze_file (deterministic: C06), content identifiers stand for file
   bytes with md5 injective on them (checksum = content id). *)
From Verif Require Import Base Codebase Exclude GenScan.
Open Scope Z_scope.

Inductive fnode := File (name : pystr) (content : Z) | Dir (name : pystr) (children : list fnode).

Definition node_name (n : fnode) : pystr := match n with File x _ | Dir x _ => x end.

Record analysis := mkAnalysis { a_lang : pystr; a_loc : Z; a_meas : list Z }.   (* measurements abstracted to their lengths *)
Record sentry := mkSentry { se_path : list pystr; se_checksum : Z; se_result : analysis }.

Section Scan.
  Variable supported : pystr -> option pystr.            (* file name -> language name *)
  Variable analyze : pystr -> Z -> analysis.             (* language, content -> result *)

  (* os.walk, top-down, pruning hidden files and directories; rel = components from the root *)
  Fixpoint walk (rel : list pystr) (n : fnode) : list (list pystr * Z) :=
    match n with
    | File name c => if is_hidden name then [] else [(rel ++ [name], c)]
    | Dir name cs =>
        if is_hidden name then []
        else (fix go (l : list fnode) : list (list pystr * Z) :=
                match l with [] => [] | x :: r => walk (rel ++ [name]) x ++ go r end) cs
    end.
  (* the root directory itself is walked whatever its name *)
  Definition walk_root (children : list fnode) : list (list pystr * Z) :=
    flat_map (walk []) children.

  Definition qualifies (patterns : list pystr) (f : list pystr * Z) : bool :=
    negb (excluded patterns (fst f)) &&
    match supported (last (fst f) []) with Some _ => true | None => false end.

  Definition cache := list (list pystr * (Z * analysis)).     (* rel path -> checksum, cached result *)
  Fixpoint path_eqb (a b : list pystr) : bool :=
    match a, b with
    | [], [] => true
    | x :: a', y :: b' => pystr_eqb x y && path_eqb a' b'
    | _, _ => false
    end.
  Fixpoint cache_get (c : cache) (p : list pystr) : option (Z * analysis) :=
    match c with
    | [] => None
    | (q, v) :: r => match cache_get r p with Some v' => Some v' | None => if path_eqb p q then Some v else None end
    end.

  (* _scan_file: reuse the cached entry when its checksum equals the file's, else analyse *)
  Definition scan_one (c : option cache) (f : list pystr * Z) : sentry * bool (* analysed? *) :=
    let lang := match supported (last (fst f) []) with Some l => l | None => [] end in
    match c with
    | Some ca =>
        match cache_get ca (fst f) with
        | Some (ck, res) => if ck =? snd f then (mkSentry (fst f) (snd f) res, false)
                            else (mkSentry (fst f) (snd f) (analyze lang (snd f)), true)
        | None => (mkSentry (fst f) (snd f) (analyze lang (snd f)), true)
        end
    | None => (mkSentry (fst f) (snd f) (analyze lang (snd f)), true)
    end.

  Definition scan_tree (patterns : list pystr) (c : option cache) (children : list fnode) : list (sentry * bool) :=
    map (scan_one c) (filter (qualifies patterns) (walk_root children)).

  Definition to_cache (es : list sentry) : cache := map (fun e => (se_path e, (se_checksum e, se_result e))) es.
End Scan.

