(* C01 — exact function discovery, span and length on canonical programs.
   PARTIAL: what is proved is the pipeline theorem for the brace languages —
   GIVEN that the matcher returns exactly the headers of the function descriptors
   (hypothesis `extract_headers l code = OK hs /\ Permutation hs (map header_of ds)`),
   brace matching, the reverse-order pairing with block deletion, the nesting fold and
   the line counting report exactly the measurements the property prescribes
   (Scope/Spec.v: one per descriptor, in source order, name = the name token, span from
   the header's first token to just past the closing brace, length = distinct lines of
   the function's own tokens, tokens of nested functions excluded).
   MISSING (validated by the generator of harness/progen.py on every run, not proved):
   (a) that on every program of the canonical grammar the captured header patterns
   match exactly at the function headers; (b) the Python indentation family.
   Proofs: Scope/SpecProofs{Dyck,Pairing,Fold,Count,}.v. *)
From Verif Require Import Base Token Lex LexProofs Headers Blocks Pairing Fold ScanFile Spec
  SpecProofsDyck SpecProofsPairing SpecProofsFold SpecProofsCount SpecProofs.
From Coq Require Import Sorted Permutation.

Theorem C01_brace_pipeline_partial : forall (l : language) toks ds,
  l <> LPython -> lang_nested l = true ->
  let code := filter_tokens false toks in
  StronglySorted pos_lt code ->                       (* guaranteed by the lexing model: C16 *)
  filter_nocl_comment_tokens toks = [] ->             (* suppression markers: C17 *)
  wf_descs code ds ->
  (exists hs, extract_headers l code = OK hs /\ Permutation hs (map header_of ds)) ->   (* header recognition: NOT proved *)
  scan_file l toks = expected_all code ds ds.
Proof. exact C01_brace_pipeline. Qed.

(* C: functions do not nest *)
Theorem C01_c_pipeline_partial : forall (l : language) toks ds,
  l <> LPython -> lang_nested l = false ->
  let code := filter_tokens false toks in
  StronglySorted pos_lt code -> filter_nocl_comment_tokens toks = [] -> wf_descs code ds ->
  (forall c d, In c ds -> In d ds -> ~ nested_in c d) ->
  (exists hs, extract_headers l code = OK hs /\ Permutation hs (map header_of ds)) ->
  scan_file l toks = expected_all code ds ds.
Proof. exact C01_brace_pipeline_flat. Qed.

(* the brace matcher returns exactly the Dyck-matched pairs *)
Theorem C01_blocks_are_dyck : forall ts i j,
  In (i, S j) (balanced_from 0 ts lbrace rbrace []) <-> matched ts i j.
Proof. exact blocks_are_dyck. Qed.

(* every header is paired with its own body, whatever lies around and inside it *)
Theorem C01_pairing : forall ts ds hs, StronglySorted pos_lt ts -> wf_descs ts ds ->
  Permutation hs (map header_of ds) ->
  build_scopes_from ts hs (get_blocks ts) = map scope_of ds.
Proof. exact pairing_spec. Qed.

Print Assumptions C01_brace_pipeline_partial.
Print Assumptions C01_c_pipeline_partial.
Print Assumptions C01_blocks_are_dyck.
Print Assumptions C01_pairing.

Open Scope Z_scope.
(* non-vacuity: int f ( ) { x ; }  on three lines, one descriptor *)
Example C01_example :
  let code := [mkTok KKeyword [105;110;116] 1 1; mkTok KName [102] 1 5; mkTok KPunct [40] 1 6; mkTok KPunct [41] 1 7;
               mkTok KPunct [123] 1 9; mkTok KName [120] 2 3; mkTok KPunct [59] 2 4; mkTok KPunct [125] 3 1] in
  scan_file LCpp code = expected_all code [mkFd 1 1 4 4 7] [mkFd 1 1 4 4 7] /\
  expected_all code [mkFd 1 1 4 4 7] [mkFd 1 1 4 4 7] = OK [mkMeas [102] (mkLoc 1 5) (mkLoc 3 2) 3].
Proof. vm_compute. split; reflexivity. Qed.
