(* C07 — interim *)
From Verif Require Import Base GenThresholds Codebase.
Open Scope Z_scope.
Example C07_ex : match build [47] [mk_entry [97; 47; 98; 46; 99] [99] [67] 3 [mkMeas [102] (mkLoc 1 1) (mkLoc 2 1) 3]] with
  | OK cb => map fst (cb_tree cb) = [[46; 47]; [97; 47]] | Err _ => False end.
Proof. vm_compute. reflexivity. Qed.
