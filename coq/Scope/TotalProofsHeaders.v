(* TotalProofsHeaders.v — get_headers / extract_headers never fail when the
   header pattern passes unambiguous_check and has_name_check (and the
   follow-up pattern passes unambiguous_check); every header they produce
   points at tokens inside the token list. *)
From Verif Require Import Base Regex Nfa Dfa Token TokEngine Unamb UnambProofs Scan ScanProofs
  HasName HasNameProofs GenPatterns Headers.
Open Scope nat_scope.

(* ====================================================================== *)
(* 1. name_index                                                           *)
(* ====================================================================== *)

Lemma first_name_from_ok : forall l i j tk,
  nth_error l j = Some tk -> is_name tk = true ->
  exists n, first_name_from i l = Some n /\ i <= n <= i + j.
Proof.
  induction l as [|x l IH]; intros i j tk Hn Hname.
  - destruct j; discriminate.
  - cbn [first_name_from]. destruct (is_name x) eqn:E.
    + exists i. split; [reflexivity | lia].
    + destruct j as [|j].
      * cbn in Hn. inversion Hn; subst. congruence.
      * cbn in Hn. destruct (IH (S i) j tk Hn Hname) as (n & E1 & E2).
        exists n. split; [exact E1 | lia].
Qed.

Lemma nth_error_firstn_lt : forall {A} (l : list A) k j,
  j < k -> nth_error (firstn k l) j = nth_error l j.
Proof.
  intros A. induction l as [|x l IH]; intros k j H.
  - rewrite firstn_nil. reflexivity.
  - destruct k as [|k]; [lia|]. destruct j as [|j]; [reflexivity|].
    cbn [firstn nth_error]. apply IH. lia.
Qed.

Lemma nth_error_skipn_some : forall {A} (l : list A) s j x,
  nth_error (skipn s l) j = Some x -> s + j < length l.
Proof.
  intros A. induction l as [|y l IH]; intros s j x H.
  - rewrite skipn_nil in H. destruct j; discriminate.
  - destruct s as [|s].
    + cbn [skipn] in H. apply nth_error_Some. cbn [plus]. congruence.
    + cbn [skipn] in H. apply IH in H. cbn [length]. lia.
Qed.

Lemma name_index_ok : forall tokens s t j tk,
  j < t - s -> nth_error (skipn s tokens) j = Some tk -> is_name tk = true ->
  exists n, name_index tokens s t = OK n /\ s <= n < t /\ n < length tokens.
Proof.
  intros tokens s t j tk Hj Hn Hname. unfold name_index.
  assert (Hn' : nth_error (firstn (t - s) (skipn s tokens)) j = Some tk)
    by (rewrite nth_error_firstn_lt by exact Hj; exact Hn).
  destruct (first_name_from_ok _ s j tk Hn' Hname) as (n & E & Hb).
  rewrite E. exists n. split; [reflexivity|].
  apply nth_error_skipn_some in Hn. lia.
Qed.

(* ====================================================================== *)
(* 2. mk_headers                                                           *)
(* ====================================================================== *)

Definition good_header (n : nat) (h : header) : Prop := h_name h < n /\ h_start h < n.

Lemma mk_headers_ok : forall tokens ms,
  (forall s t, In (s, t) ms ->
     s < length tokens /\
     exists j tk, j < t - s /\ nth_error (skipn s tokens) j = Some tk /\ is_name tk = true) ->
  exists hs, mk_headers tokens ms = OK hs /\ Forall (good_header (length tokens)) hs.
Proof.
  intros tokens. induction ms as [|[s t] r IH]; intros H.
  - exists []. split; [reflexivity | constructor].
  - cbn [mk_headers].
    destruct (H s t (or_introl eq_refl)) as (Hs & j & tk & Hj & Hn & Hname).
    destruct (name_index_ok tokens s t j tk Hj Hn Hname) as (n & E & Hb & Hlen).
    rewrite E.
    destruct IH as (hs & Ehs & Hall).
    { intros s' t' Hin. apply H. right. exact Hin. }
    rewrite Ehs. eexists. split; [reflexivity|].
    constructor; [|exact Hall]. split; cbn; assumption.
Qed.

(* ====================================================================== *)
(* 3. the matcher under the certificate                                    *)
(* ====================================================================== *)

Lemma all_greedy_ok : forall a S w, inv_check_aut a S = true ->
  exists cs, all_greedy tpred_eqb taccept_st a w = OK cs.
Proof.
  intros a S w Hinv. destruct (all_candidates_ok a S w Hinv) as [cs E].
  unfold all_candidates in E.
  destruct (scan_loop_ok tpred_eqb taccept_st a w 0 [] [] cs E) as (c1 & c2 & _ & Ef).
  rewrite all_greedy_fresh. eauto.
Qed.

Lemma select_leftmost_ok : forall (f : cand -> res bool),
  (forall c, exists b, f c = OK b) ->
  forall cs le, exists ms, select_leftmost f le cs = OK ms.
Proof.
  intros f Hf. induction cs as [|c rest IH]; intros le; cbn [select_leftmost].
  - eexists; reflexivity.
  - destruct (Hf c) as [b Eb]. rewrite Eb. destruct b; [|apply IH].
    destruct (Nat.leb le (fst c)); [|apply IH].
    destruct (IH (snd c)) as [r Er]. rewrite Er. eexists; reflexivity.
Qed.

Lemma find_all_dfa_ok : forall a S w f, inv_check_aut a S = true ->
  (forall c, exists b, f c = OK b) ->
  exists cs ms, all_greedy tpred_eqb taccept_st a w = OK cs /\
                tk_find_all_dfa a w f = OK ms /\ incl ms cs.
Proof.
  intros a S w f Hinv Hf. destruct (all_greedy_ok a S w Hinv) as [cs Ecs].
  unfold tk_find_all_dfa. rewrite (find_all_is_scan tpred_eqb taccept_st a w f cs Ecs).
  destruct (select_leftmost_ok f Hf cs 0) as [ms Ems].
  exists cs, ms. split; [exact Ecs|]. split; [exact Ems|].
  eapply select_leftmost_incl. exact Ems.
Qed.

Lemma starts_with_dfa_ok : forall a S w, inv_check_aut a S = true ->
  exists r, tk_starts_with_dfa a w = OK r.
Proof.
  intros a S w Hinv. unfold tk_starts_with_dfa, starts_with_dfa.
  apply (run_prefix_covered a S w (new_pat a 0) Hinv). apply new_pat_covered. exact Hinv.
Qed.

Lemma unambiguous_to_dfa : forall e, unambiguous_check e = true ->
  exists a, to_dfa e = OK a /\ inv_check_aut a (invariant_of a) = true.
Proof.
  intros e H. unfold unambiguous_check in H.
  destruct (to_dfa e) as [a|k]; [|discriminate]. eauto.
Qed.

(* ====================================================================== *)
(* 4. get_headers                                                          *)
(* ====================================================================== *)

Theorem get_headers_ok : forall tokens e fb,
  unambiguous_check e = true -> has_name_check e = true ->
  match fb with Some f => unambiguous_check f = true | None => True end ->
  exists hs, get_headers tokens e fb = OK hs /\ Forall (good_header (length tokens)) hs.
Proof.
  intros tokens e fb Hu Hn Hfb.
  destruct (unambiguous_to_dfa e Hu) as (a & Ea & Hinv).
  unfold get_headers, tk_to_dfa. rewrite Ea.
  assert (Hfound : forall f, (forall c, exists b, f c = OK b) ->
            exists hs, match tk_find_all_dfa a tokens f with
                       | Err k => Err k | OK ms => mk_headers tokens ms end = OK hs /\
                       Forall (good_header (length tokens)) hs).
  { intros f Hf.
    destruct (find_all_dfa_ok a _ tokens f Hinv Hf) as (cs & ms & Ecs & Ems & Hincl).
    rewrite Ems. apply mk_headers_ok. intros s t Hin. apply Hincl in Hin.
    apply (all_greedy_In tpred_eqb taccept_st a tokens cs Ecs) in Hin.
    destruct Hin as [Hs Hg]. split; [exact Hs|].
    eapply has_name_check_sound; eassumption. }
  destruct fb as [f|].
  - destruct (unambiguous_to_dfa f Hfb) as (af & Eaf & Hinvf). rewrite Eaf.
    apply Hfound. intros c.
    destruct (starts_with_dfa_ok af _ (skipn (snd c) tokens) Hinvf) as [r Er].
    rewrite Er. destruct r; eexists; reflexivity.
  - apply Hfound. intros c. eexists; reflexivity.
Qed.

(* ====================================================================== *)
(* 5. all patterns of a language                                           *)
(* ====================================================================== *)

Definition pattern_ok_prop (ef : expr tpred * option (expr tpred)) : Prop :=
  unambiguous_check (fst ef) = true /\ has_name_check (fst ef) = true /\
  match snd ef with Some f => unambiguous_check f = true | None => True end.

Theorem headers_of_patterns_ok : forall tokens ps,
  Forall pattern_ok_prop ps ->
  exists hs, headers_of_patterns tokens ps = OK hs /\ Forall (good_header (length tokens)) hs.
Proof.
  intros tokens. induction ps as [|[e fb] r IH]; intros H.
  - exists []. split; [reflexivity | constructor].
  - inversion H as [|? ? (Hu & Hn & Hf) Hr]; subst. cbn [fst snd] in *.
    cbn [headers_of_patterns].
    destruct (get_headers_ok tokens e fb Hu Hn Hf) as (hs & E & Hall). rewrite E.
    destruct (IH Hr) as (hs' & E' & Hall'). rewrite E'.
    eexists. split; [reflexivity|]. apply Forall_app. split; assumption.
Qed.

Theorem extract_headers_ok : forall l tokens,
  Forall pattern_ok_prop (lang_patterns l) ->
  exists hs, extract_headers l tokens = OK hs /\ Forall (good_header (length tokens)) hs.
Proof.
  intros l tokens H. unfold extract_headers.
  destruct (headers_of_patterns_ok tokens _ H) as (hs & E & Hall). rewrite E.
  assert (Hfilt : forall f, Forall (good_header (length tokens)) (filter f hs)).
  { intros f. apply Forall_forall. intros h Hin. apply filter_In in Hin.
    rewrite Forall_forall in Hall. apply Hall. tauto. }
  destruct l; eexists; (split; [reflexivity|]); auto.
Qed.

Print Assumptions get_headers_ok.
Print Assumptions extract_headers_ok.
