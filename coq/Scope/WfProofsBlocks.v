(* WfProofsBlocks.v — every block range is non-empty: fst b < snd b.
   Brace languages: unconditionally (a closing brace comes after its opening
   brace).  Python: when the token positions are strictly increasing (then
   tokens.index(tok) is the identity and the block's lines are in order). *)
From Verif Require Import Base Token Lex Headers Blocks LexProofs
  TotalProofsHeaders TotalProofsBlocks WfProofsBase.
From Coq Require Import Sorted.
Open Scope nat_scope.

Definition nonempty_block (r : range) : Prop := fst r < snd r.

(* ====================================================================== *)
(* 1. brace blocks                                                         *)
(* ====================================================================== *)

Lemma balanced_from_lt : forall ts i op cl stack r,
  Forall (fun s => s < i) stack -> In r (balanced_from i ts op cl stack) -> fst r < snd r.
Proof.
  induction ts as [|t ts IH]; intros i op cl stack r Hst H; cbn [balanced_from] in H.
  - destruct H.
  - assert (Hw : forall st, Forall (fun s => s < i) st -> Forall (fun s => s < S i) st).
    { intros st. apply Forall_impl. intros; lia. }
    destruct (is_symbol t op).
    + eapply IH; [|exact H]. constructor; [lia | apply Hw, Hst].
    + destruct (is_symbol t cl).
      * destruct stack as [|s stack'].
        -- eapply IH; [|exact H]. constructor.
        -- inversion Hst as [|? ? Hs Hst']; subst. destruct H as [<-|H]; [cbn [fst snd]; lia|].
           eapply IH; [|exact H]. apply Hw, Hst'.
      * eapply IH; [|exact H]. apply Hw, Hst.
Qed.

Lemma get_blocks_nonempty ts : Forall nonempty_block (get_blocks ts).
Proof.
  apply Forall_forall. intros r H. unfold get_blocks in H. apply sort_ranges_In in H.
  eapply balanced_from_lt; [|exact H]. constructor.
Qed.

(* ====================================================================== *)
(* 2. Python: tokens.index is the identity on strictly increasing positions *)
(* ====================================================================== *)

Lemma token_eqb_pos a b : token_eqb a b = true -> t_line a = t_line b /\ t_col a = t_col b.
Proof.
  unfold token_eqb. rewrite !andb_true_iff, !Z.eqb_eq. tauto.
Qed.

Lemma index_of_token_sorted : forall ts i k t,
  StronglySorted pos_lt ts -> nth_error ts k = Some t -> index_of_token i ts t = OK (i + k).
Proof.
  induction ts as [|x ts IH]; intros i k t HS Hn.
  - destruct k; discriminate.
  - inversion HS as [|? ? HS' HF]; subst. cbn [index_of_token].
    destruct k as [|k].
    + cbn in Hn. inversion Hn; subst. rewrite token_eqb_refl. f_equal. lia.
    + cbn in Hn. destruct (token_eqb x t) eqn:E.
      * exfalso. apply token_eqb_pos in E. rewrite Forall_forall in HF.
        apply nth_error_In in Hn. specialize (HF t Hn). unfold pos_lt in HF. lia.
      * rewrite (IH (S i) k t HS' Hn). f_equal. lia.
Qed.

(* ====================================================================== *)
(* 3. Python: the token lines, concatenated, are in index order            *)
(* ====================================================================== *)

Lemma tl_concat : forall ts i line cont nr,
  exists rest, concat (token_lines_from i ts line cont nr) = line ++ rest /\
               Forall (le i) rest /\ StronglySorted le rest.
Proof.
  induction ts as [|t ts IH]; intros i line cont nr; cbn [token_lines_from].
  - exists []. destruct line; cbn [concat]; rewrite ?app_nil_r; repeat split; constructor.
  - assert (Hcons : forall rest', Forall (le (S i)) rest' -> StronglySorted le rest' ->
              Forall (le i) (i :: rest') /\ StronglySorted le (i :: rest')).
    { intros rest' Hf Hs. split.
      - constructor; [lia|]. eapply Forall_impl; [|exact Hf]. intros; lia.
      - constructor; [exact Hs|]. eapply Forall_impl; [|exact Hf]. intros; lia. }
    destruct line as [|k line'].
    + destruct (IH (S i) [i] cont (t_line t)) as (rest' & E & Hf & Hs).
      exists (i :: rest'). split; [exact E|]. apply Hcons; assumption.
    + set (line := k :: line') in *.
      destruct cont.
      * rewrite Z.eqb_refl.
        destruct (IH (S i) ((line ++ [i]) ++ [i])
                    (if ends_with_str [92%Z; 10%Z] (t_value t) then true else false) (t_line t))
          as (rest' & E & Hf & Hs).
        exists (i :: i :: rest'). split; [rewrite E, <- !app_assoc; reflexivity|].
        destruct (Hcons rest' Hf Hs) as [Hf1 Hs1]. split.
        -- constructor; [lia | exact Hf1].
        -- constructor; [exact Hs1 | exact Hf1].
      * destruct (Z.eqb (t_line t) nr).
        -- destruct (IH (S i) (line ++ [i])
                       (if ends_with_str [92%Z; 10%Z] (t_value t) then true else false) nr)
             as (rest' & E & Hf & Hs).
           exists (i :: rest'). split; [rewrite E, <- app_assoc; reflexivity|].
           apply Hcons; assumption.
        -- destruct (IH (S i) [i] false (t_line t)) as (rest' & E & Hf & Hs).
           exists (i :: rest'). split; [cbn [concat]; rewrite E; reflexivity|].
           apply Hcons; assumption.
Qed.

Lemma token_lines_concat_sorted ts : StronglySorted le (concat (token_lines ts)).
Proof.
  unfold token_lines. destruct (tl_concat ts 0 [] false 0%Z) as (rest & E & _ & Hs).
  rewrite E. exact Hs.
Qed.

Lemma concat_sorted_lines : forall lines, StronglySorted le (concat lines) ->
  Forall (StronglySorted le) lines /\
  forall p q Lp Lq a b, p < q -> nth_error lines p = Some Lp -> nth_error lines q = Some Lq ->
    In a Lp -> In b Lq -> a <= b.
Proof.
  induction lines as [|L Ls IH]; intros HS.
  - split; [constructor|]. intros p q Lp Lq a b _ H. destruct p; discriminate.
  - cbn [concat] in HS. apply SSf_app in HS. destruct HS as (H1 & H2 & H3).
    destruct (IH H2) as [IH1 IH2]. split; [constructor; assumption|].
    intros p q Lp Lq a b Hpq Hp Hq Ha Hb. destruct q as [|q]; [lia|]. cbn in Hq.
    destruct p as [|p].
    + cbn in Hp. inversion Hp; subst. apply H3; [exact Ha|].
      apply in_concat. exists Lq. split; [eapply nth_error_In; exact Hq | exact Hb].
    + cbn in Hp. apply (IH2 p q Lp Lq a b); auto. lia.
Qed.

Lemma flat_lines_sorted (lines : list (list nat)) :
  StronglySorted le (concat lines) ->
  forall idxs, StronglySorted lt idxs -> Forall (fun i => i < length lines) idxs ->
  StronglySorted le (flat_map (fun li => nth li lines []) idxs).
Proof.
  intros HS. destruct (concat_sorted_lines lines HS) as [H1 H2].
  induction idxs as [|i r IH]; intros Hs Hv; cbn [flat_map]; [constructor|].
  inversion Hs as [|? ? Hs' Hlt]; subst. inversion Hv as [|? ? Hi Hv']; subst.
  destruct (nth_error lines i) as [L|] eqn:EL; [|apply nth_error_None in EL; lia].
  rewrite (nth_error_nth _ _ [] EL).
  apply SSf_app. split; [|split].
  - rewrite Forall_forall in H1. apply H1. eapply nth_error_In; exact EL.
  - apply IH; assumption.
  - intros a b Ha Hb. apply in_flat_map in Hb. destruct Hb as (j & Hj & Hb).
    rewrite Forall_forall in Hlt, Hv'. specialize (Hlt j Hj). specialize (Hv' j Hj).
    destruct (nth_error lines j) as [L'|] eqn:EL'; [|apply nth_error_None in EL'; lia].
    rewrite (nth_error_nth _ _ [] EL') in Hb.
    apply (H2 i j L L' a b Hlt EL EL' Ha Hb).
Qed.

(* ====================================================================== *)
(* 4. Python: block_lines returns strictly decreasing line indices         *)
(* ====================================================================== *)

Lemma block_lines_desc ts : forall rl hl hi acc,
  StronglySorted gt (acc ++ map fst rl) -> StronglySorted gt (block_lines ts rl hl hi acc).
Proof.
  induction rl as [|[li l] r IH]; intros hl hi acc HS; cbn [block_lines].
  - cbn [map] in HS. rewrite app_nil_r in HS. exact HS.
  - cbn [map fst] in HS.
    destruct (Z.leb _ hl).
    + apply SSf_app in HS. tauto.
    + destruct (Z.gtb _ hi).
      * apply IH. rewrite <- app_assoc. exact HS.
      * apply IH. cbn [app]. apply SSf_app in HS. destruct HS as (_ & HS & _).
        inversion HS; assumption.
Qed.

Lemma map_fst_number_from {A} : forall (l : list A) i, map fst (number_from i l) = seq i (length l).
Proof.
  induction l as [|x l IH]; intros i; cbn [number_from map length seq]; [reflexivity|].
  rewrite IH. reflexivity.
Qed.

Lemma seq_SS : forall n a, StronglySorted lt (seq a n).
Proof.
  induction n as [|n IH]; intros a; cbn [seq]; constructor; [apply IH|].
  apply Forall_forall. intros x Hx. apply in_seq in Hx. lia.
Qed.

Lemma block_lines_asc ts (lines : list (list nat)) hl hi :
  StronglySorted lt (rev (block_lines ts (rev (number_from 0 lines)) hl hi [])) /\
  Forall (fun i => i < length lines) (rev (block_lines ts (rev (number_from 0 lines)) hl hi [])).
Proof.
  split.
  - apply (SSf_rev gt). apply block_lines_desc. cbn [app].
    rewrite map_rev, map_fst_number_from. apply (SSf_rev lt). apply seq_SS.
  - apply Forall_forall. intros li Hin. apply in_rev in Hin. apply block_lines_In in Hin.
    destruct Hin as [[]|Hin]. apply in_map_iff in Hin.
    destruct Hin as ([k l] & Ek & Hin). cbn [fst] in Ek. subst k.
    apply in_rev in Hin. apply (number_from_In0 lines li l []) in Hin. tauto.
Qed.

(* ====================================================================== *)
(* 5. Python blocks are non-empty                                          *)
(* ====================================================================== *)

Lemma sorted_hd_last f rest : StronglySorted le (f :: rest) -> f <= last (f :: rest) f.
Proof.
  intros HS. inversion HS as [|? ? _ HF]; subst.
  assert (Hin : In (last (f :: rest) f) (f :: rest)) by (apply last_In; discriminate).
  destruct Hin as [<-|Hin]; [lia|]. rewrite Forall_forall in HF. apply HF, Hin.
Qed.

Lemma py_block_nonempty ts h b :
  StronglySorted pos_lt ts -> py_block ts (token_lines ts) h = OK (Some b) -> nonempty_block b.
Proof.
  intros HS. unfold py_block.
  destruct (Nat.leb (length ts) (h_end h)); [discriminate|].
  destruct (block_lines_asc ts (token_lines ts) (tok_line ts (h_end h)) (tok_col ts (h_start h)))
    as [Hasc Hval].
  destruct (block_lines ts (rev (number_from 0 (token_lines ts))) (tok_line ts (h_end h))
              (tok_col ts (h_start h)) []) as [|b0 bl'] eqn:Ebl; [discriminate|].
  pose proof (flat_lines_sorted (token_lines ts) (token_lines_concat_sorted ts) _ Hasc Hval) as Hst.
  destruct (flat_map (fun li => nth li (token_lines ts) []) (rev (b0 :: bl'))) as [|f rest] eqn:Est;
    [discriminate|].
  pose proof (sorted_hd_last f rest Hst) as Hfl.
  destruct (nth_error ts f) as [tf|] eqn:Ef; [|discriminate].
  destruct (nth_error ts (last (f :: rest) f)) as [tl|] eqn:El; [|discriminate].
  rewrite (index_of_token_sorted ts 0 f tf HS Ef).
  rewrite (index_of_token_sorted ts 0 _ tl HS El).
  intros H. assert (Eb : b = (0 + f, S (0 + last (f :: rest) f))) by congruence.
  rewrite Eb. unfold nonempty_block. cbn [fst snd]. lia.
Qed.

Lemma py_blocks_rev_nonempty ts : StronglySorted pos_lt ts -> forall hs bs,
  py_blocks_rev ts (token_lines ts) hs = OK bs -> Forall nonempty_block bs.
Proof.
  intros HS. induction hs as [|h r IH]; intros bs H; cbn [py_blocks_rev] in H.
  - inversion H; subst. constructor.
  - destruct (py_block ts (token_lines ts) h) as [ob|k] eqn:Eb; [|discriminate].
    destruct (py_blocks_rev ts (token_lines ts) r) as [bs'|k]; [|discriminate].
    inversion H; subst bs. specialize (IH bs' eq_refl).
    destruct ob as [b|]; [|exact IH]. constructor; [|exact IH].
    eapply py_block_nonempty; eassumption.
Qed.

Theorem extract_blocks_nonempty l ts hs bs :
  StronglySorted pos_lt ts -> extract_blocks l ts hs = OK bs -> Forall nonempty_block bs.
Proof.
  intros HS H. unfold extract_blocks in H.
  destruct l; try (inversion H; subst; apply get_blocks_nonempty).
  unfold py_extract_blocks in H.
  destruct (py_blocks_rev ts (token_lines ts) (rev hs)) as [bs'|k] eqn:E; [|discriminate].
  inversion H; subst bs. apply Forall_rev. eapply py_blocks_rev_nonempty; eassumption.
Qed.

Print Assumptions extract_blocks_nonempty.
