"""C14 — search returns sound, ordered, disjoint, longest and complete matches."""
import itertools
import os
import multiprocessing as mp

from common import Check, assert_repo_import, eval_cases, eval_one, canon_tree, coq_list, pystr, z, NPROC
import gsm_common as G

IMPORTS = "Base Regex Nfa Dfa Token TokEngine GenPatterns"

# ---------------------------------------------------------------- generic patterns


def judge_find_all(e, w, res, raw):
    """the conjuncts of C14 evaluated on the implementation's answer"""
    probs = []
    if res[0] != 0:
        return [f"find_all raised (error kind {res[1]})"]
    last_end = 0
    for (s, t, toks) in raw:
        if not (0 <= s < t <= len(w)):
            probs.append(f"match ({s},{t}) out of bounds / empty")
            continue
        if list(toks) != list(w[s:t]):
            probs.append(f"match ({s},{t}) recorded items {toks}, spans {list(w[s:t])}")
        if not G.spec_match(e, tuple(w[s:t])):
            probs.append(f"match ({s},{t}) is not a word of the pattern's language")
        g = G.spec_greedy(e, w, s)
        if g != t:
            probs.append(f"match ({s},{t}) is not the longest from its start (greedy end {g})")
        if s < last_end:
            probs.append(f"match ({s},{t}) overlaps or precedes the previous match ending at {last_end}")
        last_end = max(last_end, t)
    for i in range(len(w)):
        if G.spec_greedy(e, w, i) is not None and not any(s <= i < t for s, t, _ in raw):
            probs.append(f"position {i} greedy-matches but is covered by no reported match")
    return probs


def _work_generic(args):
    e, words = args
    from codelimit.common.gsm import matcher
    out = []
    for w in words:
        raw = []

        def fa():
            ps = matcher.find_all(G.to_impl(e), list(w))
            raw.extend((p.start, p.end, list(p.tokens)) for p in ps)
            return [[p.start, p.end] for p in ps]
        res = G.guarded(fa)
        out.append((w, res, judge_find_all(e, w, res, raw), bool(raw)))
    return e, out


# ---------------------------------------------------------------- token header shapes
# (7, "(") / (7, ")"): tokens that are NOT punctuation but whose text is a parenthesis (the content of the string literals
# "(" and ")" as the Python and Java lexers emit it): they are ordinary tokens for Balanced
ALPHA = [(1, "f"), (0, "function"), (2, "("), (2, ")"), (2, "{"), (7, ";"), (7, "("), (7, ")")]
ALPHA_ARROW = [(1, "f"), (3, "="), (2, "("), (2, ")"), (2, "=>"), (0, "const"), (0, "async"), (7, ";"), (7, "(")]

SHAPES = {   # name -> (codelimit expression builder, Gallina text, shape description for the independent runner, alphabet)
}


def _mk_shapes():
    from codelimit.common.gsm.operator.OneOrMore import OneOrMore
    from codelimit.common.gsm.operator.Optional import Optional
    from codelimit.common.token_matching.predicate.Balanced import Balanced
    from codelimit.common.token_matching.predicate.Keyword import Keyword
    from codelimit.common.token_matching.predicate.Name import Name
    from codelimit.common.token_matching.predicate.Operator import Operator
    from codelimit.common.token_matching.predicate.Symbol import Symbol
    bal = "Atom (PBalanced (PSymbol [40]) (PSymbol [41]))"
    return {
        "name groups": (lambda: [Name(), OneOrMore(Balanced("(", ")"))],
                        f"[Atom PName; Plus [{bal}]]", [("name",), ("groups",)], ALPHA),
        "function? name groups": (lambda: [Optional(Keyword("function")), Name(), OneOrMore(Balanced("(", ")"))],
                                  f"[Opt [Atom (PKeyword {pystr('function')})]; Atom PName; Plus [{bal}]]",
                                  [("optkw", "function"), ("name",), ("groups",)], ALPHA),
        "groups": (lambda: [OneOrMore(Balanced("(", ")"))], f"[Plus [{bal}]]", [("groups",)], ALPHA),
        "groups =>": (lambda: [OneOrMore(Balanced("(", ")")), Symbol("=>")], f"[Plus [{bal}]; Atom (PSymbol [61; 62])]",
                      [("groups",), ("sym", "=>")], ALPHA_ARROW),
        "arrow": (lambda: [Optional(Keyword("const")), Name(), Operator("="), Optional(Keyword("async")),
                           OneOrMore(Balanced("(", ")")), Symbol("=>")],
                  f"[Opt [Atom (PKeyword {pystr('const')})]; Atom PName; Atom (POperator [61]); "
                  f"Opt [Atom (PKeyword {pystr('async')})]; Plus [{bal}]; Atom (PSymbol [61; 62])]",
                  [("optkw", "const"), ("name",), ("op", "="), ("optkw", "async"), ("groups",), ("sym", "=>")],
                  ALPHA_ARROW),
    }


def greedy_shape(shape, toks, i):
    """independent greedy runner for header shapes: (end index, nesting depth at end) or None"""
    n = len(toks)
    pos = i
    depth_at_end = 0
    for idx, el in enumerate(shape):
        last = idx == len(shape) - 1
        if el[0] == "optkw":
            if pos < n and toks[pos] == (0, el[1]):
                pos += 1
        elif el[0] == "name":
            if pos < n and toks[pos][0] == 1:
                pos += 1
            else:
                return None
        elif el[0] == "op":
            if pos < n and toks[pos] == (3, el[1]):
                pos += 1
            else:
                return None
        elif el[0] == "sym":
            if pos < n and toks[pos] == (2, el[1]):
                pos += 1
            else:
                return None
        elif el[0] == "groups":
            if not (pos < n and toks[pos] == (2, "(")):
                return None
            while pos < n and toks[pos] == (2, "("):
                depth = 1
                pos += 1
                while pos < n and depth > 0:
                    if toks[pos] == (2, "("):
                        depth += 1
                    elif toks[pos] == (2, ")"):
                        depth -= 1
                    pos += 1
                if depth > 0:          # input ended inside a group
                    return (pos, depth) if last else None
    return (pos, depth_at_end)


def _work_tokens(args):
    name, words = args
    from codelimit.common.Location import Location
    from codelimit.common.Token import Token
    from codelimit.common.gsm import matcher
    from pygments.token import Keyword as K, Name as N, Punctuation as Pu, Operator as Op, Literal
    kinds = {0: K, 1: N.Function, 2: Pu, 3: Op, 7: Literal.Number}
    build, _, shape, _ = _mk_shapes()[name]
    out = []
    for w in words:
        toks = [Token(Location(1, i + 1), kinds[k], v) for i, (k, v) in enumerate(w)]
        raw = []

        def fa():
            ps = matcher.find_all(build(), toks)
            raw.extend((p.start, p.end, list(p.tokens)) for p in ps)
            return [[p.start, p.end] for p in ps]
        res = G.guarded(fa)
        probs = []
        if res[0] != 0:
            probs.append(f"find_all raised (error kind {res[1]})")
        else:
            last_end = 0
            for s, t, ptoks in raw:
                if not (0 <= s < t <= len(w)):
                    probs.append(f"match ({s},{t}) out of bounds / empty")
                    continue
                if [id(x) for x in ptoks] != [id(x) for x in toks[s:t]]:
                    probs.append(f"match ({s},{t}) does not record exactly the tokens it spans")
                g = greedy_shape(shape, w, s)
                if g is None or g[0] != t:
                    probs.append(f"match ({s},{t}) is not the greedy match from its start ({g})")
                elif t < len(w) and g[1] != 0:
                    probs.append(f"match ({s},{t}) ends before end of input at nesting depth {g[1]}")
                if s < last_end:
                    probs.append(f"match ({s},{t}) overlaps the previous match ending at {last_end}")
                last_end = max(last_end, t)
            for i in range(len(w)):
                if greedy_shape(shape, w, i) is not None and not any(s <= i < t for s, t, _ in raw):
                    probs.append(f"position {i} greedy-matches but is covered by no reported match")
        out.append((w, res, probs, bool(raw)))
    return name, out


def tok_lit(w):
    return "(toks " + coq_list(f"({k}, {pystr(v)})" for k, v in w) + ")"


def _collect_fresh(chk, procs):
    import json
    for e, ws, p in procs:
        out = p.stdout.read()
        p.wait()
        here = [json.loads(json.dumps(G.impl_obs(e, w)[0])) for w in ws]
        chk.evaluations += 1
        chk.count("first search of a fresh process")
        try:
            got = json.loads(out)
        except ValueError:
            chk.violation({"pattern": G.show(e)}, f"the pattern worker failed on {G.show(e)}: {p.stderr.read()[-200:]}")
            continue
        for which in ("first", "second"):
            if got[which] != here:
                k = next(i for i in range(len(ws)) if got[which][i] != here[i])
                chk.violation({"pattern": G.show(e), "expr": e, "word": list(ws[k])},
                              f"{G.show(e)} on {list(ws[k])}: the {which} search of a fresh process gives match / nfa_match / starts_with / find_all "
                              f"= {got[which][k]}, the same search in a process that has compiled other patterns gives {here[k]}")
                break
        else:
            chk.nontrivial.add(("fresh", G.show(e)))


def run(tier, seed, replay=None):
    assert_repo_import()
    chk = Check("C14", tier, seed)
    model_ok = chk.proof_stage(["Gsm/TokEngine.vo", "Gen/GenPatterns.vo", "Gsm/ScanProofs.vo", "Scope/TieProofs.vo"])
    max_size, max_len = (4, 4) if tier == "quick" else (5, 5)
    words = G.all_words([1, 2, 3], max_len) + [w for w in G.all_words([1, 2, 3, 4], 3) if 4 in w]
    nn = [e for e in G.all_exprs(max_size) if not G.nullable(G.to_regex(e))]
    rand = []
    for _ in range(600 if tier == "quick" else 20000):
        e = G.random_expr(chk.rng, chk.rng.randint(4, 20))
        if G.nullable(G.to_regex(e)):
            continue
        ws = [tuple(chk.rng.choice([1, 2, 3, 4] if chk.rng.random() < 0.15 else [1, 2, 3])
                    for _ in range(chk.rng.randint(1, 40))) for _ in range(6)]
        rand.append((e, ws))
    # ---- the first search of a FRESH process (state numbers start at 1 there, with one and two digits mixed) must give what
    #      the same search gives later and in this process (seeded change C14-12: a memo key of the subset construction that
    #      joins state numbers without a separator)
    import json
    import subprocess
    from common import REPO
    fresh = [[["P", [["A", 1]]]] + [["A", a] for a in tail] for tail in ([2, 3, 1, 2], [2, 3], [2, 3, 1, 2, 3, 1], [1, 1, 2])]
    fresh += [[["A", 1], ["A", 2], ["P", [["A", 3]]], ["A", 1], ["A", 2], ["A", 3], ["A", 1]]]
    def tup(x):
        return tuple(tup(y) for y in x) if isinstance(x, list) else x
    fresh = [tup(e) for e in fresh]
    while len(fresh) < (40 if tier == "quick" else 600):
        e = G.random_expr(chk.rng, chk.rng.randint(5, 16))
        if not G.nullable(G.to_regex(e)):
            fresh.append(e)
    procs = []
    env = dict(os.environ, PYTHONPATH=REPO, VERIF_REPO=REPO, PYTHONDONTWRITEBYTECODE="1")
    for e in fresh:
        ws = [tuple(chk.rng.choice([1, 2, 3]) for _ in range(chk.rng.randint(1, 12))) for _ in range(40)]
        ws = [w for w in ws if G.spec_match(e, w)][:3] + ws[:4]        # words of the language first: the very first run counts
        if e and e[0][0] == "P":
            ws.insert(0, tuple([1, 1] + [a[1] for a in e[1:] if a[0] == "A"]))
        p = subprocess.Popen(["/venv/bin/python", os.path.join(os.path.dirname(os.path.abspath(__file__)), "gsm_worker.py")],
                             stdin=subprocess.PIPE, stdout=subprocess.PIPE, stderr=subprocess.PIPE, text=True, env=env)
        p.stdin.write(json.dumps({"expr": e, "words": ws}))
        p.stdin.close()
        procs.append((e, ws, p))
        if len(procs) >= NPROC:
            _collect_fresh(chk, procs)
            procs = []
    _collect_fresh(chk, procs)
    model_cases = []
    with mp.Pool(NPROC) as pool:
        for e, res in pool.imap_unordered(_work_generic, [(e, words) for e in nn] + rand, chunksize=8):
            size = G.n_ops(e)
            for w, r, probs, found in res:
                chk.evaluations += 1
                if found and size >= 2:
                    chk.nontrivial.add((e, w))
                if probs:
                    chk.violation({"pattern": G.show(e), "expr": e, "word": list(w), "result": r},
                                  f"find_all {G.show(e)} on {list(w)} -> {r[1]}: " + "; ".join(probs[:3]))
            chk.count("generic patterns")
            if size <= 3 or len(res) <= 10 or hash((e, seed)) % 17 == 0:
                sel = res if size <= 3 or len(res) <= 10 else res[:: max(1, len(res) // 12)]
                for w, r, _, _ in sel:
                    model_cases.append((f"enc_cands (find_all id_peqb id_accept_st {G.to_coq(e)} "
                                        f"{coq_list(z(x) for x in w)} (fun _ => OK true))", r,
                                        {"pattern": G.show(e), "word": list(w)}))
        # token header shapes
        shapes = _mk_shapes()
        tlen = 6 if tier == "quick" else 7
        jobs = []
        for name, (_, _, _, alpha) in shapes.items():
            # the first six letters exhaustively to length tlen, the whole alphabet to length tlen - 1
            ws = G.all_words(alpha[:6], tlen) + [w for w in G.all_words(alpha, tlen - 1) if any(x in alpha[6:] for x in w)]
            for k in range(0, len(ws), 2000):
                jobs.append((name, ws[k:k + 2000]))
        # long random sequences with planted nested groups
        for name, (_, _, _, alpha) in shapes.items():
            ws = []
            for _ in range(300 if tier == "quick" else 5000):
                n = chk.rng.randint(8, 40)
                ws.append(tuple(chk.rng.choice(alpha) for _ in range(n)))
            jobs.append((name, ws))
        for name, res in pool.imap_unordered(_work_tokens, jobs):
            gall = shapes[name][1]
            for w, r, probs, found in res:
                chk.evaluations += 1
                if found:
                    chk.nontrivial.add((name, w))
                if probs:
                    chk.violation({"shape": name, "tokens": list(w), "result": r},
                                  f"find_all[{name}] on {' '.join(v for _, v in w)} -> {r[1]}: " + "; ".join(probs[:3]))
            chk.count(f"shape {name}", len(res))
            for w, r, _, found in res[:: 37]:
                model_cases.append((f"enc_cands (tk_find_all {gall} {tok_lit(w)} (fun _ => OK true))", r,
                                    {"shape": name, "tokens": [v for _, v in w]}))
    # ---- the header shapes through get_headers with the follow-up "{": the headers it reports are exactly the matches of
    #      find_all under an accept test written here (the next token is "{") — also when that "{" is the very last token
    #      (seeded change C14-26: the follow-up not consulted for a header that runs up to the last token but one)
    from codelimit.common.Location import Location
    from codelimit.common.Token import Token
    from codelimit.common.gsm import matcher
    from codelimit.common.scope.scope_utils import get_headers
    from codelimit.common.token_matching.predicate.Symbol import Symbol
    from pygments.token import Keyword as K, Name as N, Punctuation as Pu, Operator as Op, Literal
    kinds = {0: K, 1: N.Function, 2: Pu, 3: Op, 7: Literal.Number}
    shapes = _mk_shapes()
    for name in ("name groups", "function? name groups"):
        build = shapes[name][0]
        words = G.all_words(ALPHA[:6], 5 if tier == "quick" else 6)
        for w in words:
            if (2, "{") not in w or (1, "f") not in w:
                continue
            toks = [Token(Location(1, i + 1), kinds[k], v) for i, (k, v) in enumerate(w)]
            try:
                got = [(h.token_range.start, h.token_range.end) for h in get_headers(toks, build(), Symbol("{"))]
                want = [(p.start, p.end) for p in matcher.find_all(build(), toks, lambda p: p.end < len(toks) and toks[p.end].is_symbol("{"))]
            except Exception as ex:
                chk.violation({"shape": name, "tokens": list(w)}, f"get_headers[{name}] on {' '.join(v for _, v in w)} raised {type(ex).__name__}: {ex}")
                continue
            chk.evaluations += 1
            if want:
                chk.nontrivial.add(("headers", name, w))
            if got != want:
                chk.violation({"shape": name, "tokens": list(w), "headers": got},
                              f"get_headers[{name}] followed by '{{' on {' '.join(v for _, v in w)} -> {got}; the matches followed by '{{' are {want}")
        chk.count(f"get_headers with follow-up, shape {name}", len(words))
    # ---- predicates that carry state INSIDE a composite (Or / And of Balanced groups): every attempt must run on its own
    #      copy of that state.  Relational checks (the model has no such predicates): searching the same expression object
    #      twice, searching an equal fresh expression, and each reported match against the isolated run from its start
    from codelimit.common.Location import Location
    from codelimit.common.Token import Token
    from codelimit.common.gsm import matcher
    from codelimit.common.gsm.operator.OneOrMore import OneOrMore
    from codelimit.common.token_matching.predicate.And import And
    from codelimit.common.token_matching.predicate.Balanced import Balanced
    from codelimit.common.token_matching.predicate.Name import Name
    from codelimit.common.token_matching.predicate.Not import Not
    from codelimit.common.token_matching.predicate.Or import Or
    from pygments.token import Name as N, Punctuation as Pu
    builders = {"name (groups | brackets)+": lambda: [Name(), OneOrMore(Or(Balanced("(", ")"), Balanced("[", "]")))],
                "name (groups & not ;)+": lambda: [Name(), OneOrMore(And(Balanced("(", ")"), Not(";")))]}
    alpha2 = ["f", "(", ")", "[", "]", ";"]
    rng = chk.rng
    for bname, build in builders.items():
        seqs = [w for w in itertools.product(alpha2, repeat=5)][:: 7] if tier == "quick" else list(itertools.product(alpha2, repeat=6))
        seqs += [tuple(rng.choice(alpha2 + ["f", "("]) for _ in range(rng.randint(6, 24))) for _ in range(400 if tier == "quick" else 6000)]
        shared = build()
        for w in seqs:
            toks = [Token(Location(1, i + 1), N if v == "f" else Pu, v) for i, v in enumerate(w)]
            spans = lambda ps: [(p.start, p.end) for p in ps]
            r1 = G.guarded(lambda: spans(matcher.find_all(shared, toks)))
            r2 = G.guarded(lambda: spans(matcher.find_all(shared, toks)))
            r3 = G.guarded(lambda: spans(matcher.find_all(build(), toks)))
            chk.evaluations += 1
            chk.count("composite stateful predicate: " + bname)
            probs = []
            if r1 != r3:
                probs.append(f"an expression object used before gives {r1}, a fresh equal expression {r3}")
            if r2 != r3:
                probs.append(f"searching the same expression object a second time gives {r2}, a fresh expression {r3}")
            if r3[0] == 0:
                for s0, t0 in r3[1]:
                    iso = G.guarded(lambda: spans(matcher.find_all(build(), toks[s0:])))
                    if iso[0] != 0 or not iso[1] or iso[1][0] != (0, t0 - s0):
                        probs.append(f"match ({s0},{t0}) differs from the isolated run from its start ({iso[1][:1] if iso[0] == 0 else iso})")
                if r3[1]:
                    chk.nontrivial.add(("composite", bname, w))
            if probs:
                chk.violation({"shape": bname, "tokens": list(w)}, f"find_all[{bname}] on {' '.join(w)}: " + "; ".join(probs[:3]))
    chk.samples = [c for _, _, c in model_cases[500:502] + model_cases[-2:]]
    if model_ok:
        mism, err = eval_cases("C14", IMPORTS, [(m, o) for m, o, _ in model_cases], shard=500)
        chk.traces = len(model_cases)
        if err:
            chk.broken.append("correspondence evaluation failed: " + err[-400:])
        for i in mism[:5]:
            got = eval_one("C14", IMPORTS, model_cases[i][0])
            chk.broken.append(f"correspondence: find_all model and implementation differ on {model_cases[i][2]}: "
                              f"model {got} vs implementation {canon_tree(model_cases[i][1])}")
    else:
        chk.broken.append("engine model does not build; correspondence not run")
    nt = len(chk.nontrivial)
    chk.nontrivial = {str(i) for i in range(nt)}
    return chk.finish(
        rule=f"all non-nullable pattern trees of size <= {max_size} x all words of length <= {max_len} over a,b,c "
             "(+ words with a foreign letter), random larger ones; the three built-in header shapes over every token "
             f"sequence of length <= {6 if tier == 'quick' else 8} over their alphabets plus random long sequences.  "
             "Judged conjunct by conjunct (bounds, recorded items, language membership, longest, ordered/disjoint, "
             "coverage, nesting zero) with a derivative matcher / an independent shape runner.  Non-trivial: a match "
             "was reported and the pattern has >= 2 operators.",
        assumptions=["Identity atoms over distinct integers are pairwise disjoint predicates"],
        extra={"exhaustive": True})
