(* ShapeProofsFollow.v — the follow-up automata: "{" alone (all brace languages),
   "{" or "throws ... {" (Java), "{" or ": return type {" (TypeScript, GD26: the return type is made of
   parenthesis groups and of tokens whose text is none of ";" "{" "(" ")"); starts_with on each of
   them decides the corresponding follow-up test of LexShapes.v. *)
From Verif Require Import Base Regex Nfa Dfa Token TokEngine GenPatterns Headers Blocks Spec HeaderSpec Scan ScanProofs.
From Verif Require Import Unamb UnambProofs LexShapes HeaderProofsDfa HeaderProofsSelect ShapeProofsGen.
Open Scope Z_scope.

Definition is_some {A} (r : option A) : bool := match r with Some _ => true | None => false end.

(* ---------- "{" ---------- *)
Lemma follow_brace_decides ts : follow_decides af follow_brace ts.
Proof.
  intros j. rewrite followup_test. unfold follow_brace.
  exists (if sym_at ts j lbrace then Some 1%nat else None). split; [reflexivity|].
  destruct (sym_at ts j lbrace); reflexivity.
Qed.

(* ---------- the loop "anything but ; and {" then "{" ---------- *)
Definition nosemi : tpred := PAnd (PNot (PValue s_semi)) (PNot (PValue lbrace)).
Definition Brace : tpred := PSymbol lbrace.

Section Until.
  Variable a : automaton tpred.
  Variables L2 E : list nat.
  Hypothesis HAL : mem (a_acc a) L2 = false.
  Hypothesis HAE : mem (a_acc a) E = true.

  Section Step.
    Variable L : list nat.
    Hypothesis HT : dtrans tpred_eqb (a_heap a) L = [nosemi; Brace].
    Hypothesis HN : closure (a_heap a) (move tpred_eqb (a_heap a) L nosemi) = OK L2.
    Hypothesis HB : closure (a_heap a) (move tpred_eqb (a_heap a) L Brace) = OK E.

    Lemma aconsume_loop x :
      aconsume a L 0 x =
      if pystr_eqb (t_value x) lbrace then (if is_symbol x lbrace then OK (Some (E, 0)) else OK None)
      else if pystr_eqb (t_value x) s_semi then OK None else OK (Some (L2, 0)).
    Proof.
      unfold aconsume. cbv zeta. rewrite HT.
      unfold nosemi, Brace. cbn [filter tpred_eqb Bal]. cbn [pfold tpred_eqb Bal taccept]. unfold is_symbol.
      destruct (pystr_eqb (t_value x) lbrace); destruct (pystr_eqb (t_value x) s_semi);
        destruct (kind_eqb (t_kind x) KPunct); cbn [negb andb]; fold nosemi; fold Brace;
        rewrite ?HN, ?HB; reflexivity.
    Qed.
  End Step.

  Hypothesis HT2 : dtrans tpred_eqb (a_heap a) L2 = [nosemi; Brace].
  Hypothesis HN2 : closure (a_heap a) (move tpred_eqb (a_heap a) L2 nosemi) = OK L2.
  Hypothesis HB2 : closure (a_heap a) (move tpred_eqb (a_heap a) L2 Brace) = OK E.

  Lemma aprefix_loop2 : forall w n, exists r, aprefix a L2 0 n w = OK r /\ is_some r = until_brace w.
  Proof.
    induction w as [|x w IH]; intros n; cbn [aprefix until_brace].
    - exists None. split; reflexivity.
    - rewrite (aconsume_loop L2 HT2 HN2 HB2).
      destruct (pystr_eqb (t_value x) lbrace).
      + destruct (is_symbol x lbrace).
        * rewrite HAE. exists (Some (S n)). split; reflexivity.
        * exists None. split; reflexivity.
      + destruct (pystr_eqb (t_value x) s_semi).
        * exists None. split; reflexivity.
        * rewrite HAL. apply IH.
  Qed.

  Variable L1 : list nat.
  Hypothesis HT1 : dtrans tpred_eqb (a_heap a) L1 = [nosemi; Brace].
  Hypothesis HN1 : closure (a_heap a) (move tpred_eqb (a_heap a) L1 nosemi) = OK L2.
  Hypothesis HB1 : closure (a_heap a) (move tpred_eqb (a_heap a) L1 Brace) = OK E.

  Lemma aprefix_loop1 w n : exists r, aprefix a L1 0 n w = OK r /\ is_some r = until_brace w.
  Proof.
    destruct w as [|x w]; cbn [aprefix until_brace].
    - exists None. split; reflexivity.
    - rewrite (aconsume_loop L1 HT1 HN1 HB1).
      destruct (pystr_eqb (t_value x) lbrace).
      + destruct (is_symbol x lbrace).
        * rewrite HAE. exists (Some (S n)). split; reflexivity.
        * exists None. split; reflexivity.
      + destruct (pystr_eqb (t_value x) s_semi).
        * exists None. split; reflexivity.
        * rewrite HAL. apply aprefix_loop2.
  Qed.
End Until.

(* a symbol is neither a keyword nor an operator *)
Lemma symbol_not_kw x s s' : is_symbol x s = true -> kwt x s' = false.
Proof. unfold is_symbol, kwt, is_keyword. destruct (t_kind x); cbn; congruence. Qed.
Lemma symbol_not_op x s s' : is_symbol x s = true -> is_operator x s' = false.
Proof. unfold is_symbol, is_operator. destruct (t_kind x); cbn; congruence. Qed.

(* the follow-up tests on the suffix *)
Lemma follow_throws_skipn ts j :
  follow_throws ts j = match skipn j ts with
                       | x :: r => is_symbol x lbrace || (kwt x s_throws && until_brace r)
                       | [] => false
                       end.
Proof.
  unfold follow_throws, sym_at, kw_at. rewrite nth_error_skipn_hd.
  destruct (skipn j ts) as [|x r] eqn:E; [reflexivity|]. rewrite (skipn_cons_S j ts x r E). reflexivity.
Qed.

Lemma follow_rettype_skipn ts j :
  follow_rettype ts j = match skipn j ts with
                        | x :: r => is_symbol x lbrace || (is_operator x s_colon && until_brace_type r 0)
                        | [] => false
                        end.
Proof.
  unfold follow_rettype, sym_at, op_at. rewrite nth_error_skipn_hd.
  destruct (skipn j ts) as [|x r] eqn:E; [reflexivity|]. rewrite (skipn_cons_S j ts x r E). reflexivity.
Qed.

(* ---------- Java: "{" or "throws ... {" ---------- *)
Definition java_followup : expr tpred :=
  [Union [Atom Brace] [Atom (PKeyword s_throws); Star [Atom nosemi]; Atom Brace]].

Definition aJ : automaton tpred :=
  Eval vm_compute in match tk_to_dfa java_followup with OK a => a | Err _ => mkAut [] [] 0%nat end.
Lemma to_dfa_java_followup : tk_to_dfa java_followup = OK aJ.
Proof. vm_compute. reflexivity. Qed.
Lemma okheap_aJ : okheap aJ = true.
Proof. vm_compute. reflexivity. Qed.

Definition U0 := [0; 1; 3]%nat.        (* start *)
Definition UB := [2; 11]%nat.          (* after "{" directly: accepting *)
Definition U1 := [4; 6; 8]%nat.        (* after the introducing token *)
Definition U2 := [6; 7; 8]%nat.        (* in the loop *)
Definition UE := [10; 11]%nat.         (* after the final "{": accepting *)

Lemma aconsume_J0 x : aconsume aJ U0 0 x =
  if is_symbol x lbrace then OK (Some (UB, 0)) else if kwt x s_throws then OK (Some (U1, 0)) else OK None.
Proof.
  unfold aconsume. cbv zeta.
  change (dtrans tpred_eqb (a_heap aJ) U0) with [Brace; PKeyword s_throws].
  unfold Brace. cbn [filter tpred_eqb Bal]. cbn [pfold tpred_eqb Bal taccept]. fold (kwt x s_throws).
  destruct (is_symbol x lbrace) eqn:E1.
  - rewrite (symbol_not_kw x lbrace s_throws E1). reflexivity.
  - destruct (kwt x s_throws); reflexivity.
Qed.

Lemma follow_throws_decides ts : follow_decides aJ follow_throws ts.
Proof.
  intros j. rewrite (starts_with_aprefix aJ okheap_aJ), follow_throws_skipn.
  change (a_start aJ) with U0.
  destruct (skipn j ts) as [|x r]; [exists None; split; reflexivity|].
  cbn [aprefix]. rewrite aconsume_J0.
  destruct (is_symbol x lbrace) eqn:E1; cbn [orb].
  - exists (Some 1%nat). split; reflexivity.
  - destruct (kwt x s_throws); cbn [andb].
    + change (mem (a_acc aJ) U1) with false. cbv iota.
      apply (aprefix_loop1 aJ U2 UE); reflexivity.
    + exists None. split; reflexivity.
Qed.

(* ---------- TypeScript: "{" or ": type {" ---------- *)
Definition notype : tpred :=
  PAnd (PAnd (PNot (PValue s_semi)) (PNot (PValue lbrace))) (PAnd (PNot (PValue lparen)) (PNot (PValue rparen))).
Definition ts_followup : expr tpred :=
  [Union [Atom Brace] [Atom (POperator s_colon); Star [Union [Atom Bal] [Atom notype]]; Atom Brace]].

Definition aT : automaton tpred :=
  Eval vm_compute in match tk_to_dfa ts_followup with OK a => a | Err _ => mkAut [] [] 0%nat end.
Lemma to_dfa_ts_followup : tk_to_dfa ts_followup = OK aT.
Proof. vm_compute. reflexivity. Qed.
Lemma okheap_aT : okheap aT = true.
Proof. vm_compute. reflexivity. Qed.

Definition TB := [2; 15]%nat.                    (* after "{" directly: accepting *)
Definition V1 := [4; 6; 7; 9; 12]%nat.           (* after ":" *)
Definition VG := [6; 7; 8; 9; 11; 12]%nat.       (* after a token of a parenthesis group *)
Definition VN := [6; 7; 9; 10; 11; 12]%nat.      (* after a plain type token *)
Definition VE := [14; 15]%nat.                   (* after the final "{": accepting *)

(* the three states of the return type behave alike *)
Definition type_state (Q : list nat) : Prop :=
  dtrans tpred_eqb (a_heap aT) Q = [Bal; notype; Brace] /\
  closure (a_heap aT) (move tpred_eqb (a_heap aT) Q Bal) = OK VG /\
  closure (a_heap aT) (move tpred_eqb (a_heap aT) Q notype) = OK VN /\
  closure (a_heap aT) (move tpred_eqb (a_heap aT) Q Brace) = OK VE /\
  mem (a_acc aT) Q = false.
Lemma type_state_V1 : type_state V1. Proof. repeat split; reflexivity. Qed.
Lemma type_state_VG : type_state VG. Proof. repeat split; reflexivity. Qed.
Lemma type_state_VN : type_state VN. Proof. repeat split; reflexivity. Qed.

(* inside a group: only Balanced decides, every token is consumed *)
Lemma aconsume_type_open Q d x : type_state Q -> 0 < d ->
  aconsume aT Q d x = OK (Some (VG, if is_symbol x lparen then d + 1 else if is_symbol x rparen then d - 1 else d)).
Proof.
  intros (HT & HG & _ & _ & _) Hd. unfold aconsume. cbv zeta. rewrite HT.
  cbn [filter]. rewrite eqb_Bal_Bal. change (tpred_eqb notype Bal) with false. change (tpred_eqb Brace Bal) with false.
  assert (Ed : 0 <? d = true) by (apply Z.ltb_lt; exact Hd). rewrite Ed. cbv iota.
  cbn [pfold]. rewrite eqb_Bal_Bal, (bal_step d x) by lia. rewrite Ed.
  destruct (is_symbol x lparen); [rewrite HG; reflexivity|].
  destruct (is_symbol x rparen); rewrite HG; reflexivity.
Qed.

(* outside the groups: "(" opens one, the symbol "{" ends, the four texts stop, anything else goes on *)
Lemma aconsume_type_0 Q x : type_state Q ->
  aconsume aT Q 0 x =
  if is_symbol x lparen then OK (Some (VG, 1))
  else if is_symbol x lbrace then OK (Some (VE, 0))
  else if pystr_eqb (t_value x) lbrace || pystr_eqb (t_value x) s_semi
          || pystr_eqb (t_value x) lparen || pystr_eqb (t_value x) rparen then OK None
  else OK (Some (VN, 0)).
Proof.
  intros (HT & HG & HN & HE & _). unfold aconsume. cbv zeta. rewrite HT.
  cbn [filter]. rewrite eqb_Bal_Bal. change (tpred_eqb notype Bal) with false. change (tpred_eqb Brace Bal) with false.
  change (0 <? 0) with false. cbv iota.
  cbn [pfold]. rewrite eqb_Bal_Bal. change (tpred_eqb notype Bal) with false. change (tpred_eqb Brace Bal) with false.
  cbv iota. rewrite (bal_step 0 x (Z.le_refl 0)). change (0 <? 0) with false.
  unfold notype, Brace. cbn [taccept]. unfold is_symbol.
  destruct (kind_eqb (t_kind x) KPunct);
  destruct (pystr_eqb (t_value x) lparen) eqn:E1; destruct (pystr_eqb (t_value x) rparen) eqn:E2;
  destruct (pystr_eqb (t_value x) lbrace) eqn:E3; destruct (pystr_eqb (t_value x) s_semi) eqn:E4;
  cbn [andb orb negb]; fold Brace; fold notype; rewrite ?HG, ?HN, ?HE; try reflexivity;
  repeat match goal with H : pystr_eqb _ _ = true |- _ => apply pystr_eqb_spec in H end;
  unfold lparen, rparen, lbrace, s_semi in *; congruence.
Qed.

Lemma aprefix_type : forall w Q d n, type_state Q -> 0 <= d ->
  exists r, aprefix aT Q d n w = OK r /\ is_some r = until_brace_type w d.
Proof.
  induction w as [|x w IH]; intros Q d n HS Hd; cbn [aprefix until_brace_type].
  - exists None. split; reflexivity.
  - destruct (Z.ltb_spec 0 d) as [Hp|Hz].
    + rewrite (aconsume_type_open Q d x HS Hp).
      change (mem (a_acc aT) VG) with false. cbv iota.
      destruct (is_symbol x lparen); [apply IH; [exact type_state_VG | lia]|].
      destruct (is_symbol x rparen); apply IH; try exact type_state_VG; lia.
    + assert (d = 0) by lia. subst d. rewrite (aconsume_type_0 Q x HS).
      destruct (is_symbol x lparen).
      * change (mem (a_acc aT) VG) with false. cbv iota. apply IH; [exact type_state_VG | lia].
      * destruct (is_symbol x lbrace).
        -- change (mem (a_acc aT) VE) with true. cbv iota. exists (Some (S n)). split; reflexivity.
        -- destruct (pystr_eqb (t_value x) lbrace || pystr_eqb (t_value x) s_semi
                     || pystr_eqb (t_value x) lparen || pystr_eqb (t_value x) rparen).
           ++ exists None. split; reflexivity.
           ++ change (mem (a_acc aT) VN) with false. cbv iota. apply IH; [exact type_state_VN | lia].
Qed.

Lemma aconsume_T0 x : aconsume aT U0 0 x =
  if is_symbol x lbrace then OK (Some (TB, 0)) else if is_operator x s_colon then OK (Some (V1, 0)) else OK None.
Proof.
  unfold aconsume. cbv zeta.
  change (dtrans tpred_eqb (a_heap aT) U0) with [Brace; POperator s_colon].
  unfold Brace. cbn [filter tpred_eqb Bal]. cbn [pfold tpred_eqb Bal taccept].
  destruct (is_symbol x lbrace) eqn:E1.
  - rewrite (symbol_not_op x lbrace s_colon E1). reflexivity.
  - destruct (is_operator x s_colon); reflexivity.
Qed.

Lemma follow_rettype_decides ts : follow_decides aT follow_rettype ts.
Proof.
  intros j. rewrite (starts_with_aprefix aT okheap_aT), follow_rettype_skipn.
  change (a_start aT) with U0.
  destruct (skipn j ts) as [|x r]; [exists None; split; reflexivity|].
  cbn [aprefix]. rewrite aconsume_T0.
  destruct (is_symbol x lbrace) eqn:E1; cbn [orb].
  - exists (Some 1%nat). split; reflexivity.
  - destruct (is_operator x s_colon); cbn [andb].
    + change (mem (a_acc aT) V1) with false. cbv iota.
      apply (aprefix_type r V1 0 1%nat type_state_V1 (Z.le_refl 0)).
    + exists None. split; reflexivity.
Qed.

(* the same statement written out *)
Corollary follow_rettype_starts_with ts j :
  exists r, tk_starts_with_dfa aT (skipn j ts) = OK r /\ is_some r = follow_rettype ts j.
Proof. exact (follow_rettype_decides ts j). Qed.
