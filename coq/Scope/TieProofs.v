(* TieProofs.v — the comparison operators and state updates of the hand-written scope / lexer / matcher models
   ARE the ones the source states: each model definition is proved equal to the definition regenerated from the
   source on every run (Gen/GenCompare.v).  Changing `<` to `<=`, `>=` to `>`, `+ 1` to `+ 0` … in any of these
   source lines changes GenCompare.v and one of these lemmas stops checking. *)
From Verif Require Import Base Token Lex Headers Blocks Pairing Fold GenCompare.
From Coq Require Import ZifyBool ZifyNat.
Open Scope Z_scope.

Definition zr (r : range) : Z * Z := (Z.of_nat (fst r), Z.of_nat (snd r)).

Lemma tie_range_lt a b : r_lt a b = token_range_lt (fst (zr a)) (snd (zr a)) (fst (zr b)) (snd (zr b)).
Proof. unfold r_lt, token_range_lt, zr; cbn [fst snd]. lia. Qed.
Lemma tie_range_contains a b : r_contains a b = token_range_contains (fst (zr a)) (snd (zr a)) (fst (zr b)) (snd (zr b)).
Proof. unfold r_contains, token_range_contains, zr; cbn [fst snd]. lia. Qed.
Lemma tie_range_overlaps a b : r_overlaps a b = token_range_overlaps (fst (zr a)) (snd (zr a)) (fst (zr b)) (snd (zr b)).
Proof. unfold r_overlaps, token_range_overlaps, zr; cbn [fst snd]. lia. Qed.
Lemma tie_scope_contains a b :
  s_contains a b = scope_contains (Z.of_nat (h_start (s_header a))) (Z.of_nat (snd (s_block a)))
                                  (Z.of_nat (h_start (s_header b))) (Z.of_nat (snd (s_block b))).
Proof. unfold s_contains, scope_contains. lia. Qed.
(* the two places where a block must start at or after the end of the header (GD12) *)
Lemma tie_block_after_header (h b : range) :
  Nat.leb (snd h) (fst b) = nearest_block_is_later (Z.of_nat (fst b)) (Z.of_nat (snd h)) /\
  Nat.leb (snd h) (fst b) = scope_block_after_header (Z.of_nat (fst b)) (Z.of_nat (snd h)).
Proof. unfold nearest_block_is_later, scope_block_after_header. split; lia. Qed.
(* Balanced.accept: the depth counter *)
Lemma tie_balanced_accept l r d t sat :
  taccept_st (PBalanced l r) d t =
  (let '(b, d', _) := balanced_accept (taccept l t) (taccept r t) d sat in (b, d')).
Proof.
  unfold taccept_st, balanced_accept.
  destruct (taccept l t); [reflexivity|]. destruct (taccept r t).
  - destruct (d - 1 <? 0); reflexivity.
  - f_equal. lia.
Qed.
(* lex(): a token lies on a later line when its offset is beyond the line break *)
Lemma tie_lex_advance i rest n ls off :
  advance (i :: rest) n ls off = if lex_past_newline off i then advance rest (n + 1) (i + 1) off else (i :: rest, n, ls).
Proof. unfold lex_past_newline. reflexivity. Qed.

(* _scope_tokens: the walk over the sorted child ranges *)
Lemma tie_drop_passed idx r rest :
  drop_passed idx (r :: rest) = if child_range_passed (Z.of_nat idx) (Z.of_nat (snd r)) then drop_passed idx rest else r :: rest.
Proof. unfold child_range_passed. cbn [drop_passed]. replace (Z.of_nat idx >=? Z.of_nat (snd r)) with (Nat.leb (snd r) idx) by lia. reflexivity. Qed.
Lemma tie_scope_token_step i r c rs : drop_passed i (c :: rs) = c :: rs ->
  scope_token_indices (i :: r) (c :: rs) =
  if before_child_range (Z.of_nat i) (Z.of_nat (fst c)) then i :: scope_token_indices r (c :: rs) else scope_token_indices r (c :: rs).
Proof.
  intros H. unfold before_child_range. cbn [scope_token_indices]. rewrite H.
  replace (Z.of_nat i <? Z.of_nat (fst c)) with (Nat.ltb i (fst c)) by lia. reflexivity.
Qed.
(* Python.extract_blocks: the scan over the lines below the header *)
Lemma tie_block_lines ts li l r hline hindent acc :
  block_lines ts ((li, l) :: r) hline hindent acc =
  if py_line_not_below_header (tok_line ts (line_first l)) hline then acc
  else if py_line_deeper (tok_col ts (line_first l)) hindent then block_lines ts r hline hindent (acc ++ [li])
  else block_lines ts r hline hindent [].
Proof. reflexivity. Qed.
Lemma tie_py_header_at_end (ts : list token) (h : header) :
  Nat.leb (length ts) (h_end h) = py_header_at_end (Z.of_nat (h_end h)) (Z.of_nat (length ts)).
Proof. unfold py_header_at_end. lia. Qed.

From Verif Require Import Regex Nfa Dfa.
(* find_all: a candidate is kept when it starts at or after the end of the last kept one *)
Lemma tie_select_leftmost (f : cand -> res bool) last_end c rest :
  f c = OK true ->
  select_leftmost f last_end (c :: rest) =
  if find_all_after_last (Z.of_nat (fst c)) (Z.of_nat last_end)
  then match select_leftmost f (snd c) rest with Err k => Err k | OK r => OK (c :: r) end
  else select_leftmost f last_end rest.
Proof.
  intros H. cbn [select_leftmost]. rewrite H. unfold find_all_after_last.
  replace (Z.of_nat (fst c) >=? Z.of_nat last_end) with (Nat.leb last_end (fst c)) by lia. reflexivity.
Qed.
Lemma tie_group_is_open d : (0 <? d) = group_is_open d.
Proof. unfold group_is_open. lia. Qed.
