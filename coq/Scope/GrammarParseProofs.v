(* GrammarParseProofs.v — soundness of the executable recogniser of GrammarParse.v with respect to the
   inductive grammar of GrammarAll.v:  parse_program l ts = Some ds -> canonical_program_of l ts ds. *)
From Verif Require Import Base Regex Token TokEngine Headers Blocks Spec HeaderSpec LexShapes Grammar GrammarAll
  GrammarParse.
Open Scope nat_scope.

(* ------------------------------------------------------------------------------------------------ *)
(* 1. paren_walk                                                                                     *)
(* ------------------------------------------------------------------------------------------------ *)

Lemma plain_of_flags : forall t,
  is_lbrace t || is_rbrace t = false -> is_lparen t = false -> is_rparen t = false -> plain t = true.
Proof.
  intros t Hb Hl Hr. apply orb_false_iff in Hb. destruct Hb as [Hlb Hrb].
  unfold plain. rewrite Hl, Hr, Hlb, Hrb. reflexivity.
Qed.

Lemma inner_app : forall a b, inner a -> inner b -> inner (a ++ b).
Proof.
  intros a b Ha Hb. induction Ha as [| t r Hpl Hr IHr | o g c r Ho Hg IHg Hc Hr IHr].
  - exact Hb.
  - simpl. apply inner_plain; assumption.
  - replace ((o :: g ++ c :: r) ++ b) with (o :: g ++ c :: (r ++ b)).
    + apply inner_group; assumption.
    + simpl. rewrite <- app_assoc. reflexivity.
Qed.

(* leaving a parenthesis opened before ts: ts splits at the matching close parenthesis *)
Lemma paren_walk_split : forall n top ts d res,
  length ts <= n -> paren_walk top ts (S d) = Some res -> res <= d ->
  exists g c r, ts = g ++ c :: r /\ is_rparen c = true /\ inner g /\ paren_walk top r d = Some res.
Proof.
  induction n as [| n IHn]; intros top ts d res Hlen Hw Hres.
  - destruct ts as [| t r]; simpl in Hlen; [| lia].
    simpl in Hw. inversion Hw. lia.
  - destruct ts as [| t r].
    + simpl in Hw. inversion Hw. lia.
    + simpl in Hlen. simpl in Hw.
      destruct (is_lbrace t || is_rbrace t) eqn:Hb; [discriminate |].
      destruct (is_lparen t) eqn:Hl.
      * destruct (IHn top r (S d) res) as (g1 & c1 & r1 & Er & Hc1 & Hg1 & Hw1); [lia | exact Hw | lia |].
        assert (Hlen1 : length r1 <= n).
        { subst r. rewrite app_length in Hlen. simpl in Hlen. lia. }
        destruct (IHn top r1 d res) as (g2 & c2 & r2 & Er1 & Hc2 & Hg2 & Hw2); [lia | exact Hw1 | lia |].
        exists (t :: g1 ++ c1 :: g2), c2, r2. repeat split.
        -- subst r r1. simpl. rewrite <- app_assoc. reflexivity.
        -- exact Hc2.
        -- apply inner_group; assumption.
        -- exact Hw2.
      * destruct (is_rparen t) eqn:Hr.
        -- exists [], t, r. repeat split; [exact Hr | constructor | exact Hw].
        -- destruct (IHn top r d res) as (g1 & c1 & r1 & Er & Hc1 & Hg1 & Hw1); [lia | exact Hw | lia |].
           exists (t :: g1), c1, r1. repeat split.
           ++ subst r. reflexivity.
           ++ exact Hc1.
           ++ apply inner_plain; [apply plain_of_flags; assumption | exact Hg1].
           ++ exact Hw1.
Qed.

Lemma paren_walk_true_inner : forall n ts, length ts <= n -> paren_walk true ts 0 = Some 0 -> inner ts.
Proof.
  induction n as [| n IHn]; intros ts Hlen Hw.
  - destruct ts; [constructor | simpl in Hlen; lia].
  - destruct ts as [| t r]; [constructor |].
    simpl in Hlen. simpl in Hw.
    destruct (is_lbrace t || is_rbrace t) eqn:Hb; [discriminate |].
    destruct (is_lparen t) eqn:Hl.
    + destruct (paren_walk_split (length r) true r 0 0) as (g & c & r2 & Er & Hc & Hg & Hw2);
        [lia | exact Hw | lia |].
      subst r. apply inner_group; try assumption.
      apply IHn; [| exact Hw2]. rewrite app_length in Hlen. simpl in Hlen. lia.
    + destruct (is_rparen t) eqn:Hr; [discriminate |].
      apply inner_plain; [apply plain_of_flags; assumption |].
      apply IHn; [lia | exact Hw].
Qed.

Lemma inner_b_sound : forall ts, inner_b ts = true -> inner ts.
Proof.
  intros ts H. unfold inner_b in H.
  destruct (paren_walk true ts 0) as [[| k] |] eqn:Hw; try discriminate.
  apply (paren_walk_true_inner (length ts)); [lia | exact Hw].
Qed.

Lemma paren_walk_false_groups : forall n ts,
  length ts <= n -> paren_walk false ts 0 = Some 0 -> ts = [] \/ groups ts.
Proof.
  induction n as [| n IHn]; intros ts Hlen Hw.
  - destruct ts; [left; reflexivity | simpl in Hlen; lia].
  - destruct ts as [| t r]; [left; reflexivity |]. right.
    simpl in Hlen. simpl in Hw.
    destruct (is_lbrace t || is_rbrace t) eqn:Hb; [discriminate |].
    destruct (is_lparen t) eqn:Hl.
    + destruct (paren_walk_split (length r) false r 0 0) as (g & c & r2 & Er & Hc & Hg & Hw2);
        [lia | exact Hw | lia |].
      subst r.
      assert (Hgrp : group (t :: g ++ [c])) by (apply group_intro; assumption).
      destruct (IHn r2) as [E2 | G2]; [| exact Hw2 | |].
      * rewrite app_length in Hlen. simpl in Hlen. lia.
      * subst r2. apply groups_one. exact Hgrp.
      * replace (t :: g ++ c :: r2) with ((t :: g ++ [c]) ++ r2).
        -- apply groups_more; assumption.
        -- simpl. rewrite <- app_assoc. reflexivity.
    + destruct (is_rparen t) eqn:Hr; discriminate.
Qed.

Lemma groups_b_sound : forall ts, groups_b ts = true -> groups ts.
Proof.
  intros ts H. unfold groups_b in H.
  destruct ts as [| t r]; [discriminate |].
  destruct (paren_walk false (t :: r) 0) as [[| k] |] eqn:Hw; try discriminate.
  destruct (paren_walk_false_groups (length (t :: r)) (t :: r)) as [E | G]; [lia | exact Hw | discriminate | exact G].
Qed.

(* ------------------------------------------------------------------------------------------------ *)
(* 1b. type_walk                                                                                     *)
(* ------------------------------------------------------------------------------------------------ *)

(* leaving a parenthesis opened before ts: ts splits at the matching close parenthesis *)
Lemma type_walk_split : forall n ts d,
  length ts <= n -> type_walk ts (S d) = true ->
  exists g c r, ts = g ++ c :: r /\ is_rparen c = true /\ inner g /\ type_walk r d = true.
Proof.
  induction n as [| n IHn]; intros ts d Hlen Hw.
  - destruct ts as [| t r]; simpl in Hlen; [| lia]. simpl in Hw. discriminate.
  - destruct ts as [| t r]; [simpl in Hw; discriminate |].
    simpl in Hlen. cbn [type_walk] in Hw.
    destruct (is_lbrace t || is_rbrace t) eqn:Hb; [discriminate |].
    destruct (is_lparen t) eqn:Hl.
    + destruct (IHn r (S d)) as (g1 & c1 & r1 & Er & Hc1 & Hg1 & Hw1); [lia | exact Hw |].
      assert (Hlen1 : length r1 <= n).
      { subst r. rewrite app_length in Hlen. simpl in Hlen. lia. }
      destruct (IHn r1 d) as (g2 & c2 & r2 & Er1 & Hc2 & Hg2 & Hw2); [lia | exact Hw1 |].
      exists (t :: g1 ++ c1 :: g2), c2, r2. repeat split.
      * subst r r1. simpl. rewrite <- app_assoc. reflexivity.
      * exact Hc2.
      * apply inner_group; assumption.
      * exact Hw2.
    + destruct (is_rparen t) eqn:Hr.
      * exists [], t, r. repeat split; [exact Hr | constructor | exact Hw].
      * destruct (IHn r d) as (g1 & c1 & r1 & Er & Hc1 & Hg1 & Hw1); [lia | exact Hw |].
        exists (t :: g1), c1, r1. repeat split.
        -- subst r. reflexivity.
        -- exact Hc1.
        -- apply inner_plain; [apply plain_of_flags; assumption | exact Hg1].
        -- exact Hw1.
Qed.

Lemma type_walk_type_seq : forall n ts, length ts <= n -> type_walk ts 0 = true -> type_seq ts.
Proof.
  induction n as [| n IHn]; intros ts Hlen Hw.
  - destruct ts; [constructor | simpl in Hlen; lia].
  - destruct ts as [| t r]; [constructor |].
    simpl in Hlen. cbn [type_walk] in Hw.
    destruct (is_lbrace t || is_rbrace t) eqn:Hb; [discriminate |].
    destruct (is_lparen t) eqn:Hl.
    + destruct (type_walk_split (length r) r 0) as (g & c & r2 & Er & Hc & Hg & Hw2); [lia | exact Hw |].
      subst r. apply tsq_group; try assumption.
      apply IHn; [| exact Hw2]. rewrite app_length in Hlen. simpl in Hlen. lia.
    + destruct (is_rparen t) eqn:Hr; [discriminate |].
      apply andb_true_iff in Hw. destruct Hw as [Hw Hwr].
      apply andb_true_iff in Hw. destruct Hw as [Htt Hnext].
      apply tsq_tok; [exact Htt | exact Hnext |].
      apply IHn; [lia | exact Hwr].
Qed.

Lemma type_seq_b_sound : forall ts, type_seq_b ts = true -> type_seq ts.
Proof.
  intros ts H. unfold type_seq_b in H.
  apply (type_walk_type_seq (length ts)); [lia | exact H].
Qed.

(* ------------------------------------------------------------------------------------------------ *)
(* 2. stmt_len                                                                                       *)
(* ------------------------------------------------------------------------------------------------ *)

Lemma option_map_S_some : forall o n, option_map S o = Some n -> exists m, o = Some m /\ n = S m.
Proof.
  intros o n H. destruct o as [m |]; simpl in H; [| discriminate].
  inversion H. exists m. split; reflexivity.
Qed.

Lemma stmt_len_split : forall ts d n,
  stmt_len ts d = Some n ->
  exists body semi rest, ts = body ++ semi :: rest /\ n = S (length body) /\ is_symbol semi semicolon = true.
Proof.
  induction ts as [| t r IHr]; intros d n H; simpl in H; [discriminate |].
  destruct (is_lbrace t || is_rbrace t); [discriminate |].
  assert (Hstep : forall d', option_map S (stmt_len r d') = Some n ->
            exists body semi rest, t :: r = body ++ semi :: rest /\ n = S (length body) /\
                                   is_symbol semi semicolon = true).
  { intros d' H'. apply option_map_S_some in H'. destruct H' as (m & Hm & En).
    destruct (IHr d' m Hm) as (body & semi & rest & Er & Em & Hs).
    exists (t :: body), semi, rest. repeat split.
    - subst r. reflexivity.
    - simpl. lia.
    - exact Hs. }
  destruct (is_lparen t); [eapply Hstep; exact H |].
  destruct (is_rparen t).
  - destruct d as [| d']; [discriminate |]. eapply Hstep; exact H.
  - destruct (is_symbol t semicolon && Nat.eqb d 0) eqn:Hsemi.
    + inversion H. apply andb_true_iff in Hsemi. destruct Hsemi as [Hs _].
      exists [], t, r. repeat split. exact Hs.
    + eapply Hstep; exact H.
Qed.

Lemma firstn_app_exact : forall (A : Type) (a b : list A), firstn (length a) (a ++ b) = a.
Proof.
  intros A a b. induction a as [| x a IHa]; simpl; [destruct b; reflexivity | rewrite IHa; reflexivity].
Qed.

Lemma skipn_app_exact : forall (A : Type) (a b : list A), skipn (length a) (a ++ b) = b.
Proof.
  intros A a b. induction a as [| x a IHa]; simpl; [reflexivity | exact IHa].
Qed.

(* ------------------------------------------------------------------------------------------------ *)
(* 3. take_words, take_until_brace, split_last                                                       *)
(* ------------------------------------------------------------------------------------------------ *)

Lemma take_words_spec : forall ts ws rest,
  take_words ts = (ws, rest) -> ts = ws ++ rest /\ forallb word_tok ws = true.
Proof.
  induction ts as [| t r IHr]; intros ws rest H; simpl in H.
  - inversion H. split; reflexivity.
  - destruct (word_tok t) eqn:Hw.
    + destruct (take_words r) as [ws' rest'] eqn:Htw. inversion H. subst ws rest.
      destruct (IHr ws' rest' eq_refl) as [Er Hf]. split.
      * simpl. rewrite <- Er. reflexivity.
      * simpl. rewrite Hw, Hf. reflexivity.
    + inversion H. split; reflexivity.
Qed.

Lemma take_until_brace_spec : forall ts c rest, take_until_brace ts = (c, rest) -> ts = c ++ rest.
Proof.
  induction ts as [| t r IHr]; intros c rest H; simpl in H.
  - inversion H. reflexivity.
  - destruct (is_lbrace t).
    + inversion H. reflexivity.
    + destruct (take_until_brace r) as [c' rest'] eqn:Htb. inversion H. subst c rest.
      simpl. rewrite <- (IHr c' rest' eq_refl). reflexivity.
Qed.

Lemma split_last_spec : forall ws b x, split_last ws = Some (b, x) -> ws = b ++ [x].
Proof.
  intros ws b x H. unfold split_last in H.
  destruct (rev ws) as [| y r] eqn:Hrev; [discriminate |].
  inversion H. subst b x.
  rewrite <- (rev_involutive ws), Hrev. reflexivity.
Qed.

Lemma last_snoc : forall (A : Type) (b : list A) (x d : A), last (b ++ [x]) d = x.
Proof.
  intros A b x d. induction b as [| y b IHb]; [reflexivity |].
  simpl. destruct (b ++ [x]) eqn:E; [destruct b; discriminate | exact IHb].
Qed.

(* ------------------------------------------------------------------------------------------------ *)
(* 3b. bwalk                                                                                         *)
(* ------------------------------------------------------------------------------------------------ *)

Lemma take_plain_spec : forall ts p rest,
  take_plain ts = (p, rest) -> ts = p ++ rest /\ forallb plain p = true.
Proof.
  induction ts as [| t r IHr]; intros p rest H; simpl in H.
  - inversion H. split; reflexivity.
  - destruct (plain t) eqn:Hp.
    + destruct (take_plain r) as [p' rest'] eqn:Htp. inversion H; subst p rest. clear H.
      destruct (IHr p' rest' eq_refl) as [E Hf]. split.
      * simpl. rewrite <- E. reflexivity.
      * simpl. rewrite Hp, Hf. reflexivity.
    + inversion H. split; reflexivity.
Qed.

Lemma inner_binner : forall g, inner g -> forall s, binner s g.
Proof.
  intros g Hg. induction Hg as [| t r Hpl Hr IHr | o g c r Ho Hg IHg Hc Hr IHr]; intros s.
  - apply bi_nil.
  - apply bi_plain; [exact Hpl | apply IHr].
  - apply bi_group; [exact Ho | apply IHg | exact Hc | apply IHr].
Qed.

Lemma group_bgroup : forall g, group g -> bgroup g.
Proof.
  intros g Hg. destruct Hg as [o g c Ho Hg Hc].
  apply bgroup_intro; [exact Ho | apply inner_binner; exact Hg | exact Hc].
Qed.

Lemma groups_bgroups_local : forall gs, groups gs -> bgroups gs.
Proof.
  intros gs Hgs. induction Hgs as [g Hg | g r Hg Hr IHr].
  - apply bgroups_one. apply group_bgroup. exact Hg.
  - apply bgroups_more; [apply group_bgroup; exact Hg | exact IHr].
Qed.

(* leaving a parenthesis opened before ts (the enclosing depth's state s' on top of the stack): ts splits at the
   matching close parenthesis; the walk goes on with less fuel, the rest of the stack and the state s'.
   after_group and bstep_plain are never unfolded. *)
Lemma bwalk_split : forall n f ts s' st s,
  f <= n -> bwalk f ts (s' :: st) s = true ->
  exists g c r f', f' < f /\ ts = g ++ c :: r /\ is_rparen c = true /\ binner s g /\ bwalk f' r st s' = true.
Proof.
  induction n as [| n IHn]; intros f ts s' st s Hf Hw.
  - destruct f as [| f0]; [| lia]. simpl in Hw. discriminate.
  - destruct f as [| f0]; [simpl in Hw; discriminate |].
    assert (Hf0 : f0 <= n) by lia.
    cbn [bwalk] in Hw.
    destruct ts as [| t r]; [discriminate |].
    destruct (is_lparen t) eqn:Hl.
    { destruct (IHn f0 r (after_group s) (s' :: st) BSafe Hf0 Hw)
        as (g1 & c1 & r1 & f1 & Hf1 & Er & Hc1 & Hg1 & Hw1).
      destruct (IHn f1 r1 s' st (after_group s)) as (g2 & c2 & r2 & f2 & Hf2 & Er1 & Hc2 & Hg2 & Hw2);
        [lia | exact Hw1 |].
      exists (t :: g1 ++ c1 :: g2), c2, r2, f2. split; [lia |]. split; [| split; [| split]].
      - subst r r1. simpl. rewrite <- app_assoc. reflexivity.
      - exact Hc2.
      - apply bi_group; assumption.
      - exact Hw2. }
    destruct (is_rparen t) eqn:Hr.
    { exists [], t, r, f0. split; [lia |]. split; [reflexivity |]. split; [exact Hr |].
      split; [apply bi_nil | exact Hw]. }
    destruct (is_lbrace t) eqn:Hlb.
    { destruct s; try discriminate Hw.
      destruct (take_plain r) as [flat rest] eqn:Htp.
      apply take_plain_spec in Htp. destruct Htp as [Er Hflat].
      destruct rest as [| c0 r2]; [discriminate |].
      destruct (is_rbrace c0) eqn:Hrb; [| discriminate].
      destruct (IHn f0 r2 s' st BSafe Hf0 Hw) as (g1 & c1 & r1 & f1 & Hf1 & Er2 & Hc1 & Hg1 & Hw1).
      exists (t :: flat ++ c0 :: g1), c1, r1, f1. split; [lia |]. split; [| split; [| split]].
      - subst r r2. simpl. rewrite <- app_assoc. reflexivity.
      - exact Hc1.
      - apply bi_brace; assumption.
      - exact Hw1. }
    destruct (is_rbrace t) eqn:Hrb; [discriminate |].
    destruct (IHn f0 r s' st (bstep_plain s t) Hf0 Hw) as (g1 & c1 & r1 & f1 & Hf1 & Er & Hc1 & Hg1 & Hw1).
    exists (t :: g1), c1, r1, f1. split; [lia |]. split; [| split; [| split]].
    + subst r. reflexivity.
    + exact Hc1.
    + apply bi_plain; [| exact Hg1]. unfold plain. rewrite Hl, Hr, Hlb, Hrb. reflexivity.
    + exact Hw1.
Qed.

Lemma bwalk_top_bgroups : forall n f ts s,
  f <= n -> bwalk f ts [] s = true -> ts = [] \/ bgroups ts.
Proof.
  induction n as [| n IHn]; intros f ts s Hf Hw.
  - destruct f as [| f0]; [| lia]. simpl in Hw. discriminate.
  - destruct f as [| f0]; [simpl in Hw; discriminate |].
    cbn [bwalk] in Hw.
    destruct ts as [| t r]; [left; reflexivity |]. right.
    destruct (is_lparen t) eqn:Hl.
    + destruct (bwalk_split f0 f0 r (after_group s) [] BSafe)
        as (g & c & r2 & f1 & Hf1 & Er & Hc & Hg & Hw2); [lia | exact Hw |].
      subst r.
      assert (Hgrp : bgroup (t :: g ++ [c])) by (apply bgroup_intro; assumption).
      destruct (IHn f1 r2 (after_group s)) as [E2 | G2]; [lia | exact Hw2 | |].
      * subst r2. apply bgroups_one. exact Hgrp.
      * replace (t :: g ++ c :: r2) with ((t :: g ++ [c]) ++ r2).
        -- apply bgroups_more; assumption.
        -- simpl. rewrite <- app_assoc. reflexivity.
    + destruct (is_rparen t); [discriminate |].
      destruct (is_lbrace t); [discriminate |].
      destruct (is_rbrace t); discriminate.
Qed.

Lemma bgroups_b_sound : forall ts, bgroups_b ts = true -> bgroups ts.
Proof.
  intros ts H. unfold bgroups_b in H.
  destruct ts as [| t r]; [discriminate |].
  destruct (bwalk_top_bgroups (S (length (t :: r))) (S (length (t :: r))) (t :: r) BSafe) as [E | G];
    [lia | exact H | discriminate | exact G].
Qed.

Ltac list_norm := repeat (progress (rewrite <- ?app_assoc; cbn [app])).

(* ------------------------------------------------------------------------------------------------ *)
(* 4. parse_head                                                                                     *)
(* ------------------------------------------------------------------------------------------------ *)

Definition head_ok (l : language) (ts : list token) (hk : head_kind) (out : list token) : Prop :=
  match hk with
  | HFunc pre hd nm_off hend_off => ts = pre ++ hd ++ out /\ fhead l hd nm_off hend_off
  | HCtrl kw words cond =>
      ts = kw :: words ++ cond ++ out /\ is_keyword kw = true /\ (cond = [] \/ groups cond)
  | HCb a tail d =>
      ts = a ++ tail ++ out /\ is_jsts l = true /\ a <> [] /\ open_prefix a d /\
      (forall x, is_lparen (last a x) = true \/ is_symbol (last a x) s_comma = true) /\ cb_tail tail
  | HNew pre kn nm gs =>
      ts = pre ++ kn :: nm :: gs ++ out /\ (l = LJava \/ l = LCSharp) /\ forallb plain pre = true /\
      kw_is kn kw_new = true /\ is_name nm = true /\ groups gs
  end.

Lemma func_kw_split : forall l before pre fk,
  match split_last before with
  | Some (b2, k) => if is_jsts l && kw_is k s_function then (b2, [k]) else (before, [])
  | None => (before, [])
  end = (pre, fk) ->
  before = pre ++ fk /\
  (fk = [] \/ exists k, fk = [k] /\ is_jsts l = true /\ kw_is k s_function = true).
Proof.
  intros l before pre fk H.
  destruct (split_last before) as [[b2 k] |] eqn:Hsl.
  - destruct (is_jsts l && kw_is k s_function) eqn:Hc; inversion H; subst pre fk.
    + apply split_last_spec in Hsl. apply andb_true_iff in Hc. destruct Hc as [Hj Hk].
      split; [exact Hsl | right; exists k; repeat split; assumption].
    + split; [rewrite app_nil_r; reflexivity | left; reflexivity].
  - inversion H; subst pre fk. split; [rewrite app_nil_r; reflexivity | left; reflexivity].
Qed.

Lemma const_kw_split : forall before pre ck,
  match split_last before with
  | Some (b2, k) => if kw_is k s_const then (b2, [k]) else (before, [])
  | None => (before, [])
  end = (pre, ck) ->
  before = pre ++ ck /\ (ck = [] \/ exists k, ck = [k] /\ kw_is k s_const = true).
Proof.
  intros before pre ck H.
  destruct (split_last before) as [[b2 k] |] eqn:Hsl.
  - destruct (kw_is k s_const) eqn:Hc; inversion H; subst pre ck.
    + apply split_last_spec in Hsl.
      split; [exact Hsl | right; exists k; split; [reflexivity | exact Hc]].
    + split; [rewrite app_nil_r; reflexivity | left; reflexivity].
  - inversion H; subst pre ck. split; [rewrite app_nil_r; reflexivity | left; reflexivity].
Qed.

Lemma async_kw_split : forall (rest' ak rest2 : list token),
  match rest' with
  | a :: r2 => if kw_is a s_async then ([a], r2) else ([], rest')
  | [] => ([], rest')
  end = (ak, rest2) ->
  rest' = ak ++ rest2 /\ (ak = [] \/ exists a, ak = [a] /\ kw_is a s_async = true).
Proof.
  intros rest' ak rest2 H.
  destruct rest' as [| a r2].
  - inversion H; subst ak rest2. split; [reflexivity | left; reflexivity].
  - destruct (kw_is a s_async) eqn:Hc; inversion H; subst ak rest2.
    + split; [reflexivity | right; exists a; split; [reflexivity | exact Hc]].
    + split; [reflexivity | left; reflexivity].
Qed.

Lemma parse_head_sound : forall l ts hk out, parse_head l ts = Some (hk, out) -> head_ok l ts hk out.
Proof.
  intros l ts hk out H. unfold parse_head in H.
  destruct (take_words ts) as [ws rest0] eqn:Htw.
  apply take_words_spec in Htw. destruct Htw as [Ets Hws].
  destruct rest0 as [| t rest']; [discriminate |].
  cbv zeta in H.
  destruct (is_lbrace t) eqn:Hlb.
  { (* kw words { *)
    destruct ws as [| kw words]; [discriminate |].
    destruct (is_keyword kw) eqn:Hkw; [| discriminate].
    inversion H; subst hk out. cbn [head_ok]. split; [| split].
    - rewrite Ets. reflexivity.
    - exact Hkw.
    - left; reflexivity. }
  destruct (is_lparen t) eqn:Hlp.
  { (* words groups ... *)
    pose proof (firstn_skipn (groups_len (t :: rest') 0%Z) (t :: rest')) as Hfs.
    set (n := groups_len (t :: rest') 0%Z) in *. clearbody n.
    set (gs := firstn n (t :: rest')) in *. set (after := skipn n (t :: rest')) in *. clearbody gs after.
    destruct (groups_b gs || (is_jsts l && bgroups_b gs)) eqn:Hgb; cbn [negb] in H; [| discriminate].
    assert (Hbg : is_jsts l = true -> bgroups gs).
    { intros Hj. apply orb_true_iff in Hgb. destruct Hgb as [Hg | Hb].
      - apply groups_bgroups_local. apply groups_b_sound. exact Hg.
      - apply andb_true_iff in Hb. destruct Hb as [_ Hb]. apply bgroups_b_sound. exact Hb. }
    clear Hgb.
    destruct (split_last ws) as [[before w] |] eqn:Hsl; [| discriminate].
    apply split_last_spec in Hsl.
    destruct (is_name w) eqn:Hnw.
    - (* a function head *)
      destruct (match split_last before with
                | Some (b2, k) => if is_jsts l && kw_is k s_function then (b2, [k]) else (before, [])
                | None => (before, [])
                end) as [pre fk] eqn:Hfk.
      apply func_kw_split in Hfk. destruct Hfk as [Ebefore Hfk].
      assert (Ets2 : ts = pre ++ (fk ++ w :: gs) ++ after).
      { rewrite Ets, Hsl, Ebefore, <- Hfs. list_norm. reflexivity. }
      clear Ets Hsl Ebefore Hfs Hws.
      destruct after as [| a after']; [discriminate |].
      destruct (is_lbrace a) eqn:Hla.
      + destruct (is_cfamily l && groups_b gs || is_jsts l) eqn:Hlang; [| discriminate].
        inversion H; subst hk out. cbn [head_ok]. split; [exact Ets2 |].
        destruct Hfk as [Efk | (k & Efk & Hj & Hk)]; subst fk; cbn [app length].
        * apply orb_true_iff in Hlang. destruct Hlang as [Hcf | Hj].
          -- apply andb_true_iff in Hcf. destruct Hcf as [Hcf Hgs]. apply groups_b_sound in Hgs.
             apply fh_plain; assumption.
          -- apply fh_method; try assumption. apply Hbg. exact Hj.
        * apply fh_function; try assumption. apply Hbg. exact Hj.
      + destruct (is_java l && groups_b gs && kw_is a s_throws && Nat.eqb (length fk) 0) eqn:Hthr.
        * cbn [tl] in H.
          destruct (take_until_brace after') as [clause rest2] eqn:Htb.
          apply take_until_brace_spec in Htb.
          destruct (forallb clause_tok clause) eqn:Hcl; [| discriminate].
          inversion H; subst hk out. cbn [head_ok].
          apply andb_true_iff in Hthr. destruct Hthr as [Hthr Hfk0].
          apply andb_true_iff in Hthr. destruct Hthr as [Hthr Hka].
          apply andb_true_iff in Hthr. destruct Hthr as [Hjava Hgs].
          apply groups_b_sound in Hgs.
          apply Nat.eqb_eq in Hfk0. destruct fk as [| k0 fk']; [| discriminate].
          split.
          -- rewrite Ets2, Htb. list_norm. reflexivity.
          -- cbn [app length]. apply fh_throws; try assumption.
             destruct l; try discriminate; reflexivity.
        * destruct (is_ts l && is_operator a s_colon) eqn:Hcol; [| discriminate].
          cbn [tl] in H.
          destruct (take_until_brace after') as [ty rest2] eqn:Htb.
          apply take_until_brace_spec in Htb.
          destruct (type_seq_b ty) eqn:Hty; [| discriminate].
          apply type_seq_b_sound in Hty.
          inversion H; subst hk out. cbn [head_ok].
          apply andb_true_iff in Hcol. destruct Hcol as [Hts Hca].
          assert (El : l = LTypeScript) by (destruct l; try discriminate; reflexivity).
          assert (Hbgs : bgroups gs) by (apply Hbg; rewrite El; reflexivity).
          split.
          -- rewrite Ets2, Htb. list_norm. reflexivity.
          -- destruct Hfk as [Efk | (k & Efk & Hj & Hk)]; subst fk; cbn [app length].
             ++ apply fh_method_ret; assumption.
             ++ apply fh_function_ret; assumption.
    - (* a control form with a condition *)
      destruct ws as [| kw words]; [discriminate |].
      destruct (is_keyword kw && groups_b gs) eqn:Hkw; [| discriminate].
      apply andb_true_iff in Hkw. destruct Hkw as [Hkw Hgs]. apply groups_b_sound in Hgs.
      inversion H; subst hk out. cbn [head_ok]. split; [| split].
      + rewrite Ets, <- Hfs. list_norm. reflexivity.
      + exact Hkw.
      + right. exact Hgs. }
  (* an arrow function *)
  destruct (is_jsts l && is_operator t s_eq) eqn:Heq; [| discriminate].
  apply andb_true_iff in Heq. destruct Heq as [Hj Heq].
  destruct (split_last ws) as [[before w] |] eqn:Hsl; [| discriminate].
  apply split_last_spec in Hsl.
  destruct (is_name w) eqn:Hnw; cbn [negb] in H; [| discriminate].
  destruct (match split_last before with
            | Some (b2, k) => if kw_is k s_const then (b2, [k]) else (before, [])
            | None => (before, [])
            end) as [pre ck] eqn:Hck.
  apply const_kw_split in Hck. destruct Hck as [Ebefore Hck].
  destruct (match rest' with
            | a :: r2 => if kw_is a s_async then ([a], r2) else ([], rest')
            | [] => ([], rest')
            end) as [ak rest2] eqn:Hak.
  apply async_kw_split in Hak. destruct Hak as [Erest' Hak].
  pose proof (firstn_skipn (groups_len rest2 0%Z) rest2) as Hfs.
  set (n := groups_len rest2 0%Z) in *. clearbody n.
  set (gs := firstn n rest2) in *. clearbody gs.
  destruct (skipn n rest2) as [| arrow after]; [discriminate |].
  destruct ((groups_b gs || bgroups_b gs) && is_symbol arrow s_arrow) eqn:Hga; [| discriminate].
  apply andb_true_iff in Hga. destruct Hga as [Hgs Harrow].
  assert (Hbgs : bgroups gs).
  { apply orb_true_iff in Hgs. destruct Hgs as [Hg | Hb].
    - apply groups_bgroups_local. apply groups_b_sound. exact Hg.
    - apply bgroups_b_sound. exact Hb. }
  clear Hgs.
  inversion H; subst hk out. cbn [head_ok]. split.
  - rewrite Ets, Hsl, Ebefore, Erest', <- Hfs. list_norm. reflexivity.
  - destruct Hck as [Eck | (k & Eck & Hk)]; destruct Hak as [Eak | (a & Eak & Ha)]; subst ck ak;
      cbn [app length].
    + replace (S (S (length (gs ++ [arrow])))) with (2 + length gs + 1)
        by (rewrite app_length; simpl; lia).
      apply fh_arrow; assumption.
    + replace (S (S (S (length (gs ++ [arrow]))))) with (3 + length gs + 1)
        by (rewrite app_length; simpl; lia).
      apply fh_arrow_async; assumption.
    + replace (S (S (S (length (gs ++ [arrow]))))) with (3 + length gs + 1)
        by (rewrite app_length; simpl; lia).
      apply fh_const_arrow; assumption.
    + replace (S (S (S (S (length (gs ++ [arrow])))))) with (4 + length gs + 1)
        by (rewrite app_length; simpl; lia).
      apply fh_const_arrow_async; assumption.
Qed.

(* ------------------------------------------------------------------------------------------------ *)
(* 4b. the callback split                                                                            *)
(* ------------------------------------------------------------------------------------------------ *)

Lemma last_default_irrel : forall (A : Type) (a : list A) (x y : A), a <> [] -> last a x = last a y.
Proof.
  intros A a x y. induction a as [| z a IHa]; intros Hne; [contradiction Hne; reflexivity |].
  destruct a as [| z' a']; [reflexivity |].
  change (last (z' :: a') x = last (z' :: a') y). apply IHa. discriminate.
Qed.

Lemma open_walk_prefix : forall ts d0 d a0,
  open_walk ts d0 = Some d -> open_prefix a0 d0 -> open_prefix (a0 ++ ts) d.
Proof.
  induction ts as [| t r IHr]; intros d0 d a0 Hw Ha0.
  - simpl in Hw. inversion Hw; subst d. rewrite app_nil_r. exact Ha0.
  - cbn [open_walk] in Hw.
    replace (a0 ++ t :: r) with ((a0 ++ [t]) ++ r) by (rewrite <- app_assoc; reflexivity).
    destruct (is_lbrace t || is_rbrace t) eqn:Hb; [discriminate |].
    destruct (is_lparen t) eqn:Hl.
    + apply (IHr (S d0)); [exact Hw |]. apply op_open; assumption.
    + destruct (is_rparen t) eqn:Hr.
      * destruct d0 as [| d0']; [discriminate |].
        apply (IHr d0'); [exact Hw |]. apply op_close; assumption.
      * destruct (is_operator t s_colon) eqn:Hcol; [discriminate |].
        apply (IHr d0); [exact Hw |]. apply op_plain; try assumption.
        apply plain_of_flags; assumption.
Qed.

Lemma open_walk_sound : forall a d, open_walk a 0 = Some d -> open_prefix a d.
Proof.
  intros a d H. change a with ([] ++ a). apply (open_walk_prefix a 0 d []); [exact H | apply op_nil].
Qed.

Lemma cb_tail_b_sound : forall ts, cb_tail_b ts = true -> cb_tail ts.
Proof.
  intros ts H. unfold cb_tail_b in H.
  destruct ts as [| fk gs]; [discriminate |].
  apply orb_true_iff in H. destruct H as [H | H].
  - apply andb_true_iff in H. destruct H as [Hfk Hgs].
    apply cbt_function; [exact Hfk | apply groups_b_sound; exact Hgs].
  - remember (fk :: gs) as ts eqn:Ets. clear Ets fk gs.
    destruct (rev ts) as [| arrow rgs] eqn:Hrev; [discriminate |].
    apply andb_true_iff in H. destruct H as [Harrow Hgs].
    assert (E : ts = rev rgs ++ [arrow]).
    { rewrite <- (rev_involutive ts), Hrev. reflexivity. }
    rewrite E. apply cbt_arrow; [apply groups_b_sound; exact Hgs | exact Harrow].
Qed.

Lemma cb_find_sound : forall fuel k pre k' d,
  cb_find fuel k pre = Some (k', d) ->
  open_walk (firstn k' pre) 0 = Some d /\ firstn k' pre <> [] /\
  (is_lparen (last (firstn k' pre) (mkTok KOther [] 0 0))
   || is_symbol (last (firstn k' pre) (mkTok KOther [] 0 0)) s_comma) = true /\
  cb_tail_b (skipn k' pre) = true.
Proof.
  induction fuel as [| f IHf]; intros k pre k' d H; [discriminate |].
  cbn [cb_find] in H.
  remember (firstn k pre) as a eqn:Ea.
  destruct (open_walk a 0) as [d0 |] eqn:How; [| apply IHf in H; exact H].
  destruct a as [| x a']; [apply IHf in H; exact H |].
  cbv iota in H.
  match type of H with context [if ?chk then _ else _] => destruct chk eqn:Hchk end.
  - inversion H; subst k' d0. clear H. rewrite <- Ea.
    apply andb_true_iff in Hchk. destruct Hchk as [Hlast Htail].
    split; [exact How |]. split; [discriminate |]. split; [exact Hlast | exact Htail].
  - apply IHf in H. exact H.
Qed.

(* the head of an anonymous class / object creation statement (Java, C#) *)
Lemma new_head_body_sound : forall (ts : list token) hk out,
  (let '(p, r1) := take_plain ts in
   match rev p with
   | nm :: kn :: rpre =>
       if kw_is kn kw_new && is_name nm then
         if groups_b (firstn (groups_len r1 0%Z) r1)
         then Some (HNew (rev rpre) kn nm (firstn (groups_len r1 0%Z) r1), skipn (groups_len r1 0%Z) r1) else None
       else None
   | _ => None
   end) = Some (hk, out) ->
  exists pre kn nm gs, hk = HNew pre kn nm gs /\ ts = pre ++ kn :: nm :: gs ++ out /\
    forallb plain pre = true /\ kw_is kn kw_new = true /\ is_name nm = true /\ groups gs.
Proof.
  intros ts hk out H.
  destruct (take_plain ts) as [p r1] eqn:Htp.
  apply take_plain_spec in Htp. destruct Htp as [Ets Hp].
  destruct (rev p) as [| nm [| kn rpre]] eqn:Hrev; try discriminate.
  destruct (kw_is kn kw_new && is_name nm) eqn:Hkn; [| discriminate].
  apply andb_true_iff in Hkn. destruct Hkn as [Hkn Hnm].
  pose proof (firstn_skipn (groups_len r1 0%Z) r1) as Hfs.
  set (n := groups_len r1 0%Z) in *. clearbody n.
  destruct (groups_b (firstn n r1)) eqn:Hgs; [| discriminate].
  apply groups_b_sound in Hgs.
  inversion H; subst hk out. clear H.
  assert (Ep : p = rev rpre ++ [kn; nm]).
  { rewrite <- (rev_involutive p), Hrev. cbn [rev]. rewrite <- app_assoc. reflexivity. }
  exists (rev rpre), kn, nm, (firstn n r1). split; [reflexivity |]. split; [| split; [| split; [| split]]].
  - rewrite Ets, Ep, <- Hfs at 1. list_norm. reflexivity.
  - rewrite Ep, forallb_app in Hp. apply andb_true_iff in Hp. destruct Hp as [Hp _]. exact Hp.
  - exact Hkn.
  - exact Hnm.
  - exact Hgs.
Qed.

Lemma new_head_sound : forall l ts hk out, new_head l ts = Some (hk, out) -> head_ok l ts hk out.
Proof.
  intros l ts hk out H. unfold new_head in H.
  assert (Hl : l = LJava \/ l = LCSharp) by (destruct l; try discriminate; [right | left]; reflexivity).
  assert (Hb : exists pre kn nm gs, hk = HNew pre kn nm gs /\ ts = pre ++ kn :: nm :: gs ++ out /\
                 forallb plain pre = true /\ kw_is kn kw_new = true /\ is_name nm = true /\ groups gs).
  { apply new_head_body_sound. destruct l; try discriminate; exact H. }
  destruct Hb as (pre & kn & nm & gs & Ehk & Ets & Hpre & Hkn & Hnm & Hgs).
  subst hk. cbn [head_ok]. repeat split; assumption.
Qed.

(* the head of a braced item as parse_items computes it: the callback split first, parse_head otherwise *)
Lemma item_head_sound : forall l ts hk out,
  match (if is_jsts l then
           let '(pre, rest) := take_until_brace ts in
           match cb_find (S (length pre)) 1 pre with
           | Some (k, d) => Some (HCb (firstn k pre) (skipn k pre) d, rest)
           | None => None
           end
         else None) with
  | Some x => Some x
  | None => match new_head l ts with Some x => Some x | None => parse_head l ts end
  end = Some (hk, out) ->
  head_ok l ts hk out.
Proof.
  intros l ts hk out H.
  assert (Hother : match new_head l ts with Some x => Some x | None => parse_head l ts end = Some (hk, out) ->
                   head_ok l ts hk out).
  { intros H'. destruct (new_head l ts) as [[hk' out'] |] eqn:Hnh.
    - inversion H'; subst hk' out'. apply new_head_sound. exact Hnh.
    - apply parse_head_sound. exact H'. }
  destruct (is_jsts l) eqn:Hj; [| apply Hother; exact H].
  destruct (take_until_brace ts) as [pre rest0] eqn:Htb.
  destruct (cb_find (S (length pre)) 1 pre) as [[k d] |] eqn:Hcf; [| apply Hother; exact H].
  inversion H; subst hk out. clear H.
  apply take_until_brace_spec in Htb.
  apply cb_find_sound in Hcf. destruct Hcf as (How & Hne & Hlast & Htail).
  cbn [head_ok]. split; [| split; [| split; [| split; [| split]]]].
  - rewrite app_assoc, firstn_skipn. exact Htb.
  - exact Hj.
  - exact Hne.
  - apply open_walk_sound. exact How.
  - intros x. rewrite (last_default_irrel _ _ x (mkTok KOther [] 0 0) Hne).
    apply orb_true_iff in Hlast. exact Hlast.
  - apply cb_tail_b_sound. exact Htail.
Qed.

(* ------------------------------------------------------------------------------------------------ *)
(* 5. parse_items, parse_program                                                                     *)
(* ------------------------------------------------------------------------------------------------ *)

Lemma skipn_S_app : forall (A : Type) (a : list A) (x : A) (b : list A),
  skipn (S (length a)) (a ++ x :: b) = b.
Proof.
  intros A a x b. induction a as [| y a IHa]; [reflexivity | exact IHa].
Qed.

Lemma take_until_rbrace_spec : forall ts c rest, take_until_rbrace ts = (c, rest) -> ts = c ++ rest.
Proof.
  induction ts as [| t r IHr]; intros c rest H; simpl in H.
  - inversion H. reflexivity.
  - destruct (is_rbrace t).
    + inversion H. reflexivity.
    + destruct (take_until_rbrace r) as [c' rest'] eqn:Htb. inversion H. subst c rest.
      simpl. rewrite <- (IHr c' rest' eq_refl). reflexivity.
Qed.

Lemma init_len_split : forall ts n, init_len ts = Some n ->
  exists pre o flat c post semi r,
    ts = (pre ++ o :: flat ++ c :: post ++ [semi]) ++ r /\
    n = length (pre ++ o :: flat ++ c :: post ++ [semi]) /\
    forallb plain pre = true /\ is_lbrace o = true /\ inner flat /\ is_rbrace c = true /\
    inner post /\ is_symbol semi semicolon = true.
Proof.
  intros ts n H. unfold init_len in H.
  destruct (take_plain ts) as [pre r1] eqn:Hp1.
  destruct r1 as [| o r2]; [discriminate |].
  destruct (is_lbrace o) eqn:Ho; [| discriminate].
  destruct (take_until_rbrace r2) as [flat r3] eqn:Hp2.
  destruct r3 as [| c r4]; [discriminate |].
  destruct (is_rbrace c && inner_b flat) eqn:Hc; [| discriminate].
  apply andb_true_iff in Hc. destruct Hc as [Hc Hflat]. apply inner_b_sound in Hflat.
  destruct (stmt_len r4 0) as [m |] eqn:Hsl; [| discriminate].
  destruct (inner_b (firstn (m - 1) r4)) eqn:Hin; [| discriminate].
  inversion H; subst n. clear H.
  apply take_plain_spec in Hp1. destruct Hp1 as [E1 Hpre].
  apply take_until_rbrace_spec in Hp2. rename Hp2 into E2.
  apply stmt_len_split in Hsl. destruct Hsl as (post & semi & r & E4 & Em & Hsemi).
  assert (Efirst : firstn (m - 1) r4 = post).
  { subst m r4. cbn [Nat.sub]. rewrite Nat.sub_0_r. apply firstn_app_exact. }
  rewrite Efirst in Hin. apply inner_b_sound in Hin.
  exists pre, o, flat, c, post, semi, r. repeat split; try assumption.
  - rewrite E1, E2, E4. list_norm. reflexivity.
  - subst m. rewrite !app_length. cbn [length]. rewrite !app_length. cbn [length]. rewrite !app_length. cbn [length]. lia.
Qed.

Lemma items_of_off_eq : forall l o1 o2 ts ds, items_of l o1 ts ds -> o1 = o2 -> items_of l o2 ts ds.
Proof. intros l o1 o2 ts ds H E. subst o2. exact H. Qed.

Lemma parse_items_sound : forall l fuel off ts ds rest,
  parse_items fuel l off ts = Some (ds, rest) ->
  exists used, ts = used ++ rest /\ items_of l off used ds.
Proof.
  intros l. induction fuel as [| f IHf]; intros off ts ds rest H; [discriminate |].
  cbn [parse_items] in H.
  destruct ts as [| t0 ts'].
  { inversion H; subst ds rest. exists []. split; [reflexivity | apply io_nil]. }
  cbv iota in H.
  remember (t0 :: ts') as ts eqn:Ets in *.
  destruct (is_rbrace t0) eqn:Hrb.
  { inversion H; subst ds rest. exists []. split; [reflexivity | apply io_nil]. }
  match type of H with (match ?X with _ => _ end) = _ =>
    destruct X as [[dsb restb] |] eqn:Hblk end.
  { (* a bare block *)
    inversion H; subst dsb restb. clear H.
    destruct (is_lbrace t0) eqn:Hlb.
    2: { (* a label *)
      destruct (is_keyword t0) eqn:Hkw; [| discriminate].
      destruct ts' as [| colon r0]; [discriminate |].
      destruct (is_operator colon s_colon) eqn:Hcol; [| discriminate].
      apply IHf in Hblk. destruct Hblk as (used & Er0 & Hitems).
      exists (t0 :: colon :: used). split.
      - rewrite Ets, Er0. reflexivity.
      - apply io_label; assumption. }
    match type of Hblk with context [parse_items f l ?x ts'] =>
      destruct (parse_items f l x ts') as [[ds1 [| c more]] |] eqn:Hp1; try discriminate end.
    destruct (is_rbrace c) eqn:Hrc; [| discriminate].
    match type of Hblk with context [parse_items f l ?x more] =>
      destruct (parse_items f l x more) as [[ds2 rest3] |] eqn:Hp2; [| discriminate] end.
    inversion Hblk; subst ds rest3. clear Hblk.
    apply IHf in Hp1. destruct Hp1 as (body & Ebody & Hbody).
    apply IHf in Hp2. destruct Hp2 as (r & Emore & Hr).
    exists (t0 :: body ++ c :: r). split.
    - rewrite Ets, Ebody, Emore. list_norm. reflexivity.
    - apply io_block; try assumption.
      apply (items_of_off_eq _ _ _ _ _ Hr). rewrite Ebody, app_length. cbn [length]. lia. }
  clear Hblk Ets Hrb t0 ts'.
  destruct (stmt_len ts 0) as [n |] eqn:Hsl.
  { (* a simple statement *)
    destruct (inner_b (firstn (n - 1) ts)) eqn:Hin; [| discriminate].
    apply stmt_len_split in Hsl. destruct Hsl as (body & semi & r & Ebs & En & Hsemi).
    assert (Efirst : firstn (n - 1) ts = body).
    { subst n ts. cbn [Nat.sub]. rewrite Nat.sub_0_r. apply firstn_app_exact. }
    assert (Eskip : skipn n ts = r).
    { subst n ts. apply skipn_S_app. }
    rewrite Efirst in Hin. apply inner_b_sound in Hin. rewrite Eskip in H.
    apply IHf in H. destruct H as (used & Er & Hitems).
    exists ((body ++ [semi]) ++ used). split.
    - rewrite Ebs, Er. list_norm. reflexivity.
    - apply io_stmt.
      + exists body, semi. repeat split; assumption.
      + apply (items_of_off_eq _ _ _ _ _ Hitems). rewrite app_length. cbn [length]. lia. }
  destruct (init_len ts) as [n |] eqn:Hil.
  { (* a statement with a brace initialiser *)
    apply init_len_split in Hil.
    destruct Hil as (pre & o & flat & c & post & semi & r & Ets & En & Hpre & Ho & Hflat & Hc & Hpost & Hsemi).
    assert (Eskip : skipn n ts = r).
    { rewrite En, Ets. apply skipn_app_exact. }
    rewrite Eskip in H. apply IHf in H. destruct H as (used & Er & Hitems).
    exists (pre ++ o :: flat ++ c :: post ++ semi :: used). split.
    - rewrite Ets, Er. list_norm. reflexivity.
    - apply io_init; try assumption.
      apply (items_of_off_eq _ _ _ _ _ Hitems). rewrite En.
      rewrite !app_length. cbn [length]. rewrite !app_length. cbn [length]. rewrite !app_length. cbn [length]. lia. }
  (* a braced item *)
  match type of H with (match ?X with _ => _ end) = _ =>
    destruct X as [[hk rest1] |] eqn:Hph; [| discriminate] end.
  apply item_head_sound in Hph.
  destruct rest1 as [| o bm]; [discriminate |].
  destruct (is_lbrace o) eqn:Hlo; cbn [negb] in H; [| discriminate].
  match type of H with (match ?X with _ => _ end) = _ =>
    destruct X as [[ds1 [| c more]] |] eqn:Hp1; try discriminate end.
  destruct (is_rbrace c) eqn:Hrc; cbn [negb] in H; [| discriminate].
  (* the body: parsed as items, or (HNew only) flat *)
  assert (Hbd : exists body, bm = body ++ c :: more /\
            (items_of l (off + (length ts - length (o :: bm)) + 1) body ds1 \/
             ((exists p0 k0 n0 g0, hk = HNew p0 k0 n0 g0) /\ forallb plain body = true /\ ds1 = []))).
  { destruct hk as [pre hd nm_off hend_off | kw words cond | a tail d | pre kn nm gs]; cbv iota in Hp1;
      try (apply IHf in Hp1; destruct Hp1 as (body & Ebm & Hbody); exists body; split; [exact Ebm | left; exact Hbody]).
    destruct (take_plain bm) as [flat r3] eqn:Htp.
    assert (Hitems : parse_items f l (off + (length ts - length (o :: bm)) + 1) bm = Some (ds1, c :: more) ->
              exists body, bm = body ++ c :: more /\
                (items_of l (off + (length ts - length (o :: bm)) + 1) body ds1 \/
                 ((exists p0 k0 n0 g0, HNew pre kn nm gs = HNew p0 k0 n0 g0) /\ forallb plain body = true /\ ds1 = []))).
    { intros Hp. apply IHf in Hp. destruct Hp as (body & Ebm & Hbody).
      exists body. split; [exact Ebm | left; exact Hbody]. }
    destruct r3 as [| c0 r4]; [apply Hitems; exact Hp1 |].
    destruct (is_rbrace c0) eqn:Hc0; [| apply Hitems; exact Hp1].
    inversion Hp1; subst ds1 c0 r4. clear Hp1.
    apply take_plain_spec in Htp. destruct Htp as [Ebm Hflat].
    exists flat. split; [exact Ebm |]. right. split; [| split; [exact Hflat | reflexivity]].
    exists pre, kn, nm, gs. reflexivity. }
  destruct Hbd as (body & Ebm & Hbd).
  assert (Hlbm : length bm = length body + S (length more)).
  { rewrite Ebm, app_length. reflexivity. }
  destruct hk as [pre hd nm_off hend_off | kw words cond | a tail d | pre kn nm gs]; cbn [head_ok] in Hph;
    cbv iota in H.
  4: { (* an object creation with a class body, closed as a statement *)
    destruct Hph as (Ets & Hl & _ & Hkn & Hnm & Hgs).
    assert (Hlts : length ts = length pre + 2 + length gs + S (length bm)).
    { rewrite Ets, app_length. cbn [length]. rewrite app_length. cbn [length]. lia. }
    destruct (stmt_len more 0) as [n |] eqn:Hsl2; cbv iota in H; cbn [negb] in H; [| discriminate].
    destruct (inner_b (firstn (n - 1) more)) eqn:Hin; cbn [negb] in H; [| discriminate].
    apply stmt_len_split in Hsl2. destruct Hsl2 as (post & semi & r' & Emore & En & Hsemi).
    assert (Efirst : firstn (n - 1) more = post).
    { subst n more. cbn [Nat.sub]. rewrite Nat.sub_0_r. apply firstn_app_exact. }
    assert (Eskip : skipn n more = r').
    { subst n more. apply skipn_S_app. }
    rewrite Efirst in Hin. apply inner_b_sound in Hin. rewrite Eskip in H.
    match type of H with context [parse_items f l ?x r'] =>
      destruct (parse_items f l x r') as [[ds2 rest3] |] eqn:Hp2; [| discriminate] end.
    apply IHf in Hp2. destruct Hp2 as (r & Er' & Hr).
    destruct (forallb plain pre) eqn:Hpre; [| discriminate].
    inversion H; subst ds rest3. clear H.
    assert (Hlmore : length more = length post + S (length r')).
    { rewrite Emore, app_length. reflexivity. }
    exists (pre ++ kn :: nm :: gs ++ o :: body ++ c :: post ++ semi :: r). split.
    - rewrite Ets, Ebm, Emore, Er'. list_norm. reflexivity.
    - apply io_new; try assumption.
      + destruct Hbd as [Hbody | (_ & Hflat & Eds1)].
        * left. apply (items_of_off_eq _ _ _ _ _ Hbody). cbn [length]. lia.
        * right. split; assumption.
      + apply (items_of_off_eq _ _ _ _ _ Hr). cbn [length]. lia. }
  all: destruct Hbd as [Hbody | ((p0 & k0 & n0 & g0 & Ehk) & _)]; [| discriminate Ehk].
  - (* a function *)
    cbn [negb skipn] in H.
    match type of H with context [parse_items f l ?x more] =>
      destruct (parse_items f l x more) as [[ds2 rest3] |] eqn:Hp2; [| discriminate] end.
    apply IHf in Hp2. destruct Hp2 as (r & Emore & Hr).
    destruct Hph as [Ets Hfh].
    assert (Hlts : length ts = length pre + length hd + S (length bm)).
    { rewrite Ets, !app_length. cbn [length]. lia. }
    destruct (forallb (prefix_word l) pre && (lang_nested l || match ds1 with [] => true | _ :: _ => false end))
      eqn:Hchk; [| discriminate].
    apply andb_true_iff in Hchk. destruct Hchk as [Hpre Hnest].
    inversion H; subst ds rest3. clear H.
    exists (pre ++ hd ++ o :: body ++ c :: r). split.
    + rewrite Ets, Ebm, Emore. list_norm. reflexivity.
    + cbn [length]. replace (length bm - S (length more)) with (length body) by lia.
      apply io_func; try assumption.
      * apply (items_of_off_eq _ _ _ _ _ Hbody). cbn [length]. lia.
      * intros Hnn. rewrite Hnn in Hnest. cbn [orb] in Hnest.
        destruct ds1; [reflexivity | discriminate].
      * apply (items_of_off_eq _ _ _ _ _ Hr). cbn [length]. lia.
  - (* a control form *)
    cbn [negb skipn] in H.
    match type of H with context [parse_items f l ?x more] =>
      destruct (parse_items f l x more) as [[ds2 rest3] |] eqn:Hp2; [| discriminate] end.
    apply IHf in Hp2. destruct Hp2 as (r & Emore & Hr).
    destruct Hph as (Ets & Hkw & Hcond).
    assert (Hlts : length ts = 1 + length words + length cond + S (length bm)).
    { rewrite Ets. cbn [length]. rewrite !app_length. cbn [length]. lia. }
    match type of H with (if ?chk then _ else _) = _ => destruct chk eqn:Hchk; [| discriminate] end.
    apply andb_true_iff in Hchk. destruct Hchk as [Hchk Hnt].
    apply andb_true_iff in Hchk. destruct Hchk as [Hw Hc].
    inversion H; subst ds rest3. clear H.
    exists (kw :: words ++ cond ++ o :: body ++ c :: r). split.
    + rewrite Ets, Ebm, Emore. list_norm. reflexivity.
    + apply io_ctrl; try assumption.
      * destruct cond as [| c0 cond']; [left; reflexivity | right].
        split.
        -- destruct Hcond as [E | G]; [discriminate | exact G].
        -- apply negb_true_iff in Hc. exact Hc.
      * unfold no_throws_kw. apply Forall_forall. intros x Hx.
        rewrite forallb_forall in Hnt. apply negb_true_iff. apply Hnt. exact Hx.
      * apply (items_of_off_eq _ _ _ _ _ Hbody). cbn [length]. lia.
      * apply (items_of_off_eq _ _ _ _ _ Hr). cbn [length]. lia.
  - (* a callback *)
    destruct Hph as (Ets & Hj & Hane & Hop & Hlast & Htail).
    assert (Hlts : length ts = length a + length tail + S (length bm)).
    { rewrite Ets, !app_length. cbn [length]. lia. }
    match type of H with (if negb ?chk then _ else _) = _ =>
      destruct chk eqn:Hclose; cbn [negb] in H; [| discriminate] end.
    apply andb_true_iff in Hclose. destruct Hclose as [Hclose Hsemi].
    apply andb_true_iff in Hclose. destruct Hclose as [Hrp Hlen].
    apply Nat.eqb_eq in Hlen.
    destruct (skipn d more) as [| semi r'] eqn:Hsk; [discriminate |].
    pose proof (firstn_skipn d more) as Hfs. rewrite Hsk in Hfs.
    set (post := firstn d more) in *. clearbody post.
    assert (Eskip : skipn (S d) more = r').
    { rewrite <- Hfs, <- Hlen. apply skipn_S_app. }
    rewrite Eskip in H.
    match type of H with context [parse_items f l ?x r'] =>
      destruct (parse_items f l x r') as [[ds2 rest3] |] eqn:Hp2; [| discriminate] end.
    apply IHf in Hp2. destruct Hp2 as (r & Er' & Hr).
    inversion H; subst ds rest3. clear H.
    assert (Hlmore : length more = length post + S (length r')).
    { rewrite <- Hfs, app_length. reflexivity. }
    exists (a ++ tail ++ o :: body ++ c :: post ++ semi :: r). split.
    + rewrite Ets, Ebm, <- Hfs, Er'. list_norm. reflexivity.
    + apply io_cb; try assumption.
      * rewrite Hlen. exact Hop.
      * apply Hlast.
      * apply (items_of_off_eq _ _ _ _ _ Hbody). cbn [length]. lia.
      * apply (items_of_off_eq _ _ _ _ _ Hr). cbn [length]. lia.
Qed.

Theorem parse_program_sound : forall (l : language) (ts : list token) (ds : list fdesc),
  parse_program l ts = Some ds -> canonical_program_of l ts ds.
Proof.
  intros l ts ds H. unfold parse_program in H.
  destruct (parse_items (S (length ts)) l 0 ts) as [[ds' [| x rest]] |] eqn:Hp; try discriminate.
  inversion H; subst ds'. clear H.
  apply parse_items_sound in Hp. destruct Hp as (used & E & Hitems).
  rewrite app_nil_r in E. subst used. exact Hitems.
Qed.

Print Assumptions parse_program_sound.
