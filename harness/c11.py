"""C11 — exactly the non-hidden, non-excluded files of supported languages are analysed."""
import contextlib
import hashlib
import io
import os
import shutil
import tempfile
from pathlib import Path

from common import Check, assert_repo_import, eval_cases, eval_one, canon_tree, coq_list, z
import lang_common as LC

IMPORTS = "Base Codebase Exclude GenScan FsScan"
DIR_NAMES = ["src", "lib", "tests", "build", "node_modules", "venv", ".git", ".hidden", "a", "b", "pkg", "docs", "test", "dist", "x.d", "my tests"]
FILE_STEMS = ["main", "util", "a", "b", "test", "build", ".hid", "x.min", "Makefile", "README", "BUILD", "SConstruct", "deploy", "run"]
EXTS = [".py", ".js", ".c", ".java", ".ts", ".cs", ".cpp", ".txt", ".rb", "", ".md", ".h"]
PATTERN_POOL = ["a", "b", "src", "docs", "pkg", "lib", "main.py", "util.js", "a/", "docs/", "pkg/", "main/", "*.py", "*.js", "*.d", "*.min",
                "a/b", "src/lib", "src/main.py", "a/*", "src/*", "pkg/*", "lib/a", "my tests", "# comment", "", "x.d", "b/", "*.c",
                "/lib", "/a", "/src", "/docs/a", "/main.py", "/pkg/lib"]


def content_for(lang_ext, n):
    """file text whose analysis is predictable: one function of length n (n = 0: no function)"""
    if n == 0:
        return {"py": "x = 1\n", "": "x = 1\n"}.get(lang_ext, "int x;\n" if lang_ext in ("c", "cpp", "h") else "// nothing\n")
    body = {
        "py": "def f():\n" + "    x = 1\n" * (n - 1),
        "js": "function f() {\n" + "  x = 1;\n" * (n - 2) + "}\n",
        "ts": "function f() {\n" + "  x = 1;\n" * (n - 2) + "}\n",
        "c": "int f(void) {\n" + "  x = 1;\n" * (n - 2) + "}\n",
        "h": "int f(void) {\n" + "  x = 1;\n" * (n - 2) + "}\n",
        "cpp": "int f() {\n" + "  x = 1;\n" * (n - 2) + "}\n",
        "java": "class A {\n  void f() {\n" + "    x = 1;\n" * (n - 2) + "  }\n}\n",
        "cs": "class A {\n  void f() {\n" + "    x = 1;\n" * (n - 2) + "  }\n}\n",
    }
    return body.get(lang_ext, body["py"])      # names without a known extension (BUILD, SConstruct are Python for Pygments)


def gen_tree(rng, depth=0):
    nodes = []
    names = set()
    for _ in range(rng.choice([0, 1, 2, 3, 4]) if depth else rng.choice([1, 2, 3, 4, 6])):
        if rng.random() < 0.4 and depth < 4:
            nm = rng.choice(DIR_NAMES)
            if nm in names:
                continue
            names.add(nm)
            nodes.append(("dir", nm, gen_tree(rng, depth + 1)))
        else:
            nm = rng.choice(FILE_STEMS) + rng.choice(EXTS)
            if nm in names or nm in ("", "."):
                continue
            names.add(nm)
            nodes.append(("file", nm, rng.choice([0, 2, 3, 5, 16, 31, 61])))
    return nodes


def derived_patterns(rng, nodes):
    """exclusions aimed at paths that exist in this tree (so that every pattern class actually bites)"""
    files = [comps for comps, _ in walk_expected(nodes)]
    out = []
    if files and rng.random() < 0.6:
        for comps in rng.sample(files, min(len(files), rng.choice([1, 2]))):
            k = rng.random()
            if len(comps) >= 3 and rng.random() < 0.5:
                out.append("/" + comps[rng.randrange(1, len(comps) - 1)])   # root-anchored name of a directory that lies deeper
            elif k < 0.25 and len(comps) > 1:
                out.append("/".join(comps))                      # anchored path of a file
            elif k < 0.45 and len(comps) > 1:
                out.append(comps[0] + "/*")                      # everything beneath a root-level directory
            elif k < 0.6 and len(comps) > 1:
                out.append("/" + comps[rng.randrange(len(comps) - 1)])   # root-anchored name that also occurs deeper
            elif k < 0.68 and len(comps) > 1:
                out.append(comps[-2] + "/")                      # directory-only
            elif k < 0.75:
                out.append(comps[-1] + "/")                      # directory-only pattern named like a FILE: excludes nothing here
                                                                 # (seeded change C11-15: patterns normalised through Path, the slash lost)
            elif k < 0.9 and "." in comps[-1].strip("."):
                out.append("*." + comps[-1].rsplit(".", 1)[1])
            else:
                out.append(comps[-1])                            # bare file name
    return [p for p in out if not any(ch in p for ch in "[]?!\\#") and " " not in p.strip() or p in PATTERN_POOL]


def write_tree(root, nodes, table):
    for kind, nm, x in nodes:
        p = os.path.join(root, nm)
        if kind == "dir":
            os.makedirs(p, exist_ok=True)
            write_tree(p, x, table)
        else:
            ext = nm.rsplit(".", 1)[1] if "." in nm.strip(".") else ""
            text = content_for(ext, x) + f"// {nm} {x}\n" if ext not in ("py", "rb", "txt", "md", "") else content_for(ext, x) + f"# {nm} {x}\n"
            if x == 0 and len(nm) % 3 == 0:
                text = ""          # a file of zero bytes (an empty __init__.py, a placeholder): it has a checksum like any other
            with open(p, "w") as f:          # (seeded change C11-26: the checksum of an empty file recorded as "")
                f.write(text)
            table[hashlib.md5(text.encode()).hexdigest()] = (x, text)


def tree_lit(nodes, ids):
    out = []
    for kind, nm, x in nodes:
        if kind == "dir":
            out.append(f"Dir {LC.pystr(nm)} {tree_lit(x, ids)}")
        else:
            out.append(f"File {LC.pystr(nm)} {ids[(nm, x)]}")
    return "[" + "; ".join(out) + "]"


def supported_table(names):
    from pygments.lexers import get_lexer_for_filename
    from pygments.util import ClassNotFound
    from codelimit.languages import Languages
    out = {}
    for n in names:
        try:
            lx = get_lexer_for_filename(n)
            out[n] = lx.__class__.name if lx.__class__.name in Languages.by_name else None
        except ClassNotFound:
            out[n] = None
    return out


def all_files(nodes):
    for kind, nm, x in nodes:
        if kind == "dir":
            yield from all_files(x)
        else:
            yield nm, x


def walk_expected(nodes, rel=()):
    for kind, nm, x in nodes:
        if kind == "dir":
            yield from walk_expected(x, rel + (nm,))
        else:
            yield rel + (nm,), x


def run(tier, seed, replay=None):
    assert_repo_import()
    import pathspec
    from codelimit.common import Scanner
    from codelimit.common.Configuration import Configuration
    chk = Check("C11", tier, seed)
    model_ok = chk.proof_stage(["Fs/FsScan.vo", "Fs/FsProofs.vo", "Scope/TieProofs.vo"])
    rng = chk.rng
    cases = []
    tmp = tempfile.mkdtemp(prefix="verif_c11_")
    old_cwd = os.getcwd()
    try:
        for ci in range(200 if tier == "quick" else 5000):
            nodes = gen_tree(rng)
            top = os.path.join(tmp, f"t{ci}")
            root = os.path.join(top, "outer", "proj")
            os.makedirs(root)
            table = {}
            write_tree(root, nodes, table)
            cfg = rng.sample(PATTERN_POOL, rng.choice([0, 0, 1, 2, 3])) + derived_patterns(rng, nodes)
            gi = rng.sample(PATTERN_POOL, rng.choice([0, 0, 1, 2]))
            if gi or rng.random() < 0.2:
                with open(os.path.join(root, ".gitignore"), "w") as f:
                    f.write("\n".join(gi) + ("\n" if gi else ""))
            else:
                gi = None
            # the configured exclusions arrive through the API, or through the command function (config file + option)
            channel = rng.choice(["api", "command", "command"])
            cfg_file = [p for i, p in enumerate(cfg) if i % 2 == 0] if channel == "command" else []
            cfg_opt = [p for p in cfg if p not in cfg_file]
            if channel == "command" and (cfg_file or rng.random() < 0.3):
                import yaml
                with open(os.path.join(root, ".codelimit.yml"), "w") as f:
                    yaml.safe_dump({"exclude": cfg_file}, f)
            Configuration.exclude = list(cfg) if channel == "api" else []
            spelling = rng.choice(["absolute", "relative", "dotdot"])
            os.chdir(os.path.join(top, "outer"))
            arg = {"absolute": Path(root), "relative": Path("proj"), "dotdot": Path("proj/../proj")}[spelling]
            analysed = []
            orig = Scanner._analyze_file

            def rec(path, rel_path, checksum, lexer, _orig=orig, _a=analysed):
                _a.append(rel_path)
                return _orig(path, rel_path, checksum, lexer)
            Scanner._analyze_file = rec
            try:
                with contextlib.redirect_stdout(io.StringIO()):
                    if channel == "api":
                        cb = Scanner.scan_path(arg)
                    else:
                        # codelimit scan <arg> --exclude ... : the command function of __main__ (argument parsing is typer's)
                        from codelimit import __main__ as cli_main
                        from codelimit.common.report.ReportReader import ReportReader
                        cli_main.scan(path=arg, exclude=list(cfg_opt) or None, verbose=False)
                        cb = ReportReader.from_json(open(os.path.join(root, ".codelimit_cache", "codelimit.json")).read()).codebase
                err = None
            except Exception as ex:
                err = f"{type(ex).__name__}: {ex}"
            finally:
                Scanner._analyze_file = orig
                os.chdir(old_cwd)
                Configuration.exclude = []
            case = {"tree": nodes, "config_excludes": cfg, "gitignore": gi, "root_spelling": spelling, "channel": channel}
            chk.count("exclusions via " + channel)
            chk.evaluations += 1
            chk.count("root " + spelling)
            if err:
                chk.violation(case, f"scan_path raised {err}")
                continue
            # ---- independent oracle: pathspec itself on the full pattern list, hidden rule, lexer table
            patterns = list(Scanner.DEFAULT_EXCLUDES) + cfg + (gi or [])
            spec = pathspec.PathSpec.from_lines("gitignore", patterns)
            sup = supported_table({nm for nm, _ in all_files(nodes)})
            want = {}
            for comps, x in walk_expected(nodes):
                if any(c.startswith(".") for c in comps):
                    continue
                if spec.match_file("/".join(comps)):
                    continue
                if sup[comps[-1]] is None:
                    continue
                want["/".join(comps)] = (sup[comps[-1]], x)
            got = {}
            probs = []
            for path, e in cb.files.items():
                ck = e.checksum()
                x = table.get(ck, (None, None))[0]
                got[path] = (e.language, x)
                fp = os.path.join(root, path)
                if not os.path.isfile(fp) or hashlib.md5(open(fp, "rb").read()).hexdigest() != ck:
                    probs.append(f"{path}: checksum is not that of the file's bytes")
                vals = [m.value for m in e.measurements()]
                if x is not None and vals != ([x] if x else []):
                    probs.append(f"{path}: measurements {vals} for a file with one function of {x} lines")
            if got != want:
                extra = sorted(set(got) - set(want))
                missing = sorted(set(want) - set(got))
                probs.append(f"analysed {extra} although they do not qualify; did not analyse {missing}"
                             if extra or missing else f"language/content differs: {got} vs {want}")
            if sorted(analysed) != sorted(want):
                probs.append(f"_analyze_file was called for {sorted(set(analysed) ^ set(want))} unexpectedly / not at all")
            if len(analysed) != len(set(analysed)):
                probs.append("a file was analysed twice")
            if len(want) >= 2 and (cfg or gi):
                chk.nontrivial.add(str(case))
            if probs:
                chk.violation(case, f"scan of tree #{ci} ({spelling} root, excludes {cfg}, .gitignore {gi}): " + "; ".join(probs[:3]))
            # ---- a second, cache-assisted scan after files were renamed to another supported language with the same bytes
            swaps = {".c": ".cpp", ".js": ".ts", ".cpp": ".c", ".ts": ".js"}
            movable = [p for p in sorted(want) if os.path.splitext(p)[1] in swaps
                       and os.path.splitext(p)[0] + swaps[os.path.splitext(p)[1]] not in {"/".join(c) for c, _ in walk_expected(nodes)}]
            if channel == "command" and not probs and movable:
                moved = {}
                for pth in rng.sample(movable, min(len(movable), rng.choice([1, 1, 2]))):
                    new = os.path.splitext(pth)[0] + swaps[os.path.splitext(pth)[1]]
                    os.rename(os.path.join(root, pth), os.path.join(root, new))
                    moved[pth] = new
                want2 = {}
                for pth, (lg, x) in want.items():
                    if pth in moved:
                        new = moved[pth]
                        if spec.match_file(new):
                            continue
                        lg2 = supported_table({os.path.basename(new)})[os.path.basename(new)]
                        if lg2 is not None:               # e.g. Makefile.js is a Makefile for the lexer table
                            want2[new] = (lg2, x)
                    else:
                        want2[pth] = (lg, x)
                os.chdir(os.path.join(top, "outer"))
                try:
                    with contextlib.redirect_stdout(io.StringIO()):
                        cli_main.scan(path=arg, exclude=list(cfg_opt) or None, verbose=False)
                    cb2 = ReportReader.from_json(open(os.path.join(root, ".codelimit_cache", "codelimit.json")).read()).codebase
                    got2 = {pth: (e.language, table.get(e.checksum(), (None, None))[0]) for pth, e in cb2.files.items()}
                    if got2 != want2:
                        chk.violation(dict(case, renamed=moved),
                                      f"tree #{ci}: after renaming {moved} a second (cache-assisted) scan reports "
                                      f"{sorted(set(got2.items()) ^ set(want2.items()))[:4]} differently from the rule")
                except Exception as ex:
                    chk.violation(dict(case, renamed=moved), f"second scan after renaming {moved} raised {type(ex).__name__}: {ex}")
                finally:
                    os.chdir(old_cwd)
                    Configuration.exclude = []
                chk.evaluations += 1
                chk.count("second scan after renaming to another language")
            # ---- model
            ids = {}
            for nm, x in all_files(nodes):
                ids[(nm, x)] = x
            sup_lit = coq_list(f"({LC.pystr(n)}, {'None' if l is None else 'Some ' + LC.pystr(l)})" for n, l in sorted(sup.items()))
            pats = coq_list(LC.pystr(p) for p in cfg + (gi or []))
            expr = (f"let sup := {sup_lit} in "
                    "let supported := fun n => match find (fun kv => pystr_eqb n (fst kv)) sup with Some kv => snd kv | None => None end in "
                    "let analyze := fun (l : pystr) (c : Z) => mkAnalysis l c (if c =? 0 then [] else [c]) in "
                    f"enc_list (fun eb : sentry * bool => T [enc_list enc_str (se_path (fst eb)); L (se_checksum (fst eb)); "
                    "enc_str (a_lang (se_result (fst eb))); enc_list L (a_meas (se_result (fst eb))); enc_bool (snd eb)]) "
                    f"(scan_tree supported analyze (default_excludes ++ {pats}) None {tree_lit(nodes, ids)})")
            order = ["/".join(comps) for comps, _ in walk_expected(nodes)]
            impl = [[p.split("/"), got[p][1], got[p][0], [got[p][1]] if got[p][1] else [], True] for p in order
                    if p in got and got[p][1] is not None]
            cases.append((expr, impl, case))
        shutil.rmtree(tmp, ignore_errors=True)
    finally:
        os.chdir(old_cwd)
        shutil.rmtree(tmp, ignore_errors=True)
    chk.samples = [c[2] for c in cases[:2]]
    if model_ok:
        # the model walks the tree in the order of the literal; the expected list is put in that order
        mism, err = eval_cases("C11", IMPORTS, [(m, o) for m, o, _ in cases], shard=40)
        chk.traces = len(cases)
        if err:
            chk.broken.append("correspondence evaluation failed: " + err[-400:])
        for i in mism[:3]:
            got = eval_one("C11", IMPORTS, cases[i][0])
            chk.broken.append(f"correspondence: scan model and implementation differ on {cases[i][2]}: model {str(got)[:300]} "
                              f"vs implementation {str(canon_tree(cases[i][1]))[:300]}")
    else:
        chk.broken.append("scan model does not build; correspondence not run")
    nt = len(chk.nontrivial)
    chk.nontrivial = {str(i) for i in range(nt)}
    return chk.finish(
        rule="random directory trees over a name pool (hidden, tests/build/node_modules/venv, ordinary; depth 0-4) x file names "
             "with supported / unsupported / no extension x exclusion lists from the five pattern classes via "
             "Configuration.exclude and the root .gitignore x root given as absolute / relative / with '..'; real scan_path with "
             "a recording wrapper around _analyze_file; judged against pathspec itself + hidden rule + lexer table; the Coq "
             "model (own gitignore matcher) evaluated on the same trees.  Non-trivial: >= 2 qualifying files and a "
             "non-empty custom exclusion list.",
        assumptions=["pathspec's gitignore semantics on the five pattern classes = the Gallina matcher (compared on every case)",
                     "get_lexer_for_filename is a function of the file name (table recomputed per case)"])
