(* FsProofsCheck.v — statements and assumptions of the delivered C09/C10/C11 theorems *)
From Verif Require Import Base Codebase Exclude GenScan FsScan Cache FsProofs.

(* Part A — C11 *)
Check walk_spec. Print Assumptions walk_spec.
Check C11_sound. Print Assumptions C11_sound.
Check C11_complete. Print Assumptions C11_complete.
Check C11_iff. Print Assumptions C11_iff.
Check C11_nocache. Print Assumptions C11_nocache.
Check C11_once. Print Assumptions C11_once.
Check C11_not_analysed. Print Assumptions C11_not_analysed.
Check C11_not_analysed_many. Print Assumptions C11_not_analysed_many.
Check C11_oracle_only_qualifying. Print Assumptions C11_oracle_only_qualifying.
(* Part B — C09 *)
Check CacheOK_init. Print Assumptions CacheOK_init.
Check CacheOK_step. Print Assumptions CacheOK_step.
Check scan_with_good_cache. Print Assumptions scan_with_good_cache.
Check C09_equal_all. Print Assumptions C09_equal_all.
Check C09_equal. Print Assumptions C09_equal.
Check C09_reuse_only_unchanged. Print Assumptions C09_reuse_only_unchanged.
Check C09_version_guard. Print Assumptions C09_version_guard.
Check C09_other_version_rescans. Print Assumptions C09_other_version_rescans.
(* Part C — C10 *)
Check C10_tolerant. Print Assumptions C10_tolerant.
Check C10_cache_after_scan_is_complete. Print Assumptions C10_cache_after_scan_is_complete.
Check C10_fault_sequences. Print Assumptions C10_fault_sequences.
Check C10_partial_cache. Print Assumptions C10_partial_cache.
Check good_op_stale_cache. Print Assumptions good_op_stale_cache.
Check FsProofsExamples.ex_edit. Print Assumptions FsProofsExamples.ex_edit.
