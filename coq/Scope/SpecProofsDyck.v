(* SpecProofsDyck.v — C01, part 1: the stack-based brace matcher returns
   exactly the Dyck-matched brace pairs; matched pairs are laminar. *)
From Verif Require Import Base Token Lex Headers Blocks Pairing Fold ScanFile Spec.
From Verif Require Import LexProofs TotalProofsBlocks WfProofsBase WfProofsPairing.
From Coq Require Import Sorted Permutation.
Open Scope nat_scope.

(* ====================================================================== *)
(* 1. brace depth                                                          *)
(* ====================================================================== *)

Definition delta (t : token) : Z :=
  if is_symbol t lbrace then 1%Z else if is_symbol t rbrace then (-1)%Z else 0%Z.
Fixpoint sumd (l : list token) : Z := match l with [] => 0%Z | t :: r => (delta t + sumd r)%Z end.
(* depth before token n = after the first n tokens *)
Definition depth (ts : list token) (n : nat) : Z := sumd (firstn n ts).

Lemma lr_excl t : is_symbol t lbrace = true -> is_symbol t rbrace = false.
Proof.
  unfold is_symbol, lbrace, rbrace. destruct (kind_eqb _ _); [|discriminate]. cbn [andb].
  destruct (t_value t) as [|x [|y r]]; cbn; try discriminate.
  - destruct (Z.eqb_spec x 123); [|discriminate]. subst. reflexivity.
  - rewrite !andb_false_r. discriminate.
Qed.

Lemma delta_cases t :
  (is_symbol t lbrace = true /\ is_symbol t rbrace = false /\ delta t = 1%Z) \/
  (is_symbol t lbrace = false /\ is_symbol t rbrace = true /\ delta t = (-1)%Z) \/
  (is_symbol t lbrace = false /\ is_symbol t rbrace = false /\ delta t = 0%Z).
Proof.
  unfold delta. destruct (is_symbol t lbrace) eqn:EL.
  - left. rewrite (lr_excl _ EL). auto.
  - destruct (is_symbol t rbrace); auto.
Qed.

Lemma depth_0 ts : depth ts 0 = 0%Z.
Proof. reflexivity. Qed.
Lemma depth_cons t r n : depth (t :: r) (S n) = (delta t + depth r n)%Z.
Proof. reflexivity. Qed.
Lemma depth_nil n : depth [] n = 0%Z.
Proof. unfold depth. rewrite firstn_nil. reflexivity. Qed.

Lemma sumd_app a b : sumd (a ++ b) = (sumd a + sumd b)%Z.
Proof. induction a as [|t a IH]; cbn [app sumd]; [reflexivity | rewrite IH; lia]. Qed.

Lemma sym_at_0 t r s : sym_at (t :: r) 0 s = is_symbol t s.
Proof. reflexivity. Qed.
Lemma sym_at_S t r i s : sym_at (t :: r) (S i) s = sym_at r i s.
Proof. reflexivity. Qed.
Lemma sym_at_lt ts i s : sym_at ts i s = true -> i < length ts.
Proof.
  unfold sym_at. destruct (nth_error ts i) eqn:E; [|discriminate].
  intros _. apply nth_error_Some. congruence.
Qed.

Lemma depth_step ts n t : nth_error ts n = Some t -> depth ts (S n) = (depth ts n + delta t)%Z.
Proof.
  revert n. induction ts as [|x r IH]; intros n H; [destruct n; discriminate|].
  destruct n as [|n].
  - cbn in H. inversion H; subst. rewrite depth_cons, !depth_0. lia.
  - cbn in H. rewrite !depth_cons, (IH n H). lia.
Qed.

Lemma depth_lbrace ts n : sym_at ts n lbrace = true -> depth ts (S n) = (depth ts n + 1)%Z.
Proof.
  unfold sym_at. destruct (nth_error ts n) as [t|] eqn:E; [|discriminate]. intros H.
  rewrite (depth_step _ _ _ E). destruct (delta_cases t) as [(A&B&C)|[(A&B&C)|(A&B&C)]]; congruence.
Qed.
Lemma depth_rbrace ts n : sym_at ts n rbrace = true -> depth ts (S n) = (depth ts n - 1)%Z.
Proof.
  unfold sym_at. destruct (nth_error ts n) as [t|] eqn:E; [|discriminate]. intros H.
  rewrite (depth_step _ _ _ E). destruct (delta_cases t) as [(A&B&C)|[(A&B&C)|(A&B&C)]]; try congruence. lia.
Qed.
Lemma sym_at_excl ts n : sym_at ts n lbrace = true -> sym_at ts n rbrace = false.
Proof. unfold sym_at. destruct (nth_error ts n); [apply lr_excl | discriminate]. Qed.

(* ====================================================================== *)
(* 2. matched pairs, by depth                                              *)
(* ====================================================================== *)

Definition Mt (ts : list token) (i j : nat) : Prop :=
  i < j /\ sym_at ts i lbrace = true /\ sym_at ts j rbrace = true /\
  depth ts (S j) = depth ts i /\ forall p, i < p <= j -> (depth ts i < depth ts p)%Z.

(* the (m+1)-th unmatched closing brace of ts is at j *)
Definition Ct (ts : list token) (m j : nat) : Prop :=
  sym_at ts j rbrace = true /\ depth ts (S j) = (- Z.of_nat (S m))%Z /\
  forall p, p <= j -> (- Z.of_nat (S m) < depth ts p)%Z.

Lemma Mt_SS t r i j : Mt (t :: r) (S i) (S j) <-> Mt r i j.
Proof.
  unfold Mt. rewrite !sym_at_S, !depth_cons. split; intros (H1 & H2 & H3 & H4 & H5); repeat split; auto; try lia.
  - intros p Hp. specialize (H5 (S p)). rewrite depth_cons in H5. lia.
  - intros p Hp. destruct p as [|p]; [lia|]. rewrite depth_cons. specialize (H5 p). lia.
Qed.

Lemma Mt_0S t r j : Mt (t :: r) 0 (S j) <-> is_symbol t lbrace = true /\ Ct r 0 j.
Proof.
  unfold Mt, Ct. rewrite sym_at_0, sym_at_S, !depth_cons, depth_0. split.
  - intros (H1 & H2 & H3 & H4 & H5).
    destruct (delta_cases t) as [(A&B&C)|[(A&B&C)|(A&B&C)]]; try congruence.
    repeat split; auto; try lia.
    intros p Hp. specialize (H5 (S p)). rewrite depth_cons in H5. lia.
  - intros (H2 & H3 & H4 & H5).
    destruct (delta_cases t) as [(A&B&C)|[(A&B&C)|(A&B&C)]]; try congruence.
    repeat split; auto; try lia.
    intros p Hp. destruct p as [|p]; [lia|]. rewrite depth_cons. specialize (H5 p). lia.
Qed.

Lemma Mt_lt ts i j : Mt ts i j -> i < j.
Proof. intros H. apply H. Qed.

Lemma Ct_0 t r m : Ct (t :: r) m 0 <-> is_symbol t rbrace = true /\ m = 0.
Proof.
  unfold Ct. rewrite sym_at_0, depth_cons, depth_0. split.
  - intros (H1 & H2 & H3).
    destruct (delta_cases t) as [(A&B&C)|[(A&B&C)|(A&B&C)]]; try congruence. split; [auto | lia].
  - intros (H1 & ->).
    destruct (delta_cases t) as [(A&B&C)|[(A&B&C)|(A&B&C)]]; try congruence.
    repeat split; auto; try lia. intros p Hp. replace p with 0 by lia. rewrite depth_0. lia.
Qed.

Lemma Ct_S t r m j :
  Ct (t :: r) m (S j) <->
  (delta t = 1%Z /\ Ct r (S m) j) \/ (delta t = 0%Z /\ Ct r m j) \/
  (delta t = (-1)%Z /\ exists m', m = S m' /\ Ct r m' j).
Proof.
  unfold Ct. rewrite sym_at_S, !depth_cons. split.
  - intros (H1 & H2 & H3).
    assert (H3' : forall p, p <= j -> (- Z.of_nat (S m) < delta t + depth r p)%Z).
    { intros p Hp. specialize (H3 (S p)). rewrite depth_cons in H3. lia. }
    destruct (delta_cases t) as [(A&B&C)|[(A&B&C)|(A&B&C)]].
    + left. repeat split; auto; try lia. intros p Hp. specialize (H3' p Hp). lia.
    + right. right. split; [auto|]. destruct m as [|m'].
      * specialize (H3' 0). rewrite depth_0 in H3'. lia.
      * exists m'. repeat split; auto; try lia. intros p Hp. specialize (H3' p Hp). lia.
    + right. left. repeat split; auto; try lia. intros p Hp. specialize (H3' p Hp). lia.
  - intros [(C & H1 & H2 & H3) | [(C & H1 & H2 & H3) | (C & m' & -> & H1 & H2 & H3)]];
      (repeat split; auto; try lia; intros p Hp; destruct p as [|p];
       [rewrite depth_0; lia | rewrite depth_cons; specialize (H3 p); lia]).
Qed.

(* ====================================================================== *)
(* 3. the stack algorithm                                                  *)
(* ====================================================================== *)

Lemma balanced_from_spec : forall ts k stack a b,
  In (a, S b) (balanced_from k ts lbrace rbrace stack) <->
  (exists i j, a = k + i /\ b = k + j /\ Mt ts i j) \/
  (exists m j, nth_error stack m = Some a /\ b = k + j /\ Ct ts m j).
Proof.
  induction ts as [|t r IH]; intros k stack a b; cbn [balanced_from].
  - split; [intros [] |].
    intros [(i & j & _ & _ & H) | (m & j & _ & _ & H)].
    + destruct H as (_ & H & _). destruct i; discriminate.
    + destruct H as (H & _). destruct j; discriminate.
  - destruct (delta_cases t) as [(A&B&C)|[(A&B&C)|(A&B&C)]]; rewrite A; try rewrite B.
    + (* open *)
      rewrite IH. split.
      * intros [(i & j & -> & -> & H) | (m & j & Hn & -> & H)].
        -- left. exists (S i), (S j). rewrite Mt_SS. split; [lia | split; [lia | exact H]].
        -- destruct m as [|m].
           ++ cbn in Hn. inversion Hn; subst a. left. exists 0, (S j). rewrite Mt_0S.
              split; [lia | split; [lia | split; [exact A | exact H]]].
           ++ cbn in Hn. right. exists m, (S j). rewrite Ct_S. split; [exact Hn|]. split; [lia|]. auto.
      * intros [(i & j & -> & -> & H) | (m & j & Hn & -> & H)].
        -- pose proof (Mt_lt _ _ _ H) as Hlt. destruct j as [|j]; [lia|]. destruct i as [|i].
           ++ rewrite Mt_0S in H. destruct H as [_ H]. right. exists 0, j. cbn [nth_error].
              split; [f_equal; lia | split; [lia | exact H]].
           ++ rewrite Mt_SS in H. left. exists i, j. split; [lia | split; [lia | exact H]].
        -- destruct j as [|j].
           ++ rewrite Ct_0 in H. destruct H as [H _]. congruence.
           ++ rewrite Ct_S in H. destruct H as [(_ & H) | [(C' & _) | (C' & _)]]; try lia.
              right. exists (S m), j. cbn [nth_error]. split; [exact Hn | split; [lia | exact H]].
    + (* close *)
      destruct stack as [|s stack'].
      * rewrite IH. split.
        -- intros [(i & j & -> & -> & H) | (m & j & Hn & _)]; [|destruct m; discriminate].
           left. exists (S i), (S j). rewrite Mt_SS. split; [lia | split; [lia | exact H]].
        -- intros [(i & j & -> & -> & H) | (m & j & Hn & _)]; [|destruct m; discriminate].
           pose proof (Mt_lt _ _ _ H) as Hlt. destruct j as [|j]; [lia|]. destruct i as [|i].
           ++ rewrite Mt_0S in H. destruct H as [H _]. congruence.
           ++ rewrite Mt_SS in H. left. exists i, j. split; [lia | split; [lia | exact H]].
      * cbn [In]. rewrite IH. split.
        -- intros [E | [(i & j & -> & -> & H) | (m & j & Hn & -> & H)]].
           ++ inversion E; subst. right. exists 0, 0. cbn [nth_error]. rewrite Ct_0.
              split; [reflexivity | split; [lia | split; [exact B | reflexivity]]].
           ++ left. exists (S i), (S j). rewrite Mt_SS. split; [lia | split; [lia | exact H]].
           ++ right. exists (S m), (S j). cbn [nth_error]. rewrite Ct_S. split; [exact Hn|]. split; [lia|].
              right. right. split; [auto|]. exists m. auto.
        -- intros [(i & j & -> & -> & H) | (m & j & Hn & -> & H)].
           ++ pose proof (Mt_lt _ _ _ H) as Hlt. destruct j as [|j]; [lia|]. destruct i as [|i].
              ** rewrite Mt_0S in H. destruct H as [H _]. congruence.
              ** rewrite Mt_SS in H. right. left. exists i, j. split; [lia | split; [lia | exact H]].
           ++ destruct j as [|j].
              ** rewrite Ct_0 in H. destruct H as [_ ->]. cbn in Hn. inversion Hn; subst.
                 left. f_equal. lia.
              ** rewrite Ct_S in H. destruct H as [(C' & _) | [(C' & _) | (_ & m' & -> & H)]]; try lia.
                 cbn in Hn. right. right. exists m', j. split; [exact Hn | split; [lia | exact H]].
    + (* other *)
      rewrite IH. split.
      * intros [(i & j & -> & -> & H) | (m & j & Hn & -> & H)].
        -- left. exists (S i), (S j). rewrite Mt_SS. split; [lia | split; [lia | exact H]].
        -- right. exists m, (S j). rewrite Ct_S. split; [exact Hn|]. split; [lia|]. auto.
      * intros [(i & j & -> & -> & H) | (m & j & Hn & -> & H)].
        -- pose proof (Mt_lt _ _ _ H) as Hlt. destruct j as [|j]; [lia|]. destruct i as [|i].
           ++ rewrite Mt_0S in H. destruct H as [H _]. congruence.
           ++ rewrite Mt_SS in H. left. exists i, j. split; [lia | split; [lia | exact H]].
        -- destruct j as [|j].
           ++ rewrite Ct_0 in H. destruct H as [H _]. congruence.
           ++ rewrite Ct_S in H. destruct H as [(C' & _) | [(_ & H) | (C' & _)]]; try lia.
              right. exists m, j. split; [exact Hn | split; [lia | exact H]].
Qed.

(* ====================================================================== *)
(* 4. Spec.matched is the depth characterisation                           *)
(* ====================================================================== *)

Lemma bda_cons t r d :
  brace_depth_after (t :: r) d = (d + delta t)%Z :: brace_depth_after r (d + delta t)%Z.
Proof.
  cbn [brace_depth_after]. unfold delta.
  destruct (is_symbol t lbrace); [reflexivity|]. destruct (is_symbol t rbrace).
  - replace (d + -1)%Z with (d - 1)%Z by lia. reflexivity.
  - replace (d + 0)%Z with d by lia. reflexivity.
Qed.

Lemma last_cons_ne {A} (a : A) L x : L <> [] -> last (a :: L) x = last L x.
Proof. destruct L; [congruence | reflexivity]. Qed.

Lemma bda_last : forall l d x, l <> [] -> last (brace_depth_after l d) x = (d + sumd l)%Z.
Proof.
  induction l as [|t r IH]; intros d x H; [congruence|]. rewrite bda_cons.
  destruct r as [|t2 r2].
  - cbn. lia.
  - rewrite last_cons_ne by (rewrite bda_cons; discriminate).
    rewrite IH by discriminate. cbn [sumd]. lia.
Qed.

Lemma bda_removelast (P : Z -> Prop) : forall l d,
  Forall P (removelast (brace_depth_after l d)) <->
  (forall n, 0 < n < length l -> P (d + sumd (firstn n l))%Z).
Proof.
  induction l as [|t r IH]; intros d.
  - cbn. split; [intros _ n Hn; lia | constructor].
  - rewrite bda_cons. destruct r as [|t2 r2].
    + cbn. split; [intros _ n Hn; lia | constructor].
    + assert (E : forall (a : Z) (L : list Z), L <> [] -> removelast (a :: L) = a :: removelast L).
      { intros a [|y L] HL; [congruence | reflexivity]. }
      rewrite E by (rewrite bda_cons; discriminate). split.
      * intros H. apply Forall_cons_iff in H. destruct H as [H1 H2]. rewrite IH in H2.
        intros n Hn. destruct n as [|n]; [lia|]. cbn [firstn sumd]. destruct n as [|n].
        -- cbn [firstn sumd]. replace (d + (delta t + 0))%Z with (d + delta t)%Z by lia. exact H1.
        -- replace (d + (delta t + sumd (firstn (S n) (t2 :: r2))))%Z
             with (d + delta t + sumd (firstn (S n) (t2 :: r2)))%Z by lia.
           apply H2. cbn [length] in *. lia.
      * intros H. apply Forall_cons_iff. split.
        -- specialize (H 1). cbn [firstn sumd length] in H.
           replace (d + (delta t + 0))%Z with (d + delta t)%Z in H by lia. apply H. lia.
        -- apply IH. intros n Hn. specialize (H (S n)). cbn [firstn sumd] in H.
           replace (d + delta t + sumd (firstn n (t2 :: r2)))%Z
             with (d + (delta t + sumd (firstn n (t2 :: r2))))%Z by lia.
           apply H. cbn [length] in *. lia.
Qed.

Lemma depth_skipn : forall i ts n, sumd (firstn n (skipn i ts)) = (depth ts (i + n) - depth ts i)%Z.
Proof.
  induction i as [|i IH]; intros ts n.
  - cbn [skipn Nat.add]. rewrite depth_0. unfold depth. lia.
  - destruct ts as [|t r].
    + cbn [skipn]. rewrite firstn_nil, !depth_nil. reflexivity.
    + cbn [skipn Nat.add]. rewrite !depth_cons, IH. lia.
Qed.

Lemma matched_iff ts i j : matched ts i j <-> Mt ts i j.
Proof.
  unfold matched, Mt. cbv zeta.
  split; intros (H1 & H2 & H3 & H4).
  - pose proof (sym_at_lt _ _ _ H3) as Hj.
    set (l := firstn (S j - i) (skipn i ts)) in *.
    assert (Hlen : length l = S j - i).
    { unfold l. rewrite firstn_length, skipn_length. lia. }
    assert (Hne : l <> []) by (intros E; rewrite E in Hlen; cbn [length] in Hlen; lia).
    destruct H4 as [H4 H5]. rewrite (bda_last l 0%Z 1%Z Hne) in H4.
    rewrite bda_removelast in H5. rewrite Hlen in H5.
    assert (Hs : forall n, n <= S j - i -> sumd (firstn n l) = (depth ts (i + n) - depth ts i)%Z).
    { intros n Hn. unfold l. rewrite firstn_firstn. replace (Nat.min n (S j - i)) with n by lia.
      apply depth_skipn. }
    repeat split; auto.
    + specialize (Hs (S j - i) (le_n _)). rewrite <- Hlen in Hs at 1. rewrite firstn_all in Hs.
      replace (i + (S j - i)) with (S j) in Hs by lia. lia.
    + intros p Hp. specialize (H5 (p - i)). rewrite Hs in H5 by lia.
      replace (i + (p - i)) with p in H5 by lia. lia.
  - destruct H4 as [H4 H5].
    pose proof (sym_at_lt _ _ _ H3) as Hj.
    set (l := firstn (S j - i) (skipn i ts)) in *.
    assert (Hlen : length l = S j - i).
    { unfold l. rewrite firstn_length, skipn_length. lia. }
    assert (Hne : l <> []) by (intros E; rewrite E in Hlen; cbn [length] in Hlen; lia).
    assert (Hs : forall n, n <= S j - i -> sumd (firstn n l) = (depth ts (i + n) - depth ts i)%Z).
    { intros n Hn. unfold l. rewrite firstn_firstn. replace (Nat.min n (S j - i)) with n by lia.
      apply depth_skipn. }
    repeat split; auto.
    + rewrite (bda_last l 0%Z 1%Z Hne).
      specialize (Hs (S j - i) (le_n _)). rewrite <- Hlen in Hs at 1. rewrite firstn_all in Hs.
      replace (i + (S j - i)) with (S j) in Hs by lia. lia.
    + rewrite bda_removelast. rewrite Hlen. intros n Hn. rewrite Hs by lia.
      specialize (H5 (i + n)). lia.
Qed.

(* ====================================================================== *)
(* 5. deliverable 1                                                        *)
(* ====================================================================== *)

Theorem blocks_are_dyck : forall ts i j,
  In (i, S j) (balanced_from 0 ts lbrace rbrace []) <-> matched ts i j.
Proof.
  intros ts i j. rewrite balanced_from_spec, matched_iff. split.
  - intros [(a & b & -> & -> & H) | (m & b & Hn & _)]; [exact H | destruct m; discriminate].
  - intros H. left. exists i, j. auto.
Qed.

(* every returned range has the form (i, S j) *)
Lemma balanced_from_shape : forall ts k stack r,
  In r (balanced_from k ts lbrace rbrace stack) -> exists i j, r = (i, S j).
Proof.
  induction ts as [|t ts IH]; intros k stack r H; cbn [balanced_from] in H; [destruct H|].
  destruct (is_symbol t lbrace); [eapply IH, H|].
  destruct (is_symbol t rbrace); [|eapply IH, H].
  destruct stack as [|s st]; [eapply IH, H|].
  destruct H as [<-|H]; [eauto | eapply IH, H].
Qed.

Lemma get_blocks_In ts b :
  In b (get_blocks ts) <-> exists i j, b = (i, S j) /\ matched ts i j.
Proof.
  unfold get_blocks. rewrite sort_ranges_In. split.
  - intros H. destruct (balanced_from_shape _ _ _ _ H) as (i & j & ->).
    exists i, j. split; [reflexivity|]. apply blocks_are_dyck. exact H.
  - intros (i & j & -> & H). apply blocks_are_dyck. exact H.
Qed.

(* ---------- consequences of matching ---------- *)
Lemma matched_fun ts i j j' : matched ts i j -> matched ts i j' -> j = j'.
Proof.
  rewrite !matched_iff. intros (A1 & A2 & A3 & A4 & A5) (B1 & B2 & B3 & B4 & B5).
  destruct (Nat.lt_trichotomy j j') as [H|[H|H]]; [|exact H|].
  - pose proof (B5 (S j)). lia.
  - pose proof (A5 (S j')). lia.
Qed.

Lemma matched_laminar ts i j i' j' :
  matched ts i j -> matched ts i' j' -> i < i' -> j < i' \/ j' < j.
Proof.
  rewrite !matched_iff. intros (A1 & A2 & A3 & A4 & A5) (B1 & B2 & B3 & B4 & B5) Hlt.
  destruct (Nat.lt_ge_cases j i') as [H|H]; [left; exact H|]. right.
  assert (i' <> j). { intros ->. rewrite (sym_at_excl _ _ B2) in A3. discriminate. }
  pose proof (A5 i'). 
  destruct (Nat.lt_trichotomy j j') as [Hc|[Hc|Hc]]; [| |exact Hc].
  - pose proof (B5 (S j)). lia.
  - subst j'. lia.
Qed.

Lemma matched_inj ts i i' j : matched ts i j -> matched ts i' j -> i = i'.
Proof.
  intros A B. destruct (Nat.lt_trichotomy i i') as [H|[H|H]]; [|exact H|].
  - destruct (matched_laminar _ _ _ _ _ A B H) as [C|C]; [|lia]. destruct B as [B _]. lia.
  - destruct (matched_laminar _ _ _ _ _ B A H) as [C|C]; [|lia]. destruct A as [A _]. lia.
Qed.

Lemma matched_syms ts i j : matched ts i j ->
  i < j /\ j < length ts /\ sym_at ts i lbrace = true /\ sym_at ts j rbrace = true.
Proof. intros (A & B & C & _). repeat split; auto. eapply sym_at_lt, C. Qed.

Print Assumptions blocks_are_dyck.
Print Assumptions matched_laminar.
