(* SpecCheckAll.v — boolean checker for `lexically_canonical_of` (all languages), proved sound. *)
From Verif Require Import Base Token Lex Headers Blocks Pairing Fold ScanFile Spec HeaderSpec SpecCheck LexShapes
  ScanProofs ShapeProofs.
From Coq Require Import Permutation.
Open Scope Z_scope.

Definition lexically_canonical_of_b (l : language) (ts : list token) (ds : list fdesc) : bool :=
  headers_eqb (sort_asc (fun h : header => Z.of_nat (h_start h)) (lexical_headers_of l ts)) (map header_of ds).

Theorem lexically_canonical_of_b_sound l ts ds :
  lexically_canonical_of_b l ts ds = true -> lexically_canonical_of l ts ds.
Proof.
  unfold lexically_canonical_of_b, lexically_canonical_of. intros H.
  apply headers_eqb_sound in H. rewrite <- H. symmetry. apply sort_asc_perm.
Qed.
