(* ShapeProofsJava.v — Java: the C-family pattern with the follow-up "{" or "throws ... {". *)
From Verif Require Import Base Regex Nfa Dfa Token TokEngine GenPatterns Headers Blocks Spec HeaderSpec Scan ScanProofs.
From Verif Require Import Unamb UnambProofs LexShapes HeaderProofsDfa HeaderProofsSelect ShapeProofsGen ShapeProofsFollow.
Open Scope nat_scope.

Example cap_Java : patterns_Java = [(cfamily_pattern, Some java_followup)].
Proof. reflexivity. Qed.

Lemma cand_plain_end ts i : cand_end_of cand_plain ts i = cand_end ts i.
Proof.
  unfold cand_end_of, cand_plain, cand_end, name_at, groups_end, sym_at.
  destruct (nth_error ts i) as [t|]; [|reflexivity].
  destruct (is_name t); cbn [andb].
  - destruct (nth_error ts (S i)) as [p|]; [|reflexivity]. destruct (is_symbol p lparen); reflexivity.
  - destruct (nth_error ts (S i)); reflexivity.
Qed.

Lemma name_index_plain ts i n j : cand_plain ts i = Some (n, j) -> name_index ts i j = OK n.
Proof.
  unfold cand_plain. destruct (name_at ts i) eqn:En; [|discriminate].
  destruct (groups_end ts (S i)) as [j'|] eqn:Eg; [|discriminate]. intros [= <- <-].
  apply groups_end_lt in Eg. apply name_index_0; [exact En | lia].
Qed.

Theorem java_headers_spec : forall ts : list token,
  get_headers ts cfamily_pattern (Some java_followup) = OK (shape_headers cand_plain follow_throws ts).
Proof.
  intros ts.
  apply (get_headers_shape_some cfamily_pattern java_followup a0 aJ cand_plain follow_throws ts
           to_dfa_pattern to_dfa_java_followup).
  - intros i. rewrite greedy_a0, cand_plain_end. reflexivity.
  - apply follow_throws_decides.
  - apply name_index_plain.
Qed.

Theorem extract_headers_Java : forall ts, extract_headers LJava ts = OK (lexical_headers_Java ts).
Proof.
  intros ts. unfold extract_headers, lang_patterns. rewrite cap_Java. cbn [headers_of_patterns].
  rewrite java_headers_spec, app_nil_r. reflexivity.
Qed.

Print Assumptions extract_headers_Java.
