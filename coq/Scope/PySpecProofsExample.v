(* PySpecProofsExample.v — the hypotheses of C01_python_pipeline are satisfiable:
   a two-function file (g nested in f, both suites ending on the same token)
     def f():
       def g():
         return 1
     x = 1
   satisfies py_wf_descs, and the theorem then yields its measurements. *)
From Verif Require Import Base Token Lex Headers Blocks Pairing Fold ScanFile Spec PySpec.
From Verif Require Import LexProofs PySpecProofsLines PySpecProofs.
From Coq Require Import Sorted Permutation.
Open Scope Z_scope.

Definition ex_kw s l c := mkTok KKeyword s l c.
Definition ex_nm s l c := mkTok KName s l c.
Definition ex_pu s l c := mkTok KPunct s l c.
Definition ex_toks : list token :=
  [ex_kw [100;101;102] 1 1; ex_nm [102] 1 5; ex_pu [40] 1 6; ex_pu [41] 1 7; ex_pu [58] 1 8;
   ex_kw [100;101;102] 2 3; ex_nm [103] 2 7; ex_pu [40] 2 8; ex_pu [41] 2 9; ex_pu [58] 2 10;
   ex_kw [114;101;116;117;114;110] 3 5; mkTok KOther [49] 3 12;
   ex_nm [120] 4 1; mkTok KOperator [61] 4 3; mkTok KOther [49] 4 5].
Definition ex_ds : list pydesc := [mkPd 1 0 4 5 12; mkPd 6 5 9 10 12]%nat.

Ltac bounded k :=
  do 16 (destruct k as [|k]; [try lia; try (vm_compute; congruence); try (vm_compute; intros; congruence)|]);
  try lia.

Ltac ex_lists :=
  repeat match goal with
  | |- StronglySorted _ [] => constructor
  | |- StronglySorted _ (_ :: _) => constructor
  | |- Forall _ [] => constructor
  | |- Forall _ (_ :: _) => constructor
  | |- pos_lt _ _ => unfold pos_lt; cbn; lia
  end.

Lemma ex_code : filter_tokens false ex_toks = ex_toks.
Proof. vm_compute. reflexivity. Qed.

Lemma ex_wf : py_wf_descs ex_toks ex_ds.
Proof.
  constructor.
  - unfold ex_toks. ex_lists; reflexivity.
  - unfold ex_ds. ex_lists; cbn [pd_start pd_name pd_hend pd_bstart pd_bend].
    all: repeat match goal with |- _ /\ _ => split end.
    all: try lia; try (vm_compute; congruence); try (cbn [length ex_toks]; lia).
    all: try (intros k Hk; bounded k).
    all: try (intros Hk; cbn [length ex_toks] in Hk; lia).
    all: intros _; split; vm_compute; [reflexivity | intros; discriminate].
  - intros i j di dj Hij Hi Hj.
    destruct i as [|[|i]]; destruct j as [|[|j]]; try lia; cbn in Hi, Hj;
      try (destruct j; discriminate); try (destruct i; discriminate).
    inversion Hi; inversion Hj; subst. unfold py_nested_in, py_after. cbn. lia.
Qed.

Lemma ex_sorted : StronglySorted pos_lt ex_toks.
Proof. unfold ex_toks. ex_lists. Qed.

Example ex_scan : scan_file LPython ex_toks = py_expected_all ex_toks ex_ds ex_ds.
Proof.
  pose proof (C01_python_pipeline ex_toks ex_ds) as H. cbv zeta in H. rewrite ex_code in H.
  apply H.
  - exact ex_sorted.
  - vm_compute. reflexivity.
  - exact ex_wf.
  - eexists. split; [vm_compute; reflexivity|]. apply Permutation_refl.
Qed.

Print Assumptions ex_scan.
