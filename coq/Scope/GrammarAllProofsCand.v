(* GrammarAllProofsCand.v — the candidate functions of LexShapes.v (cand_plain, cand_function,
   cand_arrow) with the follow-up "{" evaluated on the pieces of the grammar of GrammarAll.v:
   rejected at every position of an inner sequence closed by ")" or ";" (hence inside statements,
   conditions and parameter groups), at symbols and operators, at keywords followed by a symbol, at
   prefix words; accepted at the function heads of the matching form. *)
From Verif Require Import Base Regex Token TokEngine Headers Blocks Spec HeaderSpec LexShapes Grammar GrammarAll.
From Verif Require Import GrammarProofsParen GrammarProofsBrace GrammarProofsHeaders GrammarAllProofsTok.
From Verif Require Import GrammarAllProofsSel.
Open Scope nat_scope.

(* ---------- suffixes of inner sequences / of parameter lists with flat brace groups ---------- *)
Definition closer (t : token) : bool := is_rparen t || is_symbol t semicolon.
(* a (b)inner sequence followed by ")" or ";" (or nothing) *)
Definition isuf (w : list token) : Prop := exists ok g B, w = g ++ B /\ binner ok g /\ hd_ok closer B.

Lemma closer_inv t : closer t = true ->
  stop_tok t = true /\ is_lbrace t = false /\ is_lparen t = false /\ is_symbol t s_arrow = false /\ is_name t = false.
Proof.
  unfold closer. intros H. apply orb_prop in H as [H|H].
  - split; [apply rparen_stop; exact H|]. split; [apply rparen_not_lbrace; exact H|].
    split; [apply rparen_not_lparen; exact H|].
    split; [apply (symbol_other t rparen); [exact H | discriminate] | eapply symbol_not_name; exact H].
  - split; [apply semi_stop; exact H|]. split; [apply semi_not_lbrace; exact H|].
    split; [apply semi_not_lparen; exact H|].
    split; [apply (symbol_other t semicolon); [exact H | discriminate] | eapply symbol_not_name; exact H].
Qed.

Lemma closer_stop B : hd_ok closer B -> hd_ok stop_tok B.
Proof. destruct B as [|b B]; [auto|]. cbn [hd_ok]. intros H. apply closer_inv in H. apply H. Qed.

Lemma rparen_closer c : is_rparen c = true -> closer c = true.
Proof. unfold closer. intros ->. reflexivity. Qed.
Lemma semi_closer c : is_symbol c semicolon = true -> closer c = true.
Proof. unfold closer. intros ->. apply orb_true_r. Qed.

Lemma name_not_closer t : is_name t = true -> closer t = false.
Proof. intros H. unfold closer, is_rparen. rewrite !(name_not_symbol _ _ H). reflexivity. Qed.
Lemma keyword_not_closer t : is_keyword t = true -> closer t = false.
Proof. intros H. unfold closer, is_rparen. rewrite !(keyword_not_symbol _ _ H). reflexivity. Qed.
Lemma operator_not_closer t s : is_operator t s = true -> closer t = false.
Proof. intros H. unfold closer, is_rparen. rewrite !(operator_not_symbol _ _ _ H). reflexivity. Qed.

Lemma isuf_intro_b ok g B : binner ok g -> hd_ok closer B -> isuf (g ++ B).
Proof. intros Hg HB. exists ok, g, B. auto. Qed.

Lemma isuf_intro g B : inner g -> hd_ok closer B -> isuf (g ++ B).
Proof. intros Hg HB. apply (isuf_intro_b BSafe); [apply inner_binner; exact Hg | exact HB]. Qed.

Lemma isuf_tail x w : isuf (x :: w) -> is_lparen x = false -> is_lbrace x = false -> closer x = false -> isuf w.
Proof.
  intros (ok & g & B & E & Hg & HB) Hlp Hlb Hcl.
  destruct Hg as [ok|ok t r Ht Hr|ok o g c r Ho Hg Hc Hr|o flat c r Ho Hflat Hc Hr].
  - cbn [app] in E. subst B. cbn [hd_ok] in HB. congruence.
  - cbn [app] in E. injection E as -> ->. apply (isuf_intro_b (bstep_plain ok t)); assumption.
  - cbn [app] in E. injection E as -> _. congruence.
  - cbn [app] in E. injection E as -> _. congruence.
Qed.

Lemma isuf_tail_name x w : isuf (x :: w) -> is_name x = true -> isuf w.
Proof.
  intros H Hn. apply (isuf_tail x w H); [apply (name_not_symbol _ _ Hn) | apply (name_not_symbol _ _ Hn) | apply name_not_closer; exact Hn].
Qed.
Lemma isuf_tail_keyword x w : isuf (x :: w) -> is_keyword x = true -> isuf w.
Proof.
  intros H Hn. apply (isuf_tail x w H); [apply (keyword_not_symbol _ _ Hn) | apply (keyword_not_symbol _ _ Hn) | apply keyword_not_closer; exact Hn].
Qed.
Lemma isuf_tail_operator x w s : isuf (x :: w) -> is_operator x s = true -> isuf w.
Proof.
  intros H Hn. apply (isuf_tail x w H); [apply (operator_not_symbol _ _ _ Hn) | apply (operator_not_symbol _ _ _ Hn) | eapply operator_not_closer; exact Hn].
Qed.

Lemma isuf_skipn g : inner g -> forall B, hd_ok closer B -> forall k, k <= length g -> isuf (skipn k (g ++ B)).
Proof.
  induction 1 as [|t r Ht Hr IH|o g c r Ho Hg IHg Hc Hr IHr]; intros B HB k Hk.
  - cbn [length] in Hk. assert (k = 0) by lia. subst k. cbn [skipn app]. apply (isuf_intro [] B); [constructor | exact HB].
  - destruct k as [|k].
    + cbn [skipn]. apply isuf_intro; [apply inner_plain; assumption | exact HB].
    + cbn [app skipn]. apply IH; [exact HB | cbn [length] in Hk; lia].
  - destruct k as [|k].
    + cbn [skipn]. apply isuf_intro; [apply inner_group; assumption | exact HB].
    + replace ((o :: g ++ c :: r) ++ B) with (o :: g ++ (c :: r ++ B)) by (norm_app; reflexivity).
      cbn [skipn]. destruct (le_dec k (length g)) as [Hle|Hgt].
      * apply IHg; [cbn [hd_ok]; apply rparen_closer; exact Hc | exact Hle].
      * rewrite skipn_app. rewrite skipn_all2 by lia. cbn [app].
        destruct (k - length g) as [|m] eqn:Em; [lia|]. cbn [skipn].
        apply IHr; [exact HB|]. revert Hk. norm_len. lia.
Qed.

(* ---------- the run of groups, braces being ordinary tokens ---------- *)
Lemma lbrace_not_rparen t : is_lbrace t = true -> is_rparen t = false.
Proof. intros H. apply (symbol_other t lbrace); [exact H | discriminate]. Qed.
Lemma rbrace_not_rparen t : is_rbrace t = true -> is_rparen t = false.
Proof. intros H. apply (symbol_other t rbrace); [exact H | discriminate]. Qed.

Lemma groups_len_plains ps : forallb plain ps = true -> forall (d : Z) rest, (0 < d)%Z ->
  groups_len (ps ++ rest) d = length ps + groups_len rest d.
Proof.
  induction ps as [|t ps IH]; intros H d rest Hd; [reflexivity|].
  cbn [forallb] in H. apply andb_prop in H as [Ht H]. apply plain_inv in Ht as (H1 & H2 & _ & _).
  cbn [app]. rewrite groups_len_inside_plain by assumption. rewrite IH by assumption. reflexivity.
Qed.

Lemma groups_len_binner ok g : binner ok g -> forall (d : Z) rest, (0 < d)%Z ->
  groups_len (g ++ rest) d = length g + groups_len rest d.
Proof.
  induction 1 as [ok|ok t r Ht Hr IH|ok o g c r Ho Hg IHg Hc Hr IHr|o flat c r Ho Hflat Hc Hr IH]; intros d rest Hd.
  - reflexivity.
  - apply plain_inv in Ht as (H1 & H2 & _ & _). cbn [app].
    rewrite groups_len_inside_plain by assumption. rewrite IH by assumption. reflexivity.
  - replace ((o :: g ++ c :: r) ++ rest) with (o :: g ++ c :: (r ++ rest)) by (norm_app; reflexivity).
    rewrite groups_len_inside_lparen by assumption.
    rewrite IHg by lia. rewrite groups_len_inside_rparen by (assumption || lia).
    replace (d + 1 - 1)%Z with d by lia. rewrite IHr by assumption. norm_len. lia.
  - replace ((o :: flat ++ c :: r) ++ rest) with (o :: flat ++ c :: (r ++ rest)) by (norm_app; reflexivity).
    rewrite (groups_len_inside_plain o _ d Hd (lbrace_not_lparen o Ho) (lbrace_not_rparen o Ho)).
    rewrite (groups_len_plains flat Hflat) by assumption.
    rewrite (groups_len_inside_plain c _ d Hd (rbrace_not_lparen c Hc) (rbrace_not_rparen c Hc)).
    rewrite IH by assumption. norm_len. lia.
Qed.

(* states in which no brace group may start *)
Definition nobrace (s : bstate) : Prop := s <> BSafe.
(* the states after a group *)
Definition aftergroup (s : bstate) : Prop := s = BGroup \/ s = BPoison.

Lemma after_group_ag s : aftergroup (after_group s).
Proof. destruct s; [left | left | left | right]; reflexivity. Qed.

Lemma nobrace_head s r : binner s r -> nobrace s -> forall B, hd_ok closer B -> sym_at (r ++ B) 0 lbrace = false.
Proof.
  intros H. destruct H as [s|s t r Ht Hr|s o g c r Ho Hg Hc Hr|o flat c r Ho Hflat Hc Hr]; intros Hs B HB.
  - cbn [app]. destruct B as [|b B]; [reflexivity|]. cbn [hd_ok] in HB. apply closer_inv in HB. unfold sym_at. cbn [nth_error]. apply HB.
  - apply plain_inv in Ht. unfold sym_at. cbn [app nth_error]. apply Ht.
  - unfold sym_at. cbn [app nth_error]. apply lparen_not_lbrace. exact Ho.
  - exfalso. apply Hs. reflexivity.
Qed.

(* after a group: the run of further groups ends at a token that is not "{"; if it ends at "=>", the next token is
   not "{" either *)
Lemma bfalse_run s r : binner s r -> aftergroup s -> forall B, hd_ok closer B ->
  groups_len (r ++ B) 0 <= length r /\
  sym_at (r ++ B) (groups_len (r ++ B) 0) lbrace = false /\
  (sym_at (r ++ B) (groups_len (r ++ B) 0) s_arrow = true -> sym_at (r ++ B) (S (groups_len (r ++ B) 0)) lbrace = false).
Proof.
  induction 1 as [s|s t r Ht Hr IH|s o g c r Ho Hg IHg Hc Hr IHr|o flat c r Ho Hflat Hc Hr IH]; intros Hs B HB.
  - cbn [app length]. destruct B as [|b B]; [repeat split; auto; discriminate|].
    cbn [hd_ok] in HB. apply closer_inv in HB as (_ & H1 & H2 & H3 & _).
    rewrite groups_len_outside_stop by exact H2. unfold sym_at. cbn [nth_error]. repeat split; [lia | exact H1 | congruence].
  - pose proof (plain_inv t Ht) as (H1 & _ & H3 & _). cbn [app].
    rewrite groups_len_outside_stop by exact H1. split; [lia|]. split; [unfold sym_at; cbn [nth_error]; exact H3|].
    unfold sym_at at 1. cbn [nth_error]. intros Ha. change (sym_at (t :: r ++ B) 1 lbrace) with (sym_at (r ++ B) 0 lbrace).
    apply (nobrace_head _ r Hr); [|exact HB].
    assert (Hop : is_operator t s_colon = false) by (eapply symbol_not_operator; exact Ha).
    destruct Hs as [-> | ->]; cbn [bstep_plain]; [rewrite Hop, Ha|]; discriminate.
  - replace ((o :: g ++ c :: r) ++ B) with (o :: g ++ c :: (r ++ B)) by (norm_app; reflexivity).
    rewrite groups_len_outside_lparen by exact Ho.
    rewrite (groups_len_binner BSafe g Hg 1%Z) by lia.
    rewrite groups_len_inside_rparen by (assumption || lia).
    replace (1 - 1)%Z with 0%Z by lia.
    destruct (IHr (after_group_ag s) B HB) as (Hle & Hsym & Harr). set (e := groups_len (r ++ B) 0) in *.
    replace (S (length g + S e)) with (length (o :: g ++ [c]) + e) by (norm_len; lia).
    replace (S (length (o :: g ++ [c]) + e)) with (length (o :: g ++ [c]) + S e) by lia.
    replace (o :: g ++ c :: r ++ B) with ((o :: g ++ [c]) ++ (r ++ B)) by (norm_app; reflexivity).
    rewrite !sym_at_shift. split; [norm_len; lia|]. split; assumption.
  - destruct Hs; discriminate.
Qed.

(* a suffix that starts with "(" *)
Lemma isuf_lparen_shape v : isuf v -> sym_at v 0 lparen = true ->
  exists o g c s r B, v = (o :: g ++ [c]) ++ (r ++ B) /\ is_lparen o = true /\ binner BSafe g /\ is_rparen c = true /\
                    aftergroup s /\ binner s r /\ hd_ok closer B /\
                    groups_len v 0 = length (o :: g ++ [c]) + groups_len (r ++ B) 0.
Proof.
  intros (s & g & B & -> & Hg & HB) Hlp.
  destruct Hg as [s|s t r Ht Hr|s o g c r Ho Hg Hc Hr|o flat c r Ho Hflat Hc Hr].
  - cbn [app] in Hlp. destruct B as [|b B]; [discriminate|]. cbn [hd_ok] in HB. apply closer_inv in HB as (_ & _ & H & _).
    unfold sym_at in Hlp. cbn [nth_error] in Hlp. unfold is_lparen in H. congruence.
  - apply plain_inv in Ht as (H & _). unfold sym_at in Hlp. cbn [app nth_error] in Hlp. unfold is_lparen in H. congruence.
  - exists o, g, c, (after_group s), r, B. split; [norm_app; reflexivity|]. split; [exact Ho|]. split; [exact Hg|]. split; [exact Hc|].
    split; [apply after_group_ag|]. split; [exact Hr|]. split; [exact HB|].
    replace ((o :: g ++ c :: r) ++ B) with (o :: g ++ c :: (r ++ B)) by (norm_app; reflexivity).
    rewrite groups_len_outside_lparen by exact Ho.
    rewrite (groups_len_binner BSafe g Hg 1%Z) by lia.
    rewrite groups_len_inside_rparen by (assumption || lia).
    replace (1 - 1)%Z with 0%Z by lia. norm_len. lia.
  - apply lbrace_not_lparen in Ho. unfold sym_at in Hlp. cbn [app nth_error] in Hlp. unfold is_lparen in Ho. congruence.
Qed.

Lemma isuf_run v : isuf v -> sym_at v 0 lparen = true ->
  sym_at v (groups_len v 0) lbrace = false /\
  (sym_at v (groups_len v 0) s_arrow = true -> sym_at v (S (groups_len v 0)) lbrace = false).
Proof.
  intros Hv Hlp. destruct (isuf_lparen_shape v Hv Hlp) as (o & g & c & s & r & B & -> & Ho & Hg & Hc & Hs & Hr & HB & ->).
  destruct (bfalse_run s r Hr Hs B HB) as (_ & H1 & H2).
  replace (S (length (o :: g ++ [c]) + groups_len (r ++ B) 0))
    with (length (o :: g ++ [c]) + S (groups_len (r ++ B) 0)) by lia.
  rewrite !sym_at_shift. split; assumption.
Qed.

(* ---------- the candidate functions at the head of a list ---------- *)
Definition ge0 (W : list token) : option nat :=
  match W with x :: _ => if is_lparen x then Some (groups_len W 0) else None | [] => None end.

Lemma groups_end_0 W : groups_end W 0 = ge0 W.
Proof. unfold groups_end, sym_at, ge0. destruct W as [|x W]; reflexivity. Qed.

Lemma groups_end_shift P l k :
  groups_end (P ++ l) (length P + k) = option_map (fun j => length P + j) (groups_end l k).
Proof.
  unfold groups_end. rewrite sym_at_shift. destruct (sym_at l k lparen); [|reflexivity].
  cbn [option_map]. rewrite skipn_shift. f_equal. lia.
Qed.

Lemma ge0_groups gs t R : groups gs -> is_lparen t = false -> ge0 (gs ++ t :: R) = Some (length gs).
Proof.
  intros Hgs Ht. pose proof (groups_len_groups gs Hgs t R Ht) as Hrun.
  destruct (groups_head gs Hgs) as (p & r & -> & Hp). unfold ge0. cbn [app] in *. rewrite Hp, Hrun. reflexivity.
Qed.

Lemma groups_len_bgroups gs : bgroups gs -> forall t rest, is_lparen t = false ->
  groups_len (gs ++ t :: rest) 0 = length gs.
Proof.
  induction 1 as [g Hg|g r Hg Hr IH]; intros t rest Ht.
  - destruct Hg as [o g' c Ho Hg' Hc].
    replace ((o :: g' ++ [c]) ++ t :: rest) with (o :: g' ++ c :: t :: rest) by (norm_app; reflexivity).
    rewrite groups_len_outside_lparen by exact Ho.
    rewrite (groups_len_binner BSafe g' Hg' 1%Z) by lia.
    rewrite groups_len_inside_rparen by (assumption || lia).
    replace (1 - 1)%Z with 0%Z by lia. rewrite groups_len_outside_stop by exact Ht.
    norm_len. lia.
  - destruct Hg as [o g' c Ho Hg' Hc].
    replace (((o :: g' ++ [c]) ++ r) ++ t :: rest) with (o :: g' ++ c :: (r ++ t :: rest)) by (norm_app; reflexivity).
    rewrite groups_len_outside_lparen by exact Ho.
    rewrite (groups_len_binner BSafe g' Hg' 1%Z) by lia.
    rewrite groups_len_inside_rparen by (assumption || lia).
    replace (1 - 1)%Z with 0%Z by lia. rewrite IH by exact Ht.
    norm_len. lia.
Qed.

Lemma bgroups_head gs : bgroups gs -> exists o r, gs = o :: r /\ is_lparen o = true.
Proof.
  induction 1 as [g Hg|g r Hg Hr IH].
  - destruct Hg as [o g' c Ho _ _]. exists o, (g' ++ [c]). split; [reflexivity | exact Ho].
  - destruct Hg as [o g' c Ho _ _]. exists o, ((g' ++ [c]) ++ r). split; [reflexivity | exact Ho].
Qed.

Lemma ge0_bgroups gs t R : bgroups gs -> is_lparen t = false -> ge0 (gs ++ t :: R) = Some (length gs).
Proof.
  intros Hgs Ht. pose proof (groups_len_bgroups gs Hgs t R Ht) as Hrun.
  destruct (bgroups_head gs Hgs) as (p & r & -> & Hp). unfold ge0. cbn [app] in *. rewrite Hp, Hrun. reflexivity.
Qed.

Lemma cand_plain_0 t W :
  cand_plain (t :: W) 0 = if is_name t then match ge0 W with Some e => Some (0, S e) | None => None end else None.
Proof.
  unfold cand_plain. change (name_at (t :: W) 0) with (is_name t). destruct (is_name t); [|reflexivity].
  rewrite groups_end_cons, groups_end_0. destruct (ge0 W); reflexivity.
Qed.

Lemma cand_plain_nil : cand_plain [] 0 = None.
Proof. reflexivity. Qed.

Lemma cand_function_0 t W :
  cand_function (t :: W) 0 = if kw_is t s_function then shift1 (cand_plain W 0) else cand_plain (t :: W) 0.
Proof.
  unfold cand_function. change (kw_at (t :: W) 0 s_function) with (kw_is t s_function).
  destruct (kw_is t s_function); [|reflexivity].
  unfold cand_plain. change (name_at (t :: W) 1) with (name_at W 0).
  destruct (name_at W 0); [|reflexivity]. rewrite groups_end_cons.
  destruct (groups_end W 1); reflexivity.
Qed.

(* the arrow shape without the optional `const` *)
Definition arrow_nc (w : list token) : option (nat * nat) :=
  if name_at w 0 && op_at w 1 s_eq then
    let p := if kw_at w 2 s_async then 3 else 2 in
    match groups_end w p with
    | Some j => if sym_at w j s_arrow then Some (0, S j) else None
    | None => None
    end
  else None.

Lemma cand_arrow_0 t W :
  cand_arrow (t :: W) 0 = if kw_is t s_const then shift1 (arrow_nc W) else arrow_nc (t :: W).
Proof.
  unfold cand_arrow, arrow_nc. change (kw_at (t :: W) 0 s_const) with (kw_is t s_const).
  destruct (kw_is t s_const); [|reflexivity].
  shift_blocks t W. destruct (name_at W 0 && op_at W 1 s_eq); [|reflexivity].
  destruct (kw_at W 2 s_async); shift_blocks t W;
    (match goal with |- context [groups_end W ?k] => destruct (groups_end W k) as [j|] end; [|reflexivity]);
    shift_blocks t W; destruct (sym_at W j s_arrow); reflexivity.
Qed.

(* ---------- accepted / rejected ---------- *)
Lemma acc_none_intro c f w i : (forall n j, c w i = Some (n, j) -> f w j = false) -> acc c f w i = None.
Proof.
  intros H. unfold acc. destruct (c w i) as [[n j]|]; [|reflexivity]. rewrite (H n j eq_refl). reflexivity.
Qed.

Lemma acc_cand_none c f w i : c w i = None -> acc c f w i = None.
Proof. intros H. unfold acc. rewrite H. reflexivity. Qed.

Lemma acc_same c c' f w i : c w i = c' w i -> acc c f w i = acc c' f w i.
Proof. intros H. unfold acc. rewrite H. reflexivity. Qed.

Lemma follow_brace_S t W j : follow_brace (t :: W) (S j) = follow_brace W j.
Proof. reflexivity. Qed.

(* run / arrow tail after a prefix *)
Lemma groups_end_pre pre v j : groups_end (pre ++ v) (length pre) = Some j ->
  j = length pre + groups_len v 0 /\ sym_at v 0 lparen = true.
Proof.
  pose proof (groups_end_shift pre v 0) as S0. rewrite Nat.add_0_r in S0. rewrite S0.
  unfold groups_end. destruct (sym_at v 0 lparen); [|discriminate].
  cbn [option_map skipn Nat.add]. intros [= <-]. split; reflexivity.
Qed.

Lemma run_tail pre v j : isuf v -> groups_end (pre ++ v) (length pre) = Some j -> sym_at (pre ++ v) j lbrace = false.
Proof.
  intros Hv E. apply groups_end_pre in E as [-> Hlp]. rewrite sym_at_shift. apply (isuf_run _ Hv Hlp).
Qed.

Lemma arrow_tail pre v j : isuf v -> groups_end (pre ++ v) (length pre) = Some j ->
  sym_at (pre ++ v) j s_arrow = true -> sym_at (pre ++ v) (S j) lbrace = false.
Proof.
  intros Hv E. apply groups_end_pre in E as [-> Hlp]. rewrite sym_at_shift.
  replace (S (length pre + groups_len v 0)) with (length pre + S (groups_len v 0)) by lia.
  rewrite sym_at_shift. apply (isuf_run _ Hv Hlp).
Qed.

(* follow-up tests rejected at the end of the run of groups at the head of such a suffix *)
Definition isuf_rejects (f : follow_fn) : Prop :=
  forall v, isuf v -> sym_at v 0 lparen = true -> f v (groups_len v 0) = false.

Lemma isuf_rejects_brace : isuf_rejects follow_brace.
Proof. intros v Hv Hlp. unfold follow_brace. apply (isuf_run v Hv Hlp). Qed.

Lemma ge0_some W e : ge0 W = Some e -> e = groups_len W 0 /\ sym_at W 0 lparen = true.
Proof.
  unfold ge0, sym_at. destruct W as [|x W]; [discriminate|]. cbn [nth_error]. unfold is_lparen.
  destruct (is_symbol x lparen); [|discriminate]. intros [= <-]. split; reflexivity.
Qed.

Lemma fshift_S f t W j : fshift f -> f (t :: W) (S j) = f W j.
Proof. intros Hf. exact (Hf [t] W j). Qed.

(* cand_plain *)
Lemma isuf_plain f w : fshift f -> isuf_rejects f -> isuf w -> acc cand_plain f w 0 = None.
Proof.
  intros Hf Hr Hw. destruct w as [|t W]; [reflexivity|]. apply acc_none_intro. intros n j E.
  rewrite cand_plain_0 in E. destruct (is_name t) eqn:En; [|discriminate].
  pose proof (isuf_tail_name t W Hw En) as HW.
  destruct (ge0 W) as [e|] eqn:Ee; [|discriminate]. injection E as <- <-.
  rewrite (fshift_S f t W e Hf). destruct (ge0_some W e Ee) as [-> Hlp]. apply Hr; assumption.
Qed.

Lemma plain_not_name f t W : is_name t = false -> acc cand_plain f (t :: W) 0 = None.
Proof. intros H. apply acc_cand_none. rewrite cand_plain_0, H. reflexivity. Qed.

Lemma ge0_nlp W : hd_ok nlp W -> ge0 W = None.
Proof.
  destruct W as [|x W]; [reflexivity|]. cbn [hd_ok ge0]. unfold nlp. intros H. apply negb_true_iff in H. rewrite H. reflexivity.
Qed.

Lemma plain_not_lparen f t W : hd_ok nlp W -> acc cand_plain f (t :: W) 0 = None.
Proof.
  intros H. apply acc_cand_none. rewrite cand_plain_0, (ge0_nlp W H). destruct (is_name t); reflexivity.
Qed.

(* cand_function *)
Lemma isuf_function f w : fshift f -> isuf_rejects f -> isuf w -> acc cand_function f w 0 = None.
Proof.
  intros Hf Hr Hw. destruct w as [|t W]; [reflexivity|].
  destruct (kw_is t s_function) eqn:Ek.
  - apply acc_none_intro. intros n j E. rewrite cand_function_0, Ek in E.
    pose proof (isuf_tail_keyword t W Hw (kw_is_keyword _ _ Ek)) as HW.
    destruct W as [|x W']; [discriminate|]. rewrite cand_plain_0 in E.
    destruct (is_name x) eqn:En; [|discriminate].
    pose proof (isuf_tail_name x W' HW En) as HW'.
    destruct (ge0 W') as [e|] eqn:Ee; [|discriminate]. cbn [shift1] in E. injection E as <- <-.
    rewrite !(fshift_S f _ _ _ Hf). destruct (ge0_some W' e Ee) as [-> Hlp]. apply Hr; assumption.
  - rewrite (acc_same cand_function cand_plain) by (rewrite cand_function_0, Ek; reflexivity).
    apply isuf_plain; assumption.
Qed.

Lemma function_not_name f t W : kw_is t s_function = false -> is_name t = false -> acc cand_function f (t :: W) 0 = None.
Proof. intros Hk Hn. apply acc_cand_none. rewrite cand_function_0, Hk, cand_plain_0, Hn. reflexivity. Qed.

Lemma function_not_lparen f t W : kw_is t s_function = false -> hd_ok nlp W -> acc cand_function f (t :: W) 0 = None.
Proof.
  intros Hk H. apply acc_cand_none. rewrite cand_function_0, Hk, cand_plain_0, (ge0_nlp W H). destruct (is_name t); reflexivity.
Qed.

Definition notname (t : token) : bool := negb (is_name t).

Lemma cand_plain_notname W : hd_ok notname W -> cand_plain W 0 = None.
Proof.
  destruct W as [|x W]; [reflexivity|]. cbn [hd_ok]. unfold notname. intros H. apply negb_true_iff in H.
  rewrite cand_plain_0, H. reflexivity.
Qed.

Lemma function_kw_notname f t W : is_name t = false -> hd_ok notname W -> acc cand_function f (t :: W) 0 = None.
Proof.
  intros Hn H. apply acc_cand_none. rewrite cand_function_0. destruct (kw_is t s_function).
  - rewrite (cand_plain_notname W H). reflexivity.
  - rewrite cand_plain_0, Hn. reflexivity.
Qed.

(* cand_arrow *)
Lemma arrow_nc_nil : arrow_nc [] = None.
Proof. reflexivity. Qed.

Lemma arrow_nc_not_name t W : is_name t = false -> arrow_nc (t :: W) = None.
Proof. intros H. unfold arrow_nc. change (name_at (t :: W) 0) with (is_name t). rewrite H. reflexivity. Qed.

Lemma arrow_nc_notname W : hd_ok notname W -> arrow_nc W = None.
Proof.
  destruct W as [|x W]; [reflexivity|]. cbn [hd_ok]. unfold notname. intros H. apply negb_true_iff in H.
  apply arrow_nc_not_name. exact H.
Qed.

Definition noteq (t : token) : bool := negb (is_operator t s_eq).

Lemma arrow_nc_noteq t W : hd_ok noteq W -> arrow_nc (t :: W) = None.
Proof.
  intros H. unfold arrow_nc. change (op_at (t :: W) 1 s_eq) with (op_at W 0 s_eq).
  assert (E : op_at W 0 s_eq = false).
  { destruct W as [|x W]; [reflexivity|]. cbn [hd_ok] in H. unfold noteq in H. apply negb_true_iff in H. exact H. }
  rewrite E, andb_false_r. reflexivity.
Qed.

Lemma isuf_arrow_nc w : isuf w -> forall n j, arrow_nc w = Some (n, j) -> sym_at w j lbrace = false.
Proof.
  intros Hw n j E. unfold arrow_nc in E.
  destruct w as [|x0 w1]; [discriminate|]. change (name_at (x0 :: w1) 0) with (is_name x0) in E.
  destruct (is_name x0) eqn:E0; [|discriminate]. cbn [andb] in E.
  pose proof (isuf_tail_name x0 w1 Hw E0) as H1.
  destruct w1 as [|x1 w2]; [discriminate|]. change (op_at (x0 :: x1 :: w2) 1 s_eq) with (is_operator x1 s_eq) in E.
  destruct (is_operator x1 s_eq) eqn:E1; [|discriminate].
  pose proof (isuf_tail_operator x1 w2 s_eq H1 E1) as H2.
  destruct w2 as [|x2 w3].
  - discriminate.
  - change (kw_at (x0 :: x1 :: x2 :: w3) 2 s_async) with (kw_is x2 s_async) in E.
    destruct (kw_is x2 s_async) eqn:E2; cbv zeta iota in E.
    + pose proof (isuf_tail_keyword x2 w3 H2 (kw_is_keyword _ _ E2)) as H3.
      destruct (groups_end (x0 :: x1 :: x2 :: w3) 3) as [j0|] eqn:Eg; [|discriminate].
      destruct (sym_at (x0 :: x1 :: x2 :: w3) j0 s_arrow) eqn:Ea; [|discriminate]. injection E as <- <-.
      exact (arrow_tail [x0; x1; x2] w3 j0 H3 Eg Ea).
    + destruct (groups_end (x0 :: x1 :: x2 :: w3) 2) as [j0|] eqn:Eg; [|discriminate].
      destruct (sym_at (x0 :: x1 :: x2 :: w3) j0 s_arrow) eqn:Ea; [|discriminate]. injection E as <- <-.
      exact (arrow_tail [x0; x1] (x2 :: w3) j0 H2 Eg Ea).
Qed.

Lemma isuf_arrow w : isuf w -> acc cand_arrow follow_brace w 0 = None.
Proof.
  intros Hw. destruct w as [|t W]; [reflexivity|]. apply acc_none_intro. intros n j E.
  rewrite cand_arrow_0 in E. destruct (kw_is t s_const) eqn:Ek.
  - pose proof (isuf_tail_keyword t W Hw (kw_is_keyword _ _ Ek)) as HW.
    destruct (arrow_nc W) as [[n' j']|] eqn:Ea; [|discriminate]. cbn [shift1] in E. injection E as <- <-.
    rewrite follow_brace_S. exact (isuf_arrow_nc W HW n' j' Ea).
  - exact (isuf_arrow_nc (t :: W) Hw n j E).
Qed.

Lemma arrow_not_name f t W : kw_is t s_const = false -> is_name t = false -> acc cand_arrow f (t :: W) 0 = None.
Proof. intros Hk Hn. apply acc_cand_none. rewrite cand_arrow_0, Hk. apply arrow_nc_not_name. exact Hn. Qed.

Lemma arrow_noteq f t W : kw_is t s_const = false -> hd_ok noteq W -> acc cand_arrow f (t :: W) 0 = None.
Proof. intros Hk H. apply acc_cand_none. rewrite cand_arrow_0, Hk. apply arrow_nc_noteq. exact H. Qed.

Lemma arrow_kw_notname f t W : is_name t = false -> hd_ok notname W -> acc cand_arrow f (t :: W) 0 = None.
Proof.
  intros Hn H. apply acc_cand_none. rewrite cand_arrow_0. destruct (kw_is t s_const).
  - rewrite (arrow_nc_notname W H). reflexivity.
  - apply arrow_nc_not_name. exact Hn.
Qed.

(* ---------- keywords ---------- *)
Lemma kw_is_other t a b : kw_is t a = true -> a <> b -> kw_is t b = false.
Proof.
  unfold kw_is. intros H Hab. apply andb_prop in H as [_ H]. apply pstr_eqb_eq in H.
  destruct (pystr_eqb (t_value t) b) eqn:E; [|apply andb_false_r]. apply pstr_eqb_eq in E. congruence.
Qed.
Lemma kw_is_not_keyword t s : is_keyword t = false -> kw_is t s = false.
Proof. unfold kw_is. intros ->. reflexivity. Qed.
Lemma name_not_kw_is t s : is_name t = true -> kw_is t s = false.
Proof. intros H. apply kw_is_not_keyword, name_not_keyword, H. Qed.

(* ---------- words ---------- *)
Definition word (t : token) : bool := is_name t || is_keyword t.

Lemma word_inv t : word t = true -> is_lparen t = false /\ is_operator t s_eq = false.
Proof.
  unfold word. intros H. apply orb_prop in H as [H|H].
  - split; [apply (name_not_symbol _ _ H) | apply name_not_operator; exact H].
  - split; [apply (keyword_not_symbol _ _ H) | apply keyword_not_operator; exact H].
Qed.

Lemma word_nlp W : hd_ok word W -> hd_ok nlp W.
Proof. destruct W as [|x W]; [auto|]. cbn [hd_ok]. intros H. apply word_inv in H as [H _]. unfold nlp. rewrite H. reflexivity. Qed.
Lemma word_noteq W : hd_ok word W -> hd_ok noteq W.
Proof. destruct W as [|x W]; [auto|]. cbn [hd_ok]. intros H. apply word_inv in H as [_ H]. unfold noteq. rewrite H. reflexivity. Qed.

Lemma prefix_word_inv l t : prefix_word l t = true ->
  kw_is t s_function = false /\ kw_is t s_const = false /\
  kw_is t kw_new = false /\ kw_is t kw_record = false /\ word t = true.
Proof.
  unfold prefix_word. intros H.
  apply andb_prop in H as [H H5]. apply andb_prop in H as [H H4].
  apply andb_prop in H as [H H2]. apply andb_prop in H as [H0 H1].
  apply negb_true_iff in H1, H2, H4, H5.
  unfold prefix_tok in H0. apply andb_prop in H0 as [H0 _]. unfold word. auto 10.
Qed.

Lemma fhead_first l hd n h : fhead l hd n h -> exists x hd', hd = x :: hd' /\ word x = true.
Proof.
  intros H. destruct H; eexists _, _; (split; [reflexivity|]); unfold word;
    repeat match goal with
           | H : is_name _ = true |- _ => rewrite H
           | H : kw_is _ _ = true |- _ => rewrite (kw_is_keyword _ _ H)
           end; rewrite ?orb_true_r; reflexivity.
Qed.

(* ---------- no candidate before a brace that no parenthesis precedes ---------- *)
Definition brace (t : token) : Prop := is_lbrace t = true \/ is_rbrace t = true.
Lemma brace_inv t : brace t -> is_lparen t = false /\ is_name t = false /\ is_keyword t = false.
Proof.
  intros [H|H].
  - split; [apply lbrace_not_lparen; exact H|]. split; [eapply symbol_not_name | eapply symbol_not_keyword]; exact H.
  - split; [apply rbrace_not_lparen; exact H|]. split; [eapply symbol_not_name | eapply symbol_not_keyword]; exact H.
Qed.

Inductive chain : list token -> Prop :=
| chain_end o B : brace o -> chain (o :: B)
| chain_cons t W : is_lparen t = false -> chain W -> chain (t :: W).

Lemma chain_ge0 W : chain W -> ge0 W = None.
Proof.
  intros [o B Ho|t W' Ht _]; unfold ge0.
  - apply brace_inv in Ho as (H & _). rewrite H. reflexivity.
  - rewrite Ht. reflexivity.
Qed.

Lemma chain_plain W : chain W -> cand_plain W 0 = None.
Proof.
  intros [o B Ho|t W' Ht HW]; rewrite cand_plain_0.
  - apply brace_inv in Ho as (_ & H & _). rewrite H. reflexivity.
  - rewrite (chain_ge0 W' HW). destruct (is_name t); reflexivity.
Qed.

Lemma chain_function W : chain W -> cand_function W 0 = None.
Proof.
  intros H. pose proof (chain_plain W H) as HP. destruct H as [o B Ho|t W' Ht HW]; rewrite cand_function_0.
  - apply brace_inv in Ho as (_ & _ & H). rewrite (kw_is_not_keyword _ _ H). exact HP.
  - destruct (kw_is t s_function); [|exact HP]. rewrite (chain_plain W' HW). reflexivity.
Qed.

Definition nobrace_at (W : list token) (q : nat) : Prop := sym_at W q lbrace = false /\ sym_at W q rbrace = false.

Lemma chain_lparen_at W : chain W -> forall p, (forall q, q < p -> nobrace_at W q) -> sym_at W p lparen = false.
Proof.
  induction 1 as [o B Ho|t W' Ht HW IH]; intros p Hq.
  - destruct p as [|p]; [apply brace_inv in Ho; apply Ho|].
    destruct (Hq 0 (Nat.lt_0_succ p)) as [H1 H2]. unfold sym_at in H1, H2. cbn [nth_error] in H1, H2.
    unfold brace, is_lbrace, is_rbrace in Ho. destruct Ho; congruence.
  - destruct p as [|p]; [exact Ht|]. change (sym_at (t :: W') (S p) lparen) with (sym_at W' p lparen).
    apply IH. intros q Hlt. exact (Hq (S q) (proj1 (Nat.succ_lt_mono q p) Hlt)).
Qed.

Lemma name_at_nobrace W q : name_at W q = true -> nobrace_at W q.
Proof.
  unfold name_at, nobrace_at, sym_at. destruct (nth_error W q) as [t|]; [|split; reflexivity].
  intros H. split; apply name_not_symbol; exact H.
Qed.
Lemma op_at_nobrace W q s : op_at W q s = true -> nobrace_at W q.
Proof.
  unfold op_at, nobrace_at, sym_at. destruct (nth_error W q) as [t|]; [|split; reflexivity].
  intros H. split; eapply operator_not_symbol; exact H.
Qed.
Lemma kw_at_nobrace W q s : kw_at W q s = true -> nobrace_at W q.
Proof.
  unfold kw_at, nobrace_at, sym_at. destruct (nth_error W q) as [t|]; [|split; reflexivity]. intros H. apply andb_prop in H as [H _].
  split; apply keyword_not_symbol; exact H.
Qed.

Lemma chain_arrow_nc W : chain W -> arrow_nc W = None.
Proof.
  intros H. unfold arrow_nc.
  destruct (name_at W 0) eqn:E0; [|reflexivity]. destruct (op_at W 1 s_eq) eqn:E1; [|reflexivity]. cbn [andb].
  destruct (kw_at W 2 s_async) eqn:E2; cbv zeta iota.
  - assert (E : sym_at W 3 lparen = false).
    { apply (chain_lparen_at W H). intros q Hq.
      destruct q as [|[|[|q]]]; [apply name_at_nobrace; exact E0 | eapply op_at_nobrace; exact E1
                                 | eapply kw_at_nobrace; exact E2 | lia]. }
    unfold groups_end. rewrite E. reflexivity.
  - assert (E : sym_at W 2 lparen = false).
    { apply (chain_lparen_at W H). intros q Hq.
      destruct q as [|[|q]]; [apply name_at_nobrace; exact E0 | eapply op_at_nobrace; exact E1 | lia]. }
    unfold groups_end. rewrite E. reflexivity.
Qed.

Lemma chain_arrow W : chain W -> cand_arrow W 0 = None.
Proof.
  intros H. pose proof (chain_arrow_nc W H) as HP. destruct H as [o B Ho|t W' Ht HW]; rewrite cand_arrow_0.
  - apply brace_inv in Ho as (_ & _ & H). rewrite (kw_is_not_keyword _ _ H). exact HP.
  - destruct (kw_is t s_const); [|exact HP]. rewrite (chain_arrow_nc W' HW). reflexivity.
Qed.

Lemma plains_chain ps b B : forallb plain ps = true -> brace b -> chain (ps ++ b :: B).
Proof.
  intros Hps Hb. induction ps as [|t ps IH]; [apply chain_end; exact Hb|].
  cbn [forallb] in Hps. apply andb_prop in Hps as [Ht Hps]. cbn [app]. apply chain_cons; [|apply IH; exact Hps].
  apply plain_inv in Ht. apply Ht.
Qed.

(* plain tokens up to a brace, the brace included: no accepted candidate *)
Lemma plains_no_acc_gen c f (Hc : cshift c) (Hf : fshift f) (Hch : forall W, chain W -> acc c f W 0 = None) ps b B :
  forallb plain ps = true -> brace b -> no_acc c f (ps ++ [b]) B.
Proof.
  intros Hps Hb. induction ps as [|t ps IH].
  - apply no_acc_single. apply Hch. apply chain_end. exact Hb.
  - cbn [app]. apply (no_acc_cons c f Hc Hf).
    + apply Hch. rewrite <- app_assoc. apply (plains_chain (t :: ps) b B Hps Hb).
    + apply IH. cbn [forallb] in Hps. apply andb_prop in Hps as [_ Hps]. exact Hps.
Qed.

(* the front of an initialiser statement: plain tokens, "{", plain tokens, "}" *)
Lemma init_front_no_acc_gen c f (Hc : cshift c) (Hf : fshift f) (Hch : forall W, chain W -> acc c f W 0 = None) pre o flat cl B :
  forallb plain pre = true -> is_lbrace o = true -> forallb plain flat = true -> is_rbrace cl = true ->
  no_acc c f (pre ++ o :: flat ++ [cl]) B.
Proof.
  intros Hpre Ho Hflat Hcl.
  replace (pre ++ o :: flat ++ [cl]) with ((pre ++ [o]) ++ flat ++ [cl]) by (norm_app; reflexivity).
  apply (no_acc_app c f Hc Hf).
  - apply plains_no_acc_gen; try assumption. left. exact Ho.
  - apply plains_no_acc_gen; try assumption. right. exact Hcl.
Qed.

(* ---------- the words of a declaration / control line ---------- *)
(* one or more words, then "{", or — after a word that is no name — "(" *)
Inductive wlist : list token -> Prop :=
| wl_brace t o B : word t = true -> is_lbrace o = true -> wlist (t :: o :: B)
| wl_group t p R : word t = true -> is_name t = false -> is_lparen p = true -> wlist (t :: p :: R)
| wl_cons t V : word t = true -> wlist V -> wlist (t :: V).

Lemma wlist_plain V : wlist V -> cand_plain V 0 = None.
Proof.
  intros [t o B Ht Ho|t p R Ht Hn Hp|t V' Ht HV]; rewrite cand_plain_0.
  - unfold ge0. rewrite (lbrace_not_lparen o Ho). destruct (is_name t); reflexivity.
  - rewrite Hn. reflexivity.
  - assert (E : ge0 V' = None).
    { destruct HV as [t' ? ? Ht' _|t' ? ? Ht' _ _|t' ? Ht' _]; unfold ge0;
        apply word_inv in Ht' as [Ht' _]; rewrite Ht'; reflexivity. }
    rewrite E. destruct (is_name t); reflexivity.
Qed.

Lemma wlist_tail_plain t V : wlist (t :: V) -> cand_plain V 0 = None.
Proof.
  intros H. inversion H as [? o B _ Ho|? p R _ _ Hp|? ? _ HV]; subst.
  - rewrite cand_plain_0, (symbol_not_name _ _ Ho). reflexivity.
  - rewrite cand_plain_0, (symbol_not_name _ _ Hp). reflexivity.
  - apply wlist_plain. exact HV.
Qed.

Lemma wlist_function V : wlist V -> cand_function V 0 = None.
Proof.
  intros H. pose proof (wlist_plain V H) as HP. destruct V as [|t V']; [inversion H|].
  rewrite cand_function_0. destruct (kw_is t s_function); [|exact HP].
  rewrite (wlist_tail_plain t V' H). reflexivity.
Qed.

Lemma wlist_head_noteq t V : wlist (t :: V) -> hd_ok noteq V.
Proof.
  intros H. inversion H as [? o B _ Ho|? p R _ _ Hp|? ? _ HV]; subst; cbn [hd_ok]; unfold noteq.
  - rewrite (symbol_not_operator _ _ _ Ho). reflexivity.
  - rewrite (symbol_not_operator _ _ _ Hp). reflexivity.
  - destruct HV as [t' ? ? Ht' _|t' ? ? Ht' _ _|t' ? Ht' _]; cbn [hd_ok];
      apply word_inv in Ht' as [_ Ht']; rewrite Ht'; reflexivity.
Qed.

Lemma wlist_arrow_nc V : wlist V -> arrow_nc V = None.
Proof.
  intros H. destruct V as [|t V']; [inversion H|]. apply arrow_nc_noteq. eapply wlist_head_noteq. exact H.
Qed.

Lemma wlist_tail_arrow_nc t V : wlist (t :: V) -> arrow_nc V = None.
Proof.
  intros H. inversion H as [? o B _ Ho|? p R _ _ Hp|? ? _ HV]; subst.
  - apply arrow_nc_not_name. eapply symbol_not_name; exact Ho.
  - apply arrow_nc_not_name. eapply symbol_not_name; exact Hp.
  - apply wlist_arrow_nc. exact HV.
Qed.

Lemma wlist_arrow V : wlist V -> cand_arrow V 0 = None.
Proof.
  intros H. pose proof (wlist_arrow_nc V H) as HP. destruct V as [|t V']; [inversion H|].
  rewrite cand_arrow_0. destruct (kw_is t s_const); [|exact HP].
  rewrite (wlist_tail_arrow_nc t V' H). reflexivity.
Qed.

(* the words of a control line in their context *)
Definition last_not_name (ws : list token) : Prop := ws = [] \/ is_name (last ws (mkTok KOther [] 0 0)) = false.

Lemma words_wlist t ws cond R :
  word t = true -> forallb word ws = true ->
  (cond = [] \/ (groups cond /\ is_name (last (t :: ws) (mkTok KOther [] 0 0)) = false)) ->
  hd_ok (fun x => is_lbrace x) R -> R <> [] ->
  wlist ((t :: ws) ++ cond ++ R).
Proof.
  intros Ht Hws Hcond HR Hne. revert t Ht Hcond. induction ws as [|t' ws IH]; intros t Ht Hcond.
  - cbn [app]. destruct Hcond as [->|[Hg Hl]].
    + cbn [app]. destruct R as [|o B]; [congruence|]. apply wl_brace; [exact Ht | exact HR].
    + destruct (groups_head cond Hg) as (p & r & -> & Hp). cbn [app]. apply wl_group; [exact Ht | exact Hl | exact Hp].
  - cbn [forallb] in Hws. apply andb_prop in Hws as [Ht' Hws]. cbn [app]. apply wl_cons; [exact Ht|].
    apply (IH Hws t' Ht'). destruct Hcond as [->|[Hg Hl]]; [left; reflexivity | right; split; [exact Hg | exact Hl]].
Qed.

Lemma last_default_irrelevant {A} (l : list A) a d d' : last (a :: l) d = last (a :: l) d'.
Proof. revert a. induction l as [|b l IH]; intros a; [reflexivity|]. change (last (b :: l) d = last (b :: l) d'). apply IH. Qed.

(* one or more words followed by R: no accepted candidate, for any selection that rejects word lists *)
Lemma words_no_acc_gen c f (Hc : cshift c) (Hf : fshift f) (Hw : forall V, wlist V -> acc c f V 0 = None) ws cond R B :
  ws <> [] -> forallb word ws = true ->
  (cond = [] \/ (groups cond /\ is_name (last ws (mkTok KOther [] 0 0)) = false)) ->
  hd_ok (fun x => is_lbrace x) R -> R <> [] ->
  no_acc c f ws ((cond ++ R) ++ B).
Proof.
  intros Hne Hws Hcond HR HRne. induction ws as [|t ws IH]; [congruence|].
  cbn [forallb] in Hws. apply andb_prop in Hws as [Ht Hws].
  apply (no_acc_cons c f Hc Hf).
  - apply Hw.
    replace (t :: ws ++ (cond ++ R) ++ B) with ((t :: ws) ++ cond ++ (R ++ B)) by (norm_app; reflexivity).
    apply words_wlist; try assumption.
    + destruct R; [congruence | exact HR].
    + destruct R; [congruence | discriminate].
  - destruct ws as [|t' ws']; [apply no_acc_nil|]. apply IH; [discriminate | exact Hws|].
    destruct Hcond as [->|[Hg Hl]]; [left; reflexivity | right; split; [exact Hg | exact Hl]].
Qed.

(* kw :: words of a control line *)
Lemma ctrl_words_no_acc c f (Hc : cshift c) (Hf : fshift f) (Hw : forall V, wlist V -> acc c f V 0 = None) kw words cond o B :
  is_keyword kw = true -> forallb word_tok words = true ->
  (cond = [] \/ (groups cond /\ is_name (last (kw :: words) kw) = false)) -> is_lbrace o = true ->
  no_acc c f (kw :: words) ((cond ++ [o]) ++ B).
Proof.
  intros Hkw Hwords Hcond Ho.
  apply (words_no_acc_gen c f Hc Hf Hw); [discriminate | | | exact Ho | discriminate].
  - cbn [forallb]. unfold word at 1. rewrite Hkw, orb_true_r. exact Hwords.
  - destruct Hcond as [->|[Hg Hl]]; [left; reflexivity | right; split; [exact Hg|]].
    rewrite (last_default_irrelevant words kw _ kw). exact Hl.
Qed.

(* ---------- the statement with a brace initialiser ---------- *)
Lemma inner_of_plains_tok l : forallb plain l = true -> inner l.
Proof.
  induction l as [|t l IH]; intros H; [constructor|].
  cbn [forallb] in H. apply andb_prop in H as [Ht Hl]. apply inner_plain; [exact Ht | apply IH; exact Hl].
Qed.

(* the closing "}" seen as a token of another kind with the same text: no shape can tell the difference *)
Definition unbrace (t : token) : token := mkTok KOther (t_value t) (t_line t) (t_col t).

Lemma unbrace_plain t : plain (unbrace t) = true.
Proof. reflexivity. Qed.

Lemma unbrace_sim t : is_rbrace t = true -> tsim t (unbrace t).
Proof.
  intros H. unfold tsim.
  rewrite (symbol_not_name _ _ H), (symbol_not_keyword _ _ H).
  unfold is_rbrace in H.
  rewrite (symbol_other t rbrace lparen H), (symbol_other t rbrace rparen H), (symbol_other t rbrace lbrace H),
          (symbol_other t rbrace s_arrow H) by discriminate.
  repeat split; try reflexivity. intros s0. rewrite (symbol_not_operator _ _ s0 H). reflexivity.
Qed.

(* flat } post ;  —  for the shapes an ordinary statement *)
Lemma init_tail_no_acc_gen c f (Hci : cinv c) (Hfi : finv f)
  (Hstmt : forall s B, simple_stmt s -> no_acc c f s B) flat cl post semi B :
  inner flat -> is_rbrace cl = true -> inner post -> is_symbol semi semicolon = true ->
  no_acc c f (flat ++ cl :: post ++ [semi]) B.
Proof.
  intros Hflat Hcl Hpost Hsemi.
  apply (no_acc_sim c f _ (flat ++ unbrace cl :: post ++ [semi]) B Hci Hfi).
  - apply lsim_app; [apply lsim_refl|]. constructor; [apply unbrace_sim; exact Hcl | apply lsim_refl].
  - apply Hstmt. exists (flat ++ unbrace cl :: post), semi. split; [norm_app; reflexivity|]. split; [|exact Hsemi].
    apply inner_app; [exact Hflat|]. apply inner_plain; [apply unbrace_plain | exact Hpost].
Qed.

(* ---------- the good selections ---------- *)
Record good (l : language) (c : cand_fn) (f : follow_fn) : Prop := mkGood
  { g_c : cshift c;
    g_f : fshift f;
    g_isuf : forall w, isuf w -> acc c f w 0 = None;
    g_sym : forall t W, is_name t = false -> is_keyword t = false -> acc c f (t :: W) 0 = None;
    g_wlist : forall V, wlist V -> acc c f V 0 = None;
    g_chain : forall W, chain W -> acc c f W 0 = None;
    g_prefix : forall t W, prefix_word l t = true -> hd_ok word W -> acc c f (t :: W) 0 = None;
    g_kwsym : forall t W, is_keyword t = true -> hd_ok notname W -> acc c f (t :: W) 0 = None;
    g_cinv : cinv c;
    g_finv : finv f }.

Lemma good_plain_f l f : fshift f -> isuf_rejects f -> finv f -> good l cand_plain f.
Proof.
  intros Hf Hr Hfi. constructor.
  - apply cshift_plain.
  - exact Hf.
  - intros w. apply isuf_plain; assumption.
  - intros t W Hn _. apply plain_not_name. exact Hn.
  - intros V HV. apply acc_cand_none, wlist_plain, HV.
  - intros W HW. apply acc_cand_none, chain_plain, HW.
  - intros t W _ HW. apply plain_not_lparen. apply word_nlp. exact HW.
  - intros t W Hk _. apply plain_not_name. apply keyword_not_name. exact Hk.
  - apply cinv_plain.
  - exact Hfi.
Qed.

Lemma good_function_f l f : fshift f -> isuf_rejects f -> finv f -> good l cand_function f.
Proof.
  intros Hf Hr Hfi. constructor.
  - apply cshift_function.
  - exact Hf.
  - intros w. apply isuf_function; assumption.
  - intros t W Hn Hk. apply function_not_name; [apply kw_is_not_keyword; exact Hk | exact Hn].
  - intros V HV. apply acc_cand_none, wlist_function, HV.
  - intros W HW. apply acc_cand_none, chain_function, HW.
  - intros t W Hp HW. apply prefix_word_inv in Hp as (H1 & _). apply function_not_lparen; [exact H1 | apply word_nlp; exact HW].
  - intros t W Hk HW. apply function_kw_notname; [apply keyword_not_name; exact Hk | exact HW].
  - apply cinv_function.
  - exact Hfi.
Qed.

Lemma good_plain l : good l cand_plain follow_brace.
Proof. apply good_plain_f; [apply fshift_brace | apply isuf_rejects_brace | apply finv_brace]. Qed.

Lemma good_function l : good l cand_function follow_brace.
Proof. apply good_function_f; [apply fshift_brace | apply isuf_rejects_brace | apply finv_brace]. Qed.

Lemma good_arrow l : good l cand_arrow follow_brace.
Proof.
  constructor.
  - apply cshift_arrow.
  - apply fshift_brace.
  - apply isuf_arrow.
  - intros t W Hn Hk. apply arrow_not_name; [apply kw_is_not_keyword; exact Hk | exact Hn].
  - intros V HV. apply acc_cand_none, wlist_arrow, HV.
  - intros W HW. apply acc_cand_none, chain_arrow, HW.
  - intros t W Hp HW. apply prefix_word_inv in Hp as (_ & H2 & _). apply arrow_noteq; [exact H2 | apply word_noteq; exact HW].
  - intros t W Hk HW. apply arrow_kw_notname; [apply keyword_not_name; exact Hk | exact HW].
  - apply cinv_arrow.
  - apply finv_brace.
Qed.

Lemma good_never l : good l cand_never follow_brace.
Proof. constructor; try reflexivity; [apply cshift_never | apply fshift_brace | apply cinv_never | apply finv_brace]. Qed.

(* ---------- pieces of the grammar without accepted candidate ---------- *)
Section Pieces.
  Variable l : language.
  Variable c : cand_fn.
  Variable f : follow_fn.
  Hypothesis G : good l c f.

  Lemma inner_no_acc g B : inner g -> hd_ok closer B -> no_acc c f g B.
  Proof.
    intros Hg HB. apply (no_acc_suffixes c f (g_c _ _ _ G) (g_f _ _ _ G)). intros k Hk.
    apply (g_isuf _ _ _ G). apply isuf_skipn; [exact Hg | exact HB | lia].
  Qed.

  Lemma symbol_no_acc t s B : is_symbol t s = true -> no_acc c f [t] B.
  Proof.
    intros H. apply no_acc_single. apply (g_sym _ _ _ G); [eapply symbol_not_name | eapply symbol_not_keyword]; exact H.
  Qed.

  Lemma operator_no_acc t s B : is_operator t s = true -> no_acc c f [t] B.
  Proof.
    intros H. apply no_acc_single. apply (g_sym _ _ _ G); [eapply operator_not_name | eapply operator_not_keyword]; exact H.
  Qed.

  Lemma group_no_acc g B : group g -> no_acc c f g B.
  Proof.
    intros [o g' c0 Ho Hg Hc].
    change (o :: g' ++ [c0]) with ([o] ++ g' ++ [c0]).
    apply (no_acc_app c f (g_c _ _ _ G) (g_f _ _ _ G)); [eapply symbol_no_acc; exact Ho|].
    apply (no_acc_app c f (g_c _ _ _ G) (g_f _ _ _ G)); [|eapply symbol_no_acc; exact Hc].
    apply inner_no_acc; [exact Hg|]. cbn [app hd_ok]. apply rparen_closer. exact Hc.
  Qed.

  Lemma groups_no_acc gs B : groups gs -> no_acc c f gs B.
  Proof.
    intros H. revert B. induction H as [g Hg|g r Hg Hr IH]; intros B.
    - apply group_no_acc; exact Hg.
    - apply (no_acc_app c f (g_c _ _ _ G) (g_f _ _ _ G)); [apply group_no_acc; exact Hg | apply IH].
  Qed.

  (* parameter lists with flat brace groups *)
  Lemma binner_no_acc ok g : binner ok g -> forall B, hd_ok closer B -> no_acc c f g B.
  Proof.
    induction 1 as [ok|ok t r Ht Hr IH|ok o g c0 r Ho Hg IHg Hc Hr IHr|o flat c0 r Ho Hflat Hc Hr IH]; intros B HB.
    - apply no_acc_nil.
    - apply (no_acc_cons c f (g_c _ _ _ G) (g_f _ _ _ G)); [|apply IH; exact HB].
      apply (g_isuf _ _ _ G). apply (isuf_intro_b ok (t :: r) B); [apply bi_plain; assumption | exact HB].
    - change (o :: g ++ c0 :: r) with ([o] ++ g ++ [c0] ++ r).
      apply (no_acc_app c f (g_c _ _ _ G) (g_f _ _ _ G)); [eapply symbol_no_acc; exact Ho|].
      apply (no_acc_app c f (g_c _ _ _ G) (g_f _ _ _ G)).
      + apply IHg. cbn [app hd_ok]. apply rparen_closer. exact Hc.
      + apply (no_acc_app c f (g_c _ _ _ G) (g_f _ _ _ G)); [eapply symbol_no_acc; exact Hc | apply IHr; exact HB].
    - replace (o :: flat ++ c0 :: r) with (([] ++ o :: flat ++ [c0]) ++ r) by (norm_app; reflexivity).
      apply (no_acc_app c f (g_c _ _ _ G) (g_f _ _ _ G)); [|apply IH; exact HB].
      apply (init_front_no_acc_gen c f (g_c _ _ _ G) (g_f _ _ _ G) (g_chain _ _ _ G)); try assumption. reflexivity.
  Qed.

  Lemma bgroup_no_acc g B : bgroup g -> no_acc c f g B.
  Proof.
    intros [o g' c0 Ho Hg Hc].
    change (o :: g' ++ [c0]) with ([o] ++ g' ++ [c0]).
    apply (no_acc_app c f (g_c _ _ _ G) (g_f _ _ _ G)); [eapply symbol_no_acc; exact Ho|].
    apply (no_acc_app c f (g_c _ _ _ G) (g_f _ _ _ G)); [|eapply symbol_no_acc; exact Hc].
    apply (binner_no_acc BSafe); [exact Hg|]. cbn [app hd_ok]. apply rparen_closer. exact Hc.
  Qed.

  Lemma bgroups_no_acc gs B : bgroups gs -> no_acc c f gs B.
  Proof.
    intros H. revert B. induction H as [g Hg|g r Hg Hr IH]; intros B.
    - apply bgroup_no_acc; exact Hg.
    - apply (no_acc_app c f (g_c _ _ _ G) (g_f _ _ _ G)); [apply bgroup_no_acc; exact Hg | apply IH].
  Qed.

  Lemma stmt_no_acc s B : simple_stmt s -> no_acc c f s B.
  Proof.
    intros (body & semi & -> & Hb & Hs).
    apply (no_acc_app c f (g_c _ _ _ G) (g_f _ _ _ G)); [|eapply symbol_no_acc; exact Hs].
    apply inner_no_acc; [exact Hb|]. cbn [app hd_ok]. apply semi_closer. exact Hs.
  Qed.

  Lemma prefix_no_acc pre B : forallb (prefix_word l) pre = true -> hd_ok word B -> no_acc c f pre B.
  Proof.
    induction pre as [|p pre IH]; intros Hpre HB; [apply no_acc_nil|].
    cbn [forallb] in Hpre. apply andb_prop in Hpre as [Hp Hpre].
    apply (no_acc_cons c f (g_c _ _ _ G) (g_f _ _ _ G)); [|apply IH; assumption].
    apply (g_prefix _ _ _ G); [exact Hp|].
    destruct pre as [|q pre]; [exact HB|]. cbn [app hd_ok]. cbn [forallb] in Hpre. apply andb_prop in Hpre as [Hq _].
    apply prefix_word_inv in Hq. apply Hq.
  Qed.

  Lemma words_no_acc ws cond R B :
    ws <> [] -> forallb word ws = true ->
    (cond = [] \/ (groups cond /\ is_name (last ws (mkTok KOther [] 0 0)) = false)) ->
    hd_ok (fun x => is_lbrace x) R -> R <> [] ->
    no_acc c f ws ((cond ++ R) ++ B).
  Proof. apply (words_no_acc_gen c f (g_c _ _ _ G) (g_f _ _ _ G) (g_wlist _ _ _ G)). Qed.

  (* keyword, further words, optional condition, "{" *)
  Lemma ctrl_front_no_acc kw words cond o B :
    is_keyword kw = true -> forallb word_tok words = true ->
    (cond = [] \/ (groups cond /\ is_name (last (kw :: words) kw) = false)) -> is_lbrace o = true ->
    no_acc c f (kw :: words ++ cond ++ [o]) B.
  Proof.
    intros Hkw Hwords Hcond Ho.
    change (kw :: words ++ cond ++ [o]) with ((kw :: words) ++ cond ++ [o]).
    apply (no_acc_app c f (g_c _ _ _ G) (g_f _ _ _ G)).
    - apply words_no_acc; [discriminate | | | exact Ho | discriminate].
      + cbn [forallb]. unfold word at 1. rewrite Hkw, orb_true_r. exact Hwords.
      + destruct Hcond as [->|[Hg Hl]]; [left; reflexivity | right; split; [exact Hg|]].
        rewrite (last_default_irrelevant words kw _ kw). exact Hl.
    - apply (no_acc_app c f (g_c _ _ _ G) (g_f _ _ _ G)); [|eapply symbol_no_acc; exact Ho].
      destruct Hcond as [->|[Hg _]]; [apply no_acc_nil | apply groups_no_acc; exact Hg].
  Qed.
  Lemma init_front_no_acc pre o flat cl B :
    forallb plain pre = true -> is_lbrace o = true -> forallb plain flat = true -> is_rbrace cl = true ->
    no_acc c f (pre ++ o :: flat ++ [cl]) B.
  Proof. apply (init_front_no_acc_gen c f (g_c _ _ _ G) (g_f _ _ _ G) (g_chain _ _ _ G)). Qed.
  Lemma init_stmt_no_acc pre o flat cl post semi B :
    forallb plain pre = true -> is_lbrace o = true -> inner flat -> is_rbrace cl = true ->
    inner post -> is_symbol semi semicolon = true ->
    no_acc c f (pre ++ o :: flat ++ cl :: post ++ [semi]) B.
  Proof.
    intros Hpre Ho Hflat Hcl Hpost Hsemi.
    replace (pre ++ o :: flat ++ cl :: post ++ [semi]) with ((pre ++ [o]) ++ flat ++ cl :: post ++ [semi]) by (norm_app; reflexivity).
    apply (no_acc_app c f (g_c _ _ _ G) (g_f _ _ _ G)).
    - apply (plains_no_acc_gen c f (g_c _ _ _ G) (g_f _ _ _ G) (g_chain _ _ _ G)); [exact Hpre | left; exact Ho].
    - apply (init_tail_no_acc_gen c f (g_cinv _ _ _ G) (g_finv _ _ _ G)); try assumption. apply stmt_no_acc.
  Qed.

  Lemma label_no_acc kw colon B : is_keyword kw = true -> is_operator colon s_colon = true -> no_acc c f [kw; colon] B.
  Proof.
    intros Hkw Hco. apply (no_acc_cons c f (g_c _ _ _ G) (g_f _ _ _ G)).
    - apply (g_kwsym _ _ _ G); [exact Hkw|]. cbn [app hd_ok]. unfold notname. rewrite (operator_not_name _ _ Hco). reflexivity.
    - eapply operator_no_acc. exact Hco.
  Qed.
End Pieces.

(* ---------- the heads accepted ---------- *)
Lemma acc_intro c f w i n j : c w i = Some (n, j) -> f w j = true -> acc c f w i = Some (n, j).
Proof. intros H1 H2. unfold acc. rewrite H1, H2. reflexivity. Qed.

Lemma plain_head_f f nm gs R : is_name nm = true -> bgroups gs -> hd_ok nlp R -> R <> [] ->
  f (nm :: gs ++ R) (S (length gs)) = true ->
  acc cand_plain f (nm :: gs ++ R) 0 = Some (0, S (length gs)).
Proof.
  intros Hnm Hgs HR Hne Hfol. apply acc_intro; [|exact Hfol].
  destruct R as [|t R]; [congruence|]. cbn [hd_ok] in HR. unfold nlp in HR. apply negb_true_iff in HR.
  rewrite cand_plain_0, Hnm, (ge0_bgroups gs t R Hgs HR). reflexivity.
Qed.

Lemma method_head_f f nm gs R : is_name nm = true -> bgroups gs -> hd_ok nlp R -> R <> [] ->
  f (nm :: gs ++ R) (S (length gs)) = true ->
  acc cand_function f (nm :: gs ++ R) 0 = Some (0, S (length gs)).
Proof.
  intros Hnm Hgs HR Hne Hfol.
  rewrite (acc_same cand_function cand_plain) by (rewrite cand_function_0, (name_not_kw_is _ _ Hnm); reflexivity).
  apply plain_head_f; assumption.
Qed.

Lemma function_head_f f fk nm gs R : kw_is fk s_function = true -> is_name nm = true -> bgroups gs -> hd_ok nlp R -> R <> [] ->
  f (fk :: nm :: gs ++ R) (S (S (length gs))) = true ->
  acc cand_function f (fk :: nm :: gs ++ R) 0 = Some (1, S (S (length gs))).
Proof.
  intros Hfk Hnm Hgs HR Hne Hfol. apply acc_intro; [|exact Hfol].
  destruct R as [|t R]; [congruence|]. cbn [hd_ok] in HR. unfold nlp in HR. apply negb_true_iff in HR.
  rewrite cand_function_0, Hfk, cand_plain_0, Hnm, (ge0_bgroups gs t R Hgs HR). reflexivity.
Qed.

Lemma lbrace_nlp o B : is_lbrace o = true -> hd_ok nlp (o :: B) /\ o :: B <> [].
Proof. intros Ho. split; [|discriminate]. cbn [hd_ok]. unfold nlp. rewrite (lbrace_not_lparen o Ho). reflexivity. Qed.

Lemma plain_head nm gs o B : is_name nm = true -> groups gs -> is_lbrace o = true ->
  acc cand_plain follow_brace (nm :: gs ++ o :: B) 0 = Some (0, S (length gs)).
Proof.
  intros Hnm Hgs Ho. apply groups_bgroups in Hgs. destruct (lbrace_nlp o B Ho) as [H1 H2]. apply plain_head_f; try assumption.
  rewrite follow_brace_S. unfold follow_brace. rewrite sym_at_app_hd. exact Ho.
Qed.

Lemma method_head nm gs o B : is_name nm = true -> bgroups gs -> is_lbrace o = true ->
  acc cand_function follow_brace (nm :: gs ++ o :: B) 0 = Some (0, S (length gs)).
Proof.
  intros Hnm Hgs Ho. destruct (lbrace_nlp o B Ho) as [H1 H2]. apply method_head_f; try assumption.
  rewrite follow_brace_S. unfold follow_brace. rewrite sym_at_app_hd. exact Ho.
Qed.

Lemma function_head fk nm gs o B : kw_is fk s_function = true -> is_name nm = true -> bgroups gs -> is_lbrace o = true ->
  acc cand_function follow_brace (fk :: nm :: gs ++ o :: B) 0 = Some (1, S (S (length gs))).
Proof.
  intros Hfk Hnm Hgs Ho. destruct (lbrace_nlp o B Ho) as [H1 H2]. apply function_head_f; try assumption.
  rewrite !follow_brace_S. unfold follow_brace. rewrite sym_at_app_hd. exact Ho.
Qed.

(* name = [async] groups => { *)
Lemma arrow_nc_head nm eq mid gs arrow o B :
  is_name nm = true -> is_operator eq s_eq = true ->
  (mid = [] \/ exists ak, mid = [ak] /\ kw_is ak s_async = true) ->
  bgroups gs -> is_symbol arrow s_arrow = true -> is_lbrace o = true ->
  arrow_nc (nm :: eq :: mid ++ gs ++ arrow :: o :: B) = Some (0, S (2 + length mid + length gs)) /\
  sym_at (nm :: eq :: mid ++ gs ++ arrow :: o :: B) (S (2 + length mid + length gs)) lbrace = true.
Proof.
  intros Hnm Heq Hmid Hgs Har Ho.
  assert (Hnl : is_lparen arrow = false) by (apply (symbol_other arrow s_arrow); [exact Har | discriminate]).
  assert (Hge : forall pre, groups_end (pre ++ gs ++ arrow :: o :: B) (length pre) = Some (length pre + length gs)).
  { intros pre. pose proof (groups_end_shift pre (gs ++ arrow :: o :: B) 0) as E. rewrite Nat.add_0_r in E.
    rewrite E, groups_end_0, (ge0_bgroups gs arrow (o :: B) Hgs Hnl). cbn [option_map]. reflexivity. }
  assert (Hsa : forall pre, sym_at (pre ++ gs ++ arrow :: o :: B) (length pre + length gs) s_arrow = true).
  { intros pre. rewrite sym_at_shift, sym_at_app_hd. exact Har. }
  assert (Hsb : forall pre, sym_at (pre ++ gs ++ arrow :: o :: B) (S (length pre + length gs)) lbrace = true).
  { intros pre. replace (S (length pre + length gs)) with (length pre + length (gs ++ [arrow])) by (norm_len; lia).
    rewrite sym_at_shift. replace (gs ++ arrow :: o :: B) with ((gs ++ [arrow]) ++ o :: B) by (norm_app; reflexivity).
    rewrite sym_at_app_hd. exact Ho. }
  destruct (bgroups_head gs Hgs) as (p & r & Egs & Hp).
  destruct Hmid as [->|(ak & -> & Hak)].
  - cbn [app length Nat.add]. split.
    + unfold arrow_nc. change (name_at (nm :: eq :: gs ++ arrow :: o :: B) 0) with (is_name nm).
      change (op_at (nm :: eq :: gs ++ arrow :: o :: B) 1 s_eq) with (is_operator eq s_eq).
      rewrite Hnm, Heq. cbn [andb].
      assert (Ek : kw_at (nm :: eq :: gs ++ arrow :: o :: B) 2 s_async = false).
      { rewrite Egs. cbn [app]. unfold kw_at. cbn [nth_error]. rewrite (symbol_not_keyword _ _ Hp). reflexivity. }
      rewrite Ek. cbv zeta iota.
      pose proof (Hge [nm; eq]) as E1. cbn [app length] in E1. rewrite E1.
      pose proof (Hsa [nm; eq]) as E2. cbn [app length] in E2. rewrite E2. reflexivity.
    + pose proof (Hsb [nm; eq]) as E3. cbn [app length] in E3. exact E3.
  - cbn [app length Nat.add]. split.
    + unfold arrow_nc. change (name_at (nm :: eq :: ak :: gs ++ arrow :: o :: B) 0) with (is_name nm).
      change (op_at (nm :: eq :: ak :: gs ++ arrow :: o :: B) 1 s_eq) with (is_operator eq s_eq).
      change (kw_at (nm :: eq :: ak :: gs ++ arrow :: o :: B) 2 s_async) with (kw_is ak s_async).
      rewrite Hnm, Heq, Hak. cbn [andb]. cbv zeta iota.
      pose proof (Hge [nm; eq; ak]) as E1. cbn [app length] in E1. rewrite E1.
      pose proof (Hsa [nm; eq; ak]) as E2. cbn [app length] in E2. rewrite E2. reflexivity.
    + pose proof (Hsb [nm; eq; ak]) as E3. cbn [app length] in E3. exact E3.
Qed.

Lemma arrow_head nm eq mid gs arrow o B :
  is_name nm = true -> is_operator eq s_eq = true ->
  (mid = [] \/ exists ak, mid = [ak] /\ kw_is ak s_async = true) ->
  bgroups gs -> is_symbol arrow s_arrow = true -> is_lbrace o = true ->
  acc cand_arrow follow_brace (nm :: eq :: mid ++ gs ++ arrow :: o :: B) 0 = Some (0, S (2 + length mid + length gs)).
Proof.
  intros Hnm Heq Hmid Hgs Har Ho.
  destruct (arrow_nc_head nm eq mid gs arrow o B Hnm Heq Hmid Hgs Har Ho) as [E1 E2].
  apply acc_intro.
  - rewrite cand_arrow_0, (name_not_kw_is _ _ Hnm). exact E1.
  - exact E2.
Qed.

Lemma const_arrow_head ck nm eq mid gs arrow o B :
  kw_is ck s_const = true -> is_name nm = true -> is_operator eq s_eq = true ->
  (mid = [] \/ exists ak, mid = [ak] /\ kw_is ak s_async = true) ->
  bgroups gs -> is_symbol arrow s_arrow = true -> is_lbrace o = true ->
  acc cand_arrow follow_brace (ck :: nm :: eq :: mid ++ gs ++ arrow :: o :: B) 0 = Some (1, S (S (2 + length mid + length gs))).
Proof.
  intros Hck Hnm Heq Hmid Hgs Har Ho.
  destruct (arrow_nc_head nm eq mid gs arrow o B Hnm Heq Hmid Hgs Har Ho) as [E1 E2].
  apply acc_intro.
  - rewrite cand_arrow_0, Hck, E1. reflexivity.
  - rewrite follow_brace_S. exact E2.
Qed.
