(* PyGrammarProofs.v — C01 for Python on the programs of the formal canonical grammar (Scope/PyGrammar.v):
   every generated program satisfies the hypotheses of C01_python_lexical (py_wf_descs,
   py_lexically_canonical), so that no hypothesis about headers or descriptors is left; and the grammar
   is not vacuous (an example program with an `async def`, a nested `def` and plain lines). *)
From Verif Require Import Base Regex Token TokEngine Lex LexProofs Headers Blocks Pairing Fold ScanFile Spec HeaderSpec
  LexShapes PySpec PySpecProofs PyLexical Grammar GrammarAll PyGrammar.
From Verif Require Import PyGrammarProofsWf PyGrammarProofsLex.
From Coq Require Import Sorted Permutation.
Open Scope Z_scope.

(* (proved in PyGrammarProofsWf.v; no hypothesis about token positions is needed) *)
Theorem py_canonical_wf : forall ts ds, py_canonical_program ts ds -> py_wf_descs ts ds.
Proof. exact py_canonical_wf_descs. Qed.

Theorem py_canonical_lexical : forall ts ds, py_canonical_program ts ds -> py_lexically_canonical ts ds.
Proof.
  intros ts ds H. unfold py_lexically_canonical. rewrite (py_canonical_headers ts ds H). apply Permutation_refl.
Qed.

(* end to end: no hypothesis about headers or descriptors is left *)
Theorem C01_python_grammar : forall toks ds, let code := filter_tokens false toks in
  py_canonical_program code ds -> StronglySorted pos_lt code -> filter_nocl_comment_tokens toks = [] ->
  scan_file LPython toks = py_expected_all code ds ds.
Proof.
  intros toks ds code Hc Hs Hn. apply C01_python_lexical; [exact Hs | exact Hn | |].
  - apply py_canonical_wf. exact Hc.
  - apply py_canonical_lexical. exact Hc.
Qed.

(* ---------- non-vacuity ---------- *)
(* 1: import os / 2: async def f ( a ) -> T : / 3:     x = 1 / 4:     def g ( ) : / 5:         return x / 6: y = 2 *)
Definition ex : list token :=
 [mkTok KKeyword [105] 1 1; mkTok KName [111] 1 8;
  mkTok KKeyword s_async 2 1; mkTok KKeyword s_def 2 7; mkTok KName [102] 2 11; mkTok KPunct [40] 2 12; mkTok KName [97] 2 13; mkTok KPunct [41] 2 14; mkTok KOperator [45;62] 2 16; mkTok KName [84] 2 19; mkTok KPunct [58] 2 20;
  mkTok KName [120] 3 5; mkTok KOperator [61] 3 7; mkTok KOther [49] 3 9;
  mkTok KKeyword s_def 4 5; mkTok KName [103] 4 9; mkTok KPunct [40] 4 10; mkTok KPunct [41] 4 11; mkTok KPunct [58] 4 12;
  mkTok KKeyword [114] 5 9; mkTok KName [120] 5 16;
  mkTok KName [121] 6 1; mkTok KOperator [61] 6 3; mkTok KOther [50] 6 5].
Definition exds := [mkPd 4 2 8 11 21; mkPd 15 14 18 19 21]%nat.

Ltac line_ok := repeat split; try discriminate; try reflexivity; repeat constructor.
Ltac nodef_ok := repeat constructor.

Example ex_canonical : py_canonical_program ex exds.
Proof.
  exists 1, 0, 6. unfold ex, exds.
  (* line 1 *)
  apply (pb_more 1 0%nat 0 [mkTok KKeyword [105] 1 1; mkTok KName [111] 1 8] [] 1 _ _ 6).
  { apply pe_line; [line_ok | lia | nodef_ok]. }
  cbn [length Nat.add].
  (* lines 2-5: async def f, then line 6 *)
  apply (pb_more 1 2%nat 1
    [mkTok KKeyword s_async 2 1; mkTok KKeyword s_def 2 7; mkTok KName [102] 2 11; mkTok KPunct [40] 2 12; mkTok KName [97] 2 13; mkTok KPunct [41] 2 14; mkTok KOperator [45;62] 2 16; mkTok KName [84] 2 19; mkTok KPunct [58] 2 20;
     mkTok KName [120] 3 5; mkTok KOperator [61] 3 7; mkTok KOther [49] 3 9;
     mkTok KKeyword s_def 4 5; mkTok KName [103] 4 9; mkTok KPunct [40] 4 10; mkTok KPunct [41] 4 11; mkTok KPunct [58] 4 12;
     mkTok KKeyword [114] 5 9; mkTok KName [120] 5 16]
    [mkPd 4 2 8 11 21; mkPd 15 14 18 19 21]%nat 5
    [mkTok KName [121] 6 1; mkTok KOperator [61] 6 3; mkTok KOther [50] 6 5] [] 6).
  - apply (pe_def 1 2%nat 1
      [mkTok KKeyword s_async 2 1; mkTok KKeyword s_def 2 7; mkTok KName [102] 2 11; mkTok KPunct [40] 2 12; mkTok KName [97] 2 13; mkTok KPunct [41] 2 14; mkTok KOperator [45;62] 2 16; mkTok KName [84] 2 19; mkTok KPunct [58] 2 20]
      2 2%nat 6%nat 5
      [mkTok KName [120] 3 5; mkTok KOperator [61] 3 7; mkTok KOther [49] 3 9;
       mkTok KKeyword s_def 4 5; mkTok KName [103] 4 9; mkTok KPunct [40] 4 10; mkTok KPunct [41] 4 11; mkTok KPunct [58] 4 12;
       mkTok KKeyword [114] 5 9; mkTok KName [120] 5 16]
      [mkPd 15 14 18 19 21]%nat 5).
    + line_ok.
    + lia.
    + apply (dl_async (mkTok KKeyword s_async 2 1) (mkTok KKeyword s_def 2 7) (mkTok KName [102] 2 11)
               [mkTok KPunct [40] 2 12; mkTok KName [97] 2 13; mkTok KPunct [41] 2 14]
               [mkTok KOperator [45;62] 2 16; mkTok KName [84] 2 19; mkTok KPunct [58] 2 20]);
        [reflexivity | reflexivity | reflexivity | | nodef_ok | discriminate | reflexivity | nodef_ok].
      apply groups_one.
      apply (group_intro (mkTok KPunct [40] 2 12) [mkTok KName [97] 2 13] (mkTok KPunct [41] 2 14));
        [reflexivity | apply inner_plain; [reflexivity | constructor] | reflexivity].
    + lia.
    + cbn [length Nat.add].
      (* the suite of f: line 3, then def g (lines 4-5) *)
      apply (pb_more 5 11%nat 2 [mkTok KName [120] 3 5; mkTok KOperator [61] 3 7; mkTok KOther [49] 3 9] [] 3
               [mkTok KKeyword s_def 4 5; mkTok KName [103] 4 9; mkTok KPunct [40] 4 10; mkTok KPunct [41] 4 11; mkTok KPunct [58] 4 12;
                mkTok KKeyword [114] 5 9; mkTok KName [120] 5 16]
               [mkPd 15 14 18 19 21]%nat 5).
      * apply pe_line; [line_ok | lia | nodef_ok].
      * cbn [length Nat.add]. apply pb_one.
        apply (pe_def 5 14%nat 3
                 [mkTok KKeyword s_def 4 5; mkTok KName [103] 4 9; mkTok KPunct [40] 4 10; mkTok KPunct [41] 4 11; mkTok KPunct [58] 4 12]
                 4 1%nat 4%nat 9 [mkTok KKeyword [114] 5 9; mkTok KName [120] 5 16] [] 5).
        -- line_ok.
        -- lia.
        -- apply (dl_def (mkTok KKeyword s_def 4 5) (mkTok KName [103] 4 9)
                    [mkTok KPunct [40] 4 10; mkTok KPunct [41] 4 11] [mkTok KPunct [58] 4 12]);
             [reflexivity | reflexivity | | nodef_ok | discriminate | reflexivity | nodef_ok].
           apply groups_one.
           apply (group_intro (mkTok KPunct [40] 4 10) [] (mkTok KPunct [41] 4 11)); [reflexivity | constructor | reflexivity].
        -- lia.
        -- apply pb_one. apply pe_line; [line_ok | lia | nodef_ok].
  - cbn [length Nat.add]. apply pb_one. apply pe_line; [line_ok | lia | nodef_ok].
Qed.

(* hence the hypotheses of C01_python_lexical hold for it *)
Example ex_wf_lexical : py_wf_descs ex exds /\ py_lexically_canonical ex exds.
Proof. split; [apply py_canonical_wf | apply py_canonical_lexical]; exact ex_canonical. Qed.
