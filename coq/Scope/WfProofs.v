(* WfProofs.v — property C05: every measurement reported by scan_file is
   well-formed, for every language and every token list whose code tokens have
   strictly increasing positions (what the lexer model guarantees, C16):

   C05_wellformed    start = position of a code token, end = just past a code
                     token, the name is the text of an identifier token inside
                     the span, 1 <= length <= code-bearing lines of the span;
   C05_source_order  measurements are listed in source order, with pairwise
                     distinct starts (given distinct header starts; proved for
                     the single-pattern languages);
   C05_loc_is_sum    the line total of analyze is the sum of the lengths. *)
From Verif Require Import Base Token Lex Headers Blocks Pairing Fold ScanFile LexProofs
  TotalProofsHeaders TotalProofsBlocks TotalProofsScopes
  WfProofsBase WfProofsFold WfProofsBlocks WfProofsHeaders WfProofsPairing.
From Coq Require Import Sorted.
Open Scope nat_scope.

Definition wf_meas (code : list token) (m : Measurement) : Prop :=
  exists s n e ts tn te,
    s <= n < e /\ e <= length code /\
    nth_error code s = Some ts /\ nth_error code n = Some tn /\ nth_error code (e - 1) = Some te /\
    m_start m = mkLoc (t_line ts) (t_col ts) /\
    m_end m = end_location te /\
    m_unit_name m = t_value tn /\ is_name tn = true /\
    (1 <= m_value m <= Z.of_nat (length (dedupZ (map (tok_line code) (seq s (e - s))))))%Z.

Definition loc_lt (a b : Location) : Prop :=
  (loc_line a < loc_line b \/ (loc_line a = loc_line b /\ loc_column a < loc_column b))%Z.

(* ====================================================================== *)
(* 1. count_lines                                                          *)
(* ====================================================================== *)

Lemma drop_passed_incl : forall rs i r, In r (drop_passed i rs) -> In r rs.
Proof.
  induction rs as [|x rs IH]; intros i r H; cbn [drop_passed] in H; [exact H|].
  destruct (Nat.leb (snd x) i); [right; eapply IH, H | exact H].
Qed.

Lemma scope_token_indices_incl : forall idxs rs i, In i (scope_token_indices idxs rs) -> In i idxs.
Proof.
  induction idxs as [|j r IH]; intros rs i H; cbn [scope_token_indices] in H; [exact H|].
  destruct (drop_passed j rs) as [|c rest] eqn:E.
  - destruct H as [<-|H]; [left; reflexivity | right; eapply IH, H].
  - destruct (Nat.ltb j (fst c)).
    + destruct H as [<-|H]; [left; reflexivity | right; eapply IH, H].
    + right. eapply IH, H.
Qed.

Lemma scope_token_indices_first a r rs :
  (forall c, In c rs -> a < fst c) -> In a (scope_token_indices (a :: r) rs).
Proof.
  intros H. cbn [scope_token_indices].
  destruct (drop_passed a rs) as [|c rest] eqn:E; [left; reflexivity|].
  assert (Hc : In c rs) by (eapply drop_passed_incl; rewrite E; left; reflexivity).
  apply H in Hc. apply Nat.ltb_lt in Hc. rewrite Hc. left. reflexivity.
Qed.

Lemma count_lines_bounds code sc ch :
  h_start (s_header sc) < snd (s_block sc) ->
  Forall (fun c => h_start (s_header sc) < h_start (s_header c)) ch ->
  (1 <= count_lines code sc ch <=
   Z.of_nat (length (dedupZ (map (tok_line code)
     (seq (h_start (s_header sc)) (snd (s_block sc) - h_start (s_header sc)))))))%Z.
Proof.
  intros Hlt Hch. unfold count_lines. set (a := h_start (s_header sc)) in *.
  set (e := snd (s_block sc)) in *. split.
  - assert (Hin : In a (own_token_indices code sc ch)).
    { unfold own_token_indices. fold a e.
      replace (e - a) with (S (e - a - 1)) by lia. cbn [seq].
      apply scope_token_indices_first. intros c Hc. apply sort_ranges_In in Hc.
      apply in_map_iff in Hc. destruct Hc as (c0 & <- & Hc0).
      rewrite Forall_forall in Hch. apply Hch in Hc0. cbn [child_range fst]. exact Hc0. }
    assert (Hne : map (tok_line code) (own_token_indices code sc ch) <> []).
    { destruct (own_token_indices code sc ch); [destruct Hin | discriminate]. }
    apply dedupZ_nonempty in Hne. lia.
  - apply Nat2Z.inj_le. apply dedupZ_incl_length. intros z Hz.
    apply in_map_iff in Hz. destruct Hz as (i & <- & Hi). apply in_map.
    unfold own_token_indices in Hi. apply scope_token_indices_incl in Hi. exact Hi.
Qed.

(* ====================================================================== *)
(* 2. one measurement                                                      *)
(* ====================================================================== *)

Definition sc_ok (code : list token) (sc : scope0 * list scope0) : Prop :=
  hwf code (s_header (fst sc)) /\
  h_end (s_header (fst sc)) < snd (s_block (fst sc)) <= length code /\
  Forall (fun c => h_start (s_header (fst sc)) < h_start (s_header c)) (snd sc).

Lemma measure_wf code sc m : sc_ok code sc -> measure code sc = OK m -> wf_meas code m.
Proof.
  destruct sc as [s ch]. intros (((Hb1 & Hb2) & tn & Etn & Hname) & (He1 & He2) & Hch).
  cbn [fst snd] in *. unfold measure. rewrite Etn.
  destruct (nth_error code (h_start (s_header s))) as [st|] eqn:Es; [|discriminate].
  destruct (snd (s_block s)) as [|e'] eqn:Ee; [discriminate|].
  destruct (nth_error code e') as [lt|] eqn:El; [|discriminate].
  intros H. inversion H; subst m. clear H.
  exists (h_start (s_header s)), (h_name (s_header s)), (S e'), st, tn, lt.
  cbn [m_start m_end m_unit_name m_value].
  replace (S e' - 1) with e' by lia.
  repeat split; try assumption; try lia.
  - pose proof (count_lines_bounds code s ch) as Hc. rewrite Ee in Hc.
    apply Hc; [lia | exact Hch].
  - pose proof (count_lines_bounds code s ch) as Hc. rewrite Ee in Hc.
    apply Hc; [lia | exact Hch].
Qed.

Lemma measure_all_spec code : forall scs ms, measure_all code scs = OK ms ->
  Forall2 (fun sc m => measure code sc = OK m) scs ms.
Proof.
  induction scs as [|sc r IH]; intros ms H; cbn [measure_all] in H.
  - inversion H; subst. constructor.
  - destruct (measure code sc) as [m|k] eqn:Em; [|discriminate].
    destruct (measure_all code r) as [ms'|k]; [|discriminate].
    inversion H; subst. constructor; [exact Em | apply IH; reflexivity].
Qed.

(* ====================================================================== *)
(* 3. the scopes reported by build_scopes                                  *)
(* ====================================================================== *)

Definition scope_ok (code : list token) (s : scope0) : Prop :=
  hwf code (s_header s) /\ h_end (s_header s) < snd (s_block s) <= length code.

Lemma build_scopes_from_ok code hs blocks :
  Forall (hwf code) hs -> Forall (block_in (length code)) blocks ->
  Forall (scope_ok code) (build_scopes_from code hs blocks).
Proof.
  intros Hh Hb. apply Forall_forall. intros s Hs. unfold build_scopes_from in Hs.
  apply in_rev in Hs. apply (build_scopes_loop_spec (length code)) in Hs; [|exact Hb].
  destruct Hs as [Hin Hbd]. split; [|exact Hbd].
  unfold sort_headers_desc in Hin. apply sort_desc2_In in Hin.
  rewrite Forall_forall in Hh. apply Hh, Hin.
Qed.

Lemma s_contains_start a b : s_contains a b = true -> h_start (s_header a) < h_start (s_header b).
Proof. unfold s_contains. intros H. apply andb_true_iff in H. destruct H as [H _]. apply Nat.ltb_lt, H. Qed.

Section BuildScopes.
  Variables (l : language) (toks : list token).
  Let code := filter_tokens false toks.
  Hypothesis Hsorted : StronglySorted pos_lt code.

  Lemma build_scopes_inv scs : build_scopes l toks = OK scs ->
    exists headers blocks,
      extract_headers l code = OK headers /\
      extract_blocks l code headers = OK blocks /\
      let filtered := filter_nocl_scopes code (build_scopes_from code headers blocks)
                        (map t_line (filter_nocl_comment_tokens toks)) in
      scs = if lang_nested l then unfold_scopes (fold_scopes filtered)
            else map (fun s => (s, [])) (filter_scopes_nested_functions filtered).
  Proof.
    unfold build_scopes. fold code.
    destruct (extract_headers l code) as [headers|k] eqn:Eh; [|discriminate].
    destruct (extract_blocks l code headers) as [blocks|k] eqn:Eb; [|discriminate].
    intros H. exists headers, blocks. split; [reflexivity|]. split; [exact Eb|].
    cbv zeta. destruct (lang_nested l); inversion H; reflexivity.
  Qed.

  Lemma build_scopes_sc_ok scs : build_scopes l toks = OK scs -> Forall (sc_ok code) scs.
  Proof.
    intros H. destruct (build_scopes_inv scs H) as (headers & blocks & Eh & Eb & Escs).
    cbv zeta in Escs.
    pose proof (extract_headers_wf l code headers Eh) as Hh.
    assert (Hb : Forall (block_in (length code)) blocks).
    { pose proof (extract_blocks_nonempty l code headers blocks Hsorted Eb) as H1.
      destruct (extract_blocks_ok l code headers) as (bs & Ebs & H2).
      rewrite Eb in Ebs. inversion Ebs; subst bs.
      rewrite Forall_forall in *. intros b Hin. specialize (H1 b Hin). specialize (H2 b Hin).
      unfold nonempty_block in H1. unfold good_block in H2. unfold block_in. lia. }
    pose proof (build_scopes_from_ok code headers blocks Hh Hb) as Hsc.
    set (filtered := filter_nocl_scopes code (build_scopes_from code headers blocks)
                       (map t_line (filter_nocl_comment_tokens toks))) in *.
    assert (Hfilt : forall s, In s filtered -> scope_ok code s).
    { intros s Hs. apply filter_nocl_scopes_In in Hs. rewrite Forall_forall in Hsc. apply Hsc, Hs. }
    subst scs. destruct (lang_nested l).
    - pose proof (unfold_fold_children filtered) as Hch.
      apply Forall_forall. intros [sc ch] Hin.
      rewrite Forall_forall in Hch. specialize (Hch _ Hin). cbn [fst snd] in Hch.
      apply unfold_fold_In in Hin. destruct Hin as [Hin _].
      destruct (Hfilt sc Hin) as [H1 H2]. split; [exact H1|]. split; [exact H2|].
      cbn [fst snd]. eapply Forall_impl; [|exact Hch]. intros c. apply s_contains_start.
    - apply Forall_forall. intros [sc ch] Hin. apply in_map_iff in Hin.
      destruct Hin as (s & E & Hin). inversion E; subst sc ch.
      apply filter_scopes_nested_functions_In in Hin.
      destruct (Hfilt s Hin) as [H1 H2]. split; [exact H1|]. split; [exact H2|]. constructor.
  Qed.

  (* ---------- source order of the reported scopes ---------- *)
  Lemma build_scopes_order scs headers :
    build_scopes l toks = OK scs -> extract_headers l code = OK headers ->
    NoDup (map h_start headers) ->
    StronglySorted (fun a b => h_start (s_header a) < h_start (s_header b)) (map fst scs).
  Proof.
    intros H Eh0 Hnd. destruct (build_scopes_inv scs H) as (headers' & blocks & Eh & Eb & Escs).
    rewrite Eh0 in Eh. inversion Eh; subst headers'. clear Eh. cbv zeta in Escs.
    pose proof (extract_headers_wf l code headers Eh0) as Hh.
    assert (Hv : Forall (fun h => h_start h < length code) headers).
    { eapply Forall_impl; [|exact Hh]. intros h ((H1 & H2) & tn & Etn & _).
      assert (h_name h < length code) by (apply nth_error_Some; congruence). lia. }
    pose proof (sort_headers_desc_strict code headers Hsorted Hv Hnd) as Hs.
    assert (Hsc : StronglySorted (fun a b => h_start (s_header a) < h_start (s_header b))
                    (build_scopes_from code headers blocks)).
    { unfold build_scopes_from.
      apply (SSf_rev (fun a b => h_start (s_header b) < h_start (s_header a))).
      apply (build_scopes_loop_SS (fun a b => h_start b < h_start a)). exact Hs. }
    set (filtered := filter_nocl_scopes code (build_scopes_from code headers blocks)
                       (map t_line (filter_nocl_comment_tokens toks))) in *.
    assert (Hf : StronglySorted (fun a b => h_start (s_header a) < h_start (s_header b)) filtered).
    { unfold filtered, filter_nocl_scopes. apply SSf_filter, Hsc. }
    subst scs. destruct (lang_nested l).
    - rewrite unfold_fold_fst. exact Hf.
    - rewrite map_map. cbn [fst]. rewrite map_id.
      unfold filter_scopes_nested_functions. apply filter_nested_loop_SS, Hf.
  Qed.
End BuildScopes.

(* ====================================================================== *)
(* 4. C05                                                                  *)
(* ====================================================================== *)

Theorem C05_wellformed : forall (l : language) (toks : list token) (ms : list Measurement),
  StronglySorted pos_lt (filter_tokens false toks) ->
  scan_file l toks = OK ms -> Forall (wf_meas (filter_tokens false toks)) ms.
Proof.
  intros l toks ms Hsorted H. unfold scan_file in H.
  destruct (build_scopes l toks) as [scs|k] eqn:Eb; [|discriminate].
  pose proof (build_scopes_sc_ok l toks Hsorted scs Eb) as Hok.
  apply measure_all_spec in H. clear Eb.
  induction H as [|sc m scs' ms' Hm _ IH]; [constructor|].
  inversion Hok; subst. constructor; [|apply IH; assumption].
  eapply measure_wf; eassumption.
Qed.

Lemma measure_start code sc m : measure code sc = OK m ->
  h_start (s_header (fst sc)) < length code /\
  m_start m = mkLoc (tok_line code (h_start (s_header (fst sc)))) (tok_col code (h_start (s_header (fst sc)))).
Proof.
  destruct sc as [s ch]. unfold measure. cbn [fst].
  destruct (nth_error code (h_name (s_header s))) as [nm|]; [|discriminate].
  destruct (nth_error code (h_start (s_header s))) as [st|] eqn:Es; [|discriminate].
  destruct (snd (s_block s)) as [|e']; [discriminate|].
  destruct (nth_error code e') as [lt|]; [|discriminate].
  intros H. inversion H; subst m. cbn [m_start]. split.
  - apply nth_error_Some. congruence.
  - rewrite (tok_line_nth _ _ _ Es), (tok_col_nth _ _ _ Es). reflexivity.
Qed.

Theorem C05_source_order : forall (l : language) (toks : list token) (ms : list Measurement) headers,
  StronglySorted pos_lt (filter_tokens false toks) ->
  scan_file l toks = OK ms ->
  extract_headers l (filter_tokens false toks) = OK headers ->
  NoDup (map h_start headers) ->
  StronglySorted loc_lt (map m_start ms).
Proof.
  intros l toks ms headers Hsorted H Eh Hnd. unfold scan_file in H.
  destruct (build_scopes l toks) as [scs|k] eqn:Eb; [|discriminate].
  pose proof (build_scopes_order l toks Hsorted scs headers Eb Eh Hnd) as Hord.
  apply measure_all_spec in H. clear Eb. set (code := filter_tokens false toks) in *.
  set (g := fun sc : scope0 * list scope0 =>
              mkLoc (tok_line code (h_start (s_header (fst sc)))) (tok_col code (h_start (s_header (fst sc))))).
  assert (Hmap : map m_start ms = map g scs /\
                 Forall (fun sc => h_start (s_header (fst sc)) < length code) scs).
  { induction H as [|sc m scs' ms' Hm _ IH]; [split; [reflexivity | constructor]|].
    inversion Hord; subst. destruct (IH ltac:(assumption)) as [IH1 IH2].
    apply measure_start in Hm. destruct Hm as [Hv Hst]. split.
    - cbn [map]. rewrite IH1, Hst. reflexivity.
    - constructor; assumption. }
  destruct Hmap as [Hmap Hv]. rewrite Hmap.
  apply (proj1 (SSf_map loc_lt g scs)).
  apply (proj2 (SSf_map (fun a b => h_start (s_header a) < h_start (s_header b)) fst scs)) in Hord.
  eapply SSf_impl; [|exact Hord]. intros a b Ha Hb Hab. cbv beta in Hab.
  rewrite Forall_forall in Hv. pose proof (Hv b Hb) as Hvb.
  unfold loc_lt, g. cbn [loc_line loc_column].
  apply (sorted_pos code _ _ Hsorted Hab Hvb).
Qed.

(* the single-pattern languages need no hypothesis on the headers *)
Corollary C05_source_order_single : forall (l : language) (toks : list token) (ms : list Measurement),
  single_pattern l ->
  StronglySorted pos_lt (filter_tokens false toks) ->
  scan_file l toks = OK ms ->
  StronglySorted loc_lt (map m_start ms).
Proof.
  intros l toks ms Hsp Hsorted H.
  destruct (extract_headers l (filter_tokens false toks)) as [headers|k] eqn:Eh.
  - eapply C05_source_order; try eassumption.
    eapply extract_headers_single_NoDup; eassumption.
  - unfold scan_file, build_scopes in H. rewrite Eh in H. discriminate.
Qed.

Lemma fold_left_sum (ms : list Measurement) : forall a,
  (fold_left (fun a m => a + m_value m) ms a = a + fold_right (fun m a => m_value m + a) 0 ms)%Z.
Proof.
  induction ms as [|m r IH]; intros a; cbn [fold_left fold_right]; [lia|]. rewrite IH. lia.
Qed.

Theorem C05_loc_is_sum : forall (l : language) (code_text : pystr) (lts : list ltok) ms loc,
  analyze l code_text lts = OK (ms, loc) ->
  loc = fold_right (fun m a => (m_value m + a)%Z) 0%Z ms.
Proof.
  intros l code_text lts ms loc H. unfold analyze in H.
  destruct (scan_file l (lex code_text lts false)) as [ms'|k]; [|discriminate].
  inversion H; subst. rewrite fold_left_sum. lia.
Qed.

Print Assumptions C05_wellformed.
Print Assumptions C05_source_order.
Print Assumptions C05_source_order_single.
Print Assumptions C05_loc_is_sum.
