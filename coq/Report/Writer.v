(* Writer.v — Report and ReportWriter.to_json (after the GD15 repair: every
   string goes through json.dumps), ReportReader.from_json / get_report_version
   (after the GD16 repair: the stored version is restored). *)
From Verif Require Import Base GenThresholds Codebase Json.
Open Scope Z_scope.

Record repository := mkRepo { rp_owner : pystr; rp_name : pystr; rp_branch : option pystr }.
Record report := mkReport
  { r_version : option pystr; r_uuid : pystr; r_timestamp : pystr;
    r_repository : option repository; r_codebase : codebase }.

Definition k_version := [118;101;114;115;105;111;110].
Definition k_uuid := [117;117;105;100].
Definition k_timestamp := [116;105;109;101;115;116;97;109;112].
Definition k_root := [114;111;111;116].
Definition k_repository := [114;101;112;111;115;105;116;111;114;121].
Definition k_owner := [111;119;110;101;114].
Definition k_name := [110;97;109;101].
Definition k_branch := [98;114;97;110;99;104].
Definition k_codebase := [99;111;100;101;98;97;115;101].
Definition k_totals := [116;111;116;97;108;115].
Definition k_tree := [116;114;101;101].
Definition k_files := [102;105;108;101;115].
Definition k_lines_of_code := [108;105;110;101;115;95;111;102;95;99;111;100;101].
Definition k_functions := [102;117;110;99;116;105;111;110;115].
Definition k_hard_to_maintain := [104;97;114;100;95;116;111;95;109;97;105;110;116;97;105;110].
Definition k_unmaintainable := [117;110;109;97;105;110;116;97;105;110;97;98;108;101].
Definition k_entries := [101;110;116;114;105;101;115].
Definition k_profile := [112;114;111;102;105;108;101].
Definition k_checksum := [99;104;101;99;107;115;117;109].
Definition k_language := [108;97;110;103;117;97;103;101].
Definition k_loc := [108;111;99].
Definition k_measurements := [109;101;97;115;117;114;101;109;101;110;116;115].
Definition k_unit_name := [117;110;105;116;95;110;97;109;101].
Definition k_start := [115;116;97;114;116].
Definition k_end := [101;110;100].
Definition k_value := [118;97;108;117;101].
Definition k_line := [108;105;110;101].
Definition k_column := [99;111;108;117;109;110].

Definition dopt (o : option pystr) : jdoc := match o with Some x => DStr x | None => DNull end.

Definition doc_loc (l : Location) : jdoc := DObjInline [(k_line, DNum (loc_line l)); (k_column, DNum (loc_column l))].
Definition doc_meas (m : Measurement) : jdoc :=
  DObjInline [(k_unit_name, DStr (m_unit_name m)); (k_start, doc_loc (m_start m));
              (k_end, doc_loc (m_end m)); (k_value, DNum (m_value m))].
Definition doc_file (e : FileEntry) : jdoc :=
  DObjBlock [(k_checksum, DStr (e_checksum e)); (k_language, DStr (e_language e)); (k_loc, DNum (e_loc e));
             (k_profile, DArrInline (map DNum (e_profile e)));
             (k_measurements, DArrBlock (map doc_meas (e_measurements e)))].
Definition doc_totals (t : LanguageTotals) : jdoc :=
  DObjBlock [(k_files, DNum (lt_files t)); (k_lines_of_code, DNum (lt_loc t)); (k_functions, DNum (lt_functions t));
             (k_hard_to_maintain, DNum (lt_hard_to_maintain t)); (k_unmaintainable, DNum (lt_unmaintainable t))].
Definition doc_folder (f : folder) : jdoc :=
  DObjBlock [(k_entries, DArrBlock (map (fun en => DStr (entry_name en)) (fo_entries f)));
             (k_profile, DArrInline (map DNum (fo_profile f)))].
Definition doc_codebase (cb : codebase) : jdoc :=
  DObjBlock [(k_totals, DObjBlock (map (fun kt => (fst kt, doc_totals (snd kt))) (cb_totals cb)));
             (k_tree, DObjBlock (map (fun kf => (fst kf, doc_folder (snd kf))) (cb_tree cb)));
             (k_files, DObjBlock (map (fun kf => (fst kf, doc_file (snd kf))) (cb_files cb)))].
Definition doc_repository (rp : repository) : jdoc :=
  DObjBlock [(k_owner, DStr (rp_owner rp)); (k_name, DStr (rp_name rp)); (k_branch, dopt (rp_branch rp))].

Definition to_doc (r : report) : jdoc :=
  DObjBlock ([(k_version, dopt (r_version r)); (k_uuid, DStr (r_uuid r)); (k_timestamp, DStr (r_timestamp r));
              (k_root, DStr (cb_root (r_codebase r)))]
             ++ match r_repository r with Some rp => [(k_repository, doc_repository rp)] | None => [] end
             ++ [(k_codebase, doc_codebase (r_codebase r))]).

Definition to_json (pretty : bool) (r : report) : list jtok := render pretty (to_doc r).

(* ---------- reader ---------- *)
Fixpoint jget (l : list (pystr * jvalue)) (k : pystr) : option jvalue :=     (* json.loads: the LAST duplicate wins *)
  match l with
  | [] => None
  | (k', v) :: r => match jget r k with Some v' => Some v' | None => if pystr_eqb k k' then Some v else None end
  end.
Definition field (v : jvalue) (k : pystr) : res jvalue :=
  match v with
  | JObj l => match jget l k with Some x => OK x | None => Err KeyError end
  | _ => Err JsonError
  end.
Definition as_str (v : jvalue) : res pystr := match v with JStr x => OK x | _ => Err JsonError end.
Definition as_num (v : jvalue) : res Z := match v with JNum z => OK z | _ => Err JsonError end.
Definition as_opt_str (v : jvalue) : res (option pystr) :=
  match v with JStr x => OK (Some x) | JNull => OK None | _ => Err JsonError end.

Definition read_loc (v : jvalue) : res Location :=
  do l <- bind (field v k_line) as_num; do c <- bind (field v k_column) as_num; OK (mkLoc l c).
Definition read_meas (v : jvalue) : res Measurement :=
  do n <- bind (field v k_unit_name) as_str;
  do st <- bind (field v k_start) read_loc;
  do en <- bind (field v k_end) read_loc;
  do x <- bind (field v k_value) as_num;
  OK (mkMeas n st en x).
Fixpoint read_list {A B} (f : B -> res A) (l : list B) : res (list A) :=
  match l with
  | [] => OK []
  | x :: r => do a <- f x; do rest <- read_list f r; OK (a :: rest)
  end.
Definition read_file (kv : pystr * jvalue) : res FileEntry :=
  let '(path, v) := kv in
  do ms <- bind (field v k_measurements) (fun a => match a with JArr l => read_list read_meas l | _ => Err JsonError end);
  do ck <- bind (field v k_checksum) as_str;
  do lang <- bind (field v k_language) as_str;
  do loc <- bind (field v k_loc) as_num;
  OK (mk_entry path ck lang loc ms).

(* python dict from a JSON object: later duplicates overwrite earlier ones in place *)
Fixpoint dedup_keys (l : list (pystr * jvalue)) (acc : dict jvalue) : dict jvalue :=
  match l with [] => acc | (k, v) :: r => dedup_keys r (dset acc k v) end.

Definition from_json (v : jvalue) : res report :=
  do root <- bind (field v k_root) as_str;
  do repo <- match v with
             | JObj l =>
                 match jget l k_repository with
                 | None => OK None
                 | Some rv =>
                     do o <- bind (field rv k_owner) as_str;
                     do n <- bind (field rv k_name) as_str;
                     do b <- match field rv k_branch with OK bv => as_opt_str bv | Err _ => OK None end;
                     OK (Some (mkRepo o n b))
                 end
             | _ => Err JsonError
             end;
  do uuid <- bind (field v k_uuid) as_str;
  do version <- match field v k_version with OK x => as_opt_str x | Err _ => OK None end;
  do cbv <- field v k_codebase;
  do files <- bind (field cbv k_files) (fun fv => match fv with
                                                | JObj l => read_list read_file (dedup_keys l [])
                                                | _ => Err JsonError end);
  do cb <- build root files;
  OK (mkReport version uuid [] repo cb).

Definition get_report_version (v : jvalue) : res (option pystr) :=
  match v with
  | JObj l => match jget l k_version with Some x => as_opt_str x | None => OK None end
  | _ => Err JsonError
  end.

Definition enc_opt_str (o : option pystr) : tree := enc_option enc_str o.
Definition enc_report (r : report) : tree :=
  T [enc_opt_str (r_version r); enc_str (r_uuid r); enc_str (cb_root (r_codebase r));
     enc_option (fun rp => T [enc_str (rp_owner rp); enc_str (rp_name rp); enc_opt_str (rp_branch rp)]) (r_repository r);
     enc_codebase (r_codebase r)].
