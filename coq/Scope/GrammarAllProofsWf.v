(* GrammarAllProofsWf.v — the programs of the grammar of Scope/GrammarAll.v (six brace languages):
   token facts about the function heads, brace balance, the shape and ordering clauses of
   Spec.wf_descs, and the absence of nesting for the flat language.  Generalises
   GrammarProofsBrace.v (C family) to `items_of`: here fd_hend may be smaller than fd_open
   (throws clause, return type) and fd_name may be larger than fd_start (function / const). *)
From Verif Require Import Base Regex Token TokEngine Headers Blocks Spec HeaderSpec LexShapes Grammar GrammarAll.
From Verif Require Import GrammarProofsParen GrammarProofsBrace GrammarAllProofsTok GrammarAllProofsCit.
From Coq Require Import Sorted.
Open Scope nat_scope.


Lemma stmt_tail post semi : inner post -> is_symbol semi semicolon = true -> simple_stmt (post ++ [semi]).
Proof. intros H1 H2. exists post, semi. auto. Qed.

(* ---------- brace balance ---------- *)
Theorem items_of_balanced Pc Ph l off ts ds : citems Pc Ph l off ts ds -> balanced ts.
Proof.
  induction 1 as [off|off s r ds Hs Hr IH
                 |off kw words cond o body c r ds1 ds2 Hkw Hwords Hcond Hnt Ho Hc Hb IHb Hr IHr
                 |off kw5 colon5 r ds Hkw5 Hcolon5 Hr5 IHr5
                 |off o4 body4 c4 r ds1 ds2 Ho4 Hc4 Hb4 IHb4 Hr4 IHr4
                 |off pre1 o1 flat c1 post1 semi r ds Hpre1 Ho1 Hflat1 Hc1 Hpost1 Hsemi Hr IH
                 |off a tail o2 body2 c2 post2 semi2 r ds1 ds2 Hjs Hane Hop Hlast Htail Ho2 Hc2 Hpost2 Hsemi2 Hb2 IHb2 Hr2 IHr2
                 |off pre3 kn nm3 gs3 o3 body3 c3 post3 semi3 r ds1 ds2 Hl3 Hpre3 Hkn Hnm3 Hgs3 Ho3 Hc3 Hb3 IHb3 Hpost3 Hsemi3 Hr3 IHr3
                 |off pre3 kn nm3 gs3 o3 body3 c3 post3 semi3 r ds1 ds2 Hl3 Hpre3 Hkn Hnm3 Hgs3 Ho3 Hc3 Hfl3 Eds Hpost3 Hsemi3 Hr3 IHr3
                 |off pre hd nm_off hend_off o body c r ds1 ds2 Hpre Hhd HPh Ho Hc Hb IHb Hflat Hr IHr].
  - apply balanced_nil.
  - apply balanced_app; [|exact IH]. apply brace_free_balanced, simple_stmt_brace_free, Hs.
  - replace (kw :: words ++ cond ++ o :: body ++ c :: r) with ([kw] ++ words ++ cond ++ (o :: body ++ [c]) ++ r)
      by (norm_app; reflexivity).
    destruct (keyword_nb kw Hkw) as [K3 K4].
    apply balanced_app; [apply balanced_single; assumption|].
    apply balanced_app; [apply brace_free_balanced, words_brace_free, Hwords|].
    apply balanced_app.
    + destruct Hcond as [->|[Hg _]]; [apply balanced_nil|]. apply brace_free_balanced, groups_brace_free, Hg.
    + apply balanced_app; [|exact IHr]. apply balanced_block; assumption.
  - change (kw5 :: colon5 :: r) with ([kw5] ++ [colon5] ++ r).
    apply balanced_app; [apply nb_balanced, keyword_nb, Hkw5|].
    apply balanced_app; [apply nb_balanced; eapply operator_nb; exact Hcolon5 | exact IHr5].
  - replace (o4 :: body4 ++ c4 :: r) with ((o4 :: body4 ++ [c4]) ++ r) by (norm_app; reflexivity).
    apply balanced_app; [apply balanced_block; assumption | exact IHr4].
  - replace (pre1 ++ o1 :: flat ++ c1 :: post1 ++ semi :: r) with (pre1 ++ (o1 :: flat ++ [c1]) ++ (post1 ++ [semi]) ++ r)
      by (norm_app; reflexivity).
    apply balanced_app; [apply brace_free_balanced, plains_brace_free, Hpre1|].
    apply balanced_app; [apply balanced_block; try assumption; apply brace_free_balanced, inner_brace_free, Hflat1|].
    apply balanced_app; [|exact IH].
    apply brace_free_balanced, simple_stmt_brace_free, stmt_tail; assumption.
  - replace (a ++ tail ++ o2 :: body2 ++ c2 :: post2 ++ semi2 :: r)
      with (a ++ tail ++ (o2 :: body2 ++ [c2]) ++ post2 ++ [semi2] ++ r) by (norm_app; reflexivity).
    apply balanced_app; [eapply brace_free_balanced, open_prefix_brace_free; exact Hop|].
    apply balanced_app; [apply brace_free_balanced, cb_tail_brace_free, Htail|].
    apply balanced_app; [apply balanced_block; assumption|].
    apply balanced_app; [apply brace_free_balanced, rparens_brace_free, Hpost2|].
    apply balanced_app; [|exact IHr2].
    apply nb_balanced. split; [apply semi_not_lbrace | apply semi_not_rbrace]; exact Hsemi2.
  - replace (pre3 ++ kn :: nm3 :: gs3 ++ o3 :: body3 ++ c3 :: post3 ++ semi3 :: r) with (pre3 ++ [kn] ++ [nm3] ++ gs3 ++ (o3 :: body3 ++ [c3]) ++ (post3 ++ [semi3]) ++ r)
      by (norm_app; reflexivity).
    apply balanced_app; [apply brace_free_balanced, plains_brace_free, Hpre3|].
    apply balanced_app; [apply nb_balanced; eapply kw_nb; exact Hkn|].
    apply balanced_app; [apply nb_balanced, name_nb, Hnm3|].
    apply balanced_app; [apply brace_free_balanced, groups_brace_free, Hgs3|].
    apply balanced_app; [apply balanced_block; assumption|].
    apply balanced_app; [|exact IHr3]. apply brace_free_balanced, simple_stmt_brace_free, stmt_tail; assumption.
  - replace (pre3 ++ kn :: nm3 :: gs3 ++ o3 :: body3 ++ c3 :: post3 ++ semi3 :: r) with (pre3 ++ [kn] ++ [nm3] ++ gs3 ++ (o3 :: body3 ++ [c3]) ++ (post3 ++ [semi3]) ++ r)
      by (norm_app; reflexivity).
    apply balanced_app; [apply brace_free_balanced, plains_brace_free, Hpre3|].
    apply balanced_app; [apply nb_balanced; eapply kw_nb; exact Hkn|].
    apply balanced_app; [apply nb_balanced, name_nb, Hnm3|].
    apply balanced_app; [apply brace_free_balanced, groups_brace_free, Hgs3|].
    apply balanced_app; [apply balanced_block; try assumption; apply brace_free_balanced, plains_brace_free, Hfl3|].
    apply balanced_app; [|exact IHr3]. apply brace_free_balanced, simple_stmt_brace_free, stmt_tail; assumption.
  - replace (pre ++ hd ++ o :: body ++ c :: r) with (pre ++ hd ++ (o :: body ++ [c]) ++ r)
      by (norm_app; reflexivity).
    apply balanced_app; [apply brace_free_balanced, prefix_brace_free, (prefix_words_toks l), Hpre|].
    apply balanced_app; [eapply fhead_balanced; exact Hhd|].
    apply balanced_app; [|exact IHr]. apply balanced_block; assumption.
Qed.

(* ---------- the shape clauses ---------- *)
Theorem items_of_shape Pc Ph l off ts ds : citems Pc Ph l off ts ds ->
  forall pre post, length pre = off -> Forall (shapeP (pre ++ ts ++ post)) ds.
Proof.
  induction 1 as [off|off s r ds Hs Hr IH
                 |off kw words cond o body c r ds1 ds2 Hkw Hwords Hcond Hnt Ho Hc Hb IHb Hr IHr
                 |off kw5 colon5 r ds Hkw5 Hcolon5 Hr5 IHr5
                 |off o4 body4 c4 r ds1 ds2 Ho4 Hc4 Hb4 IHb4 Hr4 IHr4
                 |off pre1 o1 flat c1 post1 semi r ds Hpre1 Ho1 Hflat1 Hc1 Hpost1 Hsemi Hr IH
                 |off a tail o2 body2 c2 post2 semi2 r ds1 ds2 Hjs Hane Hop Hlast Htail Ho2 Hc2 Hpost2 Hsemi2 Hb2 IHb2 Hr2 IHr2
                 |off pre3 kn nm3 gs3 o3 body3 c3 post3 semi3 r ds1 ds2 Hl3 Hpre3 Hkn Hnm3 Hgs3 Ho3 Hc3 Hb3 IHb3 Hpost3 Hsemi3 Hr3 IHr3
                 |off pre3 kn nm3 gs3 o3 body3 c3 post3 semi3 r ds1 ds2 Hl3 Hpre3 Hkn Hnm3 Hgs3 Ho3 Hc3 Hfl3 Eds Hpost3 Hsemi3 Hr3 IHr3
                 |off pre0 hd nm_off hend_off o body c r ds1 ds2 Hpre Hhd HPh Ho Hc Hb IHb Hflat Hr IHr];
    intros pre post Hlen.
  - constructor.
  - replace (pre ++ (s ++ r) ++ post) with ((pre ++ s) ++ r ++ post) by (norm_app; reflexivity).
    apply IH; norm_len; lia.
  - apply Forall_app. split.
    + replace (pre ++ (kw :: words ++ cond ++ o :: body ++ c :: r) ++ post)
        with ((pre ++ kw :: words ++ cond ++ [o]) ++ body ++ (c :: r ++ post)) by (norm_app; reflexivity).
      apply IHb; norm_len; lia.
    + replace (pre ++ (kw :: words ++ cond ++ o :: body ++ c :: r) ++ post)
        with ((pre ++ kw :: words ++ cond ++ o :: body ++ [c]) ++ r ++ post) by (norm_app; reflexivity).
      apply IHr; norm_len; lia.
  - replace (pre ++ (kw5 :: colon5 :: r) ++ post) with ((pre ++ [kw5; colon5]) ++ r ++ post) by (norm_app; reflexivity).
    apply IHr5; norm_len; lia.
  - apply Forall_app. split.
    + replace (pre ++ (o4 :: body4 ++ c4 :: r) ++ post) with ((pre ++ [o4]) ++ body4 ++ (c4 :: r ++ post)) by (norm_app; reflexivity).
      apply IHb4; norm_len; lia.
    + replace (pre ++ (o4 :: body4 ++ c4 :: r) ++ post) with ((pre ++ o4 :: body4 ++ [c4]) ++ r ++ post) by (norm_app; reflexivity).
      apply IHr4; norm_len; lia.
  - replace (pre ++ (pre1 ++ o1 :: flat ++ c1 :: post1 ++ semi :: r) ++ post)
      with ((pre ++ pre1 ++ o1 :: flat ++ c1 :: post1 ++ [semi]) ++ r ++ post) by (norm_app; reflexivity).
    apply IH; norm_len; lia.
  - apply Forall_app. split.
    + replace (pre ++ (a ++ tail ++ o2 :: body2 ++ c2 :: post2 ++ semi2 :: r) ++ post)
        with ((pre ++ a ++ tail ++ [o2]) ++ body2 ++ (c2 :: post2 ++ semi2 :: r ++ post)) by (norm_app; reflexivity).
      apply IHb2; norm_len; lia.
    + replace (pre ++ (a ++ tail ++ o2 :: body2 ++ c2 :: post2 ++ semi2 :: r) ++ post)
        with ((pre ++ a ++ tail ++ o2 :: body2 ++ c2 :: post2 ++ [semi2]) ++ r ++ post) by (norm_app; reflexivity).
      apply IHr2; norm_len; lia.
  - apply Forall_app. split.
    + replace (pre ++ (pre3 ++ kn :: nm3 :: gs3 ++ o3 :: body3 ++ c3 :: post3 ++ semi3 :: r) ++ post)
        with ((pre ++ pre3 ++ kn :: nm3 :: gs3 ++ [o3]) ++ body3 ++ (c3 :: post3 ++ semi3 :: r ++ post)) by (norm_app; reflexivity).
      apply IHb3; norm_len; lia.
    + replace (pre ++ (pre3 ++ kn :: nm3 :: gs3 ++ o3 :: body3 ++ c3 :: post3 ++ semi3 :: r) ++ post)
        with ((pre ++ pre3 ++ kn :: nm3 :: gs3 ++ o3 :: body3 ++ c3 :: post3 ++ [semi3]) ++ r ++ post) by (norm_app; reflexivity).
      apply IHr3; norm_len; lia.
  - subst ds1. cbn [app].
    replace (pre ++ (pre3 ++ kn :: nm3 :: gs3 ++ o3 :: body3 ++ c3 :: post3 ++ semi3 :: r) ++ post)
      with ((pre ++ pre3 ++ kn :: nm3 :: gs3 ++ o3 :: body3 ++ c3 :: post3 ++ [semi3]) ++ r ++ post) by (norm_app; reflexivity).
    apply IHr3; norm_len; lia.
  - destruct (fhead_offsets _ _ _ _ Hhd) as [Hn Hh].
    constructor; [|apply Forall_app; split].
    + unfold shapeP. cbn [fd_start fd_name fd_hend fd_open fd_close].
      split; [lia|]. split; [lia|]. split; [|split].
      * replace (pre ++ (pre0 ++ hd ++ o :: body ++ c :: r) ++ post)
          with ((pre ++ pre0 ++ hd) ++ o :: body ++ c :: (r ++ post)) by (norm_app; reflexivity).
        replace (off + length pre0 + length hd) with (length (pre ++ pre0 ++ hd)) by (norm_len; lia).
        apply matched_ctx; try assumption. eapply items_of_balanced; exact Hb.
      * norm_len. lia.
      * intros k Hk. destruct (fhead_tail _ _ _ _ Hhd) as (A & T & EA & LA & HT). revert Hk. rewrite EA. intros Hk.
        replace (pre ++ (pre0 ++ (A ++ T) ++ o :: body ++ c :: r) ++ post)
          with ((pre ++ pre0 ++ A) ++ T ++ (o :: body ++ c :: r ++ post)) by (norm_app; reflexivity).
        apply brace_free_sym_at; [exact HT | revert Hk; norm_len; lia].
    + replace (pre ++ (pre0 ++ hd ++ o :: body ++ c :: r) ++ post)
        with ((pre ++ pre0 ++ hd ++ [o]) ++ body ++ (c :: r ++ post)) by (norm_app; reflexivity).
      apply IHb; norm_len; lia.
    + replace (pre ++ (pre0 ++ hd ++ o :: body ++ c :: r) ++ post)
        with ((pre ++ pre0 ++ hd ++ o :: body ++ [c]) ++ r ++ post) by (norm_app; reflexivity).
      apply IHr; norm_len; lia.
Qed.

(* ---------- position and ordering of the descriptors ---------- *)
Definition within_of (lo hi : nat) (d : fdesc) : Prop :=
  lo <= fd_start d /\ fd_start d <= fd_name d /\ fd_name d < fd_hend d /\ fd_hend d <= fd_open d /\
  fd_open d < fd_close d /\ fd_close d < hi.

Lemma within_of_weaken lo hi lo' hi' d : lo' <= lo -> hi <= hi' -> within_of lo hi d -> within_of lo' hi' d.
Proof. unfold within_of. intros; lia. Qed.

Theorem items_of_order Pc Ph l off ts ds : citems Pc Ph l off ts ds ->
  Forall (within_of off (off + length ts)) ds /\ StronglySorted ord ds.
Proof.
  induction 1 as [off|off s r ds Hs Hr IH
                 |off kw words cond o body c r ds1 ds2 Hkw Hwords Hcond Hnt Ho Hc Hb IHb Hr IHr
                 |off kw5 colon5 r ds Hkw5 Hcolon5 Hr5 IHr5
                 |off o4 body4 c4 r ds1 ds2 Ho4 Hc4 Hb4 IHb4 Hr4 IHr4
                 |off pre1 o1 flat c1 post1 semi r ds Hpre1 Ho1 Hflat1 Hc1 Hpost1 Hsemi Hr IH
                 |off a tail o2 body2 c2 post2 semi2 r ds1 ds2 Hjs Hane Hop Hlast Htail Ho2 Hc2 Hpost2 Hsemi2 Hb2 IHb2 Hr2 IHr2
                 |off pre3 kn nm3 gs3 o3 body3 c3 post3 semi3 r ds1 ds2 Hl3 Hpre3 Hkn Hnm3 Hgs3 Ho3 Hc3 Hb3 IHb3 Hpost3 Hsemi3 Hr3 IHr3
                 |off pre3 kn nm3 gs3 o3 body3 c3 post3 semi3 r ds1 ds2 Hl3 Hpre3 Hkn Hnm3 Hgs3 Ho3 Hc3 Hfl3 Eds Hpost3 Hsemi3 Hr3 IHr3
                 |off pre0 hd nm_off hend_off o body c r ds1 ds2 Hpre Hhd HPh Ho Hc Hb IHb Hflat Hr IHr].
  - split; constructor.
  - destruct IH as [I1 I2]. split; [|exact I2].
    eapply Forall_impl; [|exact I1]. intros d. apply within_of_weaken; norm_len; lia.
  - destruct IHb as [B1 B2]. destruct IHr as [R1 R2]. split.
    + apply Forall_app. split; (eapply Forall_impl; [|eassumption]); intros d; apply within_of_weaken; norm_len; lia.
    + apply StronglySorted_app; [assumption | assumption|].
      intros x y Hx Hy. rewrite Forall_forall in B1, R1. apply B1 in Hx. apply R1 in Hy.
      unfold within_of in Hx, Hy. unfold ord, nested_in, after. lia.
  - destruct IHr5 as [I1 I2]. split; [|exact I2].
    eapply Forall_impl; [|exact I1]. intros d. apply within_of_weaken; norm_len; lia.
  - destruct IHb4 as [B1 B2]. destruct IHr4 as [R1 R2]. split.
    + apply Forall_app. split; (eapply Forall_impl; [|eassumption]); intros d; apply within_of_weaken; norm_len; lia.
    + apply StronglySorted_app; [assumption | assumption|].
      intros x y Hx Hy. rewrite Forall_forall in B1, R1. apply B1 in Hx. apply R1 in Hy.
      unfold within_of in Hx, Hy. unfold ord, nested_in, after. lia.
  - destruct IH as [I1 I2]. split; [|exact I2].
    eapply Forall_impl; [|exact I1]. intros d. apply within_of_weaken; norm_len; lia.
  - destruct IHb2 as [B1 B2]. destruct IHr2 as [R1 R2]. split.
    + apply Forall_app. split; (eapply Forall_impl; [|eassumption]); intros d; apply within_of_weaken; norm_len; lia.
    + apply StronglySorted_app; [assumption | assumption|].
      intros x y Hx Hy. rewrite Forall_forall in B1, R1. apply B1 in Hx. apply R1 in Hy.
      unfold within_of in Hx, Hy. unfold ord, nested_in, after. lia.
  - destruct IHb3 as [B1 B2]. destruct IHr3 as [R1 R2]. split.
    + apply Forall_app. split; (eapply Forall_impl; [|eassumption]); intros d; apply within_of_weaken; norm_len; lia.
    + apply StronglySorted_app; [assumption | assumption|].
      intros x y Hx Hy. rewrite Forall_forall in B1, R1. apply B1 in Hx. apply R1 in Hy.
      unfold within_of in Hx, Hy. unfold ord, nested_in, after. lia.
  - subst ds1. cbn [app]. destruct IHr3 as [I1 I2]. split; [|exact I2].
    eapply Forall_impl; [|exact I1]. intros d. apply within_of_weaken; norm_len; lia.
  - destruct IHb as [B1 B2]. destruct IHr as [R1 R2].
    destruct (fhead_offsets _ _ _ _ Hhd) as [Hn Hh]. split.
    + constructor.
      * unfold within_of. cbn [fd_start fd_name fd_hend fd_open fd_close]. norm_len. lia.
      * apply Forall_app. split; (eapply Forall_impl; [|eassumption]); intros d; apply within_of_weaken; norm_len; lia.
    + constructor.
      * apply StronglySorted_app; [assumption | assumption|].
        intros x y Hx Hy. rewrite Forall_forall in B1, R1. apply B1 in Hx. apply R1 in Hy.
        unfold within_of in Hx, Hy. unfold ord, nested_in, after. lia.
      * apply Forall_app. split; apply Forall_forall; intros x Hx; rewrite Forall_forall in B1, R1.
        -- apply B1 in Hx. unfold within_of in Hx. unfold ord, nested_in, after.
           cbn [fd_start fd_name fd_hend fd_open fd_close]. lia.
        -- apply R1 in Hx. unfold within_of in Hx. unfold ord, nested_in, after.
           cbn [fd_start fd_name fd_hend fd_open fd_close]. lia.
Qed.

Theorem items_of_flat_order Pc Ph l off ts ds : lang_nested l = false -> citems Pc Ph l off ts ds -> StronglySorted after_ord ds.
Proof.
  intros Hl.
  induction 1 as [off|off s r ds Hs Hr IH
                 |off kw words cond o body c r ds1 ds2 Hkw Hwords Hcond Hnt Ho Hc Hb IHb Hr IHr
                 |off kw5 colon5 r ds Hkw5 Hcolon5 Hr5 IHr5
                 |off o4 body4 c4 r ds1 ds2 Ho4 Hc4 Hb4 IHb4 Hr4 IHr4
                 |off pre1 o1 flat c1 post1 semi r ds Hpre1 Ho1 Hflat1 Hc1 Hpost1 Hsemi Hr IH
                 |off a tail o2 body2 c2 post2 semi2 r ds1 ds2 Hjs Hane Hop Hlast Htail Ho2 Hc2 Hpost2 Hsemi2 Hb2 IHb2 Hr2 IHr2
                 |off pre3 kn nm3 gs3 o3 body3 c3 post3 semi3 r ds1 ds2 Hl3 Hpre3 Hkn Hnm3 Hgs3 Ho3 Hc3 Hb3 IHb3 Hpost3 Hsemi3 Hr3 IHr3
                 |off pre3 kn nm3 gs3 o3 body3 c3 post3 semi3 r ds1 ds2 Hl3 Hpre3 Hkn Hnm3 Hgs3 Ho3 Hc3 Hfl3 Eds Hpost3 Hsemi3 Hr3 IHr3
                 |off pre0 hd nm_off hend_off o body c r ds1 ds2 Hpre Hhd HPh Ho Hc Hb IHb Hflat Hr IHr].
  - constructor.
  - exact IH.
  - apply StronglySorted_app; [assumption | assumption|].
    intros x y Hx Hy. destruct (items_of_order _ _ _ _ _ _ Hb) as [B1 _]. destruct (items_of_order _ _ _ _ _ _ Hr) as [R1 _].
    rewrite Forall_forall in B1, R1. apply B1 in Hx. apply R1 in Hy.
    unfold within_of in Hx, Hy. unfold after_ord, after. lia.
  - exact IHr5.
  - apply StronglySorted_app; [assumption | assumption|].
    intros x y Hx Hy. destruct (items_of_order _ _ _ _ _ _ Hb4) as [B1 _]. destruct (items_of_order _ _ _ _ _ _ Hr4) as [R1 _].
    rewrite Forall_forall in B1, R1. apply B1 in Hx. apply R1 in Hy.
    unfold within_of in Hx, Hy. unfold after_ord, after. lia.
  - exact IH.
  - apply StronglySorted_app; [assumption | assumption|].
    intros x y Hx Hy. destruct (items_of_order _ _ _ _ _ _ Hb2) as [B1 _]. destruct (items_of_order _ _ _ _ _ _ Hr2) as [R1 _].
    rewrite Forall_forall in B1, R1. apply B1 in Hx. apply R1 in Hy.
    unfold within_of in Hx, Hy. unfold after_ord, after. lia.
  - apply StronglySorted_app; [assumption | assumption|].
    intros x y Hx Hy. destruct (items_of_order _ _ _ _ _ _ Hb3) as [B1 _]. destruct (items_of_order _ _ _ _ _ _ Hr3) as [R1 _].
    rewrite Forall_forall in B1, R1. apply B1 in Hx. apply R1 in Hy.
    unfold within_of in Hx, Hy. unfold after_ord, after. lia.
  - subst ds1. cbn [app]. exact IHr3.
  - rewrite (Hflat Hl). cbn [app]. constructor; [exact IHr|].
    destruct (items_of_order _ _ _ _ _ _ Hr) as [R1 _]. apply Forall_forall. intros x Hx.
    rewrite Forall_forall in R1. apply R1 in Hx. unfold within_of in Hx. unfold after_ord, after.
    cbn [fd_start fd_name fd_hend fd_open fd_close]. lia.
Qed.

(* ---------- the theorems ---------- *)
Theorem canonical_of_wf : forall l ts ds, l <> LPython -> canonical_program_of l ts ds -> wf_descs ts ds.
Proof.
  intros l ts ds _ H. unfold canonical_program_of in H. constructor.
  - apply items_of_citems in H. pose proof (items_of_shape _ _ l 0 ts ds H [] [] eq_refl) as HS.
    cbn [app] in HS. rewrite app_nil_r in HS. exact HS.
  - apply items_of_citems in H. destruct (items_of_order _ _ l 0 ts ds H) as [_ HS].
    intros i j di dj Hij Hi Hj. exact (StronglySorted_nth ord ds HS i j di dj Hij Hi Hj).
Qed.

Theorem canonical_of_flat : forall l ts ds, lang_nested l = false -> canonical_program_of l ts ds ->
  forall c d, In c ds -> In d ds -> ~ nested_in c d.
Proof.
  intros l ts ds Hl H c d Hc Hd Hn. unfold canonical_program_of in H.
  apply items_of_citems in H. destruct (items_of_order _ _ l 0 ts ds H) as [HW _]. pose proof (items_of_flat_order _ _ l 0 ts ds Hl H) as HS.
  rewrite Forall_forall in HW. pose proof (HW c Hc) as Wc. pose proof (HW d Hd) as Wd.
  unfold within_of in Wc, Wd. unfold nested_in in Hn.
  apply In_nth_error in Hc as [i Hi]. apply In_nth_error in Hd as [j Hj].
  destruct (lt_eq_lt_dec i j) as [[Hlt|Heq]|Hgt].
  - pose proof (StronglySorted_nth after_ord ds HS i j c d Hlt Hi Hj) as Ha. unfold after_ord, after in Ha. lia.
  - subst j. rewrite Hi in Hj. injection Hj as <-. lia.
  - pose proof (StronglySorted_nth after_ord ds HS j i d c Hgt Hj Hi) as Ha. unfold after_ord, after in Ha. lia.
Qed.

Print Assumptions canonical_of_wf.
Print Assumptions canonical_of_flat.
