(* Render.v — the cell contents of the overview (ScanResultTable._populate and
   its footer; format_markdown._print_totals), built from the translated delta
   formatters of Gen/GenDelta.v.  Text overview after the GD18 repair (previous
   totals are looked up in the PREVIOUS report). *)
From Verif Require Import Base GenDelta.
Open Scope Z_scope.

(* ScanTotals.language_total: dict.get on the language name *)
Definition language_total (totals : list LanguageTotals) (lang : pystr) : option LanguageTotals :=
  find (fun t => pystr_eqb (lt_language t) lang) totals.

Definition plain_row (t : LanguageTotals) : list pystr :=
  [lt_language t; fmt_n (lt_files t); fmt_n (lt_functions t); fmt_n (lt_loc t);
   fmt_n (lt_hard_to_maintain t); fmt_n (lt_unmaintainable t)].
Definition delta_row (t : LanguageTotals) (p : option LanguageTotals) : list pystr :=
  [lt_language t; ltd_files t p; ltd_functions t p; ltd_loc t p; ltd_hard_to_maintain t p; ltd_unmaintainable t p].

Definition plain_totals (cur : list LanguageTotals) : list pystr :=
  [fmt_n (st_total_files cur); fmt_n (st_total_functions cur); fmt_n (st_total_loc cur);
   fmt_n (st_total_hard_to_maintain cur); fmt_n (st_total_unmaintainable cur)].
Definition delta_totals (cur prev : list LanguageTotals) : list pystr :=
  [std_total_files (st_total_files cur) (st_total_files prev);
   std_total_functions (st_total_functions cur) (st_total_functions prev);
   std_total_loc (st_total_loc cur) (st_total_loc prev);
   std_total_hard_to_maintain (st_total_hard_to_maintain cur) (st_total_hard_to_maintain prev);
   std_total_unmaintainable (st_total_unmaintainable cur) (st_total_unmaintainable prev)].

Record overview := mkOverview { ov_rows : list (list pystr); ov_totals : option (list pystr) }.

(* text: ScanResultTable — rows from _populate, footer (totals) shown iff more than one language *)
Definition overview_text (cur : list LanguageTotals) (prev : option (list LanguageTotals)) : overview :=
  mkOverview
    (map (fun t => match prev with
                   | Some pv => delta_row t (language_total pv (lt_language t))
                   | None => plain_row t
                   end) (languages_totals cur))
    (if (1 <? Z.of_nat (length cur)) then
       Some (match prev with Some pv => delta_totals cur pv | None => plain_totals cur end)
     else None).

(* Markdown: _print_totals *)
Definition overview_md (cur : list LanguageTotals) (prev : option (list LanguageTotals)) : overview :=
  mkOverview
    (map (fun t => match prev with
                   | Some pv => delta_row t (language_total pv (lt_language t))
                   | None => plain_row t
                   end) (languages_totals cur))
    (if (1 <? Z.of_nat (length (languages_totals cur))) then
       Some (match prev with Some pv => delta_totals cur pv | None => plain_totals cur end)
     else None).

Definition enc_overview (o : overview) : tree :=
  T [enc_list (enc_list enc_str) (ov_rows o); enc_option (enc_list enc_str) (ov_totals o)].
