(* ShapeProofs.v — extract_headers of every language equals the lexical specification
   (HeaderSpec.v for the C family, LexShapes.v for the others), and the C01 pipeline theorem
   of the brace languages with the header-recognition hypothesis replaced by the lexical one. *)
From Verif Require Import Base Regex Nfa Dfa Token TokEngine GenPatterns Headers Blocks Spec HeaderSpec Scan ScanProofs.
From Verif Require Import Lex LexProofs Pairing Fold ScanFile SpecProofs.
From Verif Require Import LexShapes HeaderProofsDfa HeaderProofsSelect.
From Verif Require Import ShapeProofsGen ShapeProofsFollow ShapeProofsDef ShapeProofsJava ShapeProofsFn ShapeProofsArrow.
From Coq Require Import Sorted Permutation.

(* ---------- the captured patterns of JavaScript and TypeScript ---------- *)
Example cap_JavaScript :
  patterns_JavaScript = [(fn_pattern, Some cfamily_followup); (arrow_pattern, Some cfamily_followup)].
Proof. reflexivity. Qed.
Example cap_TypeScript :
  patterns_TypeScript = [(fn_pattern, Some ts_followup); (arrow_pattern, Some cfamily_followup)].
Proof. reflexivity. Qed.

Theorem extract_headers_JavaScript : forall ts,
  extract_headers LJavaScript ts = OK (lexical_headers_JavaScript ts).
Proof.
  intros ts. unfold extract_headers, lang_patterns. rewrite cap_JavaScript. cbn [headers_of_patterns].
  rewrite function_headers_brace, arrow_headers_spec, app_nil_r. reflexivity.
Qed.

Theorem extract_headers_TypeScript : forall ts,
  extract_headers LTypeScript ts = OK (lexical_headers_TypeScript ts).
Proof.
  intros ts. unfold extract_headers, lang_patterns. rewrite cap_TypeScript. cbn [headers_of_patterns].
  rewrite function_headers_rettype, arrow_headers_spec, app_nil_r. reflexivity.
Qed.

(* ---------- every language ---------- *)
Theorem extract_headers_lexical : forall (l : language) (ts : list token),
  extract_headers l ts = OK (lexical_headers_of l ts).
Proof.
  intros l ts. destruct l; cbn [lexical_headers_of].
  - apply extract_headers_C.
  - apply extract_headers_Cpp.
  - apply extract_headers_CSharp.
  - apply extract_headers_Java.
  - apply extract_headers_JavaScript.
  - apply extract_headers_Python.
  - apply extract_headers_TypeScript.
Qed.

(* ---------- C01 with the lexical hypothesis ---------- *)
Definition lexically_canonical_of (l : language) (ts : list token) (ds : list fdesc) : Prop :=
  Permutation (lexical_headers_of l ts) (map header_of ds).

Theorem C01_brace_lexical : forall (l : language) toks ds,
  l <> LPython -> lang_nested l = true ->
  let code := filter_tokens false toks in
  StronglySorted pos_lt code -> filter_nocl_comment_tokens toks = [] ->
  wf_descs code ds -> lexically_canonical_of l code ds ->
  scan_file l toks = expected_all code ds ds.
Proof.
  intros l toks ds Hl Hn code HS Hnocl Hwf Hlex.
  apply C01_brace_pipeline; try assumption.
  exists (lexical_headers_of l code). split; [apply extract_headers_lexical | exact Hlex].
Qed.

Theorem C01_flat_lexical : forall (l : language) toks ds,
  l <> LPython -> lang_nested l = false ->
  let code := filter_tokens false toks in
  StronglySorted pos_lt code -> filter_nocl_comment_tokens toks = [] -> wf_descs code ds ->
  (forall c d, In c ds -> In d ds -> ~ nested_in c d) -> lexically_canonical_of l code ds ->
  scan_file l toks = expected_all code ds ds.
Proof.
  intros l toks ds Hl Hn code HS Hnocl Hwf Hflat Hlex.
  apply C01_brace_pipeline_flat; try assumption.
  exists (lexical_headers_of l code). split; [apply extract_headers_lexical | exact Hlex].
Qed.

Print Assumptions extract_headers_lexical.
Print Assumptions C01_brace_lexical.
Print Assumptions C01_flat_lexical.

(* ---------- non-vacuity: each shape on a small stream, model and specification ---------- *)
Open Scope Z_scope.
(* async def f ( a ) : x   def g ( ) ( ) *)
Example shape_example_python :
  let code := toks [(0, s_async); (0, s_def); (1, [102]); (2, [40]); (1, [97]); (2, [41]); (2, [58]); (1, [120]);
                    (0, s_def); (1, [103]); (2, [40]); (2, [41]); (2, [40]); (2, [41])] in
  lexical_headers_of LPython code = [mkHeader 2 0 6; mkHeader 9 8 14] /\
  extract_headers LPython code = OK [mkHeader 2 0 6; mkHeader 9 8 14].
Proof. vm_compute. split; reflexivity. Qed.

(* f ( ) throws E , F {   new g ( ) {   h ( ) throws E ; {   k ( ) { *)
Example shape_example_java :
  let code := toks [(1, [102]); (2, [40]); (2, [41]); (0, s_throws); (1, [69]); (2, [44]); (1, [70]); (2, [123]);
                    (0, kw_new); (1, [103]); (2, [40]); (2, [41]); (2, [123]);
                    (1, [104]); (2, [40]); (2, [41]); (0, s_throws); (1, [69]); (2, [59]); (2, [123]);
                    (1, [107]); (2, [40]); (2, [41]); (2, [123])] in
  lexical_headers_of LJava code = [mkHeader 0 0 3; mkHeader 20 20 23] /\
  extract_headers LJava code = OK [mkHeader 0 0 3; mkHeader 20 20 23].
Proof. vm_compute. split; reflexivity. Qed.

(* function f ( a ) : T {   const g = async ( x ) ( ( => ) ) => {   h = ( ) => ; *)
Example shape_example_typescript :
  let code := toks [(0, s_function); (1, [102]); (2, [40]); (1, [97]); (2, [41]); (3, s_colon); (1, [84]); (2, [123]);
                    (0, s_const); (1, [103]); (3, s_eq); (0, s_async); (2, [40]); (1, [120]); (2, [41]);
                    (2, [40]); (2, [40]); (2, s_arrow); (2, [41]); (2, [41]); (2, s_arrow); (2, [123]);
                    (1, [104]); (3, s_eq); (2, [40]); (2, [41]); (2, s_arrow); (2, [59])] in
  lexical_headers_of LTypeScript code = [mkHeader 1 0 5; mkHeader 9 8 21] /\
  extract_headers LTypeScript code = OK [mkHeader 1 0 5; mkHeader 9 8 21] /\
  lexical_headers_of LJavaScript code = [mkHeader 9 8 21] /\
  extract_headers LJavaScript code = OK [mkHeader 9 8 21].
Proof. vm_compute. repeat split; reflexivity. Qed.

(* the repaired TypeScript follow-up (GD26):
   if ( c ? f ( ) : x ) {          — a call in a ternary in a condition is no header
   g ( ) : ( a : T ) => U {        — a function type as return type is one
   h ( ) : ( x {   k ( ) : y ; {   — a group that never closes, a ";" before the brace: none *)
Example shape_example_typescript_rettype :
  let code := toks [(0, [105; 102]); (2, [40]); (1, [99]); (3, [63]); (1, [102]); (2, [40]); (2, [41]); (3, s_colon);
                    (1, [120]); (2, [41]); (2, [123]);
                    (1, [103]); (2, [40]); (2, [41]); (3, s_colon); (2, [40]); (1, [97]); (3, s_colon); (1, [84]); (2, [41]);
                    (2, s_arrow); (1, [85]); (2, [123]);
                    (1, [107]); (2, [40]); (2, [41]); (3, s_colon); (1, [121]); (2, [59]); (2, [123]);
                    (1, [104]); (2, [40]); (2, [41]); (3, s_colon); (2, [40]); (1, [120]); (2, [123])] in
  lexical_headers_of LTypeScript code = [mkHeader 11 11 14] /\
  extract_headers LTypeScript code = OK [mkHeader 11 11 14].
Proof. vm_compute. split; reflexivity. Qed.
