(* HeaderSpec.v — lexical specification of WHERE the C-family header pattern
   (identifier, one or more balanced parenthesis groups, then "{") applies in a
   token stream, independent of the matcher.  Used to replace the opaque hypothesis
   "the matcher returns the descriptors' headers" of the C01 pipeline theorem by a
   decidable condition on the tokens (checked by the harness on every generated
   program). *)
From Verif Require Import Base Regex Token TokEngine Headers Blocks Spec.
Open Scope Z_scope.

Definition lparen : pystr := [40].
Definition rparen : pystr := [41].

(* length of the maximal run "( ... ) ( ... ) ..." at the head of ts, given the current nesting depth:
   inside a group every token is consumed; between groups only "(" continues *)
Fixpoint groups_len (ts : list token) (depth : Z) : nat :=
  match ts with
  | [] => O
  | t :: r =>
      if 0 <? depth then
        (if is_symbol t lparen then S (groups_len r (depth + 1))
         else if is_symbol t rparen then S (groups_len r (depth - 1))
         else S (groups_len r depth))
      else if is_symbol t lparen then S (groups_len r 1) else O
  end.

(* candidate header at i: identifier at i, "(" at i+1; its end (exclusive) *)
Definition cand_end (ts : list token) (i : nat) : option nat :=
  match nth_error ts i, nth_error ts (S i) with
  | Some t, Some p => if is_name t && is_symbol p lparen then Some (S i + groups_len (skipn (S i) ts) 0)%nat else None
  | _, _ => None
  end.
(* accepted: the token at its end is "{" *)
Definition header_at (ts : list token) (i : nat) : option nat :=
  match cand_end ts i with
  | Some j => if sym_at ts j lbrace then Some j else None
  | None => None
  end.

(* leftmost non-overlapping selection over all positions, in order *)
Fixpoint select_headers (ts : list token) (positions : list nat) (last_end : nat) : list header :=
  match positions with
  | [] => []
  | i :: r =>
      match header_at ts i with
      | Some j => if Nat.leb last_end i then mkHeader i i j :: select_headers ts r j else select_headers ts r last_end
      | None => select_headers ts r last_end
      end
  end.
Definition lexical_headers (ts : list token) : list header := select_headers ts (seq O (length ts)) O.

(* the C-family pattern and follow-up, as data (compared with the captured patterns by reflexivity) *)
Definition cfamily_pattern : expr tpred := [Atom PName; Plus [Atom (PBalanced (PSymbol lparen) (PSymbol rparen))]].
Definition cfamily_followup : expr tpred := [Atom (PSymbol lbrace)].

(* the decidable lexical condition on a canonical stream: the identifier-groups-brace shape occurs
   exactly at the function headers of the descriptors *)
Definition lexically_canonical (ts : list token) (ds : list fdesc) : Prop :=
  lexical_headers ts = map header_of ds.
