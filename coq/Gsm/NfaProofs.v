(* NfaProofs.v — the Thompson construction of Nfa.v is total on well-formed
   patterns and builds a fragment whose start-to-accepting paths spell exactly
   the regular language of the pattern; nfa_match decides that language. *)
From Verif Require Import Base Regex Nfa ClosureProofs.
Open Scope nat_scope.

Section NfaProofs.
  Context {P I : Type}.
  Variable accepts : P -> I -> bool.
  Notation heap := (heap P).
  Notation op := (op P).
  Notation node := (node P).
  Notation enode := (@empty_node P).

  (* ---------- unfolding equations for the nested fixpoints ---------- *)
  Definition sub (e : list op) (h : heap) : res (heap * frag) :=
    match build_seq e h None with
    | Err k => Err k
    | OK (_, None) => Err IndexError
    | OK (h', Some f) => OK (h', f)
    end.

  Lemma build_op_atom p (h : heap) :
    build_op (Atom p) h =
    OK (h ++ [mkNode [(p, S (length h))] []; enode], (length h, S (length h))).
  Proof. reflexivity. Qed.

  Lemma build_op_union l r (h : heap) :
    build_op (Union l r) h =
    match sub l (h ++ [enode]) with
    | Err k => Err k
    | OK (h1, (s1, a1)) =>
        match sub r h1 with
        | Err k => Err k
        | OK (h2, (s2, a2)) =>
            OK (set_eps (set_eps (set_eps (h2 ++ [enode]) (length h) [s1; s2]) a1 [length h2])
                  a2 [length h2], (length h, length h2))
        end
    end.
  Proof. reflexivity. Qed.

  Lemma build_op_opt e (h : heap) :
    build_op (Opt e) h =
    match sub e (h ++ [enode]) with
    | Err k => Err k
    | OK (h1, (s1, a1)) =>
        OK (set_eps (set_eps (h1 ++ [enode]) (length h) [s1; length h1]) a1 [length h1],
            (length h, length h1))
    end.
  Proof. reflexivity. Qed.

  Lemma build_op_star e (h : heap) :
    build_op (Star e) h =
    match sub e (h ++ [enode]) with
    | Err k => Err k
    | OK (h1, (s1, a1)) =>
        OK (set_eps (set_eps (h1 ++ [enode]) (length h) [s1; length h1]) a1 [s1; length h1],
            (length h, length h1))
    end.
  Proof. reflexivity. Qed.

  Lemma build_op_plus e (h : heap) :
    build_op (Plus e) h =
    match sub e (h ++ [enode]) with
    | Err k => Err k
    | OK (h1, (s1, a1)) =>
        OK (set_eps (set_eps (h1 ++ [enode]) (length h) [s1]) a1 [s1; length h1],
            (length h, length h1))
    end.
  Proof. reflexivity. Qed.

  Lemma build_seq_cons o e (h : heap) cur :
    build_seq (o :: e) h cur =
    match build_op o h with
    | Err k => Err k
    | OK (h1, (s1, a1)) =>
        match cur with
        | None => build_seq e h1 (Some (s1, a1))
        | Some (s2, a2) => build_seq e (set_node h1 a2 (get h1 s1)) (Some (s2, a1))
        end
    end.
  Proof. reflexivity. Qed.

  Definition ne (e : list op) : bool := match e with [] => false | _ => true end.

  Lemma wf_op_union (l r : list op) : wf_op (Union l r) = ne l && wf_seq l && ne r && wf_seq r.
  Proof. reflexivity. Qed.
  Lemma wf_op_opt (e : list op) : wf_op (Opt e) = ne e && wf_seq e.
  Proof. reflexivity. Qed.
  Lemma wf_op_star (e : list op) : wf_op (Star e) = ne e && wf_seq e.
  Proof. reflexivity. Qed.
  Lemma wf_op_plus (e : list op) : wf_op (Plus e) = ne e && wf_seq e.
  Proof. reflexivity. Qed.
  Lemma wf_seq_cons (o : op) (e : list op) : wf_seq (o :: e) = wf_op o && wf_seq e.
  Proof. reflexivity. Qed.

  Lemma preds_op_union (l r : list op) : preds_op (Union l r) = preds_seq l ++ preds_seq r.
  Proof. reflexivity. Qed.
  Lemma preds_op_opt (e : list op) : preds_op (Opt e) = preds_seq e.
  Proof. reflexivity. Qed.
  Lemma preds_op_star (e : list op) : preds_op (Star e) = preds_seq e.
  Proof. reflexivity. Qed.
  Lemma preds_op_plus (e : list op) : preds_op (Plus e) = preds_seq e.
  Proof. reflexivity. Qed.

  (* ---------- induction principle for the nested inductive ---------- *)
  Section OpInd.
    Variable Pop : op -> Prop.
    Variable Pseq : list op -> Prop.
    Hypothesis Hatom : forall p, Pop (Atom p).
    Hypothesis Hunion : forall l r, Pseq l -> Pseq r -> Pop (Union l r).
    Hypothesis Hopt : forall e, Pseq e -> Pop (Opt e).
    Hypothesis Hstar : forall e, Pseq e -> Pop (Star e).
    Hypothesis Hplus : forall e, Pseq e -> Pop (Plus e).
    Hypothesis Hnil : Pseq [].
    Hypothesis Hcons : forall o e, Pop o -> Pseq e -> Pseq (o :: e).

    Fixpoint op_ind' (o : op) : Pop o :=
      let fix seq_ind (e : list op) : Pseq e :=
        match e with
        | [] => Hnil
        | o :: e' => Hcons o e' (op_ind' o) (seq_ind e')
        end in
      match o with
      | Atom p => Hatom p
      | Union l r => Hunion l r (seq_ind l) (seq_ind r)
      | Opt e => Hopt e (seq_ind e)
      | Star e => Hstar e (seq_ind e)
      | Plus e => Hplus e (seq_ind e)
      end.

    Fixpoint seq_ind' (e : list op) : Pseq e :=
      match e with
      | [] => Hnil
      | o :: e' => Hcons o e' (op_ind' o) (seq_ind' e')
      end.
  End OpInd.

  (* ---------- totality of the construction (direct proof) ---------- *)
  Lemma ne_true (e : list op) : ne e = true -> exists o e', e = o :: e'.
  Proof. destruct e as [|o e']; [discriminate|]. intros _. eauto. Qed.

  Definition tot_op (o : op) : Prop :=
    forall h : heap, wf_op o = true -> exists h' f, build_op o h = OK (h', f).
  Definition tot_seq (e : list op) : Prop :=
    forall (h : heap) s a, wf_seq e = true ->
      exists h' s' a', build_seq e h (Some (s, a)) = OK (h', Some (s', a')).

  (* the sequence predicate carries both the accumulator form and the `sub` form *)
  Definition tot_seq2 (e : list op) : Prop :=
    tot_seq e /\ (forall h : heap, ne e = true -> wf_seq e = true -> exists h' f, sub e h = OK (h', f)).

  Lemma build_total_aux : (forall o, tot_op o) /\ (forall e, tot_seq2 e).
  Proof.
    assert (Hatom : forall p, tot_op (Atom p)).
    { intros p h _. rewrite build_op_atom. eauto. }
    assert (Hunion : forall l r, tot_seq2 l -> tot_seq2 r -> tot_op (Union l r)).
    { intros l r [_ Hl] [_ Hr] h Hwf. rewrite wf_op_union in Hwf.
      apply andb_prop in Hwf. destruct Hwf as [Hwf Hwr].
      apply andb_prop in Hwf. destruct Hwf as [Hwf Hnr].
      apply andb_prop in Hwf. destruct Hwf as [Hnl Hwl].
      rewrite build_op_union.
      destruct (Hl (h ++ [enode]) Hnl Hwl) as (h1 & [s1 a1] & E1). rewrite E1; cbv beta match.
      destruct (Hr h1 Hnr Hwr) as (h2 & [s2 a2] & E2). rewrite E2; cbv beta match. eauto. }
    assert (Hopt : forall e, tot_seq2 e -> tot_op (Opt e)).
    { intros e [_ He] h Hwf. rewrite wf_op_opt in Hwf.
      apply andb_prop in Hwf. destruct Hwf as [Hn Hw]. rewrite build_op_opt.
      destruct (He (h ++ [enode]) Hn Hw) as (h1 & [s1 a1] & E1). rewrite E1; cbv beta match. eauto. }
    assert (Hstar : forall e, tot_seq2 e -> tot_op (Star e)).
    { intros e [_ He] h Hwf. rewrite wf_op_star in Hwf.
      apply andb_prop in Hwf. destruct Hwf as [Hn Hw]. rewrite build_op_star.
      destruct (He (h ++ [enode]) Hn Hw) as (h1 & [s1 a1] & E1). rewrite E1; cbv beta match. eauto. }
    assert (Hplus : forall e, tot_seq2 e -> tot_op (Plus e)).
    { intros e [_ He] h Hwf. rewrite wf_op_plus in Hwf.
      apply andb_prop in Hwf. destruct Hwf as [Hn Hw]. rewrite build_op_plus.
      destruct (He (h ++ [enode]) Hn Hw) as (h1 & [s1 a1] & E1). rewrite E1; cbv beta match. eauto. }
    assert (Hnil : tot_seq2 []).
    { split; [|intros h Hn; discriminate]. intros h s a _. cbn [build_seq]. eauto. }
    assert (Hcons : forall o e, tot_op o -> tot_seq2 e -> tot_seq2 (o :: e)).
    { intros o e Ho [He _]. split.
      - intros h s2 a2 Hwf. rewrite wf_seq_cons in Hwf.
        apply andb_prop in Hwf. destruct Hwf as [Hwo Hwe]. rewrite build_seq_cons.
        destruct (Ho h Hwo) as (h1 & [s1 a1] & E1). rewrite E1; cbv beta match. apply He; exact Hwe.
      - intros h _ Hwf. rewrite wf_seq_cons in Hwf.
        apply andb_prop in Hwf. destruct Hwf as [Hwo Hwe].
        unfold sub. rewrite build_seq_cons.
        destruct (Ho h Hwo) as (h1 & [s1 a1] & E1). rewrite E1; cbv beta match.
        destruct (He h1 s1 a1 Hwe) as (h2 & s2 & a2 & E2). rewrite E2; cbv beta match. eauto. }
    split.
    - exact (op_ind' tot_op tot_seq2 Hatom Hunion Hopt Hstar Hplus Hnil Hcons).
    - exact (seq_ind' tot_op tot_seq2 Hatom Hunion Hopt Hstar Hplus Hnil Hcons).
  Qed.

  Lemma wf_ne_wf_seq (e : list op) : wf e = true -> ne e = true /\ wf_seq e = true.
  Proof. destruct e as [|o e']; [discriminate|]. intros H. split; [reflexivity | exact H]. Qed.

  Lemma expression_to_nfa_sub (e : list op) : expression_to_nfa e = sub e [].
  Proof. reflexivity. Qed.

  Theorem build_total : forall e : expr P, wf e = true ->
    exists h s a, expression_to_nfa e = OK (h, (s, a)).
  Proof.
    intros e Hwf. destruct (wf_ne_wf_seq e Hwf) as [Hn Hw].
    destruct build_total_aux as [_ Hseq]. destruct (Hseq e) as [_ Hsub].
    destruct (Hsub [] Hn Hw) as (h & [s a] & E). rewrite expression_to_nfa_sub, E. eauto.
  Qed.

  (* ---------- heap access ---------- *)
  Lemma get_app_empty (h : heap) i : get (h ++ [enode]) i = get h i.
  Proof.
    unfold get. destruct (Nat.lt_ge_cases i (length h)) as [Hlt|Hge].
    - apply app_nth1; exact Hlt.
    - rewrite (nth_overflow h _ Hge). rewrite app_nth2 by exact Hge.
      destruct (i - length h) as [|[|k]]; reflexivity.
  Qed.

  Lemma get_oob (h : heap) i : length h <= i -> get h i = enode.
  Proof. intros H. unfold get. apply nth_overflow; exact H. Qed.

  Lemma get_app_l (h l : heap) i : i < length h -> get (h ++ l) i = get h i.
  Proof. intros H. unfold get. apply app_nth1; exact H. Qed.

  Lemma get_app_r (h l : heap) i : length h <= i -> get (h ++ l) i = nth (i - length h) l enode.
  Proof. intros H. unfold get. apply app_nth2. lia. Qed.

  Lemma upd_length {A} : forall (l : list A) a x, length (upd a x l) = length l.
  Proof.
    induction l as [|y l IH]; intros [|a] x; cbn [upd length]; try reflexivity.
    rewrite IH; reflexivity.
  Qed.

  Lemma nth_upd_same {A} : forall (l : list A) a x d, a < length l -> nth a (upd a x l) d = x.
  Proof.
    induction l as [|y l IH]; intros [|a] x d Hlt; cbn [length] in Hlt; try lia; cbn [upd nth].
    - reflexivity.
    - apply IH. lia.
  Qed.

  Lemma nth_upd_other {A} : forall (l : list A) a i x d, i <> a -> nth i (upd a x l) d = nth i l d.
  Proof.
    induction l as [|y l IH]; intros [|a] [|i] x d Hne; cbn [upd nth]; try reflexivity; try lia.
    apply IH. lia.
  Qed.

  Lemma length_set_node (h : heap) a n : length (set_node h a n) = length h.
  Proof. unfold set_node. apply upd_length. Qed.
  Lemma get_set_node_same (h : heap) a n : a < length h -> get (set_node h a n) a = n.
  Proof. intros H. unfold get, set_node. apply nth_upd_same; exact H. Qed.
  Lemma get_set_node_other (h : heap) a i n : i <> a -> get (set_node h a n) i = get h i.
  Proof. intros H. unfold get, set_node. apply nth_upd_other; exact H. Qed.

  Lemma length_set_eps (h : heap) a l : length (set_eps h a l) = length h.
  Proof. unfold set_eps. apply length_set_node. Qed.
  Lemma get_set_eps_same (h : heap) a l :
    a < length h -> get (set_eps h a l) a = mkNode (ntrans (get h a)) l.
  Proof. intros H. unfold set_eps. apply get_set_node_same; exact H. Qed.
  Lemma get_set_eps_other (h : heap) a i l : i <> a -> get (set_eps h a l) i = get h i.
  Proof. intros H. unfold set_eps. apply get_set_node_other; exact H. Qed.

  (* ---------- edges, steps, paths ---------- *)
  Definition edge (h : heap) (u t : nat) : Prop :=
    In t (neps (get h u)) \/ exists p, In (p, t) (ntrans (get h u)).
  Definition closed (h : heap) (lo hi : nat) : Prop :=
    forall u t, lo <= u < hi -> edge h u t -> lo <= t < hi.

  Definition olist (l : option I) : list I := match l with None => [] | Some x => [x] end.
  Definition estep (h : heap) (u : nat) (l : option I) (t : nat) : Prop :=
    match l with
    | None => In t (neps (get h u))
    | Some x => exists p, In (p, t) (ntrans (get h u)) /\ accepts p x = true
    end.

  Lemma estep_edge (h : heap) u l t : estep h u l t -> edge h u t.
  Proof.
    destruct l as [x|]; cbn [estep].
    - intros (p & Hin & _). right; exists p; exact Hin.
    - intros Hin; left; exact Hin.
  Qed.

  Lemma estep_eq (h h' : heap) u l t : get h' u = get h u -> estep h u l t -> estep h' u l t.
  Proof. intros E. unfold estep. rewrite E. tauto. Qed.

  Lemma edge_eq (h h' : heap) u t : get h' u = get h u -> edge h u t -> edge h' u t.
  Proof. intros E. unfold edge. rewrite E. tauto. Qed.

  Lemma edge_empty (h : heap) u t : get h u = enode -> edge h u t -> False.
  Proof. intros E [H|(p & H)]; rewrite E in H; exact H. Qed.

  Lemma edge_eps_only (h : heap) u t l : get h u = mkNode [] l -> edge h u t -> In t l.
  Proof. intros E [H|(p & H)]; rewrite E in H; cbn in H; [exact H | contradiction]. Qed.

  Lemma estep_empty (h : heap) u l t : get h u = enode -> estep h u l t -> False.
  Proof. intros E H. eapply edge_empty; [exact E | eapply estep_edge; exact H]. Qed.

  Lemma estep_eps_only (h : heap) u l t es :
    get h u = mkNode [] es -> estep h u l t -> l = None /\ In t es.
  Proof.
    intros E H. destruct l as [x|]; cbn [estep] in H; rewrite E in H; cbn in H.
    - destruct H as (p & [] & _).
    - split; [reflexivity | exact H].
  Qed.

  Inductive pathn (h : heap) : nat -> nat -> list I -> nat -> Prop :=
  | pn_nil s : pathn h 0 s [] s
  | pn_cons n s l m w t : estep h s l m -> pathn h n m w t -> pathn h (S n) s (olist l ++ w) t.

  Definition path (h : heap) (s : nat) (w : list I) (t : nat) : Prop := exists n, pathn h n s w t.

  Lemma pathn_inv (h : heap) n s w t : pathn h n s w t ->
    (n = 0 /\ w = [] /\ s = t) \/
    (exists n' l m w', n = S n' /\ w = olist l ++ w' /\ estep h s l m /\ pathn h n' m w' t).
  Proof.
    intros H; destruct H as [s | n s l m w t Hst Hp].
    - left; auto.
    - right; exists n, l, m, w; auto.
  Qed.

  Lemma pathn_app (h : heap) n1 s w1 m : pathn h n1 s w1 m ->
    forall n2 w2 t, pathn h n2 m w2 t -> pathn h (n1 + n2) s (w1 ++ w2) t.
  Proof.
    intros H; induction H as [s | n s l m w t Hst Hp IH]; intros n2 w2 t' H2.
    - exact H2.
    - cbn [Nat.add]. rewrite <- app_assoc. eapply pn_cons; [exact Hst | apply IH; exact H2].
  Qed.

  Lemma path_nil (h : heap) s : path h s [] s.
  Proof. exists 0; apply pn_nil. Qed.

  Lemma path_app (h : heap) s w1 m w2 t : path h s w1 m -> path h m w2 t -> path h s (w1 ++ w2) t.
  Proof. intros [n1 H1] [n2 H2]. exists (n1 + n2). eapply pathn_app; eassumption. Qed.

  Lemma path_eps (h : heap) s m w t : In m (neps (get h s)) -> path h m w t -> path h s w t.
  Proof.
    intros He [n Hp]. exists (S n). change w with (olist None ++ w).
    eapply pn_cons; [exact He | exact Hp].
  Qed.

  Lemma path_sym (h : heap) s p x m w t :
    In (p, m) (ntrans (get h s)) -> accepts p x = true -> path h m w t -> path h s (x :: w) t.
  Proof.
    intros Hin Hacc [n Hp]. exists (S n). change (x :: w) with (olist (Some x) ++ w).
    eapply pn_cons; [|exact Hp]. exists p; split; assumption.
  Qed.

  Lemma pathn_from_empty (h : heap) a n w t : get h a = enode -> pathn h n a w t ->
    n = 0 /\ w = [] /\ t = a.
  Proof.
    intros E Hp. destruct (pathn_inv _ _ _ _ _ Hp) as [(-> & -> & <-)|(n' & l & m & w' & _ & _ & Hst & _)].
    - auto.
    - exfalso. eapply estep_empty; eassumption.
  Qed.

  (* a path inside a closed fragment survives changes outside the fragment and
     at its (edge-free) accepting node *)
  Lemma pathn_lift (h h' : heap) lo hi a :
    closed h lo hi -> get h a = enode ->
    (forall i, lo <= i < hi -> i <> a -> get h' i = get h i) ->
    forall n u w t, pathn h n u w t -> lo <= u < hi -> pathn h' n u w t.
  Proof.
    intros Hcl Hacc Hag n u w t Hp.
    induction Hp as [s | n s l m w t Hst Hp IH]; intros Hr.
    - apply pn_nil.
    - assert (Hne : s <> a).
      { intros ->. eapply estep_empty; eassumption. }
      eapply pn_cons.
      + eapply estep_eq; [apply Hag; assumption | exact Hst].
      + apply IH. eapply Hcl; [exact Hr | eapply estep_edge; exact Hst].
  Qed.

  (* a path in a modified heap that leaves the fragment (or stops at its accepting
     node) decomposes at the first visit of the accepting node *)
  Lemma pathn_split (h h' : heap) lo hi a :
    closed h lo hi ->
    (forall i, lo <= i < hi -> i <> a -> get h' i = get h i) ->
    forall n u w t, pathn h' n u w t -> lo <= u < hi -> u <> a ->
      (~ (lo <= t < hi) \/ t = a) ->
      exists n1 n2 w1 w2, n = n1 + n2 /\ 1 <= n1 /\ w = w1 ++ w2 /\
                          pathn h n1 u w1 a /\ pathn h' n2 a w2 t.
  Proof.
    intros Hcl Hag n u w t Hp.
    induction Hp as [s | n s l m w t Hst Hp IH]; intros Hr Hne Ht.
    - exfalso. destruct Ht as [Ht|Ht]; [apply Ht; exact Hr | apply Hne; exact Ht].
    - assert (Hst' : estep h s l m).
      { eapply estep_eq; [symmetry; apply Hag; assumption | exact Hst]. }
      assert (Hr0 : lo <= m < hi).
      { eapply Hcl; [exact Hr | eapply estep_edge; exact Hst']. }
      destruct (Nat.eq_dec m a) as [->|Hne0].
      + exists 1, n, (olist l), w. split; [reflexivity|]. split; [lia|]. split; [reflexivity|].
        split; [|exact Hp]. rewrite <- (app_nil_r (olist l)).
        eapply pn_cons; [exact Hst' | apply pn_nil].
      + destruct (IH Hr0 Hne0 Ht) as (n1 & n2 & w1 & w2 & -> & Hn1 & -> & Hp1 & Hp2).
        exists (S n1), n2, (olist l ++ w1), w2. split; [reflexivity|]. split; [lia|].
        split; [apply app_assoc|]. split; [eapply pn_cons; eassumption | exact Hp2].
  Qed.

  (* a path that starts in a closed, unmodified region stays there *)
  Lemma pathn_stay (h h' : heap) lo hi :
    closed h lo hi ->
    (forall i, lo <= i < hi -> get h' i = get h i) ->
    forall n u w t, pathn h' n u w t -> lo <= u < hi -> pathn h n u w t /\ lo <= t < hi.
  Proof.
    intros Hcl Hag n u w t Hp.
    induction Hp as [s | n s l m w t Hst Hp IH]; intros Hr.
    - split; [apply pn_nil | exact Hr].
    - assert (Hst' : estep h s l m).
      { eapply estep_eq; [symmetry; apply Hag; assumption | exact Hst]. }
      assert (Hr0 : lo <= m < hi).
      { eapply Hcl; [exact Hr | eapply estep_edge; exact Hst']. }
      destruct (IH Hr0) as [Hp' Ht]. split; [|exact Ht].
      eapply pn_cons; eassumption.
  Qed.

  (* ---------- languages ---------- *)
  Definition cat (L1 L2 : list I -> Prop) (w : list I) : Prop :=
    exists w1 w2, w = w1 ++ w2 /\ L1 w1 /\ L2 w2.

  Inductive iter (L : list I -> Prop) : list I -> Prop :=
  | iter_one w : L w -> iter L w
  | iter_cons w1 w2 : L w1 -> iter L w2 -> iter L (w1 ++ w2).

  Definition wrapL (skip loop : bool) (L : list I -> Prop) (w : list I) : Prop :=
    (skip = true /\ w = []) \/ (if loop then iter L w else L w).

  Notation lang_op := (lang_op accepts).
  Notation lang_seq := (lang_seq accepts).

  Lemma lang_atom p w : lang_op (Atom p) w <-> exists x, w = [x] /\ accepts p x = true.
  Proof.
    split.
    - intros H; inversion H; subst. eauto.
    - intros (x & -> & Hx). constructor; exact Hx.
  Qed.

  Lemma lang_union l r w : lang_op (Union l r) w <-> lang_seq l w \/ lang_seq r w.
  Proof.
    split.
    - intros H; inversion H; subst; auto.
    - intros [H|H]; [apply L_union_l | apply L_union_r]; exact H.
  Qed.

  Lemma lang_opt e w : lang_op (Opt e) w <-> wrapL true false (lang_seq e) w.
  Proof.
    unfold wrapL. split.
    - intros H; inversion H; subst; auto.
    - intros [[_ ->]|H]; [apply L_opt_none | apply L_opt_some; exact H].
  Qed.

  Lemma lang_star e w : lang_op (Star e) w <-> wrapL true true (lang_seq e) w.
  Proof.
    unfold wrapL. split.
    - intros H. remember (Star e) as o eqn:Eo.
      induction H as [p x Hx | l r w Hl | l r w Hr | e0 | e0 w Hs | e0
                     | e0 w1 w2 Hs Hst IH | e0 w Hs | e0 w1 w2 Hs Hpl IH]; try discriminate.
      + left; auto.
      + inversion Eo; subst e0. right. destruct (IH eq_refl) as [[_ ->]|Hi].
        * rewrite app_nil_r. apply iter_one; exact Hs.
        * apply iter_cons; assumption.
    - intros [[_ ->]|H]; [apply L_star_nil|].
      induction H as [w Hw | w1 w2 Hw Hi IH].
      + rewrite <- (app_nil_r w). apply L_star_cons; [exact Hw | apply L_star_nil].
      + apply L_star_cons; assumption.
  Qed.

  Lemma lang_plus e w : lang_op (Plus e) w <-> wrapL false true (lang_seq e) w.
  Proof.
    unfold wrapL. split.
    - intros H. remember (Plus e) as o eqn:Eo.
      induction H as [p x Hx | l r w Hl | l r w Hr | e0 | e0 w Hs | e0
                     | e0 w1 w2 Hs Hst IH | e0 w Hs | e0 w1 w2 Hs Hpl IH]; try discriminate.
      + inversion Eo; subst e0. right. apply iter_one; exact Hs.
      + inversion Eo; subst e0. right. destruct (IH eq_refl) as [[Hf _]|Hi]; [discriminate|].
        apply iter_cons; assumption.
    - intros [[Hf _]|H]; [discriminate|].
      induction H as [w Hw | w1 w2 Hw Hi IH].
      + apply L_plus_one; exact Hw.
      + apply L_plus_cons; assumption.
  Qed.

  Lemma lang_seq_nil w : lang_seq [] w <-> w = [].
  Proof.
    split.
    - intros H; inversion H; reflexivity.
    - intros ->; constructor.
  Qed.

  Lemma lang_seq_cons o e w : lang_seq (o :: e) w <-> cat (lang_op o) (lang_seq e) w.
  Proof.
    split.
    - intros H; inversion H; subst. exists w1, w2; auto.
    - intros (w1 & w2 & -> & H1 & H2). constructor; assumption.
  Qed.

  (* ---------- the fragment invariant ---------- *)
  Record Frag (h : heap) (lo s a : nat) (L : list I -> Prop) : Prop := mkFrag {
    fr_s : lo <= s < length h;
    fr_a : lo <= a < length h;
    fr_ne : s <> a;
    fr_acc : get h a = enode;
    fr_closed : closed h lo (length h);
    fr_lang : forall w, path h s w a <-> L w }.

  Lemma Frag_ext (h : heap) lo s a (L L' : list I -> Prop) :
    (forall w, L w <-> L' w) -> Frag h lo s a L -> Frag h lo s a L'.
  Proof.
    intros HL [Hs Ha Hne Hacc Hcl Hlang]. constructor; try assumption.
    intros w. rewrite Hlang. apply HL.
  Qed.

  (* ---------- Atom ---------- *)
  Lemma atom_frag (h : heap) p :
    forall h', h' = h ++ [mkNode [(p, S (length h))] []; enode] ->
    (forall i, i < length h -> get h' i = get h i) /\
    Frag h' (length h) (length h) (S (length h)) (lang_op (Atom p)).
  Proof.
    intros h' Eh'. remember (length h) as s eqn:Es.
    assert (Hlen : length h' = S (S s)).
    { subst h'. rewrite app_length. cbn [length]. lia. }
    assert (Gs : get h' s = mkNode [(p, S s)] []).
    { subst h'. rewrite get_app_r by lia. rewrite Es, Nat.sub_diag. reflexivity. }
    assert (Ga : get h' (S s) = enode).
    { subst h'. rewrite get_app_r by lia. replace (S s - length h) with 1 by lia. reflexivity. }
    split.
    - intros i Hi. subst h'. apply get_app_l. lia.
    - constructor.
      + rewrite Hlen; lia.
      + rewrite Hlen; lia.
      + lia.
      + exact Ga.
      + intros u t Hu He. rewrite Hlen in Hu. rewrite Hlen.
        assert (Hcase : u = s \/ u = S s) by lia. destruct Hcase as [->| ->].
        * destruct He as [He|(q & He)]; rewrite Gs in He; cbn in He; [contradiction|].
          destruct He as [He|[]]. inversion He; subst. lia.
        * exfalso. eapply edge_empty; eassumption.
      + intros w. rewrite lang_atom. split.
        * intros [n Hp].
          destruct (pathn_inv _ _ _ _ _ Hp) as [(_ & _ & Hx)|(n' & l & m & w' & -> & -> & Hst & Hp')];
            [lia|].
          destruct l as [x|]; cbn [estep] in Hst; rewrite Gs in Hst; cbn in Hst; [|contradiction].
          destruct Hst as (q & [Hq|[]] & Hacc). inversion Hq; subst q m.
          destruct (pathn_from_empty _ _ _ _ _ Ga Hp') as (_ & -> & _).
          exists x. split; [reflexivity | exact Hacc].
        * intros (x & -> & Hx). eapply (path_sym _ _ p x (S s) []).
          -- rewrite Gs; left; reflexivity.
          -- exact Hx.
          -- apply path_nil.
  Qed.

  (* ---------- leaving a fragment through its accepting node ---------- *)
  Lemma frag_exit (hX hf : heap) lo sX aX a LX :
    Frag hX lo sX aX LX ->
    (forall i, lo <= i < length hX -> i <> aX -> get hf i = get hX i) ->
    get hf aX = mkNode [] [a] -> get hf a = enode -> ~ (lo <= a < length hX) ->
    forall w, path hf sX w a <-> LX w.
  Proof.
    intros [Hs Ha Hne Hacc Hcl Hlang] Hag GaX Ga Hout w. rewrite <- Hlang. split.
    - intros [n Hp].
      destruct (pathn_split hX hf lo (length hX) aX Hcl Hag n sX w a Hp Hs Hne (or_introl Hout))
        as (n1 & n2 & w1 & w2 & -> & _ & -> & Hp1 & Hp2).
      destruct (pathn_inv _ _ _ _ _ Hp2) as [(_ & _ & Hx)|(n' & l & m & w' & -> & -> & Hst & Hp')].
      + exfalso. subst a. apply Hout. exact Ha.
      + destruct (estep_eps_only _ _ _ _ _ GaX Hst) as [-> Hm]. destruct Hm as [<-|[]].
        destruct (pathn_from_empty _ _ _ _ _ Ga Hp') as (_ & -> & _).
        cbn [olist app]. rewrite app_nil_r. exists n1; exact Hp1.
    - intros [n Hp]. rewrite <- (app_nil_r w). eapply path_app.
      + exists n. eapply (pathn_lift hX hf lo (length hX) aX); eassumption.
      + eapply path_eps; [rewrite GaX; left; reflexivity | apply path_nil].
  Qed.

  (* ---------- Union ---------- *)
  Lemma union_frag (h1 h2 : heap) s s1 a1 s2 a2 L1 L2 :
    get h1 s = enode ->
    Frag h1 (S s) s1 a1 L1 ->
    (forall i, i < length h1 -> get h2 i = get h1 i) ->
    Frag h2 (length h1) s2 a2 L2 ->
    forall hf,
      hf = set_eps (set_eps (set_eps (h2 ++ [enode]) s [s1; s2]) a1 [length h2]) a2 [length h2] ->
      (forall i, i < s -> get hf i = get h2 i) /\
      Frag hf s s (length h2) (fun w => L1 w \/ L2 w).
  Proof.
    intros Gs F1 Hfr F2 hf Ehf.
    pose proof F1 as [Hs1 Ha1 Hne1 Hacc1 Hcl1 Hlang1].
    pose proof F2 as [Hs2 Ha2 Hne2 Hacc2 Hcl2 Hlang2].
    assert (Hlen : length hf = S (length h2)).
    { subst hf. rewrite !length_set_eps, app_length. cbn [length]. lia. }
    assert (Gother : forall i, i <> s -> i <> a1 -> i <> a2 -> get hf i = get h2 i).
    { intros i H1 H2 H3. subst hf. rewrite !get_set_eps_other by assumption. apply get_app_empty. }
    assert (Ghs : get hf s = mkNode [] [s1; s2]).
    { subst hf. rewrite get_set_eps_other by lia. rewrite get_set_eps_other by lia.
      rewrite get_set_eps_same by (rewrite app_length; cbn [length]; lia).
      rewrite get_app_empty. rewrite Hfr by lia. rewrite Gs. reflexivity. }
    assert (Gha1 : get hf a1 = mkNode [] [(length h2)]).
    { subst hf. rewrite get_set_eps_other by lia.
      rewrite get_set_eps_same by (rewrite length_set_eps, app_length; cbn [length]; lia).
      rewrite get_set_eps_other by lia. rewrite get_app_empty. rewrite Hfr by lia.
      rewrite Hacc1. reflexivity. }
    assert (Gha2 : get hf a2 = mkNode [] [(length h2)]).
    { subst hf.
      rewrite get_set_eps_same by (rewrite !length_set_eps, app_length; cbn [length]; lia).
      rewrite get_set_eps_other by lia. rewrite get_set_eps_other by lia.
      rewrite get_app_empty. rewrite Hacc2. reflexivity. }
    assert (Gha : get hf (length h2) = enode).
    { rewrite Gother by lia. apply get_oob; lia. }
    assert (Hag1 : forall i, S s <= i < length h1 -> i <> a1 -> get hf i = get h1 i).
    { intros i Hi Hne. rewrite Gother by lia. apply Hfr; lia. }
    assert (Hag2 : forall i, length h1 <= i < length h2 -> i <> a2 -> get hf i = get h2 i).
    { intros i Hi Hne. apply Gother; lia. }
    split.
    { intros i Hi. apply Gother; lia. }
    constructor.
    - rewrite Hlen; lia.
    - rewrite Hlen; lia.
    - lia.
    - exact Gha.
    - intros u t Hu He. rewrite Hlen in Hu. rewrite Hlen.
      destruct (Nat.eq_dec u s) as [->|Hus].
      { apply (edge_eps_only _ _ _ _ Ghs) in He. destruct He as [<-|[<-|[]]]; lia. }
      destruct (Nat.eq_dec u a1) as [->|Hu1].
      { apply (edge_eps_only _ _ _ _ Gha1) in He. destruct He as [<-|[]]; lia. }
      destruct (Nat.eq_dec u a2) as [->|Hu2].
      { apply (edge_eps_only _ _ _ _ Gha2) in He. destruct He as [<-|[]]; lia. }
      destruct (Nat.eq_dec u (length h2)) as [->|Hua].
      { exfalso. eapply edge_empty; eassumption. }
      destruct (Nat.lt_ge_cases u (length h1)) as [Hlt|Hge].
      + assert (He1 : edge h1 u t).
        { eapply edge_eq; [|exact He]. symmetry. apply Hag1; lia. }
        assert (Ht : S s <= t < length h1) by (eapply Hcl1; [|exact He1]; lia). lia.
      + assert (He2 : edge h2 u t).
        { eapply edge_eq; [|exact He]. symmetry. apply Hag2; lia. }
        assert (Ht : length h1 <= t < length h2) by (eapply Hcl2; [|exact He2]; lia). lia.
    - intros w. split.
      + intros [n Hp].
        destruct (pathn_inv _ _ _ _ _ Hp) as [(_ & _ & Hx)|(n' & l & m & w' & -> & -> & Hst & Hp')];
          [lia|].
        destruct (estep_eps_only _ _ _ _ _ Ghs Hst) as [-> Hm]. cbn [olist app].
        destruct Hm as [<-|[<-|[]]].
        * left. apply (frag_exit h1 hf (S s) s1 a1 (length h2) L1 F1 Hag1 Gha1 Gha); [lia|].
          exists n'; exact Hp'.
        * right. apply (frag_exit h2 hf (length h1) s2 a2 (length h2) L2 F2 Hag2 Gha2 Gha); [lia|].
          exists n'; exact Hp'.
      + intros [H|H].
        * eapply (path_eps hf s s1); [rewrite Ghs; left; reflexivity|].
          apply (frag_exit h1 hf (S s) s1 a1 (length h2) L1 F1 Hag1 Gha1 Gha); [lia | exact H].
        * eapply (path_eps hf s s2); [rewrite Ghs; right; left; reflexivity|].
          apply (frag_exit h2 hf (length h1) s2 a2 (length h2) L2 F2 Hag2 Gha2 Gha); [lia | exact H].
  Qed.

  (* ---------- Opt / Star / Plus ---------- *)
  Lemma wrap_frag (h1 : heap) s s1 a1 L (skip loop : bool) :
    get h1 s = enode ->
    Frag h1 (S s) s1 a1 L ->
    forall hf,
      hf = set_eps (set_eps (h1 ++ [enode]) s (if skip then [s1; length h1] else [s1]))
             a1 (if loop then [s1; length h1] else [length h1]) ->
      (forall i, i < s -> get hf i = get h1 i) /\
      Frag hf s s (length h1) (wrapL skip loop L).
  Proof.
    intros Gs F1 hf Ehf.
    pose proof F1 as [Hs1 Ha1 Hne1 Hacc1 Hcl1 Hlang1].
    remember (if skip then [s1; (length h1)] else [s1]) as Es eqn:EEs.
    remember (if loop then [s1; (length h1)] else [(length h1)]) as Eacc eqn:EEa.
    assert (Hlen : length hf = S (length h1)).
    { subst hf. rewrite !length_set_eps, app_length. cbn [length]. lia. }
    assert (Gother : forall i, i <> s -> i <> a1 -> get hf i = get h1 i).
    { intros i H1 H2. subst hf. rewrite !get_set_eps_other by assumption. apply get_app_empty. }
    assert (Ghs : get hf s = mkNode [] Es).
    { subst hf. rewrite get_set_eps_other by lia.
      rewrite get_set_eps_same by (rewrite app_length; cbn [length]; lia).
      rewrite get_app_empty. rewrite Gs. reflexivity. }
    assert (Gha1 : get hf a1 = mkNode [] Eacc).
    { subst hf.
      rewrite get_set_eps_same by (rewrite length_set_eps, app_length; cbn [length]; lia).
      rewrite get_set_eps_other by lia. rewrite get_app_empty. rewrite Hacc1. reflexivity. }
    assert (Gha : get hf (length h1) = enode).
    { rewrite Gother by lia. apply get_oob; lia. }
    assert (Hag1 : forall i, S s <= i < length h1 -> i <> a1 -> get hf i = get h1 i).
    { intros i Hi Hne. apply Gother; lia. }
    assert (HEs : forall t, In t Es -> t = s1 \/ (skip = true /\ t = (length h1))).
    { intros t Ht. subst Es. destruct skip; cbn [In] in Ht.
      - destruct Ht as [<-|[<-|[]]]; auto.
      - destruct Ht as [<-|[]]; auto. }
    assert (HEa : forall t, In t Eacc -> t = (length h1) \/ (loop = true /\ t = s1)).
    { intros t Ht. subst Eacc. destruct loop; cbn [In] in Ht.
      - destruct Ht as [<-|[<-|[]]]; auto.
      - destruct Ht as [<-|[]]; auto. }
    assert (Hs1Es : In s1 Es) by (subst Es; destruct skip; left; reflexivity).
    assert (HaEa : In (length h1) Eacc).
    { subst Eacc; destruct loop; [right; left; reflexivity | left; reflexivity]. }
    split.
    { intros i Hi. apply Gother; lia. }
    (* one traversal of the inner fragment *)
    assert (Hone : forall w, L w -> path hf s1 w a1).
    { intros w Hw. apply Hlang1 in Hw. destruct Hw as [n Hp]. exists n.
      eapply (pathn_lift h1 hf (S s) (length h1) a1); eassumption. }
    assert (Hexit : path hf a1 [] (length h1)).
    { eapply path_eps; [rewrite Gha1; exact HaEa | apply path_nil]. }
    constructor.
    - rewrite Hlen; lia.
    - rewrite Hlen; lia.
    - lia.
    - exact Gha.
    - intros u t Hu He. rewrite Hlen in Hu. rewrite Hlen.
      destruct (Nat.eq_dec u s) as [->|Hus].
      { apply (edge_eps_only _ _ _ _ Ghs) in He. destruct (HEs _ He) as [->|[_ ->]]; lia. }
      destruct (Nat.eq_dec u a1) as [->|Hu1].
      { apply (edge_eps_only _ _ _ _ Gha1) in He. destruct (HEa _ He) as [->|[_ ->]]; lia. }
      destruct (Nat.eq_dec u (length h1)) as [->|Hua].
      { exfalso. eapply edge_empty; eassumption. }
      assert (He1 : edge h1 u t).
      { eapply edge_eq; [|exact He]. symmetry. apply Hag1; lia. }
      assert (Ht : S s <= t < length h1) by (eapply Hcl1; [|exact He1]; lia). lia.
    - intros w. unfold wrapL. split.
      + (* soundness: every path spells (length h1) word of the language *)
        assert (HA : forall n w, pathn hf n s1 w (length h1) -> if loop then iter L w else L w).
        { intros n. induction n as [n IHn] using lt_wf_ind. intros w0 Hp.
          destruct (pathn_split h1 hf (S s) (length h1) a1 Hcl1 Hag1 n s1 w0 (length h1) Hp Hs1 Hne1)
            as (n1 & n2 & w1 & w2 & -> & Hn1 & -> & Hp1 & Hp2); [left; lia|].
          assert (HL1 : L w1) by (apply Hlang1; exists n1; exact Hp1).
          destruct (pathn_inv _ _ _ _ _ Hp2) as [(_ & _ & Hx)|(n' & l & m & w' & -> & -> & Hst & Hp')];
            [lia|].
          destruct (estep_eps_only _ _ _ _ _ Gha1 Hst) as [-> Hm]. cbn [olist app].
          destruct (HEa _ Hm) as [->|[Hloop ->]].
          - destruct (pathn_from_empty _ _ _ _ _ Gha Hp') as (_ & -> & _).
            rewrite app_nil_r. destruct loop; [apply iter_one|]; exact HL1.
          - rewrite Hloop. apply iter_cons; [exact HL1|].
            assert (Hi := IHn n' ltac:(lia) w' Hp'). rewrite Hloop in Hi. exact Hi. }
        intros [n Hp].
        destruct (pathn_inv _ _ _ _ _ Hp) as [(_ & _ & Hx)|(n' & l & m & w' & -> & -> & Hst & Hp')];
          [lia|].
        destruct (estep_eps_only _ _ _ _ _ Ghs Hst) as [-> Hm]. cbn [olist app].
        destruct (HEs _ Hm) as [->|[Hskip ->]].
        * right. eapply HA; exact Hp'.
        * left. destruct (pathn_from_empty _ _ _ _ _ Gha Hp') as (_ & -> & _). auto.
      + intros [[Hskip ->]|HL].
        * eapply (path_eps hf s (length h1)); [|apply path_nil]. rewrite Ghs. subst Es. rewrite Hskip.
          right; left; reflexivity.
        * eapply (path_eps hf s s1); [rewrite Ghs; exact Hs1Es|].
          destruct loop.
          -- induction HL as [w Hw | w1 w2 Hw Hi IH].
             ++ rewrite <- (app_nil_r w). eapply path_app; [apply Hone; exact Hw | exact Hexit].
             ++ eapply path_app; [apply Hone; exact Hw|].
                eapply (path_eps hf a1 s1); [|exact IH]. rewrite Gha1. subst Eacc. left; reflexivity.
          -- rewrite <- (app_nil_r w). eapply path_app; [apply Hone; exact HL | exact Hexit].
  Qed.

  (* ---------- Concat (copy of the right start node into the left accepting node) ---------- *)
  Lemma concat_frag (h h1 : heap) lo s2 a2 s1 a1 Lpre Lo :
    Frag h lo s2 a2 Lpre ->
    (forall i, i < length h -> get h1 i = get h i) ->
    Frag h1 (length h) s1 a1 Lo ->
    (forall i, i < lo -> get (set_node h1 a2 (get h1 s1)) i = get h1 i) /\
    Frag (set_node h1 a2 (get h1 s1)) lo s2 a1 (cat Lpre Lo).
  Proof.
    intros [Hs2 Ha2 Hne2 Hacc2 Hcl2 Hlang2] Hfr [Hs1 Ha1 Hne1 Hacc1 Hcl1 Hlang1].
    remember (set_node h1 a2 (get h1 s1)) as hf eqn:Ehf.
    assert (Hlen : length hf = length h1) by (subst hf; apply length_set_node).
    assert (Ga2 : get hf a2 = get h1 s1).
    { subst hf. apply get_set_node_same. lia. }
    assert (Gother : forall i, i <> a2 -> get hf i = get h1 i).
    { intros i Hi. subst hf. apply get_set_node_other. exact Hi. }
    assert (Hagl : forall i, lo <= i < length h -> i <> a2 -> get hf i = get h i).
    { intros i Hi Hne. rewrite Gother by exact Hne. apply Hfr; lia. }
    assert (Hagr : forall i, length h <= i < length h1 -> get hf i = get h1 i).
    { intros i Hi. apply Gother; lia. }
    split.
    { intros i Hi. apply Gother; lia. }
    constructor.
    - rewrite Hlen; lia.
    - rewrite Hlen; lia.
    - lia.
    - rewrite Gother by lia. exact Hacc1.
    - intros u t Hu He. rewrite Hlen in Hu. rewrite Hlen.
      destruct (Nat.eq_dec u a2) as [->|Hu2].
      { assert (He1 : edge h1 s1 t).
        { unfold edge in *. rewrite Ga2 in He. exact He. }
        assert (Ht : length h <= t < length h1) by (eapply Hcl1; [|exact He1]; lia). lia. }
      destruct (Nat.lt_ge_cases u (length h)) as [Hlt|Hge].
      + assert (He0 : edge h u t).
        { eapply edge_eq; [|exact He]. symmetry. apply Hagl; [lia | exact Hu2]. }
        assert (Ht : lo <= t < length h) by (eapply Hcl2; [|exact He0]; lia). lia.
      + assert (He1 : edge h1 u t).
        { eapply edge_eq; [|exact He]. symmetry. apply Hagr; lia. }
        assert (Ht : length h <= t < length h1) by (eapply Hcl1; [|exact He1]; lia). lia.
    - intros w. split.
      + intros [n Hp].
        destruct (pathn_split h hf lo (length h) a2 Hcl2 Hagl n s2 w a1 Hp Hs2 Hne2)
          as (n1 & n2 & w1 & w2 & -> & Hn1 & -> & Hp1 & Hp2); [left; lia|].
        exists w1, w2. split; [reflexivity|]. split; [apply Hlang2; exists n1; exact Hp1|].
        apply Hlang1.
        destruct (pathn_inv _ _ _ _ _ Hp2) as [(_ & _ & Hx)|(n' & l & m & w' & -> & -> & Hst & Hp')];
          [lia|].
        assert (Hst1 : estep h1 s1 l m).
        { unfold estep in *. rewrite Ga2 in Hst. exact Hst. }
        assert (Hm : length h <= m < length h1).
        { eapply Hcl1; [exact Hs1 | eapply estep_edge; exact Hst1]. }
        destruct (pathn_stay h1 hf (length h) (length h1) Hcl1 Hagr n' m w' a1 Hp' Hm) as [Hp1' _].
        exists (S n'). eapply pn_cons; eassumption.
      + intros (w1 & w2 & -> & H1 & H2).
        apply Hlang2 in H1. apply Hlang1 in H2. eapply path_app.
        * destruct H1 as [n Hp]. exists n.
          eapply (pathn_lift h hf lo (length h) a2); eassumption.
        * destruct H2 as [n Hp].
          destruct (pathn_inv _ _ _ _ _ Hp) as [(_ & _ & Hx)|(n' & l & m & w' & -> & -> & Hst & Hp')];
            [congruence|].
          assert (Hm : length h <= m < length h1).
          { eapply Hcl1; [exact Hs1 | eapply estep_edge; exact Hst]. }
          exists (S n'). eapply pn_cons.
          -- unfold estep in *. rewrite Ga2. exact Hst.
          -- eapply (pathn_lift h1 hf (length h) (length h1) a1); try eassumption.
             intros i Hi _. apply Hagr; exact Hi.
  Qed.

  (* ---------- the Thompson invariant, by nested induction on the pattern ---------- *)
  Definition corr_op (o : op) : Prop :=
    forall h : heap, wf_op o = true ->
    exists h' s a, build_op o h = OK (h', (s, a)) /\
      (forall i, i < length h -> get h' i = get h i) /\
      Frag h' (length h) s a (lang_op o).
  Definition corr_seq (e : list op) : Prop :=
    forall (h : heap) lo s2 a2 Lpre, wf_seq e = true -> Frag h lo s2 a2 Lpre ->
    exists h' a', build_seq e h (Some (s2, a2)) = OK (h', Some (s2, a')) /\
      (forall i, i < lo -> get h' i = get h i) /\
      Frag h' lo s2 a' (cat Lpre (lang_seq e)).
  Definition corr_sub (e : list op) : Prop :=
    forall h : heap, ne e = true -> wf_seq e = true ->
    exists h' s a, sub e h = OK (h', (s, a)) /\
      (forall i, i < length h -> get h' i = get h i) /\
      Frag h' (length h) s a (lang_seq e).
  Definition corr_seq2 (e : list op) : Prop := corr_seq e /\ corr_sub e.

  Lemma length_app_empty (h : heap) : length (h ++ [enode]) = S (length h).
  Proof. rewrite app_length. cbn [length]. lia. Qed.

  Lemma corr_wrap e (skip loop : bool) : corr_seq2 e ->
    forall h : heap, ne e = true -> wf_seq e = true ->
    exists h1 s1 a1, sub e (h ++ [enode]) = OK (h1, (s1, a1)) /\
      let hf := set_eps (set_eps (h1 ++ [enode]) (length h)
                           (if skip then [s1; length h1] else [s1]))
                  a1 (if loop then [s1; length h1] else [length h1]) in
      (forall i, i < length h -> get hf i = get h i) /\
      Frag hf (length h) (length h) (length h1) (wrapL skip loop (lang_seq e)).
  Proof.
    intros [_ Hsub] h Hn Hw.
    destruct (Hsub (h ++ [enode]) Hn Hw) as (h1 & s1 & a1 & E & Hfr & HF).
    rewrite length_app_empty in Hfr, HF.
    exists h1, s1, a1. split; [exact E|].
    assert (Gs : get h1 (length h) = enode).
    { rewrite Hfr by lia. rewrite get_app_empty. apply get_oob. lia. }
    destruct (wrap_frag h1 (length h) s1 a1 _ skip loop Gs HF _ eq_refl) as [Hfr2 HF2].
    cbv zeta. split; [|exact HF2].
    intros i Hi. rewrite Hfr2 by exact Hi. rewrite Hfr by lia. apply get_app_empty.
  Qed.

  Lemma cat_nil_r (L : list I -> Prop) w : L w <-> cat L (lang_seq []) w.
  Proof.
    split.
    - intros H. exists w, []. split; [symmetry; apply app_nil_r|]. split; [exact H | constructor].
    - intros (w1 & w2 & -> & H1 & H2). apply lang_seq_nil in H2. subst w2.
      rewrite app_nil_r. exact H1.
  Qed.

  Lemma cat_assoc_cons (L : list I -> Prop) o e w :
    cat (cat L (lang_op o)) (lang_seq e) w <-> cat L (lang_seq (o :: e)) w.
  Proof.
    split.
    - intros (w12 & w3 & -> & (w1 & w2 & -> & H1 & H2) & H3).
      exists w1, (w2 ++ w3). split; [symmetry; apply app_assoc|]. split; [exact H1|].
      constructor; assumption.
    - intros (w1 & w23 & -> & H1 & H23). apply lang_seq_cons in H23.
      destruct H23 as (w2 & w3 & -> & H2 & H3).
      exists (w1 ++ w2), w3. split; [apply app_assoc|]. split; [|exact H3].
      exists w1, w2. auto.
  Qed.

  Lemma build_correct_aux : (forall o, corr_op o) /\ (forall e, corr_seq2 e).
  Proof.
    assert (Hatom : forall p, corr_op (Atom p)).
    { intros p h _. rewrite build_op_atom.
      destruct (atom_frag h p _ eq_refl) as [Hfr HF].
      eexists _, _, _. split; [reflexivity|]. split; assumption. }
    assert (Hunion : forall l r, corr_seq2 l -> corr_seq2 r -> corr_op (Union l r)).
    { intros l r [_ Hl] [_ Hr] h Hwf. rewrite wf_op_union in Hwf.
      apply andb_prop in Hwf. destruct Hwf as [Hwf Hwr].
      apply andb_prop in Hwf. destruct Hwf as [Hwf Hnr].
      apply andb_prop in Hwf. destruct Hwf as [Hnl Hwl].
      destruct (Hl (h ++ [enode]) Hnl Hwl) as (h1 & s1 & a1 & E1 & Hfr1 & HF1).
      rewrite length_app_empty in Hfr1, HF1.
      destruct (Hr h1 Hnr Hwr) as (h2 & s2 & a2 & E2 & Hfr2 & HF2).
      rewrite build_op_union, E1; cbv beta match. rewrite E2; cbv beta match.
      assert (Gs : get h1 (length h) = enode).
      { rewrite Hfr1 by lia. rewrite get_app_empty. apply get_oob. lia. }
      destruct (union_frag h1 h2 (length h) s1 a1 s2 a2 _ _ Gs HF1 Hfr2 HF2 _ eq_refl) as [Hfr3 HF3].
      pose proof (fr_s _ _ _ _ _ HF1) as Hs1.
      eexists _, _, _. split; [reflexivity|]. split.
      - intros i Hi. rewrite Hfr3 by exact Hi. rewrite Hfr2 by lia. rewrite Hfr1 by lia.
        apply get_app_empty.
      - eapply Frag_ext; [|exact HF3]. intros w; symmetry; apply lang_union. }
    assert (Hopt : forall e, corr_seq2 e -> corr_op (Opt e)).
    { intros e He h Hwf. rewrite wf_op_opt in Hwf.
      apply andb_prop in Hwf. destruct Hwf as [Hn Hw].
      destruct (corr_wrap e true false He h Hn Hw) as (h1 & s1 & a1 & E & Hfr & HF).
      rewrite build_op_opt, E; cbv beta match.
      eexists _, _, _. split; [reflexivity|]. split; [exact Hfr|].
      eapply Frag_ext; [|exact HF]. intros w; symmetry; apply lang_opt. }
    assert (Hstar : forall e, corr_seq2 e -> corr_op (Star e)).
    { intros e He h Hwf. rewrite wf_op_star in Hwf.
      apply andb_prop in Hwf. destruct Hwf as [Hn Hw].
      destruct (corr_wrap e true true He h Hn Hw) as (h1 & s1 & a1 & E & Hfr & HF).
      rewrite build_op_star, E; cbv beta match.
      eexists _, _, _. split; [reflexivity|]. split; [exact Hfr|].
      eapply Frag_ext; [|exact HF]. intros w; symmetry; apply lang_star. }
    assert (Hplus : forall e, corr_seq2 e -> corr_op (Plus e)).
    { intros e He h Hwf. rewrite wf_op_plus in Hwf.
      apply andb_prop in Hwf. destruct Hwf as [Hn Hw].
      destruct (corr_wrap e false true He h Hn Hw) as (h1 & s1 & a1 & E & Hfr & HF).
      rewrite build_op_plus, E; cbv beta match.
      eexists _, _, _. split; [reflexivity|]. split; [exact Hfr|].
      eapply Frag_ext; [|exact HF]. intros w; symmetry; apply lang_plus. }
    assert (Hnil : corr_seq2 []).
    { split; [|intros h Hn; discriminate].
      intros h lo s2 a2 Lpre _ HF. cbn [build_seq]. exists h, a2.
      split; [reflexivity|]. split; [reflexivity|].
      eapply Frag_ext; [|exact HF]. intros w; apply cat_nil_r. }
    assert (Hcons : forall o e, corr_op o -> corr_seq2 e -> corr_seq2 (o :: e)).
    { intros o e Ho [He _]. split.
      - intros h lo s2 a2 Lpre Hwf HF. rewrite wf_seq_cons in Hwf.
        apply andb_prop in Hwf. destruct Hwf as [Hwo Hwe].
        destruct (Ho h Hwo) as (h1 & s1 & a1 & E1 & Hfr1 & HF1).
        rewrite build_seq_cons, E1; cbv beta match.
        destruct (concat_frag h h1 lo s2 a2 s1 a1 Lpre _ HF Hfr1 HF1) as [Hfr2 HF2].
        destruct (He _ lo s2 a1 _ Hwe HF2) as (h' & a' & E' & Hfr' & HF').
        pose proof (fr_s _ _ _ _ _ HF) as Hs2.
        exists h', a'. split; [exact E'|]. split.
        + intros i Hi. rewrite Hfr' by exact Hi. rewrite Hfr2 by exact Hi. apply Hfr1. lia.
        + eapply Frag_ext; [|exact HF']. intros w; apply cat_assoc_cons.
      - intros h _ Hwf. rewrite wf_seq_cons in Hwf.
        apply andb_prop in Hwf. destruct Hwf as [Hwo Hwe].
        destruct (Ho h Hwo) as (h1 & s1 & a1 & E1 & Hfr1 & HF1).
        unfold sub. rewrite build_seq_cons, E1; cbv beta match.
        destruct (He h1 (length h) s1 a1 _ Hwe HF1) as (h' & a' & E' & Hfr' & HF').
        rewrite E'; cbv beta match.
        exists h', s1, a'. split; [reflexivity|]. split.
        + intros i Hi. rewrite Hfr' by exact Hi. apply Hfr1; exact Hi.
        + eapply Frag_ext; [|exact HF']. intros w; symmetry; apply lang_seq_cons. }
    split.
    - exact (op_ind' corr_op corr_seq2 Hatom Hunion Hopt Hstar Hplus Hnil Hcons).
    - exact (seq_ind' corr_op corr_seq2 Hatom Hunion Hopt Hstar Hplus Hnil Hcons).
  Qed.

  Theorem build_correct : forall e : expr P, wf e = true ->
    exists h s a, expression_to_nfa e = OK (h, (s, a)) /\ Frag h 0 s a (lang accepts e).
  Proof.
    intros e Hwf. destruct (wf_ne_wf_seq e Hwf) as [Hn Hw].
    destruct build_correct_aux as [_ Hseq]. destruct (Hseq e) as [_ Hsub].
    destruct (Hsub [] Hn Hw) as (h & s & a & E & _ & HF).
    exists h, s, a. split; [rewrite expression_to_nfa_sub; exact E | exact HF].
  Qed.

  (* ---------- predicates stored in the heap come from the pattern ---------- *)
  Definition hpreds (h : heap) (Q : P -> Prop) : Prop :=
    forall u p t, In (p, t) (ntrans (get h u)) -> Q p.

  Lemma upd_oob {A} : forall (l : list A) a x, length l <= a -> upd a x l = l.
  Proof.
    induction l as [|y l IH]; intros [|a] x Hle; cbn [upd length] in *; try reflexivity; try lia.
    rewrite IH by lia. reflexivity.
  Qed.

  Lemma get_set_node_cases (h : heap) a n u :
    get (set_node h a n) u = n \/ get (set_node h a n) u = get h u.
  Proof.
    destruct (Nat.eq_dec u a) as [->|Hne]; [|right; apply get_set_node_other; exact Hne].
    destruct (Nat.lt_ge_cases a (length h)) as [Hlt|Hge].
    - left; apply get_set_node_same; exact Hlt.
    - right. unfold set_node. rewrite upd_oob by exact Hge. reflexivity.
  Qed.

  Lemma hpreds_set_node (h : heap) a n Q :
    hpreds h Q -> (forall p t, In (p, t) (ntrans n) -> Q p) -> hpreds (set_node h a n) Q.
  Proof.
    intros Hh Hn u p t Hin. destruct (get_set_node_cases h a n u) as [E|E]; rewrite E in Hin.
    - eapply Hn; exact Hin.
    - eapply Hh; exact Hin.
  Qed.

  Lemma hpreds_set_eps (h : heap) a l Q : hpreds h Q -> hpreds (set_eps h a l) Q.
  Proof.
    intros Hh. unfold set_eps. apply hpreds_set_node; [exact Hh|].
    cbn [ntrans]. intros p t Hin. eapply Hh; exact Hin.
  Qed.

  Lemma hpreds_app_empty (h : heap) Q : hpreds h Q -> hpreds (h ++ [enode]) Q.
  Proof. intros Hh u p t Hin. rewrite get_app_empty in Hin. eapply Hh; exact Hin. Qed.

  Lemma hpreds_atom (h : heap) p k Q :
    hpreds h Q -> Q p -> hpreds (h ++ [mkNode [(p, k)] []; enode]) Q.
  Proof.
    intros Hh Hp u q t Hin. destruct (Nat.lt_ge_cases u (length h)) as [Hlt|Hge].
    - rewrite get_app_l in Hin by exact Hlt. eapply Hh; exact Hin.
    - rewrite get_app_r in Hin by exact Hge.
      destruct (u - length h) as [|[|[|j]]]; cbn in Hin; try contradiction.
      destruct Hin as [Hin|[]]. inversion Hin; subst. exact Hp.
  Qed.

  Definition hp_op (o : op) : Prop :=
    forall (h h' : heap) f Q, build_op o h = OK (h', f) -> hpreds h Q ->
      (forall p, In p (preds_op o) -> Q p) -> hpreds h' Q.
  Definition hp_seq (e : list op) : Prop :=
    forall (h h' : heap) cur cur' Q, build_seq e h cur = OK (h', cur') -> hpreds h Q ->
      (forall p, In p (preds_seq e) -> Q p) -> hpreds h' Q.

  Lemma hp_sub e : hp_seq e -> forall (h h' : heap) f Q, sub e h = OK (h', f) -> hpreds h Q ->
      (forall p, In p (preds_seq e) -> Q p) -> hpreds h' Q.
  Proof.
    intros He h h' f Q E Hh HQ. unfold sub in E.
    destruct (build_seq e h None) as [[h'' [f'|]]|k] eqn:Eb; try discriminate.
    inversion E; subst. eapply He; eassumption.
  Qed.

  Lemma hp_wrap e (h h' : heap) f Q s1' l1 l2 :
    hp_seq e ->
    match sub e (h ++ [enode]) with
    | Err k => Err k
    | OK (h1, (s1, a1)) =>
        OK (set_eps (set_eps (h1 ++ [enode]) s1' (l1 h1 s1)) a1 (l2 h1 s1), ((length h, length h1) : frag))
    end = OK (h', f) ->
    hpreds h Q -> (forall p, In p (preds_seq e) -> Q p) -> hpreds h' Q.
  Proof.
    intros He E Hh HQ.
    destruct (sub e (h ++ [enode])) as [[h1 [s1 a1]]|k] eqn:E1; [|discriminate].
    inversion E; subst. apply hpreds_set_eps, hpreds_set_eps, hpreds_app_empty.
    eapply (hp_sub e He); [exact E1 | apply hpreds_app_empty; exact Hh | exact HQ].
  Qed.

  Lemma hpreds_build_aux : (forall o, hp_op o) /\ (forall e, hp_seq e).
  Proof.
    assert (Hatom : forall p, hp_op (Atom p)).
    { intros p h h' f Q E Hh HQ. rewrite build_op_atom in E. inversion E; subst.
      apply hpreds_atom; [exact Hh|]. apply HQ. left; reflexivity. }
    assert (Hunion : forall l r, hp_seq l -> hp_seq r -> hp_op (Union l r)).
    { intros l r Hl Hr h h' f Q E Hh HQ. rewrite build_op_union in E.
      rewrite preds_op_union in HQ.
      destruct (sub l (h ++ [enode])) as [[h1 [s1 a1]]|k] eqn:E1; [|discriminate].
      destruct (sub r h1) as [[h2 [s2 a2]]|k] eqn:E2; [|discriminate].
      inversion E; subst.
      apply hpreds_set_eps, hpreds_set_eps, hpreds_set_eps, hpreds_app_empty.
      eapply (hp_sub r Hr); [exact E2 | | intros p Hp; apply HQ; apply in_or_app; right; exact Hp].
      eapply (hp_sub l Hl); [exact E1 | apply hpreds_app_empty; exact Hh |].
      intros p Hp; apply HQ; apply in_or_app; left; exact Hp. }
    assert (Hopt : forall e, hp_seq e -> hp_op (Opt e)).
    { intros e He h h' f Q E Hh HQ. rewrite build_op_opt in E. rewrite preds_op_opt in HQ.
      eapply (hp_wrap e h h' f Q (length h) (fun h1 s1 => [s1; length h1]) (fun h1 _ => [length h1]));
        eassumption. }
    assert (Hstar : forall e, hp_seq e -> hp_op (Star e)).
    { intros e He h h' f Q E Hh HQ. rewrite build_op_star in E. rewrite preds_op_star in HQ.
      eapply (hp_wrap e h h' f Q (length h) (fun h1 s1 => [s1; length h1]) (fun h1 s1 => [s1; length h1]));
        eassumption. }
    assert (Hplus : forall e, hp_seq e -> hp_op (Plus e)).
    { intros e He h h' f Q E Hh HQ. rewrite build_op_plus in E. rewrite preds_op_plus in HQ.
      eapply (hp_wrap e h h' f Q (length h) (fun h1 s1 => [s1]) (fun h1 s1 => [s1; length h1]));
        eassumption. }
    assert (Hnil : hp_seq []).
    { intros h h' cur cur' Q E Hh _. cbn [build_seq] in E. inversion E; subst. exact Hh. }
    assert (Hcons : forall o e, hp_op o -> hp_seq e -> hp_seq (o :: e)).
    { intros o e Ho He h h' cur cur' Q E Hh HQ. rewrite build_seq_cons in E.
      cbn [preds_seq] in HQ.
      destruct (build_op o h) as [[h1 [s1 a1]]|k] eqn:E1; [|discriminate].
      assert (H1 : hpreds h1 Q).
      { eapply Ho; [exact E1 | exact Hh |]. intros p Hp; apply HQ; apply in_or_app; left; exact Hp. }
      assert (HQe : forall p, In p (preds_seq e) -> Q p).
      { intros p Hp; apply HQ; apply in_or_app; right; exact Hp. }
      destruct cur as [[s2 a2]|].
      - eapply He; [exact E | | exact HQe]. apply hpreds_set_node; [exact H1|].
        intros p t Hin. eapply H1; exact Hin.
      - eapply He; [exact E | exact H1 | exact HQe]. }
    split.
    - exact (op_ind' hp_op hp_seq Hatom Hunion Hopt Hstar Hplus Hnil Hcons).
    - exact (seq_ind' hp_op hp_seq Hatom Hunion Hopt Hstar Hplus Hnil Hcons).
  Qed.

  Theorem build_preds : forall (e : expr P) h f, expression_to_nfa e = OK (h, f) ->
    forall u p t, In (p, t) (ntrans (get h u)) -> In p (preds_seq e).
  Proof.
    intros e h f E. rewrite expression_to_nfa_sub in E.
    destruct hpreds_build_aux as [_ Hseq].
    apply (hp_sub e (Hseq e) [] h f (fun p => In p (preds_seq e)) E).
    - intros u p t Hin. unfold get in Hin. destruct u; cbn in Hin; contradiction.
    - auto.
  Qed.

  (* ---------- the NFA simulation computes the path-reachable states ---------- *)
  Lemma pathn_nil_reach (h : heap) n s w t : pathn h n s w t -> w = [] -> eps_reach h s t.
  Proof.
    intros Hp; induction Hp as [s | n s l m w t Hst Hp IH]; intros E.
    - apply er_refl.
    - destruct l as [x|]; cbn [olist app] in E; [discriminate|].
      eapply er_step; [exact Hst | apply IH; exact E].
  Qed.

  Lemma reach_path (h : heap) s t : eps_reach h s t -> path h s [] t.
  Proof.
    intros Hr; induction Hr as [s|s m t He Hr IH]; [apply path_nil|].
    eapply path_eps; eassumption.
  Qed.

  Lemma path_first (h : heap) n u w t : pathn h n u w t -> forall x v, w = x :: v ->
    exists u' p m, eps_reach h u u' /\ In (p, m) (ntrans (get h u')) /\ accepts p x = true /\
                   path h m v t.
  Proof.
    intros Hp; induction Hp as [s | n s l m w t Hst Hp IH]; intros x v E; [discriminate|].
    destruct l as [y|]; cbn [olist app] in E.
    - inversion E; subst y w. destruct Hst as (p & Hin & Hacc).
      exists s, p, m. split; [apply er_refl|]. split; [exact Hin|]. split; [exact Hacc|].
      exists n; exact Hp.
    - destruct (IH x v E) as (u' & p & m' & Hr & Hin & Hacc & Hp').
      exists u', p, m'. split; [eapply er_step; eassumption|]. auto.
  Qed.

  Lemma nfa_step_In (h : heap) A x t :
    In t (nfa_step accepts h A x) <->
    exists u p, In u A /\ In (p, t) (ntrans (get h u)) /\ accepts p x = true.
  Proof.
    unfold nfa_step. rewrite in_flat_map. split.
    - intros (u & Hu & Ht). apply in_map_iff in Ht. destruct Ht as ([p t'] & Heq & Hf).
      cbn [snd] in Heq; subst t'. apply filter_In in Hf. destruct Hf as [Hin Hacc].
      exists u, p. auto.
    - intros (u & p & Hu & Hin & Hacc). exists u. split; [exact Hu|].
      apply in_map_iff. exists (p, t). split; [reflexivity|]. apply filter_In. auto.
  Qed.

  Lemma step_sem (h : heap) A x T' :
    eclosed h A -> closure h (nfa_step accepts h A x) = OK T' ->
    eclosed h T' /\
    forall v t, (exists u, In u A /\ path h u (x :: v) t) <-> (exists u', In u' T' /\ path h u' v t).
  Proof.
    intros Hc ET. split; [eapply closure_eclosed; exact ET|].
    destruct (closure_spec _ _ _ ET) as [Hspec _].
    intros v t; split.
    - intros (u & Hu & [n Hp]).
      destruct (path_first h n u _ t Hp x v eq_refl) as (u' & p & m & Hr & Hin & Hacc & Hp').
      exists m. split; [|exact Hp']. apply Hspec. exists m. split; [|apply er_refl].
      apply nfa_step_In. exists u', p. split; [|auto]. eapply eclosed_reach; eassumption.
    - intros (u' & Hu' & Hp'). apply Hspec in Hu'. destruct Hu' as (m & Hm & Hr).
      apply nfa_step_In in Hm. destruct Hm as (u & p & Hu & Hin & Hacc).
      exists u. split; [exact Hu|]. eapply path_sym; [exact Hin | exact Hacc|].
      change v with ([] ++ v). eapply path_app; [apply reach_path; exact Hr | exact Hp'].
  Qed.

  Lemma path_nil_closed (h : heap) A u t : eclosed h A -> In u A -> path h u [] t -> In t A.
  Proof.
    intros Hc Hu [n Hp]. eapply eclosed_reach; [exact Hc | exact Hu|].
    eapply pathn_nil_reach; [exact Hp | reflexivity].
  Qed.

  Lemma nfa_run_spec (h : heap) : forall w A, eclosed h A ->
    exists r, nfa_run accepts h A w = OK r /\
      forall t, (match r with Some fin => In t fin | None => False end) <->
                exists u, In u A /\ path h u w t.
  Proof.
    induction w as [|x w IH]; intros A Hc.
    - exists (Some A). split; [reflexivity|]. intros t; split.
      + intros Ht. exists t. split; [exact Ht | apply path_nil].
      + intros (u & Hu & Hp). eapply path_nil_closed; eassumption.
    - cbn [nfa_run]. destruct (closure_total h (nfa_step accepts h A x)) as [T' ET]. rewrite ET.
      destruct (step_sem h A x T' Hc ET) as [Hc' Hsem]. destruct T' as [|t0 T'].
      + exists None. split; [reflexivity|]. intros t; split; [intros []|].
        intros Hex. apply Hsem in Hex. destruct Hex as (u' & [] & _).
      + destruct (IH (t0 :: T') Hc') as (r & Er & Hr). exists r. split; [exact Er|].
        intros t. rewrite Hr. symmetry. apply Hsem.
  Qed.

  Lemma start_sem (h : heap) s a st (L : list I -> Prop) :
    Frag h 0 s a L -> closure h [s] = OK st ->
    eclosed h st /\ forall w, (exists u, In u st /\ path h u w a) <-> L w.
  Proof.
    intros HF Est. split; [eapply closure_eclosed; exact Est|].
    destruct (closure_spec _ _ _ Est) as [Hspec _].
    intros w. rewrite <- (fr_lang _ _ _ _ _ HF). split.
    - intros (u & Hu & Hp). apply Hspec in Hu. destruct Hu as (s' & [<-|[]] & Hr).
      change w with ([] ++ w). eapply path_app; [apply reach_path; exact Hr | exact Hp].
    - intros Hp. exists s. split; [|exact Hp]. apply Hspec. exists s.
      split; [left; reflexivity | apply er_refl].
  Qed.

  Theorem C13_nfa_match : forall (e : expr P) w, wf e = true ->
    (exists b, nfa_match accepts e w = OK b) /\
    (nfa_match accepts e w = OK true <-> lang accepts e w).
  Proof.
    intros e w Hwf. destruct (build_correct e Hwf) as (h & s & a & E & HF).
    unfold nfa_match. rewrite E; cbv beta match.
    destruct (closure_total h [s]) as [st Est]. rewrite Est.
    destruct (start_sem h s a st _ HF Est) as [Hc Hsem].
    destruct (nfa_run_spec h w st Hc) as (r & Er & Hr). rewrite Er.
    destruct r as [fin|].
    - split; [eexists; reflexivity|]. rewrite <- Hsem, <- Hr, <- mem_In.
      split; [intros H; inversion H; reflexivity | intros ->; reflexivity].
    - split; [eexists; reflexivity|]. split; [discriminate|].
      intros HL. apply Hsem in HL. apply Hr in HL. destruct HL.
  Qed.
End NfaProofs.
