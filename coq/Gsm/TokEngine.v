(* TokEngine.v — the matcher instantiated at token predicates. *)
From Verif Require Import Base Regex Nfa Dfa Token.
Open Scope Z_scope.

Definition tk_to_dfa := @to_dfa tpred.
Definition tk_find_all_dfa := @find_all_dfa tpred token tpred_eqb taccept_st.
Definition tk_find_all := @find_all tpred token tpred_eqb taccept_st.
Definition tk_starts_with_dfa := @starts_with_dfa tpred token tpred_eqb taccept_st.
Definition tk_starts_with := @starts_with tpred token tpred_eqb taccept_st.
Definition tk_match := @match_ tpred token tpred_eqb taccept_st.

(* compact token literals for generated cases: (kind code, value) at line 1, column = index *)
Definition kind_of_code (c : Z) : kind :=
  if c =? 0 then KKeyword else if c =? 1 then KName else if c =? 2 then KPunct else if c =? 3 then KOperator
  else if c =? 4 then KComment else if c =? 5 then KText else if c =? 6 then KWhitespace else KOther.
Fixpoint toks_from (i : Z) (l : list (Z * pystr)) : list token :=
  match l with [] => [] | (k, v) :: t => mkTok (kind_of_code k) v 1 i :: toks_from (i + 1) t end.
Definition toks (l : list (Z * pystr)) : list token := toks_from 1 l.

Definition tok_obs (e : expr tpred) (w : list token) : tree :=
  T [enc_res enc_bool (tk_match e w);
     enc_res (enc_option enc_nat) (tk_starts_with e w);
     enc_cands (tk_find_all e w (fun _ => OK true))].
