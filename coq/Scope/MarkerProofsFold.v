(* MarkerProofsFold.v — property C17, part B: the scopes reported by
   build_scopes are, in order, exactly the candidate scopes whose name token's
   line carries no marker comment.  Core lemma: the pre-order of the forest
   built by the stack algorithm is the insertion order, for EVERY input list. *)
From Verif Require Import Base Token Lex Headers Blocks Pairing Fold ScanFile TotalProofsScopes.
Open Scope Z_scope.

(* ---------- pre-order of trees and forests ---------- *)
Lemma forest_scopes_app a b : forest_scopes (a ++ b) = forest_scopes a ++ forest_scopes b.
Proof. unfold forest_scopes. apply flat_map_app. Qed.

Lemma forest_scopes_node s cs : forest_scopes [Node s cs] = s :: forest_scopes cs.
Proof. unfold forest_scopes. cbn [flat_map tree_scopes]. rewrite app_nil_r. reflexivity. Qed.

Lemma unfold_scopes_app a b : unfold_scopes (a ++ b) = unfold_scopes a ++ unfold_scopes b.
Proof. unfold unfold_scopes. apply flat_map_app. Qed.

Lemma unfold_tree_fst : forall t, map fst (unfold_tree t) = tree_scopes t.
Proof.
  induction t as [s cs IH] using stree_ind'.
  rewrite unfold_tree_eq. cbn [map fst tree_scopes]. f_equal.
  induction IH as [|c r Hc _ IHr]; [reflexivity|].
  cbn [flat_map]. rewrite map_app, Hc, IHr. reflexivity.
Qed.

Lemma unfold_scopes_fst : forall ts, map fst (unfold_scopes ts) = forest_scopes ts.
Proof.
  induction ts as [|t r IH]; [reflexivity|].
  unfold unfold_scopes, forest_scopes in *. cbn [flat_map].
  rewrite map_app, unfold_tree_fst, IH. reflexivity.
Qed.

(* ---------- the open frames, outermost first ---------- *)
(* head of the stack = innermost open scope; its children are stored reversed *)
Fixpoint frames_pre (fs : list frame) : list scope0 :=
  match fs with
  | [] => []
  | (s, cs) :: rest => frames_pre rest ++ s :: forest_scopes (rev cs)
  end.

Lemma pop_until_pre : forall frames extra sc roots,
  forest_scopes (snd (pop_until frames extra sc roots)) ++ frames_pre (fst (pop_until frames extra sc roots))
  = forest_scopes roots ++ frames_pre frames ++ forest_scopes extra.
Proof.
  induction frames as [|[s cs] rest IH]; intros extra sc roots; cbn [pop_until].
  - cbn [fst snd frames_pre app]. rewrite app_nil_r. apply forest_scopes_app.
  - destruct (s_contains s sc).
    + cbn [fst snd frames_pre]. rewrite rev_app_distr, rev_involutive, forest_scopes_app.
      rewrite <- !app_assoc. reflexivity.
    + rewrite IH. cbn [frames_pre]. rewrite forest_scopes_node.
      rewrite rev_app_distr, rev_involutive, forest_scopes_app.
      rewrite <- !app_assoc. reflexivity.
Qed.

Lemma flush_pre : forall frames extra roots,
  forest_scopes (flush frames extra roots) = forest_scopes roots ++ frames_pre frames ++ forest_scopes extra.
Proof.
  induction frames as [|[s cs] rest IH]; intros extra roots; cbn [flush].
  - cbn [frames_pre app]. apply forest_scopes_app.
  - rewrite IH. cbn [frames_pre]. rewrite forest_scopes_node.
    rewrite rev_app_distr, rev_involutive, forest_scopes_app.
    rewrite <- !app_assoc. reflexivity.
Qed.

Lemma fold_loop_pre : forall scopes frames roots,
  forest_scopes (fold_loop scopes frames roots) = forest_scopes roots ++ frames_pre frames ++ scopes.
Proof.
  induction scopes as [|sc r IH]; intros frames roots; cbn [fold_loop].
  - rewrite flush_pre. reflexivity.
  - pose proof (pop_until_pre frames [] sc roots) as H.
    destruct (pop_until frames [] sc roots) as [frames' roots']. cbn [fst snd] in H.
    rewrite IH. cbn [frames_pre rev]. change (forest_scopes []) with (@nil scope0) in *.
    rewrite app_nil_r in H. rewrite <- !app_assoc. cbn [app].
    rewrite app_assoc, H, <- app_assoc. reflexivity.
Qed.

Theorem fold_scopes_preorder : forall l, forest_scopes (fold_scopes l) = l.
Proof. intros l. unfold fold_scopes. rewrite fold_loop_pre. reflexivity. Qed.

(* the reported scopes are the input scopes, in the input order, each exactly once *)
Theorem unfold_fold_fst : forall l, map fst (unfold_scopes (fold_scopes l)) = l.
Proof. intros l. rewrite unfold_scopes_fst. apply fold_scopes_preorder. Qed.

Corollary unfold_fold_length : forall l, length (unfold_scopes (fold_scopes l)) = length l.
Proof. intros l. rewrite <- (unfold_fold_fst l) at 2. rewrite map_length. reflexivity. Qed.

(* ---------- which scopes the marker filter keeps ---------- *)
Definition name_line (code : list token) (s : scope0) : Z := tok_line code (h_name (s_header s)).

Lemma existsb_Zeqb_In z l : existsb (Z.eqb z) l = true <-> In z l.
Proof.
  rewrite existsb_exists. split.
  - intros (x & Hx & E). apply Z.eqb_eq in E. subst x. exact Hx.
  - intros H. exists z. split; [exact H | apply Z.eqb_refl].
Qed.

Theorem C17_filter_nocl_In : forall code scopes lines s,
  In s (filter_nocl_scopes code scopes lines) <->
  In s scopes /\ ~ In (tok_line code (h_name (s_header s))) lines.
Proof.
  intros code scopes lines s. unfold filter_nocl_scopes. rewrite filter_In, negb_true_iff.
  rewrite <- existsb_Zeqb_In, not_true_iff_false. tauto.
Qed.

(* the filter only looks at which lines carry a marker, not at their order or multiplicity *)
Lemma filter_nocl_scopes_ext : forall code scopes lines lines',
  (forall z, In z lines <-> In z lines') ->
  filter_nocl_scopes code scopes lines = filter_nocl_scopes code scopes lines'.
Proof.
  intros code scopes lines lines' H. unfold filter_nocl_scopes. apply filter_ext. intros s.
  f_equal. destruct (existsb _ lines) eqn:E1, (existsb _ lines') eqn:E2; try reflexivity.
  - apply existsb_Zeqb_In, H, existsb_Zeqb_In in E1. congruence.
  - apply existsb_Zeqb_In, H, existsb_Zeqb_In in E2. congruence.
Qed.

(* a line carries a marker iff some comment token of marker shape is located on it *)
Lemma nocl_lines_In : forall toks z,
  In z (map t_line (filter_nocl_comment_tokens toks)) <->
  exists t, In t toks /\ is_nocl_token t = true /\ t_line t = z.
Proof.
  intros toks z. unfold filter_nocl_comment_tokens. rewrite in_map_iff. split.
  - intros (t & E & Ht). apply filter_In in Ht. exists t. tauto.
  - intros (t & Ht & Hn & E). exists t. split; [exact E|]. apply filter_In. tauto.
Qed.

(* ---------- B: build_scopes ---------- *)
Definition candidates (l : language) (toks : list token) (headers : list header) (blocks : list range)
  : list scope0 := build_scopes_from (filter_tokens false toks) headers blocks.
Definition marker_lines (toks : list token) : list Z := map t_line (filter_nocl_comment_tokens toks).

Theorem C17_omitted_iff : forall l toks headers blocks,
  lang_nested l = true ->
  let code := filter_tokens false toks in
  extract_headers l code = OK headers ->
  extract_blocks l code headers = OK blocks ->
  exists scs, build_scopes l toks = OK scs /\
    map fst scs = filter_nocl_scopes code (build_scopes_from code headers blocks)
                    (map t_line (filter_nocl_comment_tokens toks)).
Proof.
  intros l toks headers blocks Hn code Hh Hb. unfold build_scopes. fold code.
  rewrite Hh, Hb, Hn. eexists. split; [reflexivity|]. apply unfold_fold_fst.
Qed.

(* languages without nested functions (C): the same, followed by dropping the
   scopes contained in the previously kept one *)
Theorem C17_omitted_iff_flat : forall l toks headers blocks,
  lang_nested l = false ->
  let code := filter_tokens false toks in
  extract_headers l code = OK headers ->
  extract_blocks l code headers = OK blocks ->
  exists scs, build_scopes l toks = OK scs /\
    map fst scs = filter_scopes_nested_functions
                    (filter_nocl_scopes code (build_scopes_from code headers blocks)
                       (map t_line (filter_nocl_comment_tokens toks))) /\
    Forall (fun p => snd p = []) scs.
Proof.
  intros l toks headers blocks Hn code Hh Hb. unfold build_scopes. fold code.
  rewrite Hh, Hb, Hn. eexists. split; [reflexivity|]. split.
  - rewrite map_map. cbn [fst]. apply map_id.
  - apply Forall_forall. intros p Hp. apply in_map_iff in Hp. destruct Hp as (s & <- & _). reflexivity.
Qed.

(* element-wise reading: a candidate function is reported iff no marker comment
   sits on the line of its name *)
Corollary C17_reported_iff : forall l toks headers blocks scs s,
  lang_nested l = true ->
  let code := filter_tokens false toks in
  extract_headers l code = OK headers ->
  extract_blocks l code headers = OK blocks ->
  build_scopes l toks = OK scs ->
  (In s (map fst scs) <->
   In s (build_scopes_from code headers blocks) /\
   ~ exists t, In t toks /\ is_nocl_token t = true /\ t_line t = tok_line code (h_name (s_header s))).
Proof.
  intros l toks headers blocks scs s Hn code Hh Hb Hs.
  destruct (C17_omitted_iff l toks headers blocks Hn Hh Hb) as (scs' & E & Hm).
  rewrite Hs in E. inversion E; subst scs'. fold code in Hm. rewrite Hm.
  rewrite C17_filter_nocl_In, nocl_lines_In. reflexivity.
Qed.

(* when headers or blocks cannot be extracted, the error is passed on unchanged *)
Lemma build_scopes_err_headers : forall l toks k,
  extract_headers l (filter_tokens false toks) = Err k -> build_scopes l toks = Err k.
Proof. intros l toks k H. unfold build_scopes. rewrite H. reflexivity. Qed.
Lemma build_scopes_err_blocks : forall l toks headers k,
  extract_headers l (filter_tokens false toks) = OK headers ->
  extract_blocks l (filter_tokens false toks) headers = Err k -> build_scopes l toks = Err k.
Proof. intros l toks headers k H1 H2. unfold build_scopes. rewrite H1, H2. reflexivity. Qed.
