(* DistinctStartProofs.v — soundness of the certificate of DistinctStart.v: if
   [distinct_start_check e1 e2 = true] then no token list has a position from
   which the greedy runs of both patterns succeed. *)
From Verif Require Import Base Regex Nfa Dfa Token TokEngine Unamb UnambProofs Scan DistinctStart.
Open Scope Z_scope.

Notation greedy_run_tk := (greedy_run tpred_eqb taccept_st).
Notation greedy_tk := (greedy tpred_eqb taccept_st).

(* ====================================================================== *)
(* 1. membership                                                           *)
(* ====================================================================== *)

Lemma pconfig_mem_In : forall c S, pconfig_mem c S = true <-> In c S.
Proof.
  intros [c1 c2] S. unfold pconfig_mem. rewrite existsb_exists. split.
  - intros [[d1 d2] [Hin He]]. unfold pconfig_eqb in He. cbn [fst snd] in He.
    apply andb_true_iff in He. destruct He as [H1 H2].
    apply config_eqb_eq in H1. apply config_eqb_eq in H2. subst. assumption.
  - intro H. exists (c1, c2). split; auto. unfold pconfig_eqb. cbn [fst snd].
    rewrite !config_eqb_refl. reflexivity.
Qed.

(* ====================================================================== *)
(* 2. one concrete step is one of the abstract steps, for any superset of   *)
(*    the automaton's literals (HasNameProofs.consume_abs, generalised)     *)
(* ====================================================================== *)

Theorem consume_abs_lits : forall a lits pt c x,
  incl (heap_lits (a_heap a)) lits ->
  related a pt c ->
  match abs_consume a (bal_preds (a_heap a)) c (rep lits x) with
  | ADead => consume_tk a pt x = OK None
  | ASucc l => exists pt' c', consume_tk a pt x = OK (Some pt') /\ related a pt' c' /\ In c' l
  | AAmbiguous | AError => True
  end.
Proof.
  intros a lits pt c x Hincl Hrel.
  pose proof (related_classes _ _ _ Hrel) as Hcls.
  destruct Hrel as (Hst & Hlen & Hnth & Hz).
  destruct c as [T cls]. cbn [fst snd] in *. subst T cls.
  unfold abs_consume. cbn [fst snd].
  rewrite consume_unfold. cbv zeta.
  set (h := a_heap a) in *. set (bal := bal_preds h) in *.
  set (ds := p_depths pt) in *.
  set (trans := dtrans tpred_eqb h (p_state pt)) in *.
  assert (Htr : forall p, In p trans -> In p (heap_preds h))
    by (intros p Hp; eapply dtrans_heap_preds; exact Hp).
  assert (Hlit : forall p, In p (heap_preds h) -> incl (lits_pred p) lits)
    by (intros p Hp; eapply incl_tran; [apply heap_preds_lits; exact Hp | exact Hincl]).
  assert (Hcl : forall p, In p trans ->
            cls_of bal (classes_of ds bal) p = class_of (depth_of tpred_eqb ds p))
    by (intros p Hp; apply cls_of_related; auto).
  assert (Hopen : filter (fun p => dclass_eqb (cls_of bal (classes_of ds bal) p) DPos) trans
                  = filter (fun p => 0 <? depth_of tpred_eqb ds p) trans).
  { apply filter_ext_in. intros p Hp. rewrite Hcl by assumption. apply class_of_pos. }
  rewrite Hopen. clear Hopen.
  pose proof (cands_sub (fun p => 0 <? depth_of tpred_eqb ds p) trans) as Hsub.
  pose proof (cands_NoDup (fun p => 0 <? depth_of tpred_eqb ds p) trans (dtrans_NoDup _ _)) as Hnd.
  set (cands := match filter (fun p => 0 <? depth_of tpred_eqb ds p) trans with
                | [] => trans | _ => filter (fun p => 0 <? depth_of tpred_eqb ds p) trans end) in *.
  assert (Hacc : filter (fun p => abs_accept p (cls_of bal (classes_of ds bal) p) (rep lits x)) cands
                 = filter (fun p => fst (taccept_st p (depth_of tpred_eqb ds p) x)) cands).
  { apply filter_ext_in. intros p Hp. rewrite Hcl by auto. symmetry.
    apply abs_accept_sound. apply Hlit. auto. }
  rewrite Hacc. clear Hacc.
  rewrite (fold_cstep x ds cands ds None Hnd (fun _ _ => eq_refl)).
  destruct (filter (fun p => fst (taccept_st p (depth_of tpred_eqb ds p) x)) cands) as [|p [|p2 l]] eqn:EF.
  - reflexivity.
  - destruct (closure h (move tpred_eqb h (p_state pt) p)) as [T'|k] eqn:EC; [|exact I].
    set (ds' := upd_depths x cands ds).
    exists (mkPat (p_start pt) T' ds' (Datatypes.S (p_len pt))), (T', classes_of ds' bal).
    split; [reflexivity|]. split.
    + apply (related_intro a (mkPat (p_start pt) T' ds' (Datatypes.S (p_len pt)))).
      * reflexivity.
      * intros q Hq. cbn [p_depths]. unfold ds'. rewrite upd_depths_spec by assumption.
        destruct (pmem tpred_eqb q cands).
        -- rewrite taccept_st_stateless by assumption. apply Hz. assumption.
        -- apply Hz. assumption.
    + apply (in_map (fun cls' => (T', cls'))).
      apply update_classes_sound. intros b Hb.
      unfold ds'. rewrite upd_depths_spec by assumption.
      destruct (pmem tpred_eqb b cands); [|reflexivity].
      apply abs_classes_sound. apply Hlit.
      apply bal_preds_In in Hb. tauto.
  - exact I.
Qed.

(* ====================================================================== *)
(* 3. the product invariant                                                *)
(* ====================================================================== *)

Section Product.
  Variables (a1 a2 : automaton tpred) (S : list pconfig).
  Hypothesis Hinv : prod_inv_check a1 a2 S = true.

  Definition pcovered (pt1 pt2 : pat tpred) : Prop :=
    exists c1 c2, related a1 pt1 c1 /\ related a2 pt2 c2 /\ In (c1, c2) S.

  Lemma prod_start i : pcovered (new_pat a1 i) (new_pat a2 i).
  Proof.
    unfold prod_inv_check in Hinv. apply andb_true_iff in Hinv. destruct Hinv as [H _].
    apply pconfig_mem_In in H.
    exists (start_config a1 (bal_preds (a_heap a1))), (start_config a2 (bal_preds (a_heap a2))).
    split; [apply start_related|]. split; [apply start_related | exact H].
  Qed.

  Lemma prod_not_accepting pt1 pt2 : pcovered pt1 pt2 ->
    is_accepting a1 pt1 = false /\ is_accepting a2 pt2 = false.
  Proof.
    intros (c1 & c2 & Hr1 & Hr2 & Hin). unfold prod_inv_check in Hinv.
    apply andb_true_iff in Hinv. destruct Hinv as [_ H]. rewrite forallb_forall in H.
    specialize (H _ Hin). apply andb_true_iff in H. destruct H as [H _].
    apply andb_true_iff in H. destruct H as [H1 H2]. cbn [fst snd] in H1, H2.
    destruct Hr1 as (Hst1 & _). destruct Hr2 as (Hst2 & _). unfold is_accepting.
    rewrite Hst1, Hst2. apply negb_true_iff in H1. apply negb_true_iff in H2. auto.
  Qed.

  Lemma prod_step pt1 pt2 x pt1' pt2' : pcovered pt1 pt2 ->
    consume_tk a1 pt1 x = OK (Some pt1') -> consume_tk a2 pt2 x = OK (Some pt2') ->
    pcovered pt1' pt2'.
  Proof.
    intros (c1 & c2 & Hr1 & Hr2 & Hin) E1 E2. unfold prod_inv_check in Hinv.
    apply andb_true_iff in Hinv. destruct Hinv as [_ H]. rewrite forallb_forall in H.
    specialize (H _ Hin). apply andb_true_iff in H. destruct H as [_ H].
    rewrite forallb_forall in H.
    set (lits := heap_lits (a_heap a1) ++ heap_lits (a_heap a2)) in *.
    specialize (H _ (rep_in_abs_tokens lits x)). cbn [fst snd] in H.
    pose proof (consume_abs_lits a1 lits pt1 c1 x (incl_appl _ (incl_refl _)) Hr1) as K1.
    pose proof (consume_abs_lits a2 lits pt2 c2 x (incl_appr _ (incl_refl _)) Hr2) as K2.
    destruct (abs_consume a1 (bal_preds (a_heap a1)) c1 (rep lits x)) as [| |l1|];
      destruct (abs_consume a2 (bal_preds (a_heap a2)) c2 (rep lits x)) as [| |l2|];
      try discriminate H; try (rewrite K1 in E1; discriminate E1); try (rewrite K2 in E2; discriminate E2).
    destruct K1 as (q1 & d1 & F1 & Hq1 & Hd1). destruct K2 as (q2 & d2 & F2 & Hq2 & Hd2).
    rewrite F1 in E1. rewrite F2 in E2. inversion E1; subst q1. inversion E2; subst q2.
    rewrite forallb_forall in H. specialize (H (d1, d2) (in_prod _ _ _ _ Hd1 Hd2)).
    apply pconfig_mem_In in H. exists d1, d2. auto.
  Qed.

  Theorem greedy_run_distinct : forall w pt1 pt2 n1 n2, pcovered pt1 pt2 ->
    greedy_run_tk a1 pt1 w = OK (Some n1) -> greedy_run_tk a2 pt2 w = OK (Some n2) -> False.
  Proof.
    induction w as [|x w IH]; intros pt1 pt2 n1 n2 Hc H1 H2; cbn [greedy_run] in H1, H2;
      destruct (prod_not_accepting pt1 pt2 Hc) as [Hn1 Hn2].
    - rewrite Hn1 in H1. discriminate.
    - fold (consume_tk a1 pt1 x) in H1. fold (consume_tk a2 pt2 x) in H2.
      destruct (consume_tk a1 pt1 x) as [[pt1'|]|k] eqn:E1; try discriminate;
        [|rewrite Hn1 in H1; discriminate].
      destruct (consume_tk a2 pt2 x) as [[pt2'|]|k] eqn:E2; try discriminate;
        [|rewrite Hn2 in H2; discriminate].
      eapply IH; [eapply prod_step; eassumption | exact H1 | exact H2].
  Qed.

  Theorem greedy_distinct : forall w s t1 t2,
    greedy_tk a1 w s = OK (Some t1) -> greedy_tk a2 w s = OK (Some t2) -> False.
  Proof.
    intros w s t1 t2 H1 H2. unfold greedy in H1, H2.
    destruct (greedy_run_tk a1 (new_pat a1 s) (skipn s w)) as [[n1|]|k] eqn:E1; try discriminate.
    destruct (greedy_run_tk a2 (new_pat a2 s) (skipn s w)) as [[n2|]|k] eqn:E2; try discriminate.
    eapply greedy_run_distinct; [apply (prod_start s) | exact E1 | exact E2].
  Qed.
End Product.

Theorem distinct_start_check_sound : forall e1 e2 a1 a2,
  distinct_start_check e1 e2 = true -> to_dfa e1 = OK a1 -> to_dfa e2 = OK a2 ->
  forall w s t1 t2, greedy_tk a1 w s = OK (Some t1) -> greedy_tk a2 w s = OK (Some t2) -> False.
Proof.
  intros e1 e2 a1 a2 H Ha1 Ha2. unfold distinct_start_check in H. rewrite Ha1, Ha2 in H.
  eapply greedy_distinct. exact H.
Qed.

Print Assumptions consume_abs_lits.
Print Assumptions distinct_start_check_sound.
