(* C19 — summary percentages and verdict are sane.  Statements only; proofs in
   Agg/Percent.v about Gen/GenPercent.v (re-translated from
   Report.quality_profile_percentage, SummaryTable and both print_summary
   functions on every run; `/` and 0.001 read as exact rationals). *)
From Verif Require Import Base GenPercent Percent.
Open Scope Z_scope.

(* shown p = (easy-or-verbose %, hard-to-maintain %, unmaintainable %) *)
Theorem C19_range : forall p0 p1 p2 p3, 0 <= p0 -> 0 <= p1 -> 0 <= p2 -> 0 <= p3 ->
  let '(ev, h, u) := shown [p0; p1; p2; p3] in
  0 <= ev <= 100 /\ 0 <= h <= 100 /\ 0 <= u <= 100 /\ ev + h + u = 100.
Proof. exact shown_range. Qed.

Theorem C19_accuracy : forall p0 p1 p2 p3, 0 <= p0 -> 0 <= p1 -> 0 <= p2 -> 0 <= p3 ->
  0 < p0 + p1 + p2 + p3 ->
  let total := p0 + p1 + p2 + p3 in
  let '(ev, h, u) := shown [p0; p1; p2; p3] in
  - 2 * total < 100 * (p0 + p1) - ev * total < 2 * total /\
  - 2 * total < 100 * p2 - h * total < 2 * total /\
  - 2 * total < 100 * p3 - u * total < 2 * total.
Proof. intros p0 p1 p2 p3 H0 H1 H2 H3 Ht. exact (shown_accuracy p0 p1 p2 p3 H0 H1 H2 H3 Ht). Qed.

Theorem C19_never_hidden : forall p0 p1 p2 p3, 0 <= p0 -> 0 <= p1 -> 0 <= p2 -> 0 <= p3 ->
  0 < p0 + p1 + p2 + p3 ->
  let total := p0 + p1 + p2 + p3 in
  let '(ev, h, u) := shown [p0; p1; p2; p3] in
  (100000 * p2 > total -> 0 < h) /\ (100000 * p3 > total -> 0 < u).
Proof. intros p0 p1 p2 p3 H0 H1 H2 H3 Ht. exact (shown_never_hidden p0 p1 p2 p3 H0 H1 H2 H3 Ht). Qed.

Theorem C19_empty : forall p0 p1 p2 p3, p0 + p1 + p2 + p3 = 0 -> shown [p0; p1; p2; p3] = (100, 0, 0).
Proof. exact shown_empty. Qed.

(* verdict, identically in the text summary, the Markdown summary and the table styles *)
Theorem C19_verdict : forall p, let '(_, h, u) := shown p in
  refactor_text p = ((0 <? u) || (20 <? h)) /\ refactor_md p = ((0 <? u) || (20 <? h)) /\
  summary_red u h = (0 <? u) /\ summary_orange u h = (20 <? h) /\
  (summary_green u h = true -> (0 <? u) || (20 <? h) = false).
Proof. exact verdict_spec. Qed.

Print Assumptions C19_range.
Print Assumptions C19_accuracy.
Print Assumptions C19_never_hidden.
Print Assumptions C19_empty.
Print Assumptions C19_verdict.

Example C19_examples :
  shown [0; 0; 99; 101] = (0, 50, 50) /\ shown [0; 0; 1; 5] = (0, 17, 83) /\
  shown [100000; 0; 1; 0] = (100, 0, 0) /\ shown [100000; 0; 2; 0] = (99, 1, 0) /\ shown [1; 1; 1; 1] = (50, 25, 25).
Proof. vm_compute. repeat split. Qed.
