(* Fold.v — Scope.contains, fold_scopes / unfold_scopes (stack-based, GD9
   repair), filter_scopes_nested_functions, _filter_nocl_scopes, count_lines. *)
From Verif Require Import Base Token Headers Blocks Pairing.
Open Scope Z_scope.

(* Scope.contains (with >= on the block end, GD10 repair) *)
Definition s_contains (a b : scope0) : bool :=
  Nat.ltb (h_start (s_header a)) (h_start (s_header b)) && Nat.leb (snd (s_block b)) (snd (s_block a)).

Inductive stree := Node (s : scope0) (cs : list stree).
Definition frame : Type := scope0 * list stree.      (* open scope, its children so far (reversed) *)

(* pop the ancestors that do not contain sc; `extra` = node completed by the previous pop *)
Fixpoint pop_until (frames : list frame) (extra : list stree) (sc : scope0) (roots : list stree)
  : list frame * list stree :=
  match frames with
  | [] => ([], roots ++ extra)
  | (s, cs) :: rest =>
      let cs' := rev extra ++ cs in
      if s_contains s sc then ((s, cs') :: rest, roots)
      else pop_until rest [Node s (rev cs')] sc roots
  end.
Fixpoint flush (frames : list frame) (extra : list stree) (roots : list stree) : list stree :=
  match frames with
  | [] => roots ++ extra
  | (s, cs) :: rest => flush rest [Node s (rev (rev extra ++ cs))] roots
  end.
Fixpoint fold_loop (scopes : list scope0) (frames : list frame) (roots : list stree) : list stree :=
  match scopes with
  | [] => flush frames [] roots
  | sc :: r =>
      let '(frames', roots') := pop_until frames [] sc roots in
      fold_loop r ((sc, []) :: frames') roots'
  end.
Definition fold_scopes (scopes : list scope0) : list stree := fold_loop scopes [] [].

(* unfold_scopes: pre-order; each scope with its direct children *)
Fixpoint unfold_tree (t : stree) : list (scope0 * list scope0) :=
  match t with
  | Node s cs =>
      (s, map (fun c => match c with Node s' _ => s' end) cs)
        :: (fix go (l : list stree) : list (scope0 * list scope0) :=
              match l with [] => [] | c :: r => unfold_tree c ++ go r end) cs
  end.
Definition unfold_scopes (ts : list stree) : list (scope0 * list scope0) := flat_map unfold_tree ts.

(* C: drop every scope contained in the last kept one *)
Fixpoint filter_nested_loop (scopes : list scope0) (last : option scope0) : list scope0 :=
  match scopes with
  | [] => []
  | sc :: r =>
      match last with
      | None => sc :: filter_nested_loop r (Some sc)
      | Some l => if s_contains l sc then filter_nested_loop r last else sc :: filter_nested_loop r (Some sc)
      end
  end.
Definition filter_scopes_nested_functions (scopes : list scope0) : list scope0 := filter_nested_loop scopes None.

Definition filter_nocl_scopes (ts : list token) (scopes : list scope0) (nocl_lines : list Z) : list scope0 :=
  filter (fun s => negb (existsb (Z.eqb (tok_line ts (h_name (s_header s)))) nocl_lines)) scopes.

(* _scope_tokens / count_lines *)
Fixpoint drop_passed (idx : nat) (rs : list range) : list range :=
  match rs with
  | r :: rest => if Nat.leb (snd r) idx then drop_passed idx rest else rs
  | [] => []
  end.
Fixpoint scope_token_indices (idxs : list nat) (rs : list range) : list nat :=
  match idxs with
  | [] => []
  | i :: r =>
      let rs' := drop_passed i rs in
      match rs' with
      | [] => i :: scope_token_indices r rs'
      | c :: _ => if Nat.ltb i (fst c) then i :: scope_token_indices r rs' else scope_token_indices r rs'
      end
  end.
Fixpoint dedupZ (l : list Z) : list Z :=
  match l with [] => [] | x :: r => if existsb (Z.eqb x) r then dedupZ r else x :: dedupZ r end.
Definition child_range (c : scope0) : range := (h_start (s_header c), snd (s_block c)).
Definition own_token_indices (ts : list token) (s : scope0) (children : list scope0) : list nat :=
  let rs := sort_ranges ts (map child_range children) in
  let a := h_start (s_header s) in
  scope_token_indices (seq a (snd (s_block s) - a)) rs.
Definition count_lines (ts : list token) (s : scope0) (children : list scope0) : Z :=
  Z.of_nat (length (dedupZ (map (tok_line ts) (own_token_indices ts s children)))).
