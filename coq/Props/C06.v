(* C06 — analysis is deterministic, order-independent and isolated per file.
   What a theorem can carry: every model function is a pure Gallina function of the
   language and the token stream (determinism and isolation hold by construction: no
   state survives an analysis; the matcher works on sorted, duplicate-free state sets
   and `consume` tries every transition, so no Python set-iteration order can show),
   and the aggregation is invariant under the order in which files are analysed
   (below).  CPython's hashing and os.walk order are exercised by the harness. *)
From Verif Require Import Base GenThresholds Thresholds Codebase CodebaseProofsStr CodebaseProofs PermProofs
  Token Lex Headers ScanFile.
From Coq Require Import Permutation.

(* two scans that analyse the same files in different orders: same files, same totals, same folder
   keys, same folder profiles, folder entries equal up to order *)
Theorem C06_report_order : forall root es es' cb cb',
  Permutation es es' -> Forall wf_path (map e_path es) -> NoDup (map e_path es) -> Forall mk_built es ->
  build root es = OK cb -> build root es' = OK cb' ->
  Permutation (cb_files cb) (cb_files cb') /\
  (forall lang, dget (cb_totals cb) lang = dget (cb_totals cb') lang) /\
  (forall k, In k (map fst (cb_tree cb)) <-> In k (map fst (cb_tree cb'))) /\
  (forall k fo fo', In (k, fo) (cb_tree cb) -> In (k, fo') (cb_tree cb') ->
     fo_profile fo = fo_profile fo' /\ Permutation (fo_entries fo) (fo_entries fo')).
Proof. exact C06_order_irrelevant. Qed.

(* the measurements of a file are a function of its language and tokens alone *)
Theorem C06_function_of_content : forall l toks toks', toks = toks' -> scan_file l toks = scan_file l toks'.
Proof. intros l toks toks' ->. reflexivity. Qed.

Print Assumptions C06_report_order.
Print Assumptions C06_function_of_content.
